//go:build verif

package dhcpd

// C10 — DHCPv4 never leases one address to two clients; the lease table
// survives a restart.
//
// One case is a seeded history of DHCP messages (DISCOVER, REQUEST in its
// three forms, DECLINE, RELEASE), static-lease operations, clock advances and
// restarts against the real server object returned by Create (no Start, no
// sockets): messages enter through (*v4Server).packetHandler with a fake
// net.PacketConn, static leases through the DHCPServer methods the HTTP API
// calls, the database is the real leases.json in DataDir and a restart is a
// second Create on the same directory.  Time is virtual (testing/synctest).
//
// A shadow model is stepped in lock-step from what crosses the boundary only
// (reply packets, results of static operations); see /verif/docs/notes/C10.md
// for the oracle and its unspecified zones.

import (
	"bytes"
	"encoding/json"
	"fmt"
	"math/rand"
	"net"
	"net/http"
	"net/http/httptest"
	"net/netip"
	"os"
	"path/filepath"
	"runtime/debug"
	"sort"
	"strings"
	"testing"
	"testing/synctest"
	"time"

	"github.com/AdguardTeam/AdGuardHome/internal/aghnet"
	"github.com/AdguardTeam/AdGuardHome/internal/dhcpsvc"
	"github.com/AdguardTeam/AdGuardHome/internal/verifkit"
	"github.com/insomniacslk/dhcp/dhcpv4"
)

// c10Cfg is the configuration of one history.
type c10Cfg struct {
	Net       int      `json:"net"`
	PoolStart int      `json:"pool_start"`
	PoolSize  int      `json:"pool_size"`
	LeaseS    int      `json:"lease_s"`
	Macs      int      `json:"macs"`
	Steps     int      `json:"steps"`
	Hosts     []string `json:"hostnames"`
	// Gateway is the position of the gateway relative to the pool: "below"
	// (.1, the usual case), "range-start", "range-end", "inside",
	// "just-above", "pool-at-network-address", "pool-at-broadcast-address".
	Gateway string `json:"gateway_position"`
	// Zone is the local time zone of the process during the history ("" = the
	// host's): "fixed:<seconds east>" or an IANA name.
	Zone string `json:"local_time_zone,omitempty"`
}

// c10Zones are the local zones a quarter of the histories run in: fixed
// offsets and real zones west and east of Greenwich, half-hour offsets
// included.
var c10Zones = []string{"fixed:-18000", "fixed:32400", "fixed:19800", "fixed:-12600", "fixed:-39600",
	"America/Los_Angeles", "Asia/Kolkata", "America/St_Johns", "Australia/Lord_Howe", "Pacific/Kiritimati",
	"America/Sao_Paulo", "Europe/Berlin"}

// c10LoadZone resolves a zone of c10Zones; real zones that the host lacks fall
// back to a fixed offset.
func c10LoadZone(name string) (loc *time.Location, east bool) {
	if sec, ok := strings.CutPrefix(name, "fixed:"); ok {
		n := 0
		_, _ = fmt.Sscanf(sec, "%d", &n)

		return time.FixedZone(fmt.Sprintf("F%+d", n), n), n > 0
	}
	loc, err := time.LoadLocation(name)
	if err != nil {
		return time.FixedZone("fallback", -7*3600), false
	}
	_, off := time.Date(2000, 1, 1, 0, 0, 0, 0, time.UTC).In(loc).Zone()

	return loc, off > 0
}

// c10GwPositions are the gateway positions of the edge histories.
var c10GwPositions = []string{"range-start", "range-end", "inside", "just-above",
	"pool-at-network-address", "pool-at-broadcast-address"}

// c10Scripted is a step that is not drawn.
type c10Scripted struct {
	kind string
	mac  int
}

// c10Step is one step of a history together with what was observed.
type c10Step struct {
	N    int    `json:"n"`
	T    int64  `json:"t_s"`
	Kind string `json:"kind"`
	Var  string `json:"variant,omitempty"`
	Mac  string `json:"mac,omitempty"`
	IP   string `json:"ip,omitempty"`
	Host string `json:"host,omitempty"`
	SID  string `json:"server_id,omitempty"`
	Adv  int    `json:"advance_s,omitempty"`
	// ReqLease is the lease time (option 51) the client asks for, if any;
	// Told is the one the reply announced.
	ReqLease string `json:"requested_lease_time,omitempty"`
	Told     string `json:"lease_time_in_reply,omitempty"`
	Via      string `json:"via,omitempty"`
	Reply    string `json:"observed,omitempty"`
	YI       string `json:"yiaddr,omitempty"`
}

type c10Resv struct {
	ip   netip.Addr
	host string
}

type c10Ack struct {
	ip  netip.Addr
	exp time.Time
}

// c10Conn is the fake packet connection that receives the server's reply.
type c10Conn struct {
	net.PacketConn
	last []byte
	n    int
}

func (c *c10Conn) WriteTo(p []byte, _ net.Addr) (n int, err error) {
	c.last = append([]byte(nil), p...)
	c.n++

	return len(p), nil
}

type c10Hist struct {
	rep *verifkit.Report
	rng *rand.Rand
	cfg c10Cfg
	dir string

	srv *server
	v4  *v4Server

	t0       time.Time
	gw, self netip.Addr
	foreign  netip.Addr
	otherSID netip.Addr
	pool     []netip.Addr
	poolSet  map[netip.Addr]bool
	outIPs   []netip.Addr
	allIPs   []netip.Addr
	macs     []net.HardwareAddr
	xid      uint32

	// Shadow model, from the boundary only.
	reserved map[string]c10Resv
	acked    map[string]c10Ack
	offer    map[string]netip.Addr

	trace []c10Step
	cur   *c10Step
	// lastLease is the lease time of the last reply.
	lastLease time.Duration
	stop      bool

	nAck, nExhaust, nRestart, nStaticOK, nStaticRej, nExpired, nReclaim int

	// rng2 drives what was added to the generator later (requested lease
	// times, HTTP administration), so that the older draws stay as they were.
	rng2 *rand.Rand
	// handlers are the HTTP handlers each created server registered.
	handlers map[*server]map[string]http.HandlerFunc
	cwd      string
	nHTTP    int

	// script holds the steps to run before drawn ones; cfgRejected is set when
	// Create refused an edge configuration.
	script      []c10Scripted
	cfgRejected bool
	nRestartBad int
	nOfferOnly  int
}

const (
	c10Discover = "discover"
	c10Select   = "request-selecting"
	c10Reboot   = "request-init-reboot"
	c10Renew    = "request-renew"
	c10Decline  = "decline"
	c10Release  = "release"
	c10StAdd    = "static-add"
	c10StUpd    = "static-update"
	c10StRm     = "static-remove"
	c10Advance  = "advance"
	c10Restart  = "restart"
	// c10RestartBad is a restart during which leases.json cannot be read.
	c10RestartBad = "restart-unreadable-db"
	// Administration through the registered HTTP handlers.
	c10HTTPStatus      = "http-status"
	c10HTTPResetLeases = "http-reset-leases"
	c10HTTPSetConfig   = "http-set-config"
	c10HTTPReset       = "http-reset-then-set-config"
)

var c10HostPool = []string{"alpha", "beta", "Alpha", "my host", "gamma", "my_host", "printer", "BETA"}

var c10WeirdHosts = []string{"a..b", "!!!", "-lead", "trail-", strings.Repeat("x", 70), "ünï", "a b.c"}

func c10Scratch() string {
	for _, d := range []string{os.Getenv("VERIF_SCRATCH"), "/dev/shm", os.TempDir()} {
		if d == "" {
			continue
		}
		if st, err := os.Stat(d); err == nil && st.IsDir() {
			return d
		}
	}

	return "."
}

func TestVerifC10(t *testing.T) {
	rep := verifkit.New("C10", "history",
		"case = one seeded history (pool of 2-6 addresses, gateway below the pool or - in extra histories that first lease until the pool is exhausted - at range start, at range end, inside, just above the pool, or with the pool at the network or broadcast address; 3-8 hardware addresses, 20-120 steps: DISCOVER / REQUEST selecting, init-reboot, renew / DECLINE / RELEASE with right and wrong addresses and server ids, static add/update/remove inside and outside the pool, clock advances around the lease time, restarts; a quarter of the histories run with the local time zone of the process set to fixed offsets or real zones west and east of Greenwich; a third of DISCOVER/REQUEST carry a requested lease time (option 51); 5 % of the steps and 40 % of the static operations go through the HTTP handlers the server registered: status, reset_leases, set_config, reset followed by set_config, add/update/remove static lease) run against the real server from Create with the real leases.json; invariants over Leases(), reply packets, the database file and a reload are checked after every step; non-trivial = at least one ACK and at least one of {pool exhaustion refusal, accepted static operation, restart with entries in the database}; distinct by (configuration, step sequence)")
	defer func() {
		if err := rep.Write(); err != nil {
			t.Fatal(err)
		}
	}()
	rep.Assume("an address that was only offered (never acknowledged) is neither leased nor reserved: it counts as free for the DISCOVER of a new client")
	rep.Assume("virtual clock moves in whole seconds, so RFC 3339 expiry strings in leases.json are exact")

	base, err := os.MkdirTemp(c10Scratch(), "verif-c10-")
	if err != nil {
		rep.Inconcl("cannot create scratch directory: " + err.Error())

		return
	}
	defer func() { _ = os.RemoveAll(base) }()

	// The process works in an empty directory of its own, so that a lease
	// database written to a relative path is seen (and does not land in the
	// source tree).
	cwd := filepath.Join(base, "cwd")
	if old, werr := os.Getwd(); werr == nil && os.Mkdir(cwd, 0o755) == nil && os.Chdir(cwd) == nil {
		defer func() { _ = os.Chdir(old) }()
	} else {
		cwd = ""
		rep.Inconcl("cannot change into a scratch working directory")
	}

	gen := rep.Rand("main")
	edge := rep.Rand("gateway-positions")
	n := verifkit.Pick(800, 20000)
	// Histories with the gateway at, inside or next to the pool, and with the
	// pool at the ends of the network, follow the ordinary ones.
	nEdge := verifkit.Pick(20, 400) * len(c10GwPositions)
	for i := 0; i < n+nEdge; i++ {
		var h *c10Hist
		if i < n {
			h = c10NewHist(rep, rand.New(rand.NewSource(gen.Int63())), filepath.Join(base, fmt.Sprintf("h%d", i)))
		} else {
			h = c10NewEdgeHist(rep, rand.New(rand.NewSource(edge.Int63())), filepath.Join(base, fmt.Sprintf("h%d", i)),
				c10GwPositions[(i-n)%len(c10GwPositions)])
		}
		h.cwd = cwd
		// Histories run one after the other, so the process's local zone can
		// be switched around each of them: it is set before the first server
		// is created and restored after the last one is gone.
		func() {
			if h.cfg.Zone == "" {
				rep.Class("zone:host")
				synctest.Run(h.run)

				return
			}
			loc, east := c10LoadZone(h.cfg.Zone)
			old := time.Local
			time.Local = loc
			defer func() { time.Local = old }()
			rep.Class("zone:" + h.cfg.Zone)
			if east {
				rep.Class("zone_east_of_greenwich")
			} else {
				rep.Class("zone_west_of_greenwich")
			}
			synctest.Run(h.run)
			if h.nRestart > 0 {
				rep.Event("restarts_in_a_local_zone_other_than_utc")
			}
		}()
		_ = os.RemoveAll(h.dir)

		var kinds []string
		for _, s := range h.trace {
			kinds = append(kinds, s.Kind+"/"+s.Var+"/"+s.Mac+"/"+s.IP+"/"+s.Host)
		}
		nontrivial := h.nAck > 0 && (h.nExhaust > 0 || h.nStaticOK > 0 || h.nRestart > 0)
		rep.Eval(nontrivial, verifkit.JSON(h.cfg)+"|"+strings.Join(kinds, ","))
		rep.Class(fmt.Sprintf("pool=%d", h.cfg.PoolSize))
		rep.Class(fmt.Sprintf("macs=%d", h.cfg.Macs))
		if h.nExhaust > 0 {
			rep.Class("histories_with_pool_exhaustion")
			if h.cfg.Gateway != "below" && !h.cfgRejected {
				rep.Class("config:gateway-" + h.cfg.Gateway + ":accepted:pool-exhausted")
			}
		}
		if h.nExpired > 0 {
			rep.Class("histories_with_lease_expiry")
		}
		if h.nRestart > 0 {
			rep.Class("histories_with_restart")
		}
		if h.nReclaim > 0 {
			rep.Class("histories_with_reclaimed_address")
		}
		if h.nRestartBad > 0 {
			rep.Class("histories_with_unreadable_db_restart")
		}
		if h.nOfferOnly > 0 {
			rep.Class("histories_with_pool_covered_by_offers_and_leases")
		}
		if i < 2 {
			rep.Sample(map[string]any{"config": h.cfg, "steps": h.trace})
		}
	}

	for _, ev := range []string{"reply:ack", "reply:offer", "discover_refused_pool_exhausted", "restarts",
		"static_op_rejected", "static_op_accepted", "db_entries_crossing_restart", "acked_leases_expired",
		"address_reused_after_expiry_or_release", "restart_unreadable_db_steps",
		"new_client_served_while_only_offered_addresses_were_free",
		"requested_lease_time_shorter_than_configured", "step:" + c10HTTPStatus, "step:" + c10HTTPResetLeases,
		"step:" + c10HTTPSetConfig, "step:" + c10HTTPReset, "http:/control/dhcp/add_static_lease",
		"http:/control/dhcp/remove_static_lease", "http:/control/dhcp/update_static_lease"} {
		if rep.EventCount(ev) == 0 {
			rep.Inconcl("event never observed: " + ev)
		}
	}
	for _, pos := range c10GwPositions {
		k := "config:gateway-" + pos
		if rep.ClassCount(k+":accepted")+rep.ClassCount(k+":rejected") == 0 {
			rep.Inconcl("no history used the gateway position " + pos)
		}
		if acc := rep.ClassCount(k + ":accepted"); acc > 0 && rep.ClassCount(k+":accepted:pool-exhausted") == 0 {
			rep.Inconcl("no history with the accepted gateway position " + pos + " exhausted its pool")
		}
	}
	for _, k := range []string{"zone_east_of_greenwich", "zone_west_of_greenwich"} {
		if rep.ClassCount(k) == 0 {
			rep.Inconcl("no history ran in a local time " + k)
		}
	}
	if rep.EventCount("restarts_in_a_local_zone_other_than_utc") == 0 {
		rep.Inconcl("no history with a restart ran in a local time zone other than UTC")
	}
	if rep.ClassCount("restart-unreadable-db:with-stored-leases") == 0 {
		rep.Inconcl("no restart with an unreadable database happened while leases were stored")
	}
}

func c10NewHist(rep *verifkit.Report, rng *rand.Rand, dir string) *c10Hist {
	h := &c10Hist{rep: rep, rng: rng, dir: dir, poolSet: map[netip.Addr]bool{},
		reserved: map[string]c10Resv{}, acked: map[string]c10Ack{}, offer: map[string]netip.Addr{}}
	c := c10Cfg{
		Net:       1 + rng.Intn(250),
		PoolStart: 10 + rng.Intn(30),
		PoolSize:  2 + rng.Intn(5),
		LeaseS:    []int{60, 120, 300, 600, 3600}[rng.Intn(5)],
		Macs:      3 + rng.Intn(6),
		Steps:     20 + rng.Intn(101),
		Gateway:   "below",
	}
	perm := rng.Perm(len(c10HostPool))
	for _, i := range perm[:3] {
		c.Hosts = append(c.Hosts, c10HostPool[i])
	}
	if rng.Intn(4) == 0 {
		c.Hosts = append(c.Hosts, c10WeirdHosts[rng.Intn(len(c10WeirdHosts))])
	}
	// The zone is derived from the configuration, not drawn, so that the
	// draws of the history stay what they were.
	if (c.Net+c.Steps)%4 == 0 {
		c.Zone = c10Zones[(c.Net*7+c.PoolStart*3+c.Steps+c.Macs)%len(c10Zones)]
	}
	h.cfg = c
	h.rng2 = rand.New(rand.NewSource(int64(c.Net)*1000003 + int64(c.PoolStart)*10007 + int64(c.Steps)*101 + int64(c.LeaseS)*7 + int64(c.Macs)))
	h.handlers = map[*server]map[string]http.HandlerFunc{}

	return h
}

// c10NewEdgeHist makes a history whose gateway sits at pos relative to a small
// pool, and which starts by leasing addresses until the pool is exhausted.
func c10NewEdgeHist(rep *verifkit.Report, rng *rand.Rand, dir, pos string) *c10Hist {
	h := c10NewHist(rep, rng, dir)
	c := &h.cfg
	c.Gateway = pos
	c.PoolSize = 2 + rng.Intn(3)
	if pos == "inside" && c.PoolSize < 3 {
		c.PoolSize = 3
	}
	c.Macs = c.PoolSize + 1 + rng.Intn(3)
	switch pos {
	case "pool-at-network-address":
		c.PoolStart = 0
	case "pool-at-broadcast-address":
		c.PoolStart = 256 - c.PoolSize
	}
	c.Steps = 2*c.Macs + 10 + rng.Intn(40)
	// Every client asks for and takes an address; the last ones find the
	// pool exhausted.
	for m := 0; m < c.Macs; m++ {
		h.script = append(h.script, c10Scripted{c10Discover, m}, c10Scripted{c10Select, m})
	}

	return h
}

func (h *c10Hist) addr(last int) netip.Addr {
	return netip.AddrFrom4([4]byte{192, 168, byte(h.cfg.Net), byte(last)})
}

func (h *c10Hist) curKind() string {
	if h.cur != nil {
		return h.cur.Kind
	}

	return "setup"
}

// create builds a server on the history's directories, the way home does,
// without Start.
func (h *c10Hist) create() (s *server, v4 *v4Server, err error) {
	reg := map[string]http.HandlerFunc{}
	s, err = Create(&ServerConfig{
		ConfigModified: func() {},
		HTTPRegister: func(method, url string, handler http.HandlerFunc) {
			reg[method+" "+url] = handler
		},
		Enabled:       true,
		InterfaceName: "verif0",
		Conf4: V4ServerConf{
			GatewayIP:     h.gw,
			SubnetMask:    netip.AddrFrom4([4]byte{255, 255, 255, 0}),
			RangeStart:    h.pool[0],
			RangeEnd:      h.pool[len(h.pool)-1],
			LeaseDuration: uint32(h.cfg.LeaseS),
			ICMPTimeout:   0,
		},
		WorkDir: filepath.Join(h.dir, "work"),
		DataDir: filepath.Join(h.dir, "data"),
	})
	if err != nil {
		return nil, nil, err
	}
	v4, ok := s.srv4.(*v4Server)
	if !ok {
		return nil, nil, fmt.Errorf("srv4 is %T", s.srv4)
	}
	// What Start does once the interface address is known.
	v4.configureDNSIPAddrs([]net.IP{h.self.AsSlice()})
	h.handlers[s] = reg

	return s, v4, nil
}

// call sends a request to a handler the running server registered.
func (h *c10Hist) call(method, url string, body any) (code int, text string) {
	hd := h.handlers[h.srv][method+" "+url]
	if hd == nil {
		h.rep.Inconcl("handler not registered: " + method + " " + url)
		h.stop = true

		return 0, ""
	}
	var rd *bytes.Reader
	if body != nil {
		b, _ := json.Marshal(body)
		rd = bytes.NewReader(b)
	} else {
		rd = bytes.NewReader(nil)
	}
	r := httptest.NewRequest(method, url, rd)
	w := httptest.NewRecorder()
	hd(w, r)
	h.nHTTP++
	h.rep.Event("http:" + url)

	return w.Code, strings.TrimSpace(w.Body.String())
}

// refetch makes the monitor follow the DHCPv4 server object after the HTTP
// API replaced it, and does what Start does once the interface is known.
func (h *c10Hist) refetch() {
	v4, ok := h.srv.srv4.(*v4Server)
	if !ok {
		h.rep.Inconcl(fmt.Sprintf("srv4 is %T", h.srv.srv4))
		h.stop = true

		return
	}
	if v4 != h.v4 && v4.conf != nil && len(v4.conf.dnsIPAddrs) == 0 {
		v4.configureDNSIPAddrs([]net.IP{h.self.AsSlice()})
	}
	h.v4 = v4
}

// confJSON is the body of set_config for the history's configuration; DHCP
// stays switched off there, since switching it on looks at the host's
// interfaces and opens sockets.
func (h *c10Hist) confJSON() map[string]any {
	return map[string]any{
		"enabled":        false,
		"interface_name": "verif0",
		"v4": map[string]any{
			"gateway_ip":     h.gw.String(),
			"subnet_mask":    "255.255.255.0",
			"range_start":    h.pool[0].String(),
			"range_end":      h.pool[len(h.pool)-1].String(),
			"lease_duration": h.cfg.LeaseS,
		},
	}
}

// adminReset forgets everything in the shadow model: the administrator threw
// the leases away.
func (h *c10Hist) adminReset() {
	now := time.Now()
	for _, a := range h.acked {
		if a.exp.After(now) {
			h.rep.Unspec("administrative reset of the leases while acknowledged leases are running")

			break
		}
	}
	h.reserved, h.acked, h.offer = map[string]c10Resv{}, map[string]c10Ack{}, map[string]netip.Addr{}
}

// httpStep runs one administration step through the HTTP handlers.
func (h *c10Hist) httpStep(kind string) {
	s := h.cur
	s.Kind, s.Via = kind, "http"
	h.rep.Event("step:" + kind)
	switch kind {
	case c10HTTPStatus:
		code, text := h.call(http.MethodGet, "/control/dhcp/status", nil)
		s.Reply = fmt.Sprintf("%d", code)
		var st struct {
			Leases []struct {
				IP string `json:"ip"`
			} `json:"leases"`
			Static []struct {
				IP string `json:"ip"`
			} `json:"static_leases"`
		}
		if code != http.StatusOK || json.Unmarshal([]byte(text), &st) != nil {
			h.viol("http-status-fails", fmt.Sprintf("GET status answered %d %.200s", code, text), nil)

			return
		}
		if n := len(h.srv.Leases()); n != len(st.Leases)+len(st.Static) {
			h.viol("http-status-differs-from-leases", fmt.Sprintf("status lists %d+%d leases, Leases() %d", len(st.Leases), len(st.Static), n), nil)
		}
	case c10HTTPResetLeases:
		code, text := h.call(http.MethodPost, "/control/dhcp/reset_leases", nil)
		s.Reply = fmt.Sprintf("%d %s", code, text)
		if code != http.StatusOK {
			h.rep.Event("http_admin_rejected")

			return
		}
		h.rep.Event("http_admin_accepted")
		h.adminReset()
		if n := len(h.srv.Leases()); n != 0 {
			h.viol("reset-leases-leaves-leases", fmt.Sprintf("%d leases left after reset_leases", n), nil)
		}
	case c10HTTPSetConfig:
		// The same pool, or one address more at its end.
		grown := false
		end := h.pool[len(h.pool)-1].As4()
		next := netip.AddrFrom4([4]byte{end[0], end[1], end[2], end[3] + 1})
		if h.rng2.Intn(3) == 0 && end[3] < 250 && next != h.gw && next != h.self && len(h.pool) < 8 {
			grown = true
			for _, r := range h.reserved {
				if r.ip == next {
					grown = false
				}
			}
		}
		s.Var = "same-pool"
		if grown {
			s.Var = "pool-grown-by-one"
			h.pool = append(h.pool, next)
			h.poolSet[next] = true
			out := h.outIPs[:0]
			for _, a := range h.outIPs {
				if a != next {
					out = append(out, a)
				}
			}
			h.outIPs = out
			h.allIPs = append(h.allIPs, next)
			if len(h.outIPs) == 0 {
				h.outIPs = append(h.outIPs, h.addr(210))
				h.allIPs = append(h.allIPs, h.addr(210))
			}
		}
		h.compareReload(true, func() (*server, *v4Server, error) {
			code, text := h.call(http.MethodPost, "/control/dhcp/set_config", h.confJSON())
			s.Reply = fmt.Sprintf("%d %s", code, text)
			if code != http.StatusOK {
				return nil, nil, fmt.Errorf("set_config answered %d %s", code, text)
			}
			h.rep.Event("http_admin_accepted")
			h.refetch()

			return h.srv, h.v4, nil
		}, "set-config-changes-table", "after set_config with "+s.Var+" (the table is loaded from leases.json again)")
	case c10HTTPReset:
		code, text := h.call(http.MethodPost, "/control/dhcp/reset", nil)
		s.Reply = fmt.Sprintf("reset %d %s", code, text)
		if code != http.StatusOK {
			h.rep.Event("http_admin_rejected")

			return
		}
		h.adminReset()
		h.refetch()
		if h.stop {
			return
		}
		if n := len(h.srv.Leases()); n != 0 {
			h.viol("reset-leaves-leases", fmt.Sprintf("%d leases left after reset", n), nil)

			return
		}
		code, text = h.call(http.MethodPost, "/control/dhcp/set_config", h.confJSON())
		s.Reply += fmt.Sprintf("; set_config %d %s", code, text)
		if code != http.StatusOK {
			h.viol("set-config-after-reset-fails", fmt.Sprintf("set_config with the configuration the history started with answered %d %s", code, text), nil)

			return
		}
		h.rep.Event("http_admin_accepted")
		h.refetch()
	}
}

// checkCwd requires the working directory of the process to stay empty: the
// lease database belongs into DataDir.
func (h *c10Hist) checkCwd() {
	if h.cwd == "" {
		return
	}
	es, err := os.ReadDir(h.cwd)
	if err != nil || len(es) == 0 {
		return
	}
	var names []string
	for _, e := range es {
		names = append(names, e.Name())
		_ = os.RemoveAll(filepath.Join(h.cwd, e.Name()))
	}
	h.viol("lease-db:written-outside-data-dir",
		fmt.Sprintf("%v appeared in the working directory of the process", names),
		map[string]any{"working_directory": h.cwd, "data_dir": filepath.Join(h.dir, "data")})
}

func (h *c10Hist) run() {
	defer func() {
		if r := recover(); r != nil {
			h.viol("panic:"+h.curKind(), fmt.Sprintf("panic in product code: %v", r),
				map[string]any{"stack": string(debug.Stack())})
		}
	}()
	c := h.cfg
	h.t0 = time.Now()
	end := c.PoolStart + c.PoolSize - 1
	gwLast, selfLast := 1, 2
	switch c.Gateway {
	case "range-start":
		gwLast = c.PoolStart
	case "range-end":
		gwLast = end
	case "inside":
		gwLast = c.PoolStart + 1 + h.rng.Intn(c.PoolSize-2)
	case "just-above":
		gwLast = end + 1
	case "pool-at-network-address":
		gwLast, selfLast = 200, 250
	}
	h.gw, h.self = h.addr(gwLast), h.addr(selfLast)
	h.otherSID = h.addr(77)
	h.foreign = netip.AddrFrom4([4]byte{10, 9, byte(c.Net), 7})
	for i := 0; i < c.PoolSize; i++ {
		a := h.addr(c.PoolStart + i)
		h.pool = append(h.pool, a)
		h.poolSet[a] = true
	}
	for _, last := range []int{c.PoolStart - 1, c.PoolStart - 4, end + 1, end + 5, 200, 201, 202} {
		if last > 200 && len(h.outIPs) >= 3 {
			break
		}
		if last < 3 || last > 254 || last == gwLast || last == selfLast || (last >= c.PoolStart && last <= end) {
			continue
		}
		h.outIPs = append(h.outIPs, h.addr(last))
	}
	h.allIPs = append(append(append([]netip.Addr{}, h.pool...), h.outIPs...), h.gw, h.foreign)
	for i := 0; i < c.Macs; i++ {
		h.macs = append(h.macs, net.HardwareAddr{0x02, 0, 0, 0, byte(c.Net), byte(i + 1)})
	}
	for _, d := range []string{"work", "data"} {
		if err := os.MkdirAll(filepath.Join(h.dir, d), 0o755); err != nil {
			h.rep.Inconcl("mkdir: " + err.Error())

			return
		}
	}
	var err error
	h.srv, h.v4, err = h.create()
	if err != nil {
		if c.Gateway != "below" {
			// Refusing a configuration is always fine.
			h.cfgRejected = true
			h.rep.Class("config:gateway-" + c.Gateway + ":rejected")

			return
		}
		h.rep.Inconcl("Create failed on a valid configuration: " + err.Error())

		return
	}
	if c.Gateway != "below" {
		h.rep.Class("config:gateway-" + c.Gateway + ":accepted")
	}

	for n := 0; n < c.Steps && !h.stop; n++ {
		h.trace = append(h.trace, c10Step{N: n, T: int64(time.Since(h.t0) / time.Second)})
		h.cur = &h.trace[len(h.trace)-1]
		h.step()
		if !h.stop {
			h.checkCwd()
		}
		if h.stop {
			break
		}
		h.checkTable()
		if h.stop {
			break
		}
		if h.checkDB() {
			h.checkReload(false)
		}
	}
}

// ---------------------------------------------------------------------------
// Reporting.

func (h *c10Hist) viol(key, what string, extra map[string]any) {
	w := map[string]any{
		"config": h.cfg,
		"layout": map[string]any{"gateway": h.gw.String(), "server_id": h.self.String(),
			"pool": c10Strs(h.pool), "lease_s": h.cfg.LeaseS},
		"steps": append([]c10Step(nil), h.trace...),
	}
	if h.srv != nil {
		w["leases_view"] = c10LeaseStrs(h.srv.Leases())
	}
	w["shadow"] = h.shadowDump()
	for k, v := range extra {
		w[k] = v
	}
	h.rep.Violate(key, what, w)
	h.stop = true
}

func (h *c10Hist) shadowDump() map[string]any {
	now := time.Now()
	r := map[string]string{}
	for m, v := range h.reserved {
		r[m] = v.ip.String()
	}
	a := map[string]string{}
	for m, v := range h.acked {
		a[m] = fmt.Sprintf("%s until t=%ds (%s)", v.ip, int64(v.exp.Sub(h.t0)/time.Second),
			map[bool]string{true: "unexpired", false: "expired"}[v.exp.After(now)])
	}
	o := map[string]string{}
	for m, v := range h.offer {
		o[m] = v.String()
	}

	return map[string]any{"reserved": r, "acked": a, "offered": o,
		"now_t_s": int64(now.Sub(h.t0) / time.Second)}
}

func c10Strs(a []netip.Addr) (s []string) {
	for _, x := range a {
		s = append(s, x.String())
	}

	return s
}

func c10LeaseStr(l *dhcpsvc.Lease) string {
	exp := int64(0)
	if !l.IsStatic {
		exp = l.Expiry.Unix()
	}

	return fmt.Sprintf("%s|%s|%s|static=%v|exp=%d", l.HWAddr, l.IP, l.Hostname, l.IsStatic, exp)
}

// c10Nameless rewrites canonical lease strings so that a dynamic lease whose
// name is the one generated from its address compares equal to one without a
// name: loading the database gives nameless dynamic leases such a name.
func c10Nameless(ls []string) (out []string, n int) {
	for _, l := range ls {
		p := strings.Split(l, "|")
		if a, err := netip.ParseAddr(p[1]); err == nil && p[3] == "static=false" &&
			(p[2] == "" || p[2] == aghnet.GenerateHostname(a)) {
			if p[2] != "" {
				n++
			}
			p[2] = ""
		}
		out = append(out, strings.Join(p, "|"))
	}
	sort.Strings(out)

	return out, n
}

func c10LeaseStrs(ls []*dhcpsvc.Lease) (s []string) {
	for _, l := range ls {
		s = append(s, c10LeaseStr(l))
	}
	sort.Strings(s)

	return s
}

// ---------------------------------------------------------------------------
// Step generation and execution.

func (h *c10Hist) pickMac(pref func(m string) bool, p float64) net.HardwareAddr {
	if pref != nil && h.rng.Float64() < p {
		var c []net.HardwareAddr
		for _, m := range h.macs {
			if pref(m.String()) {
				c = append(c, m)
			}
		}
		if len(c) > 0 {
			return c[h.rng.Intn(len(c))]
		}
	}

	return h.macs[h.rng.Intn(len(h.macs))]
}

func (h *c10Hist) pickHost() string {
	if h.rng.Intn(6) == 0 {
		return ""
	}

	return h.cfg.Hosts[h.rng.Intn(len(h.cfg.Hosts))]
}

// claim returns the address the shadow model believes mac may be ACKed.
func (h *c10Hist) claim(mac string) (ip netip.Addr, ok bool) {
	if r, is := h.reserved[mac]; is {
		return r.ip, true
	}
	if o, is := h.offer[mac]; is {
		return o, true
	}
	if a, is := h.acked[mac]; is {
		return a.ip, true
	}

	return netip.Addr{}, false
}

func (h *c10Hist) otherIP(not netip.Addr) netip.Addr {
	for i := 0; i < 20; i++ {
		var a netip.Addr
		switch h.rng.Intn(10) {
		case 0:
			a = h.foreign
		case 1:
			a = h.gw
		case 2, 3:
			a = h.outIPs[h.rng.Intn(len(h.outIPs))]
		default:
			a = h.pool[h.rng.Intn(len(h.pool))]
		}
		if a != not {
			return a
		}
	}

	return h.foreign
}

func (h *c10Hist) step() {
	s := h.cur
	if len(h.script) > 0 {
		sc := h.script[0]
		h.script = h.script[1:]
		mac := h.macs[sc.mac]
		s.Kind, s.Mac = sc.kind, mac.String()
		h.rep.Event("step:" + s.Kind)
		switch sc.kind {
		case c10Discover:
			s.Var = "scripted"
			h.doDiscover(mac, netip.Addr{}, "")
		case c10Select:
			ip, ok := h.claim(s.Mac)
			s.Var = "right"
			if !ok {
				s.Var, ip = "no-offer", h.pool[0]
			}
			s.IP, s.SID = ip.String(), h.self.String()
			h.doRequest(mac, ip, h.self, netip.Addr{}, "")
		}

		return
	}
	if x := h.rng2.Intn(1000); x < 50 {
		switch {
		case x < 15:
			h.httpStep(c10HTTPStatus)
		case x < 25:
			h.httpStep(c10HTTPResetLeases)
		case x < 40:
			h.httpStep(c10HTTPSetConfig)
		default:
			h.httpStep(c10HTTPReset)
		}

		return
	}
	weights := []struct {
		kind string
		w    int
	}{{c10Discover, 22}, {c10Select, 22}, {c10Reboot, 6}, {c10Renew, 8}, {c10Decline, 4}, {c10Release, 6},
		{c10StAdd, 8}, {c10StUpd, 3}, {c10StRm, 4}, {c10Advance, 12}, {c10Restart, 5}, {c10RestartBad, 1}}
	total := 0
	for _, w := range weights {
		total += w.w
	}
	x := h.rng.Intn(total)
	for _, w := range weights {
		if x < w.w {
			s.Kind = w.kind

			break
		}
		x -= w.w
	}
	h.rep.Event("step:" + s.Kind)

	hasOffer := func(m string) bool { _, ok := h.offer[m]; return ok }
	hasAck := func(m string) bool { _, ok := h.acked[m]; return ok }
	hasClaim := func(m string) bool { _, ok := h.claim(m); return ok }
	noClaim := func(m string) bool { return !hasClaim(m) }
	isRes := func(m string) bool { _, ok := h.reserved[m]; return ok }

	switch s.Kind {
	case c10Discover:
		mac := h.pickMac(noClaim, 0.6)
		s.Mac, s.Host = mac.String(), h.pickHost()
		var reqIP netip.Addr
		if h.rng.Intn(4) == 0 {
			reqIP = h.otherIP(netip.Addr{})
			s.IP = reqIP.String()
		}
		h.doDiscover(mac, reqIP, s.Host)
	case c10Select:
		mac := h.pickMac(hasOffer, 0.8)
		s.Mac, s.Host = mac.String(), h.pickHost()
		ip, ok := h.claim(s.Mac)
		sid, ci := h.self, netip.Addr{}
		s.Var = "right"
		switch x := h.rng.Intn(100); {
		case !ok:
			s.Var, ip = "no-offer", h.otherIP(netip.Addr{})
		case x < 10:
			s.Var, ip = "wrong-address", h.otherIP(ip)
		case x < 18:
			s.Var, sid = "wrong-server-id", h.otherSID
		case x < 21:
			s.Var, ci = "non-zero-ciaddr", ip
		}
		s.IP, s.SID = ip.String(), sid.String()
		h.doRequest(mac, ip, sid, ci, s.Host)
	case c10Reboot:
		mac := h.pickMac(hasAck, 0.7)
		s.Mac, s.Host = mac.String(), h.pickHost()
		ip, ok := h.claim(s.Mac)
		s.Var = "right"
		if !ok || h.rng.Intn(4) == 0 {
			s.Var, ip = "wrong-or-unknown-address", h.otherIP(ip)
		}
		s.IP = ip.String()
		h.doRequest(mac, ip, netip.Addr{}, netip.Addr{}, s.Host)
	case c10Renew:
		mac := h.pickMac(hasAck, 0.8)
		s.Mac, s.Host = mac.String(), h.pickHost()
		ip, ok := h.claim(s.Mac)
		s.Var = "right"
		if !ok || h.rng.Intn(5) == 0 {
			s.Var, ip = "wrong-or-unknown-address", h.otherIP(ip)
		}
		s.IP = ip.String()
		h.doRequest(mac, netip.Addr{}, netip.Addr{}, ip, s.Host)
	case c10Decline, c10Release:
		mac := h.pickMac(hasClaim, 0.85)
		s.Mac = mac.String()
		ip, ok := h.claim(s.Mac)
		s.Var = "right"
		if !ok || h.rng.Intn(5) == 0 {
			s.Var, ip = "wrong-or-unknown-address", h.otherIP(ip)
		}
		s.IP = ip.String()
		h.doDeclineRelease(s.Kind, mac, ip)
	case c10StAdd:
		mac := h.pickMac(func(m string) bool { return !isRes(m) }, 0.8)
		s.Mac, s.Host = mac.String(), h.pickHost()
		ip := h.staticIP(s)
		s.IP = ip.String()
		h.doStatic(s.Kind, mac, ip, s.Host)
	case c10StUpd:
		mac := h.pickMac(isRes, 0.8)
		s.Mac, s.Host = mac.String(), h.pickHost()
		if r, ok := h.reserved[s.Mac]; ok && h.rng.Intn(3) == 0 {
			// Keep the address, change the name only (or nothing).
			s.Var, s.IP = "same-address", r.ip.String()
			h.doStatic(s.Kind, mac, r.ip, s.Host)

			break
		}
		ip := h.staticIP(s)
		s.IP = ip.String()
		h.doStatic(s.Kind, mac, ip, s.Host)
	case c10StRm:
		h.genStaticRemove(s)
	case c10Advance:
		l := h.cfg.LeaseS
		switch x := h.rng.Intn(100); {
		case x < 50:
			s.Adv = 1 + h.rng.Intn(l/4)
		case x < 60:
			s.Adv, s.Var = l, "exactly-lease-time"
		default:
			s.Adv, s.Var = l+1+h.rng.Intn(l), "past-lease-time"
		}
		before := time.Now()
		time.Sleep(time.Duration(s.Adv) * time.Second)
		now := time.Now()
		for _, a := range h.acked {
			if a.exp.After(before) && !a.exp.After(now) {
				h.nExpired++
				h.rep.Event("acked_leases_expired")
			}
		}
	case c10Restart:
		h.checkReload(true)
	case c10RestartBad:
		h.restartUnreadable()
	}
}

// restartUnreadable restarts the server while leases.json cannot be read (for
// a reason other than its absence).  The server may refuse to start; then the
// file is put back and a normal restart follows.  If it starts, it must have
// the table it had before, like after any other restart.
func (h *c10Hist) restartUnreadable() {
	s := h.cur
	path := filepath.Join(h.dir, "data", dataFilename)
	aside := path + ".aside"
	moved := false
	if _, err := os.Lstat(path); err == nil {
		if err = os.Rename(path, aside); err != nil {
			h.rep.Inconcl("cannot move leases.json aside: " + err.Error())
			h.stop = true

			return
		}
		moved = true
	}
	// Permissions do not stop root, so put something else at the path.
	var err error
	if h.rng.Intn(2) == 0 {
		s.Var = "directory-at-path"
		err = os.Mkdir(path, 0o755)
	} else {
		s.Var = "symlink-to-itself"
		err = os.Symlink(dataFilename, path)
	}
	restore := func() bool {
		rerr := os.Remove(path)
		if rerr == nil && moved {
			rerr = os.Rename(aside, path)
		}
		if rerr != nil {
			h.rep.Inconcl("cannot put leases.json back: " + rerr.Error())
			h.stop = true
		}

		return rerr == nil
	}
	if err == nil {
		_, rerr := os.ReadFile(path)
		if rerr == nil || os.IsNotExist(rerr) {
			err = fmt.Errorf("reading the obstacle gives %v", rerr)
		} else {
			s.Reply = "read error: " + rerr.Error()
		}
	}
	if err != nil {
		h.rep.Inconcl("cannot make leases.json unreadable (" + s.Var + "): " + err.Error())
		h.stop = true
		restore()

		return
	}
	h.rep.Event("restart_unreadable_db_steps")
	h.rep.Class("restart-unreadable-db:" + s.Var)
	if moved {
		h.rep.Class("restart-unreadable-db:with-stored-leases")
	} else {
		h.rep.Class("restart-unreadable-db:nothing-stored-yet")
	}
	h.nRestartBad++

	ns, nv4, cerr := h.create()
	if cerr != nil {
		// Refusing to start loses nothing.
		s.Reply += "; Create refused: " + cerr.Error()
		h.rep.Class("restart-unreadable-db:refused")
		if restore() {
			h.checkReload(true)
		}

		return
	}
	s.Reply += "; Create succeeded"
	h.rep.Class("restart-unreadable-db:started")
	// The obstacle goes away before anything is compared or stored, so that
	// the new server, if it is kept, works on the original file.
	if !restore() {
		return
	}
	h.compareReload(true, func() (*server, *v4Server, error) { return ns, nv4, nil }, "restart-unreadable-db:started-with-different-table",
		"the server started although leases.json could not be read ("+s.Var+"), and")
	if !h.stop {
		h.rep.Class("restart-unreadable-db:started-with-same-table")
	}
}

func (h *c10Hist) staticIP(s *c10Step) netip.Addr {
	var free []netip.Addr
	now := time.Now()
	for _, a := range h.pool {
		if !h.heldOrReserved(a, now, "") {
			free = append(free, a)
		}
	}
	var resIPs []netip.Addr
	for _, r := range h.reserved {
		resIPs = append(resIPs, r.ip)
	}
	sort.Slice(resIPs, func(i, j int) bool { return resIPs[i].Less(resIPs[j]) })
	switch x := h.rng.Intn(100); {
	case x < 22 && len(free) > 0:
		s.Var = "pool-free"

		return free[h.rng.Intn(len(free))]
	case x < 45:
		s.Var = "pool-any"

		return h.pool[h.rng.Intn(len(h.pool))]
	case x < 75:
		s.Var = "outside-pool"

		return h.outIPs[h.rng.Intn(len(h.outIPs))]
	case x < 83:
		s.Var = "gateway"

		return h.gw
	case x < 93 && len(resIPs) > 0:
		s.Var = "address-of-existing-static"

		return resIPs[h.rng.Intn(len(resIPs))]
	case x < 97:
		s.Var = "other-subnet"

		return h.foreign
	}
	s.Var = "outside-pool"

	return h.outIPs[h.rng.Intn(len(h.outIPs))]
}

// heldOrReserved reports whether the shadow model has a unexpired acknowledged
// lease (expiry >= now, the edge counts as held here) of a client other than
// except, or a reservation, for a.
func (h *c10Hist) heldOrReserved(a netip.Addr, now time.Time, except string) bool {
	for _, r := range h.reserved {
		if r.ip == a {
			return true
		}
	}
	for m, k := range h.acked {
		if m != except && k.ip == a && !k.exp.Before(now) {
			return true
		}
	}

	return false
}

func (h *c10Hist) nextXID() (x dhcpv4.TransactionID) {
	h.xid++
	x[0], x[1], x[2], x[3] = byte(h.xid>>24), byte(h.xid>>16), byte(h.xid>>8), byte(h.xid)

	return x
}

// exchange feeds req to the server's packet handler and returns the reply
// type ("offer", "ack", "nak", "untyped", "none") and its yiaddr.
func (h *c10Hist) exchange(req *dhcpv4.DHCPv4) (typ string, yi netip.Addr) {
	h.lastLease = time.Duration(h.cfg.LeaseS) * time.Second
	conn := &c10Conn{}
	peer := &net.UDPAddr{IP: net.IPv4bcast, Port: dhcpv4.ClientPort}
	// The server parses what arrives from the wire.
	parsed, err := dhcpv4.FromBytes(req.ToBytes())
	if err != nil {
		h.rep.Inconcl("monitor built an unparsable message: " + err.Error())
		h.stop = true

		return "none", yi
	}
	h.v4.packetHandler(conn, peer, parsed)
	typ = "none"
	if conn.n > 0 {
		resp, perr := dhcpv4.FromBytes(conn.last)
		if perr != nil {
			h.viol("reply-unparsable:"+h.cur.Kind, "the reply does not parse: "+perr.Error(), nil)

			return "none", yi
		}
		switch resp.MessageType() {
		case dhcpv4.MessageTypeOffer:
			typ = "offer"
		case dhcpv4.MessageTypeAck:
			typ = "ack"
		case dhcpv4.MessageTypeNak:
			typ = "nak"
		default:
			typ = "untyped"
		}
		if a, ok := netip.AddrFromSlice(resp.YourIPAddr.To4()); ok && !a.IsUnspecified() {
			yi = a
		}
		// The lease runs as long as the reply says.
		if lt := resp.IPAddressLeaseTime(0); lt > 0 {
			if lt != h.lastLease {
				h.rep.Event("reply_lease_time_differs_from_configuration")
			}
			h.lastLease = lt
			h.cur.Told = lt.String()
		}
	}
	h.cur.Reply = typ
	if yi.IsValid() {
		h.cur.YI = yi.String()
	}
	h.rep.Event("reply:" + typ)

	return typ, yi
}

// leaseOpt adds, to a third of the messages, the lease time the client would
// like (option 51): 1 s, 2 s, half the configured time, the same, longer, 0,
// the maximum.  What counts for the model is the time the ACK announces.
func (h *c10Hist) leaseOpt(mods []dhcpv4.Modifier) []dhcpv4.Modifier {
	if h.rng2.Intn(3) != 0 {
		return mods
	}
	l := time.Duration(h.cfg.LeaseS) * time.Second
	d := []time.Duration{time.Second, 2 * time.Second, l / 2, l, 3 * l, 0, 0xffffffff * time.Second}[h.rng2.Intn(7)]
	h.cur.ReqLease = d.String()
	h.rep.Event("message_with_requested_lease_time")
	switch {
	case d > 0 && d < l:
		h.rep.Event("requested_lease_time_shorter_than_configured")
	case d > l:
		h.rep.Event("requested_lease_time_longer_than_configured")
	}

	return append(mods, dhcpv4.WithOption(dhcpv4.OptIPAddressLeaseTime(d)))
}

func c10Mods(mac net.HardwareAddr, mt dhcpv4.MessageType, host string, xid dhcpv4.TransactionID) []dhcpv4.Modifier {
	m := []dhcpv4.Modifier{
		dhcpv4.WithTransactionID(xid),
		dhcpv4.WithHwAddr(mac),
		dhcpv4.WithMessageType(mt),
		dhcpv4.WithBroadcast(true),
		dhcpv4.WithRequestedOptions(dhcpv4.OptionSubnetMask, dhcpv4.OptionRouter, dhcpv4.OptionDomainNameServer),
	}
	if host != "" {
		m = append(m, dhcpv4.WithOption(dhcpv4.OptHostName(host)))
	}

	return m
}

// grant applies the oracle to an address given to mac in a reply of kind
// how ("offer", "ack", "decline-ack") and updates the shadow model.
func (h *c10Hist) grant(how, mac string, ip netip.Addr) {
	now := time.Now()
	on := how + ":" + h.cur.Kind
	if r, ok := h.reserved[mac]; ok {
		if r.ip != ip {
			h.viol("reserved-client-given-other-address:"+on,
				fmt.Sprintf("%s has a reservation for %s but was sent %s in an %s", mac, r.ip, ip, how), nil)
		}

		return
	}
	if ip == h.gw {
		h.viol("gateway-address-given:"+on, fmt.Sprintf("%s was sent the gateway address %s", mac, ip), nil)

		return
	}
	if !h.poolSet[ip] {
		h.viol("dynamic-address-outside-pool:"+on,
			fmt.Sprintf("%s (no reservation) was sent %s, which is outside the pool", mac, ip), nil)

		return
	}
	for m2, r := range h.reserved {
		if r.ip == ip {
			h.viol("reserved-address-given-to-other-client:"+on,
				fmt.Sprintf("%s is reserved for %s but was sent to %s in an %s", ip, m2, mac, how), nil)

			return
		}
	}
	for m2, a := range h.acked {
		if m2 == mac || a.ip != ip {
			continue
		}
		if a.exp.After(now) {
			h.viol("leased-address-given-to-second-client:"+on,
				fmt.Sprintf("%s holds an acknowledged lease for %s until t=%ds, yet at t=%ds the address was sent to %s in an %s",
					m2, ip, int64(a.exp.Sub(h.t0)/time.Second), int64(now.Sub(h.t0)/time.Second), mac, how), nil)

			return
		}
		delete(h.acked, m2)
		h.nReclaim++
		h.rep.Event("address_reused_after_expiry_or_release")
	}
	for m2, o := range h.offer {
		if m2 != mac && o == ip {
			delete(h.offer, m2)
			h.rep.Event("offer_reclaimed_for_other_client")
		}
	}
	switch how {
	case "offer":
		if a, ok := h.acked[mac]; ok && a.ip == ip {
			delete(h.offer, mac)
		} else {
			h.offer[mac] = ip
		}
	default:
		h.acked[mac] = c10Ack{ip: ip, exp: now.Add(h.lastLease)}
		delete(h.offer, mac)
		h.nAck++
	}
}

func (h *c10Hist) doDiscover(mac net.HardwareAddr, reqIP netip.Addr, host string) {
	ms := mac.String()
	now := time.Now()
	// Expectation, computed from the shadow model before the exchange.
	_, reserved := h.reserved[ms]
	var free, freeIgnoringOffers []netip.Addr
	for _, a := range h.pool {
		// The gateway's own address is never a free pool address.
		if a == h.gw || h.heldOrReserved(a, now, ms) {
			continue
		}
		freeIgnoringOffers = append(freeIgnoringOffers, a)
		offeredElsewhere := false
		for m2, o := range h.offer {
			if m2 != ms && o == a {
				offeredElsewhere = true
			}
		}
		if !offeredElsewhere {
			free = append(free, a)
		}
	}
	_, known := h.claim(ms)

	mods := c10Mods(mac, dhcpv4.MessageTypeDiscover, host, h.nextXID())
	mods = h.leaseOpt(mods)
	if reqIP.IsValid() {
		mods = append(mods, dhcpv4.WithOption(dhcpv4.OptRequestedIPAddress(reqIP.AsSlice())))
	}
	req, _ := dhcpv4.New(mods...)
	typ, yi := h.exchange(req)
	if h.stop {
		return
	}

	switch {
	case typ == "offer" && yi.IsValid():
		if !reserved && !known && len(free) == 0 && len(freeIgnoringOffers) > 0 {
			// Served although every unleased address was on offer to others.
			h.nOfferOnly++
			h.rep.Event("new_client_served_while_only_offered_addresses_were_free")
		}
		h.grant("offer", ms, yi)
		if !known {
			h.rep.Event("offer_to_new_client")
		}
	case typ == "offer":
		h.viol("offer-without-address", "OFFER with yiaddr 0.0.0.0", nil)
	case reserved:
		h.rep.Unspec("DISCOVER from a client with a reservation not answered with an offer")
	default:
		if typ == "ack" {
			h.viol("discover-answered-with-ack", "DISCOVER answered with an ACK", nil)

			return
		}
		switch {
		case len(free) > 0:
			class := "other"
			if len(free) == 1 && free[0] == h.pool[0] {
				class = "only-range-start-free"
			}
			if known {
				class += ":returning-client"
			}
			h.viol("discover-unanswered-with-free-address:"+class,
				fmt.Sprintf("DISCOVER from %s answered with %q although %v is neither leased, reserved nor offered to anybody", ms, typ, c10Strs(free)),
				map[string]any{"free": c10Strs(free), "internal_table": h.internalDump()})
		case len(freeIgnoringOffers) > 0:
			// An address that was only offered is neither leased nor reserved:
			// the offer was never acknowledged, the client it went to holds
			// nothing (and is NAKed should it still ask for the address).
			class := "only-offered-addresses-free"
			if known {
				class += ":returning-client"
			}
			var offers []string
			for m2, o := range h.offer {
				if m2 != ms {
					offers = append(offers, m2+" "+o.String())
				}
			}
			sort.Strings(offers)
			h.viol("discover-unanswered-with-free-address:"+class,
				fmt.Sprintf("DISCOVER from %s answered with %q although %v is neither leased (acknowledged and unexpired) nor reserved, only offered to other clients at some earlier time",
					ms, typ, c10Strs(freeIgnoringOffers)),
				map[string]any{"free_but_once_offered": c10Strs(freeIgnoringOffers), "outstanding_offers": offers,
					"internal_table": h.internalDump()})
		default:
			h.nExhaust++
			h.rep.Event("discover_refused_pool_exhausted")
		}
	}
}

func (h *c10Hist) doRequest(mac net.HardwareAddr, reqIP, sid, ciaddr netip.Addr, host string) {
	ms := mac.String()
	mods := c10Mods(mac, dhcpv4.MessageTypeRequest, host, h.nextXID())
	mods = h.leaseOpt(mods)
	if reqIP.IsValid() {
		mods = append(mods, dhcpv4.WithOption(dhcpv4.OptRequestedIPAddress(reqIP.AsSlice())))
	}
	if sid.IsValid() {
		mods = append(mods, dhcpv4.WithOption(dhcpv4.OptServerIdentifier(sid.AsSlice())))
	}
	if ciaddr.IsValid() {
		mods = append(mods, dhcpv4.WithClientIP(ciaddr.AsSlice()))
	}
	req, _ := dhcpv4.New(mods...)
	typ, yi := h.exchange(req)
	if h.stop {
		return
	}
	h.rep.Event("request:" + h.cur.Kind + ":" + h.cur.Var + ":" + typ)
	switch typ {
	case "ack":
		if !yi.IsValid() {
			h.viol("ack-without-address:"+h.cur.Kind, "ACK to a REQUEST with yiaddr 0.0.0.0", nil)

			return
		}
		claimed := false
		if _, ok := h.reserved[ms]; ok {
			// grant compares with the reservation.
			claimed = true
		} else if o, ok := h.offer[ms]; ok && o == yi {
			claimed = true
		} else if a, ok := h.acked[ms]; ok && a.ip == yi {
			// Also when expired: nobody else was given the address since.
			claimed = true
		}
		if !claimed {
			h.viol("ack-without-claim:"+h.cur.Kind,
				fmt.Sprintf("%s was ACKed %s, which is neither offered nor leased nor reserved to it", ms, yi), nil)

			return
		}
		h.grant("ack", ms, yi)
		if h.cur.Var == "wrong-server-id" {
			h.rep.Unspec("REQUEST naming another server was ACKed")
		}
	case "offer":
		h.viol("request-answered-with-offer", "REQUEST answered with an OFFER", nil)
	}
}

func (h *c10Hist) doDeclineRelease(kind string, mac net.HardwareAddr, ip netip.Addr) {
	ms := mac.String()
	mt := dhcpv4.MessageTypeRelease
	if kind == c10Decline {
		mt = dhcpv4.MessageTypeDecline
	}
	mods := c10Mods(mac, mt, "", h.nextXID())
	if kind == c10Decline || h.rng.Intn(2) == 0 {
		mods = append(mods, dhcpv4.WithOption(dhcpv4.OptRequestedIPAddress(ip.AsSlice())))
	}
	if kind == c10Release {
		mods = append(mods, dhcpv4.WithClientIP(ip.AsSlice()))
	}
	mods = append(mods, dhcpv4.WithOption(dhcpv4.OptServerIdentifier(h.self.AsSlice())))

	// The client gives the address up, whatever the server does.
	if _, isRes := h.reserved[ms]; !isRes {
		if a, ok := h.acked[ms]; ok && a.ip == ip {
			delete(h.acked, ms)
			h.rep.Event(kind + "_of_acked_lease")
		}
		if o, ok := h.offer[ms]; ok && o == ip {
			delete(h.offer, ms)
			h.rep.Event(kind + "_of_offer")
		}
	}
	req, _ := dhcpv4.New(mods...)
	typ, yi := h.exchange(req)
	if h.stop {
		return
	}
	h.rep.Event(kind + ":" + h.cur.Var + ":" + typ)
	if typ == "offer" {
		h.viol(kind+"-answered-with-offer", kind+" answered with an OFFER", nil)

		return
	}
	if typ == "ack" && yi.IsValid() {
		if kind == c10Release {
			h.viol("release-answered-with-address", "RELEASE answered with an ACK carrying an address", nil)

			return
		}
		// The server announces a replacement lease for the client.
		h.rep.Event("decline_replacement_lease")
		h.grant("decline-ack", ms, yi)
	}
}

func (h *c10Hist) doStatic(kind string, mac net.HardwareAddr, ip netip.Addr, host string) {
	ms := mac.String()
	l := &dhcpsvc.Lease{HWAddr: append(net.HardwareAddr(nil), mac...), IP: ip, Hostname: host, IsStatic: true}
	var err error
	switch viaHTTP := h.rng2.Intn(5) < 2; {
	case viaHTTP:
		h.cur.Via = "http"
		url := "/control/dhcp/add_static_lease"
		if kind != c10StAdd {
			url = "/control/dhcp/update_static_lease"
		}
		code, text := h.call(http.MethodPost, url, map[string]any{"mac": ms, "ip": ip.String(), "hostname": host})
		if h.stop {
			return
		}
		if code != http.StatusOK {
			err = fmt.Errorf("%d %s", code, text)
		}
	case kind == c10StAdd:
		err = h.srv.srv4.AddStaticLease(l)
	default:
		err = h.srv.srv4.UpdateStaticLease(l)
	}
	if err != nil {
		h.cur.Reply = "rejected: " + err.Error()
		h.nStaticRej++
		h.rep.Event("static_op_rejected")
		h.rep.Event(kind + ":" + h.cur.Var + ":rejected")

		return
	}
	h.cur.Reply = "accepted"
	h.nStaticOK++
	h.rep.Event("static_op_accepted")
	h.rep.Event(kind + ":" + h.cur.Var + ":accepted")
	now := time.Now()
	if ip == h.gw {
		h.viol("static-accepted-for-gateway-address:"+kind, "a static lease for the gateway address was accepted", nil)

		return
	}
	for m2, r := range h.reserved {
		if m2 != ms && r.ip == ip {
			h.viol("static-accepted-for-address-of-other-reservation:"+kind,
				fmt.Sprintf("%s is reserved for %s, yet a static lease of it for %s was accepted", ip, m2, ms), nil)

			return
		}
	}
	if old, ok := h.reserved[ms]; ok && kind == c10StAdd && old.ip != ip {
		h.rep.Unspec("second static-add for a client with a reservation accepted (replaces?)")
	}
	if !h.v4.conf.subnet.Contains(ip) {
		h.rep.Unspec("static lease outside the subnet accepted")
	}
	for m2, a := range h.acked {
		if a.ip == ip && m2 != ms {
			if a.exp.After(now) {
				h.rep.Unspec("static lease accepted over another client's running dynamic lease (administrative override)")
			}
			delete(h.acked, m2)
		}
	}
	for m2, o := range h.offer {
		if o == ip && m2 != ms {
			delete(h.offer, m2)
		}
	}
	if a, ok := h.acked[ms]; ok {
		if a.exp.After(now) && a.ip != ip {
			h.rep.Unspec("static lease moves a client that has a running dynamic lease elsewhere")
		}
		delete(h.acked, ms)
	}
	delete(h.offer, ms)
	h.reserved[ms] = c10Resv{ip: ip, host: host}
	if h.poolSet[ip] {
		h.rep.Event("static_inside_pool_accepted")
	} else {
		h.rep.Event("static_outside_pool_accepted")
	}
}

func (h *c10Hist) genStaticRemove(s *c10Step) {
	var statics, dynamics []*dhcpsvc.Lease
	for _, l := range h.srv.Leases() {
		if l.IsStatic {
			statics = append(statics, l)
		} else {
			dynamics = append(dynamics, l)
		}
	}
	var l *dhcpsvc.Lease
	x := h.rng.Intn(100)
	switch {
	case x < 65 && len(statics) > 0:
		s.Var = "exact"
		l = statics[h.rng.Intn(len(statics))]
	case x < 75 && len(statics) > 0:
		s.Var = "wrong-hostname"
		l = statics[h.rng.Intn(len(statics))]
		l.Hostname += "x"
	case x < 85 && len(statics) > 0:
		s.Var = "wrong-address"
		l = statics[h.rng.Intn(len(statics))]
		l.IP = h.otherIP(l.IP)
	case x < 93 && len(dynamics) > 0:
		s.Var = "dynamic-lease"
		l = dynamics[h.rng.Intn(len(dynamics))]
	default:
		s.Var = "unknown"
		l = &dhcpsvc.Lease{HWAddr: h.macs[h.rng.Intn(len(h.macs))], IP: h.otherIP(netip.Addr{}), Hostname: h.pickHost()}
	}
	s.Mac, s.IP, s.Host = l.HWAddr.String(), l.IP.String(), l.Hostname
	var err error
	if h.rng2.Intn(5) < 2 {
		s.Via = "http"
		code, text := h.call(http.MethodPost, "/control/dhcp/remove_static_lease",
			map[string]any{"mac": l.HWAddr.String(), "ip": l.IP.String(), "hostname": l.Hostname})
		if h.stop {
			return
		}
		if code != http.StatusOK {
			err = fmt.Errorf("%d %s", code, text)
		}
	} else {
		err = h.srv.srv4.RemoveStaticLease(&dhcpsvc.Lease{HWAddr: l.HWAddr, IP: l.IP, Hostname: l.Hostname, IsStatic: true})
	}
	if err != nil {
		s.Reply = "rejected: " + err.Error()
		h.nStaticRej++
		h.rep.Event("static_op_rejected")
		h.rep.Event(s.Kind + ":" + s.Var + ":rejected")

		return
	}
	s.Reply = "accepted"
	h.nStaticOK++
	h.rep.Event("static_op_accepted")
	h.rep.Event(s.Kind + ":" + s.Var + ":accepted")
	ms := s.Mac
	if r, ok := h.reserved[ms]; ok && r.ip == l.IP {
		delete(h.reserved, ms)

		return
	}
	// The operation removed something that is not a reservation of the model:
	// a dynamic lease (the code does not look at the kind).
	if a, ok := h.acked[ms]; ok && a.ip == l.IP {
		h.rep.Unspec("static-remove deleted a dynamic lease")
		delete(h.acked, ms)
	}
	if o, ok := h.offer[ms]; ok && o == l.IP {
		delete(h.offer, ms)
	}
}

// ---------------------------------------------------------------------------
// Checks after every step.

// checkTable checks the server's own Leases() view.
func (h *c10Hist) checkTable() {
	after := ":after-" + h.cur.Kind
	ls := h.srv.Leases()
	byIP := map[netip.Addr]*dhcpsvc.Lease{}
	byMAC := map[string]*dhcpsvc.Lease{}
	kind := func(l *dhcpsvc.Lease) string {
		if l.IsStatic {
			return "static"
		}

		return "dynamic"
	}
	statics := map[string]netip.Addr{}
	for _, l := range ls {
		ms := l.HWAddr.String()
		if o, ok := byIP[l.IP]; ok {
			if o.HWAddr.String() == ms {
				h.viol("lease-listed-twice"+after,
					fmt.Sprintf("Leases() lists the lease of %s for %s twice", ms, l.IP), nil)
			} else {
				h.viol("address-held-by-two-clients:"+kind(o)+"+"+kind(l)+after,
					fmt.Sprintf("Leases() has %s for both %s (%s) and %s (%s)", l.IP, o.HWAddr, kind(o), ms, kind(l)), nil)
			}

			return
		}
		if o, ok := byMAC[ms]; ok {
			h.viol("client-holds-two-leases:"+kind(o)+"+"+kind(l)+after,
				fmt.Sprintf("Leases() has both %s (%s) and %s (%s) for %s", o.IP, kind(o), l.IP, kind(l), ms), nil)

			return
		}
		byIP[l.IP], byMAC[ms] = l, l
		if l.IsStatic {
			statics[ms] = l.IP
			if l.IP == h.gw {
				h.viol("static-lease-on-gateway-address"+after, "Leases() has a static lease for the gateway address", nil)

				return
			}

			continue
		}
		if !h.poolSet[l.IP] || l.IP == h.gw {
			h.viol("dynamic-lease-outside-pool"+after,
				fmt.Sprintf("Leases() has a dynamic lease of %s for %s, outside the pool", l.IP, ms), nil)

			return
		}
	}
	// The reservations in force are those of the accepted operations.
	same := len(statics) == len(h.reserved)
	for m, r := range h.reserved {
		if statics[m] != r.ip {
			same = false
		}
	}
	if !same {
		want := map[string]string{}
		for m, r := range h.reserved {
			want[m] = r.ip.String()
		}
		h.viol("static-leases-differ-from-accepted-operations"+after,
			"the static leases in Leases() are not those of the accepted static operations",
			map[string]any{"expected_static": want})
	}
}

// c10FileLease is the monitor's own reading of a leases.json entry.
type c10FileLease struct {
	Expiry   string `json:"expires"`
	IP       string `json:"ip"`
	Hostname string `json:"hostname"`
	HWAddr   string `json:"mac"`
	IsStatic bool   `json:"static"`
}

func (h *c10Hist) readDB() (entries []string, ips []string, err error) {
	data, err := os.ReadFile(filepath.Join(h.dir, "data", dataFilename))
	if err != nil {
		if os.IsNotExist(err) {
			return nil, nil, nil
		}

		return nil, nil, err
	}
	var f struct {
		Version int            `json:"version"`
		Leases  []c10FileLease `json:"leases"`
	}
	if err = json.Unmarshal(data, &f); err != nil {
		return nil, nil, err
	}
	for _, l := range f.Leases {
		exp := int64(0)
		if !l.IsStatic {
			var t time.Time
			if t, err = time.Parse(time.RFC3339, l.Expiry); err != nil {
				return nil, nil, fmt.Errorf("entry %+v: %w", l, err)
			}
			exp = t.Unix()
		}
		entries = append(entries, fmt.Sprintf("%s|%s|%s|static=%v|exp=%d", l.HWAddr, l.IP, l.Hostname, l.IsStatic, exp))
		ips = append(ips, l.IP)
	}
	sort.Strings(entries)

	return entries, ips, nil
}

// internal returns copies of the server's lease list (the table the database
// is written from).
func (h *c10Hist) internal() (ls []*dhcpsvc.Lease) {
	h.v4.leasesLock.Lock()
	defer h.v4.leasesLock.Unlock()
	for _, l := range h.v4.leases {
		ls = append(ls, l.Clone())
	}

	return ls
}

func (h *c10Hist) internalDump() []string {
	var s []string
	for _, l := range h.internal() {
		s = append(s, c10LeaseStr(l))
	}

	return s
}

// checkDB compares leases.json with the table in memory.  It returns false if
// they differ (a reload check would only repeat the finding).
func (h *c10Hist) checkDB() (same bool) {
	after := ":after-" + h.cur.Kind
	if strings.HasPrefix(h.cur.Kind, "static-") {
		after += map[bool]string{true: "-accepted", false: "-rejected"}[h.cur.Reply == "accepted"]
	}
	file, fileIPs, err := h.readDB()
	if err != nil {
		h.viol("db-unreadable"+after, "leases.json cannot be read back: "+err.Error(), nil)

		return false
	}
	mem := h.internal()
	memS := c10LeaseStrs(mem)
	seen := map[netip.Addr]bool{}
	for _, l := range mem {
		if seen[l.IP] {
			h.viol("memory-table-lists-address-twice"+after,
				fmt.Sprintf("the lease list in memory has two entries for %s", l.IP),
				map[string]any{"memory": memS, "file": file})

			return false
		}
		seen[l.IP] = true
	}
	seenF := map[string]bool{}
	for _, ip := range fileIPs {
		if seenF[ip] {
			h.viol("db-lists-address-twice"+after, "leases.json has two entries for "+ip,
				map[string]any{"memory": memS, "file": file})

			return false
		}
		seenF[ip] = true
	}
	h.rep.EventN("db_entries_compared", len(file))
	if strings.Join(file, "\n") != strings.Join(memS, "\n") {
		f2, _ := c10Nameless(file)
		m2, _ := c10Nameless(memS)
		if strings.Join(f2, "\n") == strings.Join(m2, "\n") {
			h.rep.Unspec("a nameless dynamic lease in leases.json carries the generated name in memory after a load")

			return true
		}
		h.viol("db-differs-from-memory"+after,
			"leases.json does not list exactly the leases in memory",
			map[string]any{"memory": memS, "file": file})

		return false
	}

	return true
}

// c10View is what a DNS server or the UI can learn from a DHCP server.
type c10View struct {
	Leases []string
	Host   map[string]string
	IP     map[string]string
	MAC    map[string]string
}

func (h *c10Hist) view(s *server, hosts []string) (v c10View) {
	v = c10View{Leases: c10LeaseStrs(s.Leases()), Host: map[string]string{}, IP: map[string]string{}, MAC: map[string]string{}}
	for _, a := range h.allIPs {
		v.Host[a.String()] = s.HostByIP(a)
		v.MAC[a.String()] = s.MACByIP(a).String()
	}
	for _, n := range hosts {
		ip := s.IPByHost(n)
		if ip.IsValid() {
			v.IP[n] = ip.String()
		} else {
			v.IP[n] = ""
		}
	}

	return v
}

// checkReload creates a second server on the same directories and compares
// what it answers with what the running one answers.  With swap the new
// server replaces the running one (a restart); otherwise it is dropped.
func (h *c10Hist) checkReload(swap bool) {
	h.compareReload(swap, nil, "", "")
}

// compareReload is checkReload with, optionally, a server that has been
// created already (ns non-nil); differences are then reported under diffKey
// with what prepended.
func (h *c10Hist) compareReload(swap bool, mk func() (*server, *v4Server, error), diffKey, what string) {
	after := ":after-" + h.cur.Kind
	mem := h.internal()
	hostSet := map[string]bool{}
	for _, n := range h.cfg.Hosts {
		if norm, err := normalizeHostname(n); err == nil && norm != "" {
			hostSet[norm] = true
		}
		hostSet[n] = true
	}
	for _, a := range h.allIPs {
		hostSet[aghnet.GenerateHostname(a)] = true
	}
	// Leases without a name get a generated one when the table is loaded.
	greyIP, greyHost := map[string]string{}, map[string]string{}
	for _, l := range mem {
		if l.Hostname != "" {
			hostSet[l.Hostname] = true

			continue
		}
		if l.IsStatic {
			continue
		}
		zone := "offer"
		if !l.Expiry.IsZero() {
			zone = "acknowledged"
		}
		greyIP[l.IP.String()], greyHost[aghnet.GenerateHostname(l.IP)] = zone, zone
	}
	var hosts []string
	for n := range hostSet {
		hosts = append(hosts, n)
	}
	sort.Strings(hosts)

	if swap {
		if _, ips, _ := h.readDB(); len(ips) > 0 {
			h.rep.EventN("db_entries_crossing_restart", len(ips))
		}
		h.nRestart++
		h.rep.Event("restarts")
	} else {
		h.rep.Event("reload_probes")
	}
	before := h.view(h.srv, hosts)
	if mk == nil {
		mk = h.create
	}
	ns, nv4, err := mk()
	if err != nil {
		h.viol("restart-fails"+after, "loading the table from the same directory failed: "+err.Error(), nil)

		return
	}
	afterV := h.view(ns, hosts)

	type diff struct {
		What, Key, Before, After string
	}
	var diffs []diff
	if strings.Join(before.Leases, "\n") != strings.Join(afterV.Leases, "\n") {
		// Attribute to nameless leases when that is the only difference.
		strip := func(ls []string) string {
			var out []string
			for _, l := range ls {
				p := strings.Split(l, "|")
				if _, grey := greyIP[p[1]]; grey {
					p[2] = "*"
				}
				out = append(out, strings.Join(p, "|"))
			}

			return strings.Join(out, "\n")
		}
		if strip(before.Leases) == strip(afterV.Leases) {
			h.rep.Unspec("reload gives a generated hostname to an acknowledged lease that had none (client sent an unusable name)")
		} else {
			diffs = append(diffs, diff{"table", "Leases()", strings.Join(before.Leases, " ; "), strings.Join(afterV.Leases, " ; ")})
		}
	}
	cmp := func(what string, b, a map[string]string, grey map[string]string) {
		keys := make([]string, 0, len(b))
		for k := range b {
			keys = append(keys, k)
		}
		sort.Strings(keys)
		for _, k := range keys {
			if b[k] == a[k] {
				continue
			}
			if zone, ok := grey[k]; ok && b[k] == "" {
				h.rep.Unspec("reload gives a generated hostname to a nameless " + zone + " lease (" + what + " answer appears)")

				continue
			}
			diffs = append(diffs, diff{what, k, b[k], a[k]})
		}
	}
	cmp("host-by-ip", before.Host, afterV.Host, greyIP)
	cmp("ip-by-host", before.IP, afterV.IP, greyHost)
	cmp("mac-by-ip", before.MAC, afterV.MAC, nil)
	if len(diffs) > 0 {
		key, pre := "restart-changes-"+diffs[0].What+after, "after a reload of leases.json"
		if diffKey != "" {
			key, pre = diffKey, what
		}
		h.viol(key,
			fmt.Sprintf("%s %s(%s) is %q, before it was %q", pre, diffs[0].What, diffs[0].Key, diffs[0].After, diffs[0].Before),
			map[string]any{"differences": diffs, "internal_table_before": c10LeaseStrs(mem)})

		return
	}
	if swap {
		h.srv, h.v4 = ns, nv4
	}
}
