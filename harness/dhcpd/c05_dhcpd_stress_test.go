//go:build verif

package dhcpd

// Concurrent stress of the DHCP server object (part "dhcpd" of C05, and of
// C14 through VERIF_DHCPD_PROP).
//
// One round = one server from Create with DHCPv4 and DHCPv6 configured and a
// DataDir of its own, worked on concurrently by: DHCPv4 clients (DISCOVER /
// REQUEST / RELEASE / DECLINE through (*v4Server).handle), a DHCPv4 static
// lease administrator, a DHCPv6 static lease administrator, DHCPv6 clients
// (SOLICIT / REQUEST / RENEW through (*v6Server).packetHandler with a fake
// packet connection), readers of the exported views, and an observer that
// keeps reading leases.json.  Every goroutine performs a fixed number of
// operations.  No sockets, no Start.
//
// Oracle: every snapshot of leases.json taken while the servers work is one
// complete valid document; after all goroutines are joined one more store is
// requested and the file must list exactly the leases in memory (v4 and v6)
// and load into a fresh server.  Panics are recovered per goroutine.  Data
// races are reported by the driver from the race detector's log.

import (
	"bytes"
	"encoding/json"
	"fmt"
	"io"
	"math/rand"
	"net"
	"net/netip"
	"os"
	"path/filepath"
	"regexp"
	"runtime"
	"runtime/debug"
	"sort"
	"strings"
	"sync"
	"sync/atomic"
	"testing"
	"time"

	"github.com/AdguardTeam/AdGuardHome/internal/dhcpsvc"
	"github.com/AdguardTeam/AdGuardHome/internal/verifkit"
	"github.com/insomniacslk/dhcp/dhcpv4"
	"github.com/insomniacslk/dhcp/dhcpv6"
	"github.com/insomniacslk/dhcp/iana"
)

// c05dFileLease is the monitor's own reading of a leases.json entry.
type c05dFileLease struct {
	Expiry   *string `json:"expires"`
	IP       *string `json:"ip"`
	Hostname *string `json:"hostname"`
	HWAddr   *string `json:"mac"`
	IsStatic *bool   `json:"static"`
}

type c05dFile struct {
	Version *int             `json:"version"`
	Leases  *[]c05dFileLease `json:"leases"`
}

// c05dParse checks that data is exactly one complete lease database document
// and returns its entries in canonical form.
func c05dParse(data []byte) (entries []string, err error) {
	dec := json.NewDecoder(bytes.NewReader(data))
	dec.DisallowUnknownFields()
	var f c05dFile
	if err = dec.Decode(&f); err != nil {
		return nil, fmt.Errorf("decoding: %w", err)
	}
	var extra json.RawMessage
	docEnd := dec.InputOffset()
	if err = dec.Decode(&extra); err != io.EOF {
		what := "another JSON value"
		if err != nil {
			what = err.Error()
		}

		return nil, fmt.Errorf("data after the document, which ends at offset %d of %d (%s): %q", docEnd, len(data), what, c05dClip(data[docEnd:]))
	}
	if f.Version == nil || *f.Version != dataVersion {
		return nil, fmt.Errorf("version field missing or wrong")
	}
	if f.Leases == nil {
		return nil, fmt.Errorf("leases field missing or null")
	}
	for i, l := range *f.Leases {
		if l.Expiry == nil || l.IP == nil || l.Hostname == nil || l.HWAddr == nil || l.IsStatic == nil {
			return nil, fmt.Errorf("entry %d lacks a field", i)
		}
		if _, perr := net.ParseMAC(*l.HWAddr); perr != nil {
			return nil, fmt.Errorf("entry %d: %w", i, perr)
		}
		if _, perr := netip.ParseAddr(*l.IP); perr != nil {
			return nil, fmt.Errorf("entry %d: %w", i, perr)
		}
		exp := int64(0)
		if !*l.IsStatic {
			t, perr := time.Parse(time.RFC3339, *l.Expiry)
			if perr != nil {
				return nil, fmt.Errorf("entry %d: %w", i, perr)
			}
			exp = t.Unix()
		}
		entries = append(entries, fmt.Sprintf("%s|%s|%s|static=%v|exp=%d", *l.HWAddr, *l.IP, *l.Hostname, *l.IsStatic, exp))
	}
	sort.Strings(entries)

	return entries, nil
}

func c05dClip(b []byte) string {
	if len(b) > 160 {
		return string(b[:160]) + "..."
	}

	return string(b)
}

func c05dLeaseStr(l *dhcpsvc.Lease) string {
	exp := int64(0)
	if !l.IsStatic {
		exp = l.Expiry.Unix()
	}

	return fmt.Sprintf("%s|%s|%s|static=%v|exp=%d", l.HWAddr, l.IP, l.Hostname, l.IsStatic, exp)
}

var c05dFrameRe = regexp.MustCompile(`internal/dhcpd\.((?:\(\*?\w+\)\.)?\w+)`)

// c05dPanicFunc names the innermost product function on a panic stack.
func c05dPanicFunc(stack []byte) string {
	for _, m := range c05dFrameRe.FindAllSubmatch(stack, -1) {
		f := string(m[1])
		if strings.Contains(f, "c05d") || strings.HasPrefix(f, "TestVerif") {
			continue
		}

		return f
	}

	return "unknown"
}

type c05dConn struct {
	net.PacketConn
	last []byte
}

func (c *c05dConn) WriteTo(p []byte, _ net.Addr) (n int, err error) {
	c.last = append(c.last[:0], p...)

	return len(p), nil
}

type c05dRound struct {
	rep  *verifkit.Report
	n    int
	dir  string
	srv  *server
	v4   *v4Server
	v6   *v6Server
	self netip.Addr
	pool []netip.Addr

	// Store instrumentation (through the notify fields of the two
	// configurations, which the product calls for every change).
	in4, in6               atomic.Int32
	stores4, stores6       atomic.Int64
	overlap46, overlapSame atomic.Int64

	writersDone atomic.Bool
	panics      atomic.Int32

	// Barrier of the writers: every c05dPhase operations all of them meet, and
	// the last to arrive compares the file with memory while the others wait.
	bmu     sync.Mutex
	bcond   *sync.Cond
	bcount  int
	bgen    int
	bbroken bool
	phases  int
}

func c05dScratch() string {
	for _, d := range []string{os.Getenv("VERIF_SCRATCH"), "/dev/shm", os.TempDir()} {
		if d == "" {
			continue
		}
		if st, err := os.Stat(d); err == nil && st.IsDir() {
			return d
		}
	}

	return "."
}

func TestVerifC05Dhcpd(t *testing.T) {
	prop := os.Getenv("VERIF_DHCPD_PROP")
	if prop == "" {
		prop = "C05"
	}
	rep := verifkit.New(prop, "dhcpd",
		"case = one round: a server from Create with DHCPv4 and DHCPv6 and its own DataDir, worked on concurrently by 2 DHCPv4 client goroutines (disjoint hardware addresses; DISCOVER/REQUEST/RELEASE/DECLINE through handle), a DHCPv4 and a DHCPv6 static-lease administrator, a DHCPv6 client goroutine (SOLICIT/REQUEST/RENEW through packetHandler), 2 readers and a leases.json observer, each a fixed number of seeded operations; every file snapshot must be one complete document, after the join one more store must leave file == memory and loadable; non-trivial = stores of the v4 and the v6 side overlapped in time during the round; distinct by round seed.  A second family (600 rounds quick): a fresh server with a pool of 4-6 addresses, three bursts of 2-4 simultaneous DISCOVERs (each followed by its REQUEST) from ONE new hardware address per burst plus a reader; all copies must be offered one address, the lease list in memory, Leases() and leases.json must have one lease per hardware address and per address, inside the pool, and the pool must serve a full pool's worth of clients before and after everybody released; non-trivial = the DISCOVERs of a burst overlapped in time")
	defer func() {
		if err := rep.Write(); err != nil {
			t.Fatal(err)
		}
	}()
	if runtime.GOMAXPROCS(0) < 4 {
		defer runtime.GOMAXPROCS(runtime.GOMAXPROCS(4))
	}
	rep.EventN("gomaxprocs", runtime.GOMAXPROCS(0))

	base, err := os.MkdirTemp(c05dScratch(), "verif-c05dhcpd-")
	if err != nil {
		rep.Inconcl("cannot create scratch directory: " + err.Error())

		return
	}
	defer func() { _ = os.RemoveAll(base) }()

	rounds := verifkit.Pick(30, 300)
	ops := verifkit.Pick(150, 200)
	for i := 0; i < rounds; i++ {
		r := &c05dRound{rep: rep, n: i, dir: filepath.Join(base, fmt.Sprintf("r%d", i))}
		finished := r.run(ops)
		if !finished {
			rep.Event("rounds_not_finished")

			break
		}
		_ = os.RemoveAll(r.dir)
		overl := r.overlap46.Load() > 0
		rep.Eval(overl, fmt.Sprintf("%d/%d", rep.Seed, i))
		if overl {
			rep.Class("rounds_with_overlapping_v4_v6_stores")
		}
		if r.overlapSame.Load() > 0 {
			rep.Class("rounds_with_overlapping_stores_of_one_family")
		}
		rep.EventN("stores_requested_by_v4", int(r.stores4.Load()))
		rep.EventN("stores_requested_by_v6", int(r.stores6.Load()))
		rep.EventN("store_overlaps_v4_v6", int(r.overlap46.Load()))
		rep.EventN("store_overlaps_same_family", int(r.overlapSame.Load()))
	}
	if rep.EventCount("rounds_not_finished") > 0 {
		return
	}
	c05dSameMAC(rep, base)
	if rep.EventCount("rounds_not_finished") > 0 {
		return
	}
	for _, ev := range []string{"snapshots_validated", "store_overlaps_v4_v6", "stores_requested_by_v4",
		"stores_requested_by_v6", "v4:ack", "v6:reply_with_address", "quiescence_checks",
		"quiescence_comparisons_without_extra_store"} {
		if rep.EventCount(ev) == 0 {
			rep.Inconcl("event never observed: " + ev)
		}
	}
	if rep.EventCount("snapshots_distinct") < rounds {
		rep.Inconcl("the observer saw fewer distinct file contents than rounds")
	}
}

func (r *c05dRound) viol(key, what string, w map[string]any) {
	if w == nil {
		w = map[string]any{}
	}
	w["round"], w["seed"] = r.n, r.rep.Seed
	r.rep.Violate(key, what, w)
}

// guard runs f, turning a panic into a violation.
func (r *c05dRound) guard(name string, wg *sync.WaitGroup, f func(rng *rand.Rand)) {
	wg.Add(1)
	rng := r.rep.Rand(fmt.Sprintf("round%d/%s", r.n, name))
	go func() {
		defer wg.Done()
		defer func() {
			if p := recover(); p != nil {
				st := debug.Stack()
				r.panics.Add(1)
				r.breakBarrier()
				r.viol("panic:"+c05dPanicFunc(st), fmt.Sprintf("panic in goroutine %s: %v", name, p),
					map[string]any{"goroutine": name, "stack": string(st)})
			}
		}()
		f(rng)
	}()
}

func (r *c05dRound) create() (s *server, err error) {
	return Create(&ServerConfig{
		ConfigModified: func() {},
		Enabled:        true,
		InterfaceName:  "verif0",
		Conf4: V4ServerConf{
			GatewayIP:     netip.MustParseAddr("192.168.50.1"),
			SubnetMask:    netip.MustParseAddr("255.255.255.0"),
			RangeStart:    r.pool[0],
			RangeEnd:      r.pool[len(r.pool)-1],
			LeaseDuration: 3600,
			ICMPTimeout:   0,
		},
		Conf6: V6ServerConf{
			RangeStart:    net.ParseIP("2001:db8::10"),
			LeaseDuration: 3600,
		},
		WorkDir: filepath.Join(r.dir, "work"),
		DataDir: filepath.Join(r.dir, "data"),
	})
}

// c05dPhase is the number of operations of every writer between two
// meetings.
const c05dPhase = 15

// c05dWriters is the number of writer goroutines.
const c05dWriters = 5

// meet is called by every writer before its i-th operation.
func (r *c05dRound) meet(i int) {
	if i == 0 || i%c05dPhase != 0 {
		return
	}
	r.bmu.Lock()
	defer r.bmu.Unlock()
	if r.bbroken {
		return
	}
	gen := r.bgen
	r.bcount++
	if r.bcount == c05dWriters {
		// All writers are between two operations: every change has been
		// committed and every store it requested has returned.
		r.phases++
		r.compare("lease-db:differs-from-memory-at-quiescence-without-extra-store", "between two phases of a round")
		r.bcount = 0
		r.bgen++
		r.bcond.Broadcast()

		return
	}
	for gen == r.bgen && !r.bbroken {
		r.bcond.Wait()
	}
}

// breakBarrier releases the writers for good (a writer is gone).
func (r *c05dRound) breakBarrier() {
	r.bmu.Lock()
	r.bbroken = true
	r.bcond.Broadcast()
	r.bmu.Unlock()
}

// c05dWatchdog bounds one round.
const c05dWatchdog = 120 * time.Second

func (r *c05dRound) run(ops int) (finished bool) {
	r.bcond = sync.NewCond(&r.bmu)
	r.self = netip.MustParseAddr("192.168.50.2")
	for i := 0; i < 12; i++ {
		r.pool = append(r.pool, netip.AddrFrom4([4]byte{192, 168, 50, byte(20 + i)}))
	}
	for _, d := range []string{"work", "data"} {
		if err := os.MkdirAll(filepath.Join(r.dir, d), 0o755); err != nil {
			r.rep.Inconcl("mkdir: " + err.Error())

			return false
		}
	}
	var err error
	if r.srv, err = r.create(); err != nil {
		r.rep.Inconcl("Create failed on a valid configuration: " + err.Error())

		return false
	}
	var ok4, ok6 bool
	r.v4, ok4 = r.srv.srv4.(*v4Server)
	r.v6, ok6 = r.srv.srv6.(*v6Server)
	if !ok4 || !ok6 || !r.v6.conf.Enabled {
		r.rep.Inconcl(fmt.Sprintf("unexpected servers %T %T", r.srv.srv4, r.srv.srv6))

		return false
	}
	// What Start does once the interface is known.
	r.v4.configureDNSIPAddrs([]net.IP{r.self.AsSlice()})
	r.v6.conf.dnsIPAddrs = []net.IP{net.ParseIP("2001:db8::1")}
	r.v6.sid = &dhcpv6.DUIDLL{HWType: iana.HWTypeEthernet, LinkLayerAddr: net.HardwareAddr{2, 0, 0, 0, 0, 0xfe}}

	// Watch the store requests of both families.
	wrap := func(orig func(uint32), mine, other *atomic.Int32, stores *atomic.Int64) func(uint32) {
		return func(flags uint32) {
			if flags != LeaseChangedDBStore {
				orig(flags)

				return
			}
			stores.Add(1)
			if mine.Add(1) > 1 {
				r.overlapSame.Add(1)
			}
			if other.Load() > 0 {
				r.overlap46.Add(1)
			}
			orig(flags)
			mine.Add(-1)
		}
	}
	r.v4.conf.notify = wrap(r.v4.conf.notify, &r.in4, &r.in6, &r.stores4)
	r.v6.conf.notify = wrap(r.v6.conf.notify, &r.in6, &r.in4, &r.stores6)

	var writers, others sync.WaitGroup
	r.guard("v4-clients-a", &writers, func(rng *rand.Rand) { r.v4Clients(rng, 0x10, ops) })
	r.guard("v4-clients-b", &writers, func(rng *rand.Rand) { r.v4Clients(rng, 0x20, ops) })
	r.guard("v4-static", &writers, func(rng *rand.Rand) { r.v4Static(rng, ops) })
	r.guard("v6-static", &writers, func(rng *rand.Rand) { r.v6Static(rng, ops) })
	r.guard("v6-clients", &writers, func(rng *rand.Rand) { r.v6Clients(rng, ops) })
	r.guard("reader-a", &others, func(rng *rand.Rand) { r.reader(rng, 2*ops) })
	r.guard("reader-b", &others, func(rng *rand.Rand) { r.reader(rng, 2*ops) })
	r.guard("observer", &others, func(_ *rand.Rand) { r.observer() })
	// Watchdog: a round takes well under a second.  Goroutines that never
	// finish (for example behind a lock that a panicking call left locked) end
	// the run as inconclusive; they cannot be stopped, so no further round is
	// started.
	done := make(chan struct{})
	go func() {
		writers.Wait()
		r.writersDone.Store(true)
		others.Wait()
		close(done)
	}()
	start, stalled := time.Now(), false
	for waiting := true; waiting; {
		select {
		case <-done:
			waiting = false
		case <-time.After(time.Second):
			// After a panic the others may be stuck behind a lock it left
			// locked; don't wait for long then.
			el := time.Since(start)
			if el > c05dWatchdog || (r.panics.Load() > 0 && el > 10*time.Second) {
				waiting, stalled = false, true
			}
		}
	}
	if stalled {
		r.writersDone.Store(true)
		r.breakBarrier()
		buf := make([]byte, 1<<20)
		buf = buf[:runtime.Stack(buf, true)]
		dump := filepath.Join(os.Getenv("VERIF_REPORT_DIR"), r.rep.Property+".dhcpd.stall.txt")
		_ = os.WriteFile(dump, buf, 0o644)
		// Goroutines that have been waiting for a lock for a minute or more
		// inside the package under test (no panic before): nothing will ever
		// release it.  For the property that forbids deadlocks this is the
		// violation itself, and a DHCP server stuck on its own lock answers no
		// client any more (C10); elsewhere the run is inconclusive.
		if fn, n, stack := c05dLongLockWaiters(string(buf)); (r.rep.Property == "C05" || r.rep.Property == "C10") && n > 0 && r.panics.Load() == 0 {
			r.rep.Violate("deadlock:dhcpd:"+fn, fmt.Sprintf("round %d: the goroutines did not finish within %s; %d goroutine(s) have been waiting for a lock inside the DHCP server for a minute or more", r.n, time.Since(start).Round(time.Second), n),
				map[string]any{"one_waiting_goroutine": stack, "goroutine_dump": dump})

			return false
		}
		r.rep.Inconcl(fmt.Sprintf("round %d: the goroutines did not finish within %s, %d panic(s) recovered before (goroutine dump: %s)",
			r.n, time.Since(start).Round(time.Second), r.panics.Load(), dump))

		return false
	}

	r.quiescence()

	return true
}

// ---------------------------------------------------------------------------
// Writers.

func (r *c05dRound) v4Exchange(req *dhcpv4.DHCPv4) (typ dhcpv4.MessageType, yi net.IP, code int) {
	resp, err := dhcpv4.NewReplyFromRequest(req)
	if err != nil {
		return dhcpv4.MessageTypeNone, nil, -2
	}
	code = r.v4.handle(req, resp)
	if code == 0 {
		resp.Options.Update(dhcpv4.OptMessageType(dhcpv4.MessageTypeNak))
	}

	return resp.MessageType(), resp.YourIPAddr, code
}

func (r *c05dRound) v4Clients(rng *rand.Rand, macBase byte, ops int) {
	type cl struct {
		mac     net.HardwareAddr
		offered net.IP
		leased  net.IP
	}
	var cls []*cl
	for i := 0; i < 4; i++ {
		cls = append(cls, &cl{mac: net.HardwareAddr{2, 0, 0, 0, 4, macBase + byte(i)}})
	}
	hosts := []string{"alpha", "beta", "gamma", "", "my host", "Alpha"}
	xid := uint32(macBase) << 16
	mods := func(c *cl, mt dhcpv4.MessageType) []dhcpv4.Modifier {
		xid++
		m := []dhcpv4.Modifier{
			dhcpv4.WithTransactionID(dhcpv4.TransactionID{byte(xid >> 24), byte(xid >> 16), byte(xid >> 8), byte(xid)}),
			dhcpv4.WithHwAddr(c.mac), dhcpv4.WithMessageType(mt), dhcpv4.WithBroadcast(true),
			dhcpv4.WithRequestedOptions(dhcpv4.OptionSubnetMask, dhcpv4.OptionRouter, dhcpv4.OptionDomainNameServer),
		}
		if h := hosts[rng.Intn(len(hosts))]; h != "" {
			m = append(m, dhcpv4.WithOption(dhcpv4.OptHostName(h)))
		}

		return m
	}
	for i := 0; i < ops; i++ {
		r.meet(i)
		c := cls[rng.Intn(len(cls))]
		x := rng.Intn(100)
		switch {
		case c.offered == nil && c.leased == nil || x < 15:
			req, _ := dhcpv4.New(mods(c, dhcpv4.MessageTypeDiscover)...)
			typ, yi, _ := r.v4Exchange(req)
			r.rep.Event("v4:discover")
			if typ == dhcpv4.MessageTypeOffer {
				c.offered = append(net.IP(nil), yi...)
			}
		case c.offered != nil && x < 75:
			m := append(mods(c, dhcpv4.MessageTypeRequest),
				dhcpv4.WithOption(dhcpv4.OptRequestedIPAddress(c.offered)),
				dhcpv4.WithOption(dhcpv4.OptServerIdentifier(r.self.AsSlice())))
			req, _ := dhcpv4.New(m...)
			typ, yi, _ := r.v4Exchange(req)
			r.rep.Event("v4:request-selecting")
			c.offered = nil
			if typ == dhcpv4.MessageTypeAck {
				r.rep.Event("v4:ack")
				c.leased = append(net.IP(nil), yi...)
			}
		case c.leased != nil && x < 55:
			m := append(mods(c, dhcpv4.MessageTypeRequest), dhcpv4.WithClientIP(c.leased))
			req, _ := dhcpv4.New(m...)
			typ, _, _ := r.v4Exchange(req)
			r.rep.Event("v4:request-renew")
			if typ == dhcpv4.MessageTypeAck {
				r.rep.Event("v4:ack")
			} else {
				c.leased = nil
			}
		case x < 80:
			ip := c.leased
			if ip == nil {
				ip = c.offered
			}
			if ip == nil {
				ip = r.pool[rng.Intn(len(r.pool))].AsSlice()
			}
			m := append(mods(c, dhcpv4.MessageTypeRelease), dhcpv4.WithClientIP(ip),
				dhcpv4.WithOption(dhcpv4.OptServerIdentifier(r.self.AsSlice())))
			req, _ := dhcpv4.New(m...)
			r.v4Exchange(req)
			r.rep.Event("v4:release")
			c.leased, c.offered = nil, nil
		default:
			ip := c.leased
			if ip == nil {
				ip = c.offered
			}
			if ip == nil {
				ip = r.pool[rng.Intn(len(r.pool))].AsSlice()
			}
			m := append(mods(c, dhcpv4.MessageTypeDecline),
				dhcpv4.WithOption(dhcpv4.OptRequestedIPAddress(ip)),
				dhcpv4.WithOption(dhcpv4.OptServerIdentifier(r.self.AsSlice())))
			req, _ := dhcpv4.New(m...)
			typ, yi, _ := r.v4Exchange(req)
			r.rep.Event("v4:decline")
			c.leased, c.offered = nil, nil
			if typ == dhcpv4.MessageTypeAck && yi != nil && !yi.IsUnspecified() {
				c.leased = append(net.IP(nil), yi...)
			}
		}
	}
}

func (r *c05dRound) v4Static(rng *rand.Rand, ops int) {
	var macs []net.HardwareAddr
	for i := 0; i < 4; i++ {
		macs = append(macs, net.HardwareAddr{2, 0, 0, 0, 4, 0x80 + byte(i)})
	}
	hosts := []string{"printer", "nas", "alpha", "", "cam"}
	ipOf := func() netip.Addr {
		if rng.Intn(3) == 0 {
			return r.pool[len(r.pool)-1-rng.Intn(4)]
		}

		return netip.AddrFrom4([4]byte{192, 168, 50, byte(100 + rng.Intn(6))})
	}
	for i := 0; i < ops; i++ {
		r.meet(i)
		mac := macs[rng.Intn(len(macs))]
		switch x := rng.Intn(100); {
		case x < 45:
			l := &dhcpsvc.Lease{HWAddr: append(net.HardwareAddr(nil), mac...), IP: ipOf(), Hostname: hosts[rng.Intn(len(hosts))], IsStatic: true}
			err := r.srv.srv4.AddStaticLease(l)
			r.rep.Event("v4:static-add:" + c05dOK(err))
		case x < 65:
			l := &dhcpsvc.Lease{HWAddr: append(net.HardwareAddr(nil), mac...), IP: ipOf(), Hostname: hosts[rng.Intn(3)], IsStatic: true}
			err := r.srv.srv4.UpdateStaticLease(l)
			r.rep.Event("v4:static-update:" + c05dOK(err))
		default:
			var mine []*dhcpsvc.Lease
			for _, l := range r.srv.srv4.GetLeases(LeasesStatic) {
				if len(l.HWAddr) == 6 && l.HWAddr[5] >= 0x80 {
					mine = append(mine, l)
				}
			}
			if len(mine) == 0 {
				continue
			}
			l := mine[rng.Intn(len(mine))]
			err := r.srv.srv4.RemoveStaticLease(l)
			r.rep.Event("v4:static-remove:" + c05dOK(err))
		}
	}
}

func c05dOK(err error) string {
	if err != nil {
		return "rejected"
	}

	return "accepted"
}

func (r *c05dRound) v6Static(rng *rand.Rand, ops int) {
	var macs []net.HardwareAddr
	for i := 0; i < 5; i++ {
		macs = append(macs, net.HardwareAddr{2, 0, 0, 0, 6, 0x80 + byte(i)})
	}
	hosts := []string{"six-a", "six-b", "", "six-c"}
	ipOf := func() netip.Addr {
		b := netip.MustParseAddr("2001:db8::").As16()
		b[15] = byte(0x80 + rng.Intn(8))

		return netip.AddrFrom16(b)
	}
	for i := 0; i < ops; i++ {
		r.meet(i)
		mac := macs[rng.Intn(len(macs))]
		switch x := rng.Intn(100); {
		case x < 50:
			l := &dhcpsvc.Lease{HWAddr: append(net.HardwareAddr(nil), mac...), IP: ipOf(), Hostname: hosts[rng.Intn(len(hosts))], IsStatic: true}
			err := r.srv.srv6.AddStaticLease(l)
			r.rep.Event("v6:static-add:" + c05dOK(err))
		case x < 65:
			l := &dhcpsvc.Lease{HWAddr: append(net.HardwareAddr(nil), mac...), IP: ipOf(), Hostname: hosts[rng.Intn(len(hosts))], IsStatic: true}
			err := r.srv.srv6.UpdateStaticLease(l)
			r.rep.Event("v6:static-update:" + c05dOK(err))
		default:
			var mine []*dhcpsvc.Lease
			for _, l := range r.srv.srv6.GetLeases(LeasesStatic) {
				if len(l.HWAddr) == 6 && l.HWAddr[5] >= 0x80 {
					mine = append(mine, l)
				}
			}
			if len(mine) == 0 {
				continue
			}
			l := mine[rng.Intn(len(mine))]
			err := r.srv.srv6.RemoveStaticLease(l)
			r.rep.Event("v6:static-remove:" + c05dOK(err))
		}
	}
}

func (r *c05dRound) v6Clients(rng *rand.Rand, ops int) {
	type cl struct {
		mac net.HardwareAddr
		adv *dhcpv6.Message
		rep *dhcpv6.Message
	}
	var cls []*cl
	for i := 0; i < 3; i++ {
		cls = append(cls, &cl{mac: net.HardwareAddr{2, 0, 0, 0, 6, 0x10 + byte(i)}})
	}
	conn := &c05dConn{}
	peer := &net.UDPAddr{IP: net.ParseIP("fe80::1"), Port: 546}
	send := func(m *dhcpv6.Message) *dhcpv6.Message {
		conn.last = conn.last[:0]
		r.v6.packetHandler(conn, peer, m)
		if len(conn.last) == 0 {
			return nil
		}
		resp, err := dhcpv6.MessageFromBytes(conn.last)
		if err != nil {
			return nil
		}

		return resp
	}
	hasAddr := func(m *dhcpv6.Message) bool {
		if m == nil {
			return false
		}
		oia := m.Options.OneIANA()

		return oia != nil && oia.Options.OneAddress() != nil
	}
	for i := 0; i < ops; i++ {
		r.meet(i)
		c := cls[rng.Intn(len(cls))]
		switch {
		case c.adv == nil && c.rep == nil || rng.Intn(10) == 0:
			sol, err := dhcpv6.NewSolicit(c.mac)
			if err != nil {
				continue
			}
			r.rep.Event("v6:solicit")
			if resp := send(sol); hasAddr(resp) && resp.Type() == dhcpv6.MessageTypeAdvertise {
				c.adv = resp
			}
		case c.adv != nil:
			req, err := dhcpv6.NewRequestFromAdvertise(c.adv)
			c.adv = nil
			if err != nil {
				continue
			}
			r.rep.Event("v6:request")
			if resp := send(req); hasAddr(resp) {
				r.rep.Event("v6:reply_with_address")
				c.rep = resp
			}
		default:
			// RENEW built from the last reply.
			ren, err := dhcpv6.NewMessage()
			if err != nil {
				continue
			}
			ren.MessageType = dhcpv6.MessageTypeRenew
			ren.AddOption(c.rep.Options.GetOne(dhcpv6.OptionClientID))
			ren.AddOption(dhcpv6.OptServerID(r.v6.sid))
			ren.AddOption(c.rep.Options.OneIANA())
			r.rep.Event("v6:renew")
			if resp := send(ren); hasAddr(resp) {
				r.rep.Event("v6:reply_with_address")
			} else {
				c.rep = nil
			}
		}
	}
}

// ---------------------------------------------------------------------------
// Readers and the observer.

func (r *c05dRound) reader(rng *rand.Rand, ops int) {
	hosts := []string{"alpha", "beta", "printer", "nas", "six-a", "my-host", "192-168-50-20"}
	for i := 0; i < ops; i++ {
		switch rng.Intn(8) {
		case 0:
			_ = r.srv.Leases()
		case 1:
			_ = r.srv.srv4.GetLeases(GetLeasesFlags(1 + rng.Intn(3)))
		case 2:
			_ = r.srv.srv6.GetLeases(GetLeasesFlags(1 + rng.Intn(3)))
		case 3:
			_ = r.srv.HostByIP(r.pool[rng.Intn(len(r.pool))])
		case 4:
			_ = r.srv.IPByHost(hosts[rng.Intn(len(hosts))])
			_ = r.srv.srv6.IPByHost(hosts[rng.Intn(len(hosts))])
		case 5:
			_ = r.srv.MACByIP(r.pool[rng.Intn(len(r.pool))])
		case 6:
			b := netip.MustParseAddr("2001:db8::").As16()
			b[15] = byte(0x10 + rng.Intn(0x80))
			a := netip.AddrFrom16(b)
			_ = r.srv.MACByIP(a)
			_ = r.srv.srv6.HostByIP(a)
			_ = r.srv.srv6.FindMACbyIP(a)
		default:
			c := &ServerConfig{}
			r.srv.WriteDiskConfig(c)
		}
		r.rep.Event("reads")
		if i%8 == 0 {
			runtime.Gosched()
		}
	}
}

func (r *c05dRound) observer() {
	path := filepath.Join(r.dir, "data", dataFilename)
	seen := map[string]bool{}
	bad := 0
	for n := 0; ; n++ {
		done := r.writersDone.Load()
		data, err := os.ReadFile(path)
		switch {
		case err != nil && os.IsNotExist(err):
			// Nothing stored yet.
		case err != nil:
			r.viol("lease-db:unreadable-snapshot", "reading leases.json failed: "+err.Error(), nil)
			bad++
		default:
			r.rep.Event("snapshots_validated")
			h := verifkit.Hash(string(data))
			if !seen[h] {
				seen[h] = true
				r.rep.Event("snapshots_distinct")
				if _, perr := c05dParse(data); perr != nil {
					bad++
					r.viol("lease-db:invalid-snapshot",
						"a snapshot of leases.json taken while the servers were working is not one complete document: "+perr.Error(),
						map[string]any{"snapshot_number": n, "size": len(data), "head": c05dClip(data), "error": perr.Error()})
				}
			}
		}
		if done || bad >= 3 {
			return
		}
		if n%4 == 0 {
			runtime.Gosched()
		}
	}
}

// c05dZeroExp marks a dynamic lease that was never committed.
var c05dZeroExp = fmt.Sprintf("|static=false|exp=%d", time.Time{}.Unix())

// c05dV6Offer reports whether the canonical entry e is a DHCPv6 lease that was
// reserved for a SOLICIT and never committed.
func c05dV6Offer(e string) bool {
	p := strings.Split(e, "|")

	return len(p) > 1 && strings.Contains(p[1], ":") && strings.HasSuffix(e, c05dZeroExp)
}

// compare reads leases.json and the tables in memory and requires them to
// list the same leases.  It must only be called when no writer is inside an
// operation.  With tolerateV6Offers (comparisons not preceded by a store of
// their own) DHCPv6 leases reserved by a SOLICIT are left out on both sides:
// (*v6Server).process adds them to the table without requesting a store.
func (r *c05dRound) compareOpt(key, stage string, tolerateV6Offers bool) (data []byte, ok bool) {
	if n4, n6 := r.in4.Load(), r.in6.Load(); n4 != 0 || n6 != 0 {
		r.rep.Inconcl(fmt.Sprintf("round %d: %d/%d store requests still running at a quiescent point", r.n, n4, n6))

		return nil, false
	}
	data, err := os.ReadFile(filepath.Join(r.dir, "data", dataFilename))
	if err != nil {
		if os.IsNotExist(err) && r.stores4.Load()+r.stores6.Load() == 0 {
			return nil, false
		}
		r.viol("lease-db:missing-at-quiescence", "leases.json cannot be read "+stage+": "+err.Error(), nil)

		return nil, false
	}
	file, err := c05dParse(data)
	if err != nil {
		r.viol("lease-db:invalid-at-quiescence", "leases.json is not one complete document "+stage+": "+err.Error(),
			map[string]any{"size": len(data), "head": c05dClip(data)})

		return data, false
	}
	var mem []string
	r.v4.leasesLock.Lock()
	for _, l := range r.v4.leases {
		mem = append(mem, c05dLeaseStr(l))
	}
	r.v4.leasesLock.Unlock()
	r.v6.leasesLock.Lock()
	for _, l := range r.v6.leases {
		mem = append(mem, c05dLeaseStr(l))
	}
	r.v6.leasesLock.Unlock()
	sort.Strings(mem)
	if tolerateV6Offers {
		drop := func(in []string) (out []string) {
			for _, e := range in {
				if c05dV6Offer(e) {
					r.rep.Unspec("DHCPv6 lease reserved by a SOLICIT (added to the table without a store request) left out of a comparison not preceded by a store")

					continue
				}
				out = append(out, e)
			}

			return out
		}
		mem, file = drop(mem), drop(file)
	}
	r.rep.EventN("db_entries_compared_at_quiescence", len(file))
	if strings.Join(mem, "\n") != strings.Join(file, "\n") {
		var onlyMem, onlyFile []string
		fm, mm := map[string]int{}, map[string]int{}
		for _, e := range file {
			fm[e]++
		}
		for _, e := range mem {
			mm[e]++
			if mm[e] > fm[e] {
				onlyMem = append(onlyMem, e)
			}
		}
		seen := map[string]int{}
		for _, e := range file {
			seen[e]++
			if seen[e] > mm[e] {
				onlyFile = append(onlyFile, e)
			}
		}
		r.viol(key, "with every writer between two operations ("+stage+") leases.json does not list exactly the leases in memory",
			map[string]any{"stage": stage, "only_in_memory": onlyMem, "only_in_file": onlyFile, "memory": mem, "file": file,
				"stores_requested_so_far": r.stores4.Load() + r.stores6.Load()})

		return data, false
	}

	return data, true
}

func (r *c05dRound) compare(key, stage string) {
	r.rep.Event("quiescence_comparisons_without_extra_store")
	r.compareOpt(key, stage, true)
}

// quiescence is run after all goroutines of the round are joined.  First the
// file is compared with memory and loaded as it is: every committed change has
// requested its own store after the commit, stores are serialized, so the
// store that ran last read the tables after the last commit.  Only then one
// more store is requested and the comparison repeated.
func (r *c05dRound) quiescence() {
	r.rep.Event("quiescence_checks")
	r.phases++
	r.rep.Event("quiescence_comparisons_without_extra_store")
	data, _ := r.compareOpt("lease-db:differs-from-memory-at-quiescence-without-extra-store", "after all goroutines of the round were joined, before any further store", true)
	r.reload(data, "before any further store")

	func() {
		defer func() {
			if p := recover(); p != nil {
				st := debug.Stack()
				r.viol("panic:"+c05dPanicFunc(st), fmt.Sprintf("panic in the final store: %v", p), map[string]any{"stack": string(st)})
			}
		}()
		// The call every change ends with.
		r.v4.conf.notify(LeaseChangedDBStore)
	}()
	data, _ = r.compareOpt("lease-db:differs-from-memory-after-quiescence", "after all goroutines were joined and one more store was requested", false)
	r.reload(data, "after the final store")
	r.structure("mixed-workload")
	r.rep.EventN("phases", r.phases)
}

// reload requires the file as it is to load into a fresh server.
func (r *c05dRound) reload(data []byte, stage string) {
	defer func() {
		if p := recover(); p != nil {
			st := debug.Stack()
			r.viol("panic:"+c05dPanicFunc(st), fmt.Sprintf("panic while loading: %v", p), map[string]any{"stack": string(st)})
		}
	}()
	if _, cerr := r.create(); cerr != nil {
		r.viol("lease-db:reload-failed", "Create on the same DataDir failed "+stage+": "+cerr.Error(),
			map[string]any{"size": len(data), "head": c05dClip(data)})
	} else {
		r.rep.Event("reloads_ok")
	}
}

// ---------------------------------------------------------------------------
// Structural invariants of the lease table, independent of the interleaving.

// structure requires, with every goroutine joined: at most one DHCPv4 lease
// per hardware address and per IP address in the server's list, in Leases()
// and in leases.json, and every dynamic DHCPv4 address inside the pool.
func (r *c05dRound) structure(family string) (ok bool) {
	ok = true
	r.rep.Event("structure_checks")
	check := func(where string, ls []string) {
		byMAC, byIP := map[string]string{}, map[string]string{}
		for _, e := range ls {
			p := strings.Split(e, "|")
			if len(p) < 4 || strings.Contains(p[1], ":") {
				// DHCPv6.
				continue
			}
			if o, dup := byMAC[p[0]]; dup && p[0] != "00:00:00:00:00:00" {
				ok = false
				r.viol("stress:client-holds-two-leases:"+family,
					fmt.Sprintf("%s lists two leases for the hardware address %s", where, p[0]),
					map[string]any{"where": where, "first": o, "second": e, "all": ls})
			}
			if o, dup := byIP[p[1]]; dup {
				ok = false
				r.viol("stress:address-leased-twice:"+family,
					fmt.Sprintf("%s lists two leases for the address %s", where, p[1]),
					map[string]any{"where": where, "first": o, "second": e, "all": ls})
			}
			byMAC[p[0]], byIP[p[1]] = e, e
			if p[3] == "static=false" {
				a, err := netip.ParseAddr(p[1])
				if err != nil || a.Less(r.pool[0]) || r.pool[len(r.pool)-1].Less(a) {
					ok = false
					r.viol("stress:dynamic-lease-outside-pool:"+family,
						fmt.Sprintf("%s has the dynamic lease %s outside the pool", where, e), map[string]any{"all": ls})
				}
			}
		}
	}
	var mem, view []string
	r.v4.leasesLock.Lock()
	for _, l := range r.v4.leases {
		mem = append(mem, c05dLeaseStr(l))
	}
	r.v4.leasesLock.Unlock()
	for _, l := range r.srv.Leases() {
		view = append(view, c05dLeaseStr(l))
	}
	check("the lease list in memory", mem)
	check("Leases()", view)
	if data, err := os.ReadFile(filepath.Join(r.dir, "data", dataFilename)); err == nil {
		if file, perr := c05dParse(data); perr == nil {
			check("leases.json", file)
		}
	}

	return ok
}

// ---------------------------------------------------------------------------
// Same-client concurrency: several copies of one new client's DISCOVER (the
// broadcast and a relayed copy, a retransmission) are handled at once.

// c05dBurstRes is what one goroutine of a burst saw.
type c05dBurstRes struct {
	start, end time.Time
	offer      netip.Addr
	offered    bool
	acked      bool
}

func c05dSameMAC(rep *verifkit.Report, base string) {
	rounds := verifkit.Pick(600, 6000)
	overlapped, bursts := 0, 0
	for i := 0; i < rounds; i++ {
		r := &c05dRound{rep: rep, n: 100000 + i, dir: filepath.Join(base, fmt.Sprintf("s%d", i))}
		fin, nb, no := r.runSameMAC()
		_ = os.RemoveAll(r.dir)
		if !fin {
			rep.Event("rounds_not_finished")

			return
		}
		bursts += nb
		overlapped += no
		rep.Eval(no > 0, fmt.Sprintf("same-mac/%d/%d", rep.Seed, i))
		if no > 0 {
			rep.Class("same_mac_rounds_with_overlapping_discovers")
		} else {
			rep.Class("same_mac_rounds_without_overlap")
		}
	}
	rep.EventN("same_mac_bursts", bursts)
	rep.EventN("same_mac_bursts_with_overlapping_discovers", overlapped)
	if overlapped*4 < bursts {
		rep.Inconcl(fmt.Sprintf("same-client DISCOVERs overlapped in time in only %d of %d bursts", overlapped, bursts))
	}
}

func (r *c05dRound) sameMACReq(mac net.HardwareAddr, mt dhcpv4.MessageType, xid uint32, extra ...dhcpv4.Modifier) *dhcpv4.DHCPv4 {
	m := []dhcpv4.Modifier{
		dhcpv4.WithTransactionID(dhcpv4.TransactionID{byte(xid >> 24), byte(xid >> 16), byte(xid >> 8), byte(xid)}),
		dhcpv4.WithHwAddr(mac), dhcpv4.WithMessageType(mt), dhcpv4.WithBroadcast(true),
		dhcpv4.WithRequestedOptions(dhcpv4.OptionSubnetMask, dhcpv4.OptionRouter),
	}
	req, _ := dhcpv4.New(append(m, extra...)...)

	return req
}

// runSameMAC is one round: a fresh server with a pool of 4-6 addresses, three
// bursts of 2-4 simultaneous DISCOVERs (each followed by a REQUEST for what
// was offered) from one new hardware address per burst, a reader; then the
// structural checks, and the pool must still serve a full pool's worth of
// clients before and after everything is released.
func (r *c05dRound) runSameMAC() (finished bool, bursts, overlapped int) {
	rng := r.rep.Rand(fmt.Sprintf("same-mac/%d", r.n))
	r.bcond = sync.NewCond(&r.bmu)
	r.self = netip.MustParseAddr("192.168.50.2")
	size := 4 + rng.Intn(3)
	for i := 0; i < size; i++ {
		r.pool = append(r.pool, netip.AddrFrom4([4]byte{192, 168, 50, byte(20 + i)}))
	}
	for _, d := range []string{"work", "data"} {
		if err := os.MkdirAll(filepath.Join(r.dir, d), 0o755); err != nil {
			r.rep.Inconcl("mkdir: " + err.Error())

			return false, 0, 0
		}
	}
	var err error
	if r.srv, err = r.create(); err != nil {
		r.rep.Inconcl("Create failed on a valid configuration: " + err.Error())

		return false, 0, 0
	}
	var ok4, ok6 bool
	r.v4, ok4 = r.srv.srv4.(*v4Server)
	r.v6, ok6 = r.srv.srv6.(*v6Server)
	if !ok4 || !ok6 {
		r.rep.Inconcl(fmt.Sprintf("unexpected servers %T %T", r.srv.srv4, r.srv.srv6))

		return false, 0, 0
	}
	r.v4.configureDNSIPAddrs([]net.IP{r.self.AsSlice()})

	var xid atomic.Uint32
	stopReader := make(chan struct{})
	var readerWG sync.WaitGroup
	r.guard("same-mac-reader", &readerWG, func(rrng *rand.Rand) {
		for {
			select {
			case <-stopReader:
				return
			default:
			}
			_ = r.srv.HostByIP(r.pool[rrng.Intn(len(r.pool))])
			_ = r.srv.Leases()
			_ = r.srv.MACByIP(r.pool[rrng.Intn(len(r.pool))])
			runtime.Gosched()
		}
	})

	const nBursts = 3
	var held []net.HardwareAddr
	for b := 0; b < nBursts; b++ {
		mac := net.HardwareAddr{2, 0, 0, 0, 0x5a, byte(b + 1)}
		held = append(held, mac)
		k := 2 + rng.Intn(3)
		res := make([]c05dBurstRes, k)
		start := make(chan struct{})
		var wg sync.WaitGroup
		for g := 0; g < k; g++ {
			g := g
			r.guard(fmt.Sprintf("same-mac-client-%d", g), &wg, func(_ *rand.Rand) {
				disc := r.sameMACReq(mac, dhcpv4.MessageTypeDiscover, xid.Add(1))
				<-start
				res[g].start = time.Now()
				typ, yi, _ := r.v4Exchange(disc)
				res[g].end = time.Now()
				r.rep.Event("same_mac:discover")
				if typ != dhcpv4.MessageTypeOffer {
					return
				}
				a, ok := netip.AddrFromSlice(yi.To4())
				if !ok {
					return
				}
				res[g].offer, res[g].offered = a, true
				req := r.sameMACReq(mac, dhcpv4.MessageTypeRequest, xid.Add(1),
					dhcpv4.WithOption(dhcpv4.OptRequestedIPAddress(yi)),
					dhcpv4.WithOption(dhcpv4.OptServerIdentifier(r.self.AsSlice())))
				typ, _, _ = r.v4Exchange(req)
				r.rep.Event("same_mac:request")
				res[g].acked = typ == dhcpv4.MessageTypeAck
			})
		}
		close(start)
		if !r.waitOrStall(&wg) {
			close(stopReader)

			return false, bursts, overlapped
		}
		bursts++
		// Did two of the DISCOVERs overlap in time?
		ov := false
		for i := 0; i < k; i++ {
			for j := i + 1; j < k; j++ {
				if res[i].start.Before(res[j].end) && res[j].start.Before(res[i].end) {
					ov = true
				}
			}
		}
		if ov {
			overlapped++
		}
		// No lease change lies between the DISCOVERs of a burst (an ACK keeps the
		// address), so every copy must have been offered the same address.
		var first netip.Addr
		for g := 0; g < k; g++ {
			if !res[g].offered {
				r.viol("stress:discover-unanswered:same-mac-discovers",
					fmt.Sprintf("copy %d of the DISCOVER of %s got no OFFER although the pool of %d has at most %d clients", g, mac, size, b+1), nil)

				continue
			}
			if !first.IsValid() {
				first = res[g].offer
			} else if first != res[g].offer {
				var offers []string
				for _, x := range res {
					offers = append(offers, x.offer.String())
				}
				r.viol("stress:client-offered-different-addresses:same-mac-discovers",
					fmt.Sprintf("%d simultaneous DISCOVERs of the new client %s were offered %v", k, mac, offers),
					map[string]any{"offers": offers, "discovers_overlapped": ov})

				break
			}
		}
		if !r.structure("same-mac-discovers") {
			break
		}
	}
	close(stopReader)
	if !r.waitOrStall(&readerWG) {
		return false, bursts, overlapped
	}
	if r.rep.Violated() && r.panics.Load() > 0 {
		return true, bursts, overlapped
	}
	r.compareOpt("lease-db:differs-from-memory-at-quiescence-without-extra-store", "after the same-client bursts were joined", true)

	// The pool has size addresses and nBursts clients: size-nBursts further
	// clients must each be served.
	serve := func(mac net.HardwareAddr, stage string, clients int) bool {
		typ, yi, _ := r.v4Exchange(r.sameMACReq(mac, dhcpv4.MessageTypeDiscover, xid.Add(1)))
		if typ != dhcpv4.MessageTypeOffer {
			r.viol("stress:pool-address-leaked",
				fmt.Sprintf("%s: client number %d of a pool of %d addresses got no OFFER", stage, clients, size),
				map[string]any{"stage": stage, "memory": c05dStrs(r.v4)})

			return false
		}
		typ, _, _ = r.v4Exchange(r.sameMACReq(mac, dhcpv4.MessageTypeRequest, xid.Add(1),
			dhcpv4.WithOption(dhcpv4.OptRequestedIPAddress(yi)),
			dhcpv4.WithOption(dhcpv4.OptServerIdentifier(r.self.AsSlice()))))
		if typ != dhcpv4.MessageTypeAck {
			r.viol("stress:offered-address-not-acknowledged",
				fmt.Sprintf("%s: the REQUEST of %s for the address just offered was not acknowledged", stage, mac), nil)

			return false
		}

		return true
	}
	for c := nBursts; c < size; c++ {
		mac := net.HardwareAddr{2, 0, 0, 0, 0x5b, byte(c)}
		held = append(held, mac)
		if !serve(mac, "after the same-client bursts", c+1) {
			return true, bursts, overlapped
		}
	}
	r.structure("same-mac-discovers")
	// Everybody releases; then a full pool's worth of new clients.
	for _, l := range r.srv.Leases() {
		rel := r.sameMACReq(l.HWAddr, dhcpv4.MessageTypeRelease, xid.Add(1), dhcpv4.WithClientIP(l.IP.AsSlice()),
			dhcpv4.WithOption(dhcpv4.OptServerIdentifier(r.self.AsSlice())))
		r.v4Exchange(rel)
	}
	if n := len(r.srv.Leases()); n != 0 {
		r.viol("stress:leases-left-after-release", fmt.Sprintf("%d leases left after every client released its lease", n),
			map[string]any{"memory": c05dStrs(r.v4)})

		return true, bursts, overlapped
	}
	for c := 0; c < size; c++ {
		if !serve(net.HardwareAddr{2, 0, 0, 0, 0x5c, byte(c)}, "after every lease was released", c+1) {
			return true, bursts, overlapped
		}
	}
	r.rep.Event("same_mac_rounds_pool_refilled")
	r.structure("same-mac-discovers")
	r.compareOpt("lease-db:differs-from-memory-at-quiescence-without-extra-store", "at the end of a same-client round", true)

	return true, bursts, overlapped
}

func c05dStrs(v4 *v4Server) (out []string) {
	v4.leasesLock.Lock()
	defer v4.leasesLock.Unlock()
	for _, l := range v4.leases {
		out = append(out, c05dLeaseStr(l))
	}

	return out
}

// waitOrStall waits for wg with the watchdog of the rounds.
func (r *c05dRound) waitOrStall(wg *sync.WaitGroup) (ok bool) {
	done := make(chan struct{})
	go func() {
		wg.Wait()
		close(done)
	}()
	start := time.Now()
	for {
		select {
		case <-done:
			return true
		case <-time.After(time.Second):
			el := time.Since(start)
			if el > c05dWatchdog || (r.panics.Load() > 0 && el > 10*time.Second) {
				r.rep.Inconcl(fmt.Sprintf("round %d: goroutines did not finish within %s, %d panic(s) recovered before", r.n, el.Round(time.Second), r.panics.Load()))

				return false
			}
		}
	}
}

// c05dLongLockWaiters looks in a goroutine dump for goroutines that have been
// blocked on a mutex for at least a minute with a function of this package
// (not of the harness) on the stack.  It returns the innermost such function,
// their number and one stack.
func c05dLongLockWaiters(dump string) (fn string, n int, stack string) {
	for _, g := range strings.Split(dump, "\n\n") {
		g = strings.TrimSpace(g)
		if !strings.HasPrefix(g, "goroutine ") {
			continue
		}
		lines := strings.Split(g, "\n")
		head := lines[0]
		if !strings.Contains(head, "minutes]") || !(strings.Contains(head, "Mutex.Lock") || strings.Contains(head, "RWMutex") || strings.Contains(head, "semacquire")) {
			continue
		}
		inner := ""
		for i := 1; i+1 < len(lines); i += 2 {
			f, loc := lines[i], lines[i+1]
			if strings.Contains(f, "/internal/dhcpd.") && !strings.Contains(loc, "_test.go") {
				inner = f[strings.LastIndex(f, "/")+1:]
				if k := strings.LastIndex(inner, "("); k > 0 {
					inner = inner[:k]
				}

				break
			}
		}
		if inner == "" {
			continue
		}
		n++
		if fn == "" {
			fn, stack = inner, g
			if len(stack) > 1500 {
				stack = stack[:1500]
			}
		}
	}

	return fn, n, stack
}
