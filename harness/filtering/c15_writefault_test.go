//go:build verif && linux

package filtering

import (
	"bytes"
	"fmt"
	"math/rand"
	"os"
	"os/signal"
	"path/filepath"
	"strings"
	"syscall"
	"testing"

	"github.com/AdguardTeam/AdGuardHome/internal/verifkit"
)

// This part adds the write-fault family: while a refresh runs, the process may
// not grow any regular file beyond a limit (RLIMIT_FSIZE with SIGXFSZ ignored,
// so that write(2) past the limit fails with EFBIG the way it fails with ENOSPC
// on a full disk).  The limit is lowered around the single refresh call only
// and restored before the monitor reads or writes anything itself; list
// servers are goroutines of this process, but sockets are not subject to the
// limit.

// c15WithFileLimit runs f with the soft file-size limit set to limit.
func c15WithFileLimit(limit uint64, f func()) (err error) {
	var old syscall.Rlimit
	if err = syscall.Getrlimit(syscall.RLIMIT_FSIZE, &old); err != nil {
		return err
	}
	if err = syscall.Setrlimit(syscall.RLIMIT_FSIZE, &syscall.Rlimit{Cur: limit, Max: old.Max}); err != nil {
		return err
	}
	defer func() {
		if rerr := syscall.Setrlimit(syscall.RLIMIT_FSIZE, &old); rerr != nil && err == nil {
			err = rerr
		}
	}()
	f()

	return nil
}

// c15LimitWorks checks on a scratch file that the limit really makes writes
// fail without killing the process.
func c15LimitWorks(dir string) error {
	p := filepath.Join(dir, "limit-probe")
	var werr error
	var n int
	err := c15WithFileLimit(10, func() {
		var f *os.File
		if f, werr = os.Create(p); werr != nil {
			return
		}
		n, werr = f.Write(bytes.Repeat([]byte("x"), 100))
		_ = f.Close()
	})
	if err != nil {
		return err
	}
	if werr == nil || n != 10 {
		return fmt.Errorf("write of 100 bytes under a limit of 10 wrote %d bytes, error %v", n, werr)
	}
	// And the limit is gone again.
	if err = os.WriteFile(p, bytes.Repeat([]byte("x"), 100000), 0o644); err != nil {
		return fmt.Errorf("limit not restored: %w", err)
	}

	return os.Remove(p)
}

var c15WFSizes = []int{200, 400, 900, 2000, 3500, 4000, 4096, 4200, 6000, 8192, 8300, 12000, 20000, 40000,
	65536, 66000, 70000, 131072, 140000, 270000}

// c15SizedText returns a plain, unambiguous text whose normal form is at least
// target bytes long (and not much longer).
func c15SizedText(rng *rand.Rand, probe string, target int) *c15Text {
	t := c15GenText(rng, probe, "plain", 3)
	for try := 0; try < 50 && len(c15Exotic(t.Bytes)) > 0; try++ {
		t = c15GenText(rng, probe, "plain", 3)
	}
	if len(c15Exotic(t.Bytes)) > 0 {
		t = &c15Text{Bytes: []byte("||" + probe + "^\n"), Probe: probe, ProbeEnd: len(probe) + 4, Class: "plain"}
	}
	nf, _ := c15Normalise(t.Bytes, false, false, false)
	have := len(nf)
	if have >= target {
		return t
	}
	var sb bytes.Buffer
	sb.Write(t.Bytes)
	if n := len(t.Bytes); n > 0 && t.Bytes[n-1] != '\n' {
		sb.WriteString("\n")
	}
	for i := 0; have < target; i++ {
		var line string
		switch k := rng.Intn(40); {
		case k == 0 && target-have > 9000:
			line = "||" + strings.Repeat("b", 4000+rng.Intn(5000)) + ".example.org^"
		case k == 1 && target-have > 70000:
			line = "||" + strings.Repeat("c", 30000+rng.Intn(25000)) + ".example.org^"
		case k < 6:
			sb.WriteString([]string{"# filler comment\n", "\r\n", "! filler\r\n", "  \n"}[rng.Intn(4)])

			continue
		default:
			line = fmt.Sprintf("||f%05d-%s.example.org^", i, c15Words[rng.Intn(len(c15Words))])
		}
		if r := target - have; r < len(line)+1 && r >= 16 {
			// Land on the target exactly.
			line = "||" + strings.Repeat("z", r-15) + ".example.org"
		}
		sb.WriteString(line)
		sb.WriteString([]string{"\n", "\n", "\r\n"}[rng.Intn(3)])
		have += len(line) + 1
	}

	return &c15Text{Bytes: sb.Bytes(), Probe: probe, ProbeEnd: t.ProbeEnd, Class: "plain-sized"}
}

// c15WFLimit draws a file-size limit for a stored form of l bytes and names
// where the failing write lands.
func c15WFLimit(rng *rand.Rand, l int) (limit int, how string) {
	lastBlock := (l - 1) / 4096 * 4096
	type cand struct {
		v   int
		how string
	}
	cands := []cand{
		{l - 1, "size-1"}, {l - 1, "size-1"}, {l - 100, "size-100"}, {l - 4095, "size-4095"}, {l - 4096, "size-4096"}, {l - 4097, "size-4097"},
		{l / 2, "size/2"}, {1, "1"}, {0, "0"}, {4095, "4095"}, {4096, "4096"}, {4097, "4097"}, {8192, "8192"}, {65536, "65536"},
		{lastBlock, "start-of-last-block"}, {lastBlock + 1, "start-of-last-block+1"}, {lastBlock - 1, "start-of-last-block-1"},
		{lastBlock + rng.Intn(l-lastBlock), "inside-last-block"}, {lastBlock + rng.Intn(l-lastBlock), "inside-last-block"},
		{rng.Intn(min(l, 4096)), "inside-first-block"}, {rng.Intn(l), "anywhere"},
		{l, "exactly-size"}, {l + 1, "size+1"}, {l + 4096, "size+4096"}, {2 * l, "2*size"},
	}
	for {
		c := cands[rng.Intn(len(cands))]
		if c.v >= 0 {
			return c.v, c.how
		}
	}
}

// wfStep runs one step of a write-fault sequence.
func (q *c15Seq) wfStep(si int, pending map[int]*c15Text) bool {
	rep, rng := q.env.rep, q.rng
	hasAllow := false
	for _, l := range q.lists {
		hasAllow = hasAllow || l.Allow
	}
	mode := "forced-block"
	switch r := rng.Intn(100); {
	case q.sched && r < 35:
		mode = "scheduled"
	case hasAllow && r < 70:
		mode = "forced-allow"
	}
	var allNames []string
	for _, l := range q.lists {
		allNames = append(allNames, l.GoodProbe, l.PrevProbe)
	}
	// What each addressed list serves: a new text of a drawn size, or (after a
	// faulted step) the same text again.
	type served struct {
		l       *c15ListM
		t       *c15Text
		nf      []byte
		retried bool
	}
	var addr []*served
	for _, l := range q.lists {
		if !(mode == "scheduled" || (mode == "forced-allow") == l.Allow) {
			continue
		}
		s := &served{l: l}
		if p := pending[l.Idx]; p != nil && rng.Intn(3) != 0 {
			s.t, s.retried = p, true
		} else {
			l.Ver++
			s.t = c15SizedText(rng, fmt.Sprintf("v%d.l%d.c15probe.test", l.Ver, l.Idx), c15WFSizes[rng.Intn(len(c15WFSizes))])
		}
		s.nf, _ = c15Normalise(s.t.Bytes, false, false, false)
		kind := []string{"ok-length", "ok-chunked", "ok-gzip"}[rng.Intn(3)]
		if l.Src == "file" {
			kind = "file-write"
		}
		if err := q.apply(l, &c15Beh{Kind: kind, Text: s.t, Level: c15MustSucceed}); err != nil {
			rep.Inconcl("cannot install behaviour: " + err.Error())

			return false
		}
		allNames = append(allNames, s.t.Probe)
		addr = append(addr, s)
	}
	allNames = append(allNames, c15Never)

	// The limit, relative to the stored form of one of the addressed lists;
	// one step in four runs without any limit.
	limit, how := -1, "no-limit"
	if len(addr) > 0 && rng.Intn(4) != 0 {
		limit, how = c15WFLimit(rng, len(addr[rng.Intn(len(addr))].nf))
	}

	before, err := q.snapshot(allNames)
	if err != nil {
		rep.Inconcl("snapshot failed: " + err.Error())

		return false
	}
	var info map[string]any
	if limit < 0 {
		info = q.refresh(mode)
	} else if err = c15WithFileLimit(uint64(limit), func() { info = q.refresh(mode) }); err != nil {
		rep.Inconcl("cannot set the file size limit: " + err.Error())

		return false
	}
	after, err := q.snapshot(allNames)
	if err != nil {
		rep.Inconcl("snapshot failed: " + err.Error())

		return false
	}

	hist := map[string]any{"step": si, "mode": mode, "file_size_limit_during_refresh": limit, "limit_drawn_as": how, "refresh": info}
	for _, s := range addr {
		hist[fmt.Sprintf("list%d", s.l.Idx)] = map[string]any{"text": c15Show(s.t.Bytes), "probe_name": s.t.Probe,
			"normal_form_bytes": len(s.nf), "normal_form_lines": bytes.Count(s.nf, []byte("\n")), "same_text_as_in_faulted_step": s.retried}
	}
	q.history = append(q.history, hist)
	witness := func(l *c15ListM, extra map[string]any) map[string]any {
		m := map[string]any{"sequence": q.describe(), "history_up_to_this_step": q.history, "list": l.Idx, "list_id": l.ID,
			"before": before.Lists[l.ID].show(), "after": after.Lists[l.ID].show(),
			"decisions_before": before.Dec, "decisions_after": after.Dec}
		for k, v := range extra {
			m[k] = v
		}

		return m
	}
	if p, ok := info["panic"]; ok {
		rep.Violate("writefault:refresh-panicked", fmt.Sprintf("the refresh panicked: %v", p), witness(q.lists[0], nil))
	}
	rep.Class("step:" + mode)
	rep.Class("limit:" + how)

	resyncEngines := false
	isAddr := map[int]*served{}
	for _, s := range addr {
		isAddr[s.l.Idx] = s
	}
	for _, l := range q.lists {
		bs, as := before.Lists[l.ID], after.Lists[l.ID]
		s := isAddr[l.Idx]
		if s == nil {
			rep.Eval(false, "")
			if ud := c15UnchangedDiffs(l.ID, before, after, []string{l.GoodProbe, l.PrevProbe}); len(ud) > 0 {
				rep.Violate("writefault:list-not-addressed:"+ud[0], "a list the refresh did not address changed: "+strings.Join(ud, ", "),
					witness(l, map[string]any{"differences": ud}))
			}
			q.resync(l, bs, as, nil)

			continue
		}
		ud := c15UnchangedDiffs(l.ID, before, after, []string{l.GoodProbe, l.PrevProbe, s.t.Probe})
		nfLines := bytes.Count(s.nf, []byte("\n"))
		same := bs.Exists && bytes.Equal(bs.Bytes, s.nf)
		fits := limit < 0 || len(s.nf) <= limit
		rep.Eval(true, fmt.Sprintf("%s|%d|%s|%s|%v", mode, limit, verifkit.Hash(string(s.nf)), verifkit.Hash(string(bs.Bytes)), bs.Exists))
		// What the product reports about the list now.
		outcome := "reported-as-before"
		if as.Count != bs.Count || as.Sum != bs.Sum {
			outcome = "reported-other"
			if sum, ok := c15ProductSum(s.nf); ok && as.Count == nfLines && as.Sum == sum {
				outcome = "reported-success"
			}
		}
		truncated := as.Exists && !bytes.Equal(as.Bytes, bs.Bytes) && len(as.Bytes) < len(s.nf) && bytes.HasPrefix(s.nf, as.Bytes)
		switch {
		case same:
			// Nothing to write: unchanged whatever the limit.
			rep.Class("case:content-already-stored")
			if len(ud) > 0 {
				rep.Violate("writefault:content-unchanged:"+ud[0], "content with the stored normal form changed the list: "+strings.Join(ud, ", "),
					witness(l, map[string]any{"differences": ud}))
			}
		case fits:
			// Positive control: the stored form fits under the limit.
			rd := c15ReplacedDiffs(l.ID, l.Allow, s.nf, nfLines, after, s.t.Probe, l.GoodProbe)
			if len(rd) > 0 && len(ud) == 0 && l.Src != "file" && q.env.script.doneCount(l.Key) == 0 {
				// No complete response left the list server and nothing
				// changed: nothing to judge (see the part refresh).
				rep.Event("cases_not_judged:no_complete_response_left_the_list_server")

				break
			}
			switch {
			case len(rd) == 0 && limit >= 0:
				rep.Class("case:limit-not-reached-and-stored")
			case len(rd) == 0:
				rep.Class("case:no-limit-and-stored")
			default:
				resyncEngines = resyncEngines || c15ForceOnly(rd)
				k := c15DiffKey(rd)
				if truncated {
					k = "stored-file-truncated"
				}
				pre := "no-fault"
				if s.retried {
					pre = "retry-after-fault"
				}
				rep.Violate(fmt.Sprintf("writefault:%s:%s:%s", pre, outcome, k),
					fmt.Sprintf("the stored form (%d bytes) fits under the limit (%d), but after the refresh: %s", len(s.nf), limit, strings.Join(rd, ", ")),
					witness(l, map[string]any{"differences": rd, "expected_stored_form": c15Show(s.nf)}))
			}
			if s.retried && len(rd) == 0 {
				rep.Event("same_text_stored_once_the_limit_was_gone")
			}
			delete(pending, l.Idx)
		default:
			// The stored form cannot be written completely: the refresh
			// cannot have succeeded, so nothing may have changed.
			// Where the failing write lands, by distance from the ends (the
			// product's write pattern is not assumed).
			pos := "middle"
			switch {
			case limit >= len(s.nf)-4096:
				pos = "last-4096-bytes"
			case limit < 4096:
				pos = "first-4096-bytes"
			}
			rep.Class("fault-in:" + pos)
			if limit%4096 == 0 {
				rep.Class("fault-at-4096-boundary")
			}
			if len(s.nf) < 4096 {
				rep.Class("fault-in-list-below-4096-bytes")
			}
			if len(ud) == 0 {
				rep.Class("case:write-fault-and-nothing-changed")
				rep.Class("write-fault-and-nothing-changed:" + pos)
			} else {
				resyncEngines = true
				k := ud[0]
				if truncated {
					k = "stored-file-truncated"
				}
				what := fmt.Sprintf("the new content (%d bytes in normal form) could not be written beyond byte %d (fault in the %s of it), yet the list changed: %s",
					len(s.nf), limit, pos, strings.Join(ud, ", "))
				if truncated {
					_, n2, sum2, _ := c15Reparse(as.Bytes)
					what += fmt.Sprintf("; the file now holds the first %d bytes, re-parses to %d rules / checksum %d while %d rules / checksum %d are reported",
						len(as.Bytes), n2, sum2, as.Count, as.Sum)
				}
				rep.Violate(fmt.Sprintf("writefault:%s:%s", outcome, k), what, witness(l, map[string]any{"differences": ud,
					"complete_normal_form": c15Show(s.nf), "fault_position": pos}))
			}
			pending[l.Idx] = s.t
		}
		q.resync(l, bs, as, &c15Beh{Kind: "ok-length", Text: s.t, Level: c15MustSucceed})
	}
	if resyncEngines {
		q.d.EnableFilters(false)
		rep.Event("engines_rebuilt_by_monitor_to_resynchronise")
	}
	for range q.env.script.drainUnscripted() {
		rep.Event("unscripted_requests")
	}

	return true
}

func TestVerifC15WriteFault(t *testing.T) {
	rep := verifkit.New("C15", "writefault",
		"case = (list, refresh step) where the refresh runs under a file-size limit (writes beyond it fail with EFBIG) drawn relative to the size of the form to be stored; snapshots as in part refresh; non-trivial = the list was addressed; distinct by (mode, limit, content served, content stored before)")
	defer func() {
		if err := rep.Write(); err != nil {
			t.Fatal(err)
		}
	}()
	// Without this the kernel kills the process instead of failing the write.
	signal.Ignore(syscall.SIGXFSZ)
	root, err := os.MkdirTemp(os.Getenv("VERIF_SCRATCH"), "c15w-")
	if err != nil {
		rep.Inconcl("no scratch directory: " + err.Error())

		return
	}
	defer func() { _ = os.RemoveAll(root) }()
	if root, err = filepath.EvalSymlinks(root); err != nil {
		rep.Inconcl(err.Error())

		return
	}
	if err = c15LimitWorks(root); err != nil {
		rep.Inconcl("RLIMIT_FSIZE cannot be used to inject write faults here: " + err.Error())

		return
	}
	env := &c15Env{rep: rep, script: c15NewScript(), root: root}
	if env.main, err = c15StartServer(env.script); err != nil {
		rep.Inconcl("cannot start the list server: " + err.Error())

		return
	}
	defer env.main.stop()
	env.second = env.main

	nSeq := verifkit.Pick(120, 1500)
	for n := 0; n < nSeq; n++ {
		q, err := c15NewSeq(env, n)
		if err != nil {
			rep.Inconcl("cannot build a DNSFilter: " + err.Error())

			return
		}
		if n < 2 {
			rep.Sample(q.describe())
		}
		rep.Class("sequences")
		if q.checkStart() {
			pending := map[int]*c15Text{}
			steps := 4 + q.rng.Intn(6)
			for si := 0; si < steps; si++ {
				if !q.wfStep(si, pending) {
					rep.Event("sequences_abandoned")

					break
				}
			}
			if n < 2 && len(q.history) > 0 {
				rep.Sample(map[string]any{"sequence": n, "first_step": q.history[0]})
			}
			q.checkRestart()
		}
		q.close()
		if len(rep.Inconclusive) > 0 {
			return
		}
	}
	if !rep.Violated() {
		for k, need := range map[string]int{"fault-in:last-4096-bytes": nSeq / 2, "fault-in:first-4096-bytes": nSeq / 10,
			"fault-in:middle": nSeq / 10, "fault-at-4096-boundary": nSeq / 20, "fault-in-list-below-4096-bytes": nSeq / 10,
			"case:limit-not-reached-and-stored": nSeq / 10, "case:no-limit-and-stored": nSeq / 4} {
			if rep.ClassCount(k) < need {
				rep.Inconcl(fmt.Sprintf("only %d observations of %q (need %d)", rep.ClassCount(k), k, need))
			}
		}
		if rep.EventCount("unscripted_requests") > 0 {
			rep.Inconcl("requests reached the list server outside the script")
		}
	}
}
