//go:build verif

package filtering

import (
	"bytes"
	"compress/gzip"
	"fmt"
	"io"
	"math/rand"
	"regexp"
	"strings"
	"unicode"

	"github.com/AdguardTeam/AdGuardHome/internal/filtering/rulelist"
	"github.com/AdguardTeam/AdGuardHome/internal/verifkit"
)

// Expectation levels of one (list, step) pair.
const (
	c15MustFail    = "must-fail"
	c15MustSucceed = "must-succeed"
	c15Either      = "either"
)

// c15Normalise is the monitor's own statement-level normaliser: split into
// lines, trim, drop blank lines and comment lines ('#' or '!' first), end every
// kept line with "\n".  The two points the statement leaves open are
// parameters: whether a lone CR ends a line (splitCR), and whether only blanks,
// tabs and CR (narrow) or every Unicode white space (wide) is trimmed.
func c15Normalise(text []byte, splitCR, wide, dropHdr bool) (out []byte, count int) {
	out = []byte{}
	start := 0
	emit := func(line []byte) {
		if wide {
			line = bytes.TrimFunc(line, unicode.IsSpace)
		} else {
			line = bytes.Trim(line, " \t\r")
		}
		if len(line) == 0 || line[0] == '#' || line[0] == '!' {
			return
		}
		if dropHdr && len(line) >= 2 && line[0] == '[' && line[len(line)-1] == ']' {
			// "[Adblock Plus 2.0]"-style header: neither comment nor rule.
			return
		}
		out = append(out, line...)
		out = append(out, '\n')
		count++
	}
	for i := 0; i < len(text); i++ {
		if text[i] == '\n' || (splitCR && text[i] == '\r') {
			emit(text[start:i])
			start = i + 1
		}
	}
	emit(text[start:])

	return out, count
}

// c15Forms returns the distinct acceptable normal forms of text (the first is
// the plain reading) and the unspecified zones that make them differ.
func c15Forms(text []byte) (forms [][]byte, zones []string) {
	base, _ := c15Normalise(text, false, false, false)
	forms = append(forms, base)
	add := func(f []byte, zone string) {
		for _, g := range forms {
			if bytes.Equal(f, g) {
				return
			}
		}
		forms = append(forms, f)
		for _, z := range zones {
			if z == zone {
				return
			}
		}
		zones = append(zones, zone)
	}
	for k := 1; k < 8; k++ {
		splitCR, wide, dropHdr := k&1 != 0, k&2 != 0, k&4 != 0
		f, _ := c15Normalise(text, splitCR, wide, dropHdr)
		var zs []string
		if splitCR {
			zs = append(zs, "lone-CR-inside-line")
		}
		if wide {
			zs = append(zs, "exotic-white-space-at-line-edge")
		}
		if dropHdr {
			zs = append(zs, "bracket-header-line")
		}
		add(f, strings.Join(zs, "+"))
	}

	return forms, zones
}

// c15Exotic reports the features of text that put its acceptance outside what
// the statement fixes.
func c15Exotic(text []byte) (zones []string) {
	forms, z := c15Forms(text)
	if len(forms) > 1 {
		zones = append(zones, z...)
	}
	ctrl, long, html := false, false, false
	lineLen := 0
	for _, b := range text {
		if (b < ' ' || b == 0x7f) && b != '\n' && b != '\r' && b != '\t' {
			ctrl = true
		}
		if b == '\n' {
			lineLen = 0
		} else {
			lineLen++
			if lineLen > 60000 {
				long = true
			}
		}
	}
	for _, l := range bytes.Split(text, []byte("\n")) {
		l = bytes.ToLower(bytes.TrimFunc(l, unicode.IsSpace))
		if bytes.HasPrefix(l, []byte("<html")) || bytes.HasPrefix(l, []byte("<!doctype")) {
			html = true
		}
	}
	if ctrl {
		zones = append(zones, "control-byte-in-text")
	}
	if long {
		zones = append(zones, "line-longer-than-60000-bytes")
	}
	if html {
		zones = append(zones, "html-looking-line-after-rules")
	}

	return zones
}

// c15Text is one generated list text.
type c15Text struct {
	Bytes []byte
	// Probe is the host name that only this text lists ("" for none).
	Probe string
	// ProbeEnd is the offset just behind the probe line and its terminator.
	ProbeEnd int
	// Class: plain, same-normal-form, identical, exotic-edge, lone-cr,
	// ctrl-in-rule, ctrl-in-comment, html-after-rule, over-long, html, binary.
	Class string
}

var c15ProbeRE = regexp.MustCompile(`v[0-9]+\.l[0-9]+\.c15probe\.test`)

var c15Words = []string{"ads", "track", "cdn", "metrics", "x", "pixel", "beacon", "static", "a1", "zz", "telemetry"}

// c15RuleLine returns a rule-looking line that cannot match a probe name: all
// of them are tied to names containing "example".
func c15RuleLine(rng *rand.Rand) string {
	w := c15Words[rng.Intn(len(c15Words))]
	switch rng.Intn(13) {
	case 0:
		return "||" + w + ".example.org^"
	case 1:
		return "0.0.0.0 " + w + ".example.net"
	case 2:
		return "127.0.0.1\t" + w + ".example.com"
	case 3:
		return w + ".example.com##.banner"
	case 4:
		return "@@||" + w + ".example.org^$important"
	case 5:
		return "/" + w + "[0-9]+\\.example\\./"
	case 6:
		return w + ".example.org"
	case 7:
		return "||" + w + ".example.org^$dnsrewrite=NOERROR;A;1.2.3.4"
	case 8:
		return "example.org#@#" + w + " > div"
	case 9:
		return "||\u043f\u0440\u0438\u043c\u0435\u0440-" + w + ".example.org^"
	case 10:
		return "||" + w + "\u00a0mid.example.org^"
	case 11:
		return "||" + w + ".example.org^$client='a b',ctag=~x|y"
	default:
		return ":: " + w + ".example.net  # trailing remark"
	}
}

func c15CommentLine(rng *rand.Rand) string {
	switch rng.Intn(8) {
	case 0:
		return "# " + c15RuleLine(rng)
	case 1:
		return "! " + c15RuleLine(rng)
	case 2:
		return "! Title: " + c15Words[rng.Intn(len(c15Words))] + " list"
	case 3:
		return "!"
	case 4:
		return "#"
	case 5:
		return "! Title:  second title  "
	case 6:
		return "! Homepage: https://example.org/<html>"
	default:
		return "#! Title: not a title"
	}
}

// c15Special are line kinds whose classification could depend on the state of
// the parser (title seen or not, something written or not) or on their first
// character.  All rule-looking ones are tied to names containing "example".
var c15Special = []string{
	"[Adblock Plus 2.0]", "[AdGuard]", "[Adblock Plus 3.1]", "[]", "[ uBlock Origin ]",
	"[$path=/page]example.org##.banner", "[::1] ads.example.net", "[$app=org.example]||y.example.org^", "[unclosed.example header",
	"! Title: second title", "! Title:", "!Title: glued", "! title: lower case", "Title: bare.example.org",
	"! Homepage: https://example.org/", "! Version: 1.2.3", "! Expires: 1 day", "! Checksum: abcDEF123", "! Last modified: 2024-01-01",
	"!#if (adguard)", "!#include more.example.txt", "!+ NOT_OPTIMIZED", "!#endif",
	"# Title: hash title", "##.banner", "#@#.sponsored", "#%#//scriptlet('x.example')", "#$#body { x: example }", "#?#div:has(> .example)",
	"<div class=\"example\">", "<!-- example comment -->", "<?xml version=\"1.0\" example?>", "</html>", "<head><title>example</title></head>",
	"example.org##.ad", "example.org#@#.ad", "||x.example.org^$third-party", "@@||ok.example.org^", "$$script[tag-content=\"example\"]",
}

// c15SpecialLine returns one of c15Special or a line "<punctuation>sweep.example.org".
func c15SpecialLine(rng *rand.Rand) string {
	if rng.Intn(4) == 0 {
		const punct = "\"%&'()+,-.:;<=>?@[\\]_`{|}~"
		return string(punct[rng.Intn(len(punct))]) + "sweep.example.org"
	}

	return c15Special[rng.Intn(len(c15Special))]
}

// c15Stateful lays special lines around an optional title line: before it,
// right behind it, far behind it (after filler), behind a second title, or in
// a text without any title.  filler returns an ordinary line.
func c15Stateful(rng *rand.Rand, filler func() string) (lines []string) {
	some := func(max int) {
		for k := rng.Intn(max + 1); k > 0; k-- {
			lines = append(lines, c15SpecialLine(rng))
		}
	}
	titles := []string{"! Title: main list", "! Title: x", "!  Title: not a title", "! Title: main list  "}
	switch rng.Intn(5) {
	case 0:
		// No title at all.
		some(3)
		for k := rng.Intn(12); k > 0; k-- {
			lines = append(lines, filler())
		}
		some(3)

		return lines
	case 1:
		// Title on the very first line.
	case 2:
		// Title behind rules.
		for k := 1 + rng.Intn(4); k > 0; k-- {
			lines = append(lines, filler())
		}
		some(2)
	default:
		some(3)
	}
	lines = append(lines, titles[rng.Intn(len(titles))])
	some(3)
	for k := rng.Intn(25); k > 0; k-- {
		lines = append(lines, filler())
	}
	some(3)
	if rng.Intn(4) == 0 {
		lines = append(lines, "! Title: another title")
		some(2)
	}

	return lines
}

var c15ASCIIPad = []string{" ", "\t", "  ", " \t ", "\t\t", "    "}
var c15ExoticPad = []string{"\u00a0", "\u2003", "\u3000", "\u0085", "\v", "\f", "\u2028", "\u200a "}

func c15ProbeLine(rng *rand.Rand, probe string) string {
	switch rng.Intn(4) {
	case 0:
		return "0.0.0.0 " + probe
	case 1:
		return "||" + probe + "^$important"
	default:
		return "||" + probe + "^"
	}
}

// c15Render renders lines (already padded) with mixed terminators; probeIdx is
// the index of the probe line (-1 for none).  The probe line always gets a
// clean terminator on both sides.
func c15Render(rng *rand.Rand, lines []string, probeIdx int, allowNoFinalEOL bool) (b []byte, probeEnd int) {
	var sb bytes.Buffer
	for i, l := range lines {
		sb.WriteString(l)
		eol := "\n"
		switch k := rng.Intn(20); {
		case k < 7:
			eol = "\r\n"
		case k == 7 && i != probeIdx:
			eol = "\r\r\n"
		}
		if i == len(lines)-1 && allowNoFinalEOL && rng.Intn(4) == 0 {
			eol = ""
		}
		sb.WriteString(eol)
		if i == probeIdx {
			probeEnd = sb.Len()
		}
	}

	return sb.Bytes(), probeEnd
}

func c15Pad(rng *rand.Rand, line string) string {
	if rng.Intn(3) == 0 {
		line = c15ASCIIPad[rng.Intn(len(c15ASCIIPad))] + line
	}
	if rng.Intn(3) == 0 {
		line += c15ASCIIPad[rng.Intn(len(c15ASCIIPad))]
	}

	return line
}

// c15GenText generates a text of the given class listing probe.  minLines is a
// lower bound for the number of lines (cut faults need a few).
func c15GenText(rng *rand.Rand, probe, class string, minLines int) *c15Text {
	switch class {
	case "binary":
		b := []byte("GIF89a\x00\x01\x00\x00\x00data\n" + c15ProbeLine(rng, probe) + "\n")
		probeEnd := len(b)
		for j := 40 + rng.Intn(400); j > 0; j-- {
			b = append(b, byte(rng.Intn(256)))
		}

		return &c15Text{Bytes: b, Probe: probe, ProbeEnd: probeEnd, Class: class}
	case "html":
		var lines []string
		for j := rng.Intn(4); j > 0; j-- {
			if rng.Intn(3) == 0 {
				lines = append(lines, []string{"", " ", "\t"}[rng.Intn(3)])
			} else {
				lines = append(lines, c15CommentLine(rng))
			}
		}
		lines = append(lines, []string{"", " ", "\t"}[rng.Intn(3)]+
			[]string{"<html>", "<HTML lang=\"en\">", "<!doctype html>", "<!DOCTYPE HTML PUBLIC \"-//W3C//DTD HTML 4.01//EN\">", "<hTmL><head>"}[rng.Intn(5)])
		lines = append(lines, "<head><title>captive portal</title></head>")
		probeIdx := len(lines)
		lines = append(lines, c15ProbeLine(rng, probe))
		lines = append(lines, "<body>"+c15RuleLine(rng)+"</body>", "</html>")
		b, pe := c15Render(rng, lines, probeIdx, true)

		return &c15Text{Bytes: b, Probe: probe, ProbeEnd: pe, Class: class}
	}

	n := minLines + rng.Intn(22)
	if n < 1 {
		n = 1
	}
	lines := make([]string, 0, n+3)
	if rng.Intn(2) == 0 {
		// Special lines laid around a title (or in a text without one).
		for _, l := range c15Stateful(rng, func() string { return c15RuleLine(rng) }) {
			lines = append(lines, c15Pad(rng, l))
		}
		n = minLines
	}
	for i := 0; i < n; i++ {
		switch k := rng.Intn(20); {
		case k < 10:
			lines = append(lines, c15Pad(rng, c15RuleLine(rng)))
		case k < 15:
			lines = append(lines, c15Pad(rng, c15CommentLine(rng)))
		case k == 15 && rng.Intn(6) == 0:
			lines = append(lines, "||"+strings.Repeat("a", 3000+rng.Intn(55000))+".example.org^")
		default:
			lines = append(lines, []string{"", "", " ", "\t", "  \t "}[rng.Intn(5)])
		}
	}
	// The probe line, early more often than late.
	probeIdx := rng.Intn(len(lines) + 1)
	if rng.Intn(2) == 0 && probeIdx > 3 {
		probeIdx = rng.Intn(4)
	}
	pl := c15Pad(rng, c15ProbeLine(rng, probe))
	lines = append(lines[:probeIdx], append([]string{pl}, lines[probeIdx:]...)...)

	// One special line for the exotic classes, always behind the probe line.
	insert := func(l string) {
		at := probeIdx + 1 + rng.Intn(len(lines)-probeIdx)
		lines = append(lines[:at], append([]string{l}, lines[at:]...)...)
	}
	switch class {
	case "exotic-edge":
		l := c15RuleLine(rng)
		if rng.Intn(2) == 0 {
			l = c15ExoticPad[rng.Intn(len(c15ExoticPad))] + l
		} else {
			l += c15ExoticPad[rng.Intn(len(c15ExoticPad))]
		}
		insert(l)
	case "lone-cr":
		insert(c15RuleLine(rng) + "\r" + c15RuleLine(rng))
	case "ctrl-in-rule":
		// One control character other than tab, LF, CR in an otherwise valid
		// rule line: binary content.  Every such byte is drawn (VT and FF more
		// often: they are white space to some and binary to the parser), inside
		// the line, as its first or as its last byte, in the first line, a
		// middle line or the last line of the text.
		var c byte
		if rng.Intn(5) < 2 {
			c = []byte{0x0b, 0x0c}[rng.Intn(2)]
		} else {
			for c = byte(rng.Intn(32)); c == '\t' || c == '\n' || c == '\r'; c = byte(rng.Intn(32)) {
			}
		}
		if rng.Intn(16) == 0 {
			c = 0x7f
		}
		l := "||bad.byte.example.org^"
		pos := []string{"inside", "inside", "start", "end"}[rng.Intn(4)]
		switch pos {
		case "inside":
			at := 1 + rng.Intn(len(l)-1)
			l = l[:at] + string([]byte{c}) + l[at:]
		case "start":
			l = string([]byte{c}) + l
		default:
			l += string([]byte{c})
		}
		if (c == 0x0b || c == 0x0c) && pos != "inside" {
			// Trimmed as white space by some readings: not fixed.
			class = "ctrl-vt-ff-at-line-edge"
		}
		switch rng.Intn(3) {
		case 0:
			lines = append([]string{l}, lines...)
			probeIdx++
		case 1:
			insert(l)
		default:
			lines = append(lines, l)
		}
	case "ctrl-in-comment":
		insert("# comment with \x00\x01\x02 bytes " + c15RuleLine(rng))
	case "html-after-rule":
		insert([]string{"<html>", "<!DOCTYPE html>"}[rng.Intn(2)])
	case "over-long":
		insert("||" + strings.Repeat("a", 65536+rng.Intn(6000)) + ".example.org^")
	}
	b, pe := c15Render(rng, lines, probeIdx, true)

	return &c15Text{Bytes: b, Probe: probe, ProbeEnd: pe, Class: class}
}

// c15Rerender renders a new text whose rule lines are exactly the lines of
// stored (a file in normal form), with fresh comments, padding and line ends.
func c15Rerender(rng *rand.Rand, stored []byte, probe string) *c15Text {
	var lines []string
	probeIdx, pe := -1, 0
	add := func() {
		for rng.Intn(3) == 0 {
			if rng.Intn(2) == 0 {
				lines = append(lines, c15Pad(rng, c15CommentLine(rng)))
			} else {
				lines = append(lines, []string{"", " ", "\t"}[rng.Intn(3)])
			}
		}
	}
	for _, l := range strings.Split(strings.TrimSuffix(string(stored), "\n"), "\n") {
		if len(stored) == 0 {
			break
		}
		add()
		if probe != "" && strings.Contains(l, probe) {
			probeIdx = len(lines)
		}
		lines = append(lines, c15Pad(rng, l))
	}
	add()
	b, pe := c15Render(rng, lines, probeIdx, true)

	return &c15Text{Bytes: b, Probe: probe, ProbeEnd: pe, Class: "same-normal-form"}
}

// c15Collide renders a text made of the lines of stored with two neighbouring
// lines (not the probe line) glued into one; nil if there is no such pair.
func c15Collide(rng *rand.Rand, stored []byte, probe string) *c15Text {
	lines := strings.Split(strings.TrimSuffix(string(stored), "\n"), "\n")
	var cands []int
	for i := 0; i+1 < len(lines); i++ {
		if probe == "" || (!strings.Contains(lines[i], probe) && !strings.Contains(lines[i+1], probe)) {
			cands = append(cands, i)
		}
	}
	if len(cands) == 0 {
		return nil
	}
	i := cands[rng.Intn(len(cands))]
	glued := append(append([]string{}, lines[:i]...), lines[i]+lines[i+1])
	glued = append(glued, lines[i+2:]...)
	t := c15Rerender(rng, []byte(strings.Join(glued, "\n")+"\n"), probe)
	t.Class = "checksum-collision"

	return t
}

// c15LineEnds returns the offsets just behind every '\n' of b.
func c15LineEnds(b []byte) (ends []int) {
	for i, c := range b {
		if c == '\n' {
			ends = append(ends, i+1)
		}
	}

	return ends
}

// c15CutPoint chooses how many bytes of body are sent: strictly inside a line
// (boundary false) or just behind a line terminator (boundary true); always
// fewer than len(body) and, in most cases, behind the probe line.
func c15CutPoint(rng *rand.Rand, t *c15Text, boundary bool) (n int, ok bool) {
	ends := c15LineEnds(t.Bytes)
	var cands []int
	if boundary {
		for _, e := range ends {
			if e < len(t.Bytes) {
				cands = append(cands, e)
			}
		}
	} else {
		prev := 0
		for _, e := range append(ends, len(t.Bytes)) {
			// Inside the line content: not at its start, not inside its
			// terminator.
			lineEnd := e
			for lineEnd > prev && (t.Bytes[lineEnd-1] == '\n' || t.Bytes[lineEnd-1] == '\r') {
				lineEnd--
			}
			if lineEnd-prev >= 2 {
				cands = append(cands, prev+1+rng.Intn(lineEnd-prev-1))
			}
			prev = e
		}
	}
	if len(cands) == 0 {
		return 0, false
	}
	var behind []int
	for _, c := range cands {
		if c >= t.ProbeEnd {
			behind = append(behind, c)
		}
	}
	if len(behind) > 0 && rng.Intn(4) != 0 {
		return behind[rng.Intn(len(behind))], true
	}

	return cands[rng.Intn(len(cands))], true
}

func c15Gzip(b []byte) []byte {
	var buf bytes.Buffer
	zw := gzip.NewWriter(&buf)
	_, _ = zw.Write(b)
	_ = zw.Close()

	return buf.Bytes()
}

// c15Reparse runs the product's parser over a stored file.
func c15Reparse(stored []byte) (out []byte, count int, sum uint32, err error) {
	dst := &bytes.Buffer{}
	res, err := rulelist.NewParser().Parse(dst, bytes.NewReader(stored), make([]byte, rulelist.DefaultRuleBufSize))
	if res == nil {
		return dst.Bytes(), 0, 0, fmt.Errorf("nil result (%v)", err)
	}

	return dst.Bytes(), res.RulesCount, res.Checksum, err
}

// c15ProductSum is the checksum the product's parser assigns to text; it is
// used only to recognise the checksum-collision zone.
func c15ProductSum(text []byte) (sum uint32, ok bool) {
	res, err := rulelist.NewParser().Parse(io.Discard, bytes.NewReader(text), make([]byte, rulelist.DefaultRuleBufSize))
	if err != nil || res == nil {
		return 0, false
	}

	return res.Checksum, true
}

func c15Show(b []byte) string {
	if len(b) > 8<<20 {
		return fmt.Sprintf("%q...(%d bytes, ending in %q)", b[:400], len(b), b[len(b)-300:])
	}
	if len(b) > 400 {
		return fmt.Sprintf("%q...(%d bytes, sha %s)", b[:400], len(b), verifkit.Hash(string(b)))
	}

	return fmt.Sprintf("%q", b)
}

// c15Snap is what the monitor sees of one list at one instant.
type c15Snap struct {
	Exists      bool
	Bytes       []byte
	Ino         uint64
	MtimeNS     int64
	Count       int
	LastUpdated string
	Sum         uint32
}

func (s *c15Snap) show() map[string]any {
	return map[string]any{"file_exists": s.Exists, "file": c15Show(s.Bytes), "inode": s.Ino,
		"rules_count": s.Count, "checksum": s.Sum, "last_updated": s.LastUpdated}
}

// c15World is a snapshot of every list plus the decisions for the probe names.
type c15World struct {
	Lists map[int]*c15Snap
	// Dec maps a probe name to "reason/filter-list-id".
	Dec   map[string]string
	Extra []string
	// Engines identifies the engine objects in use (observed, not asserted).
	Engines string
}

// c15UnchangedDiffs lists what differs for list id between before and after,
// names being the probe names that belong to the list.
func c15UnchangedDiffs(id int, before, after *c15World, names []string) (diffs []string) {
	b, a := before.Lists[id], after.Lists[id]
	switch {
	case !b.Exists && a.Exists:
		diffs = append(diffs, "file-created")
	case b.Exists && !a.Exists:
		diffs = append(diffs, "file-removed")
	case !bytes.Equal(b.Bytes, a.Bytes):
		diffs = append(diffs, "file-bytes-changed")
	case b.Ino != a.Ino:
		diffs = append(diffs, "file-rewritten-new-inode")
	}
	if b.Count != a.Count {
		diffs = append(diffs, "rules-count-changed")
	}
	if b.Sum != a.Sum {
		diffs = append(diffs, "checksum-changed")
	}
	for _, n := range names {
		if n != "" && before.Dec[n] != after.Dec[n] {
			diffs = append(diffs, "decision-changed")

			break
		}
	}

	return diffs
}

// c15ReplacedDiffs lists what contradicts "the list now holds form f".
func c15ReplacedDiffs(id int, allow bool, f []byte, fCount int, after *c15World, newProbe, oldProbe string) (diffs []string) {
	a := after.Lists[id]
	switch {
	case !a.Exists:
		diffs = append(diffs, "file-missing")
	case !bytes.Equal(a.Bytes, f):
		diffs = append(diffs, "stored-file-not-normal-form")
	}
	if a.Count != fCount {
		diffs = append(diffs, "rules-count-wrong")
	}
	if a.Exists {
		out, n, sum, err := c15Reparse(a.Bytes)
		switch {
		case err != nil:
			diffs = append(diffs, "stored-file-rejected-on-reparse")
		case !bytes.Equal(out, a.Bytes):
			diffs = append(diffs, "stored-file-not-fixed-point")
		case n != a.Count:
			diffs = append(diffs, "reparse-count-differs")
		case sum != a.Sum:
			diffs = append(diffs, "reparse-checksum-differs")
		}
	}
	if newProbe != "" && bytes.Contains(f, []byte(newProbe)) {
		want := c15InForce(id, allow)
		if after.Dec[newProbe] != want {
			diffs = append(diffs, "new-rule-not-in-force")
		}
	}
	if oldProbe != "" && oldProbe != newProbe && !bytes.Contains(f, []byte(oldProbe)) {
		if after.Dec[oldProbe] != c15NotListed {
			diffs = append(diffs, "old-rule-still-in-force")
		}
	}

	return diffs
}

var c15NotListed = NotFilteredNotFound.String() + "/0"

func c15InForce(id int, allow bool) string {
	if allow {
		return fmt.Sprintf("%s/%d", NotFilteredAllowList, id)
	}

	return fmt.Sprintf("%s/%d", FilteredBlockList, id)
}
