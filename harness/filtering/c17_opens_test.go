//go:build verif

package filtering

import (
	"bufio"
	"encoding/json"
	"fmt"
	"net/url"
	"os"
	"os/exec"
	"path/filepath"
	"regexp"
	"strconv"
	"strings"
	"testing"

	"github.com/AdguardTeam/AdGuardHome/internal/verifkit"
)

// c17MarkerDir is the directory name (it never exists) below the tree root
// whose "opens" delimit the sections of the syscall log: one per pattern
// list, the name being the escaped JSON of the list.
const c17MarkerDir = "__c17_marker__"

var (
	c17StraceStrRe = regexp.MustCompile(`^\d+\s+open(?:at)?\((?:[^,"]*,\s*)?"((?:[^"\\]|\\.)*)"`)
	c17StraceRetRe = regexp.MustCompile(`=\s+(\d+)<([^>]*)>\s*$`)
)

// c17IsInstanceCanary recognises the canary files at places derived from an
// instance (see c17ExtraPaths) by their names; root is the tree root
// <R>/t, the data directories are <R>/scratch/work*/data, the canary in the
// temporary directory is recognised by its name.  The monitor never opens these
// names itself (it writes them aside and renames).
func c17IsInstanceCanary(root, opened string) bool {
	r := filepath.Dir(root)
	base := filepath.Base(opened)
	if filepath.Dir(opened) == filepath.Clean(os.TempDir()) && strings.HasPrefix(base, "TestVerifC17-tmpcanary-") && strings.HasSuffix(base, ".txt") {
		return true
	}
	if !strings.HasPrefix(opened, filepath.Join(r, "scratch", c17WorkDirName)) {
		return false
	}
	return base == "x.txt" || base == c17ConfFileName || base == strconv.Itoa(c17OtherListID)+".txt"
}

// TestVerifC17Opens runs the same sweep in a child process under strace and
// checks at system-call level that no tree file outside the patterns of the
// current section is ever opened.
func TestVerifC17Opens(t *testing.T) {
	if os.Getenv("C17_STRACE_CHILD") == "1" {
		t.Skip("child of the strace run")
	}
	rep := verifkit.New("C17", "opens",
		"case = one successful open/openat of a file of the canary tree or of a canary file at a place derived from the instance (its data directory, the directory and name of its configuration file, os.TempDir) by the process that runs the C17 sweep (quick-size, other seed) under strace -f -y; the log is cut into sections by marker opens, one per pattern list; an open is a violation when the opened file (fd path reported by the kernel) matches no pattern of its section; non-trivial = every such open; distinct by (patterns, file)")
	defer func() {
		if err := rep.Write(); err != nil {
			t.Fatal(err)
		}
	}()
	strace, err := exec.LookPath("strace")
	if err != nil {
		rep.Inconcl("strace is not installed")
		return
	}
	dir := t.TempDir()
	logp := filepath.Join(dir, "strace.log")
	childRep := filepath.Join(dir, "reports")
	if err = os.MkdirAll(childRep, 0o755); err != nil {
		t.Fatal(err)
	}
	exe, err := os.Executable()
	if err != nil {
		t.Fatal(err)
	}
	args := []string{"-f", "--seccomp-bpf", "-y", "-s", "65536", "-e", "trace=openat,open", "-o", logp,
		exe, "-test.run", "^TestVerifC17$", "-test.timeout", "45m"}
	cmd := exec.Command(strace, args...)
	cmd.Env = append(os.Environ(), "C17_STRACE_CHILD=1", "VERIF_REPORT_DIR="+childRep, "VERIF_TIER=quick",
		fmt.Sprintf("VERIF_SEED=%d", verifkit.Seed()+1000))
	out, err := cmd.CombinedOutput()
	if err != nil {
		tail := string(out)
		if len(tail) > 1500 {
			tail = tail[len(tail)-1500:]
		}
		rep.Inconcl("the sweep under strace did not finish normally: " + err.Error() + ": " + tail)
		return
	}

	// The child's own (content) findings count as well (added last, so that
	// the stored-witness cap does not hide the system-call findings).
	defer func() {
		if b, rerr := os.ReadFile(filepath.Join(childRep, "C17.paths.json")); rerr == nil {
			var cr verifkit.Report
			if json.Unmarshal(b, &cr) == nil {
				rep.EventN("content_oracle_evaluations_in_traced_run", cr.Evaluations)
				for _, v := range cr.Violations {
					rep.Violate(v.Key, "(in the traced run) "+v.What, v.Witness)
				}
				for _, i := range cr.Inconclusive {
					rep.Inconcl("traced run: " + i)
				}
			}
		} else {
			rep.Inconcl("the traced run wrote no report")
		}

	}()

	fh, err := os.Open(logp)
	if err != nil {
		rep.Inconcl("no strace log: " + err.Error())
		return
	}
	defer fh.Close()
	sc := bufio.NewScanner(fh)
	sc.Buffer(make([]byte, 1<<20), 1<<26)
	var (
		root     string
		patterns []string
		inSect   bool
		files    = map[string]bool{}
	)
	for sc.Scan() {
		line := sc.Text()
		rep.Event("strace_lines")
		if i := strings.Index(line, "/"+c17MarkerDir+"/"); i >= 0 {
			m := c17StraceStrRe.FindStringSubmatch(line)
			if m == nil {
				continue
			}
			p := m[1]
			j := strings.Index(p, "/"+c17MarkerDir+"/")
			if j < 0 {
				continue
			}
			r := p[:j]
			enc := p[j+len(c17MarkerDir)+2:]
			dec, uerr := url.PathUnescape(enc)
			if uerr != nil {
				rep.Inconcl("undecodable marker in the strace log")
				continue
			}
			var ps []string
			if json.Unmarshal([]byte(dec), &ps) != nil {
				rep.Inconcl("undecodable marker in the strace log")
				continue
			}
			if root == "" {
				root = r
				for _, rel := range c17TreeFiles {
					files[filepath.Join(root, filepath.FromSlash(rel))] = true
				}
			}
			patterns, inSect = ps, true
			rep.Event("sections(pattern lists)")
			continue
		}
		if !inSect {
			continue
		}
		m := c17StraceRetRe.FindStringSubmatch(line)
		if m == nil {
			continue
		}
		opened := m[2]
		if !files[opened] && !c17IsInstanceCanary(root, opened) {
			continue
		}
		asked := ""
		if sm := c17StraceStrRe.FindStringSubmatch(line); sm != nil {
			asked = sm[1]
		}
		ok := c17MatchAny(patterns, opened)
		rep.Eval(true, verifkit.JSON(patterns)+"|"+opened)
		if !files[opened] {
			rep.Event("opens_of_instance_derived_canaries")
		}
		if ok {
			rep.Event("opens_of_tree_files_inside_patterns")
			continue
		}
		rep.Event("opens_of_tree_files_OUTSIDE_patterns")
		group := "patterns-given"
		if len(patterns) == 0 {
			group = "no-patterns"
		}
		rep.Violate("unsafe-open:syscall:"+group,
			fmt.Sprintf("the process opened %s, which matches none of the safe patterns in force", opened),
			map[string]any{"safe_fs_patterns": patterns, "opened_file": opened, "path_as_passed_to_open": asked,
				"strace_line": c17Trunc(line), "fd": m[1], "seed_of_traced_run": strconv.FormatInt(verifkit.Seed()+1000, 10)})
	}
	if root == "" {
		rep.Inconcl("no section marker found in the strace log (openat not traced?)")
		return
	}
	if rep.EventCount("opens_of_tree_files_inside_patterns") < 50 {
		rep.Inconcl(fmt.Sprintf("only %d opens of allowed tree files seen at system-call level",
			rep.EventCount("opens_of_tree_files_inside_patterns")))
	}
	rep.Assume("strace -f -y reports every open/openat of the traced process with the kernel's path of the returned descriptor")
}
