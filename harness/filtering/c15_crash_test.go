//go:build verif

package filtering

import (
	"bytes"
	"encoding/json"
	"fmt"
	"math/rand"
	"net/http"
	"net/http/httptest"
	"os"
	"os/exec"
	"path/filepath"
	"strconv"
	"strings"
	"testing"
	"time"

	"github.com/AdguardTeam/AdGuardHome/internal/verifkit"
)

// Part "crash": the process dies (SIGKILL) in the middle of a download, after
// some rule lines have been written to the pending file; a fresh instance on
// the same data directory then refreshes the list to shorter and to longer
// content.  The dying process is a child: this test binary run again with
// C15_CRASH_CHILD set.

const c15CrashEnv = "C15_CRASH_CHILD"

type c15CrashList struct {
	ID    int    `json:"id"`
	URL   string `json:"url"`
	Allow bool   `json:"allow"`
	Name  string `json:"name"`
}

type c15CrashConf struct {
	DataDir string         `json:"data_dir"`
	Lists   []c15CrashList `json:"lists"`
}

func (c *c15CrashConf) filters() (block, allow []FilterYAML) {
	for _, l := range c.Lists {
		fy := FilterYAML{Enabled: true, URL: l.URL, Name: l.Name, white: l.Allow, Filter: Filter{ID: l.ID}}
		if l.Allow {
			allow = append(allow, fy)
		} else {
			block = append(block, fy)
		}
	}

	return block, allow
}

// c15CrashChild is the process that gets killed: it starts the program's
// filtering module on the data directory and refreshes all lists.
func c15CrashChild(spec string) {
	// Never outlive the parent by much.
	go func() { time.Sleep(2 * time.Minute); os.Exit(3) }()
	var c c15CrashConf
	if err := json.Unmarshal([]byte(spec), &c); err != nil {
		os.Exit(4)
	}
	block, allow := c.filters()
	d, err := New(&Config{DataDir: c.DataDir, FilteringEnabled: true, Filters: block, WhitelistFilters: allow,
		HTTPClient: &http.Client{Timeout: time.Minute}, ConfigModified: func() {}}, nil)
	if err != nil {
		os.Exit(5)
	}
	d.EnableFilters(false)
	d.Start()
	_, _, _ = d.tryRefreshFilters(true, true, true)
	select {}
}

func TestVerifC15Crash(t *testing.T) {
	if spec := os.Getenv(c15CrashEnv); spec != "" {
		c15CrashChild(spec)

		return
	}
	rep := verifkit.New("C15", "crash",
		"case = (list, refresh) after the process was killed in the middle of a download of that list with N rule lines already in the pending file; a fresh instance on the same data directory refreshes to shorter / longer / the old content; non-trivial = the list is the one whose download was aborted; distinct by (step, text, lines written before the kill)")
	defer func() {
		if err := rep.Write(); err != nil {
			t.Fatal(err)
		}
	}()
	root, err := os.MkdirTemp(os.Getenv("VERIF_SCRATCH"), "c15c-")
	if err != nil {
		rep.Inconcl("no scratch directory: " + err.Error())

		return
	}
	defer func() { _ = os.RemoveAll(root) }()
	srv := &c15ovServer{routes: map[string]*c15ovRoute{}}
	srv.srv = httptest.NewServer(http.HandlerFunc(srv.serve))
	defer srv.srv.Close()

	nRounds := verifkit.Pick(24, 240)
	for n := 0; n < nRounds; n++ {
		o := &c15ovRound{rep: rep, srv: srv, n: n, handlers: map[string]http.HandlerFunc{}, prefix: "crash",
			dataDir: filepath.Join(root, fmt.Sprintf("r%d", n))}
		if err = os.MkdirAll(filepath.Join(o.dataDir, filterDir), 0o755); err != nil {
			rep.Inconcl(err.Error())

			return
		}
		o.crashRound(rep.Rand(fmt.Sprintf("round-%d", n)))
		if n < 2 {
			rep.Sample(map[string]any{"round": n, "events": o.log})
		}
		_ = os.RemoveAll(o.dataDir)
		srv.mu.Lock()
		srv.routes = map[string]*c15ovRoute{}
		srv.mu.Unlock()
		if len(rep.Inconclusive) > 0 {
			return
		}
	}
	if !rep.Violated() {
		if got := rep.EventCount("processes_killed_with_rule_lines_in_the_pending_file"); got < nRounds*3/4 {
			rep.Inconcl(fmt.Sprintf("only %d of %d processes were killed with rule lines in their pending file", got, nRounds))
		}
		if got := rep.ClassCount("after-crash:shorter-content-stored-exactly"); got < nRounds/3 {
			rep.Inconcl(fmt.Sprintf("only %d refreshes to content shorter than the aborted download were judged", got))
		}
	}
}

// instance starts the filtering module on the round's data directory.
func (o *c15ovRound) instance(c *c15CrashConf) (d *DNSFilter, err error) {
	o.handlers = map[string]http.HandlerFunc{}
	block, allow := c.filters()
	d, err = New(&Config{DataDir: c.DataDir, FilteringEnabled: true, Filters: block, WhitelistFilters: allow,
		HTTPClient:     &http.Client{Timeout: time.Minute, Transport: &http.Transport{DisableKeepAlives: true}},
		ConfigModified: func() {},
		HTTPRegister:   func(method, u string, h http.HandlerFunc) { o.handlers[method+" "+u] = h }}, nil)
	if err != nil {
		return nil, err
	}
	d.EnableFilters(false)
	d.Start()
	o.d = d

	return d, nil
}

func (o *c15ovRound) crashRound(rng *rand.Rand) {
	rep := o.rep
	tag := func(letter string) string { return fmt.Sprintf("c%d%s", o.n, letter) }
	idBase := 1 + rng.Intn(50000)
	// The target list T, optionally a list in front of it (completely
	// downloaded by the dying process) and one behind it (never reached).
	type lst struct {
		key  string
		path string
		cur  *c15ovText
	}
	var lists []*lst
	conf := &c15CrashConf{DataDir: o.dataDir}
	keys := []string{"t"}
	if rng.Intn(2) == 0 {
		keys = []string{"a", "t"}
	}
	if rng.Intn(2) == 0 {
		keys = append(keys, "z")
	}
	allowT := rng.Intn(3) == 0
	want := map[string]*c15ovWant{}
	for i, k := range keys {
		l := &lst{key: k, path: "/" + tag(k) + ".txt"}
		cl := c15CrashList{ID: idBase + 3*i, URL: o.url(l.path), Allow: k == "t" && allowT, Name: "list " + k}
		conf.Lists = append(conf.Lists, cl)
		// Half of the lists have a file from an earlier run.
		if rng.Intn(2) == 0 {
			l.cur = c15ovGen(rng, tag(k), 1, 12+rng.Intn(200))
			if err := os.WriteFile(filepath.Join(o.dataDir, filterDir, strconv.Itoa(cl.ID)+".txt"), l.cur.NF, 0o644); err != nil {
				rep.Inconcl(err.Error())

				return
			}
		}
		lists = append(lists, l)
	}
	var target *lst
	for _, l := range lists {
		if l.key == "t" {
			target = l
		}
	}

	// The download that is aborted: version 9 of T, stalled after some lines.
	var ab *c15ovText
	var split int
	var writtenNF []byte
	for try := 0; try < 200; try++ {
		ab = c15ovGen(rng, tag("t"), 9, 60+rng.Intn(400))
		split = ab.Split
		if rng.Intn(3) == 0 {
			// At a line boundary.
			split = bytes.LastIndexByte(ab.Bytes[:split], '\n') + 1
		}
		writtenNF, _ = c15Normalise(ab.Bytes[:bytes.LastIndexByte(ab.Bytes[:split], '\n')+1], false, false, false)
		if bytes.Count(writtenNF, []byte("\n")) >= 25 {
			break
		}
	}
	writtenLines := strings.Split(strings.TrimSuffix(string(writtenNF), "\n"), "\n")
	// A name that only the aborted download lists.
	ghost := ""
	for _, l := range writtenLines {
		if strings.Contains(l, "-v9-") {
			ghost = strings.TrimSuffix(strings.TrimPrefix(l, "||"), "^")
		}
	}
	stall := &c15ovRoute{body: ab.Bytes, split: split, partSent: make(chan struct{}), gate: make(chan struct{})}
	o.srv.set(target.path, stall)
	o.aborted = fmt.Sprintf("%s-v9-", ab.Tag)
	for _, l := range lists {
		if l.key == "a" {
			// Completely downloaded by the process that dies later.
			l.cur = c15ovGen(rng, tag("a"), 2, 12+rng.Intn(60))
			o.srv.set(l.path, &c15ovRoute{body: l.cur.Bytes})
		} else if l.key == "z" {
			o.srv.set(l.path, &c15ovRoute{status: 503})
		}
	}
	spec, _ := json.Marshal(conf)
	cmd := exec.Command(os.Args[0], "-test.run=^TestVerifC15Crash$", "-test.count=1")
	cmd.Env = append(os.Environ(), c15CrashEnv+"="+string(spec))
	if err := cmd.Start(); err != nil {
		rep.Inconcl("cannot start the child process: " + err.Error())

		return
	}
	killed := false
	kill := func() {
		if !killed {
			killed = true
			_ = cmd.Process.Kill()
			_ = cmd.Wait()
			close(stall.gate)
		}
	}
	defer kill()
	select {
	case <-stall.partSent:
	case <-time.After(60 * time.Second):
		rep.Event("child_never_requested_the_list")

		return
	}
	sawPending := o.waitPending(writtenLines[len(writtenLines)-1] + "\n")
	kill()
	if sawPending {
		rep.Event("processes_killed_with_rule_lines_in_the_pending_file")
	}
	o.logf("process killed while downloading %s: %d of %d bytes sent, %d bytes / %d rule lines of it in the pending file",
		target.path, split, len(ab.Bytes), len(writtenNF), bytes.Count(writtenNF, []byte("\n")))
	// What the dead process left behind (counted, not asserted).
	ents, _ := os.ReadDir(filepath.Join(o.dataDir, filterDir))
	for _, e := range ents {
		name := e.Name()
		if strings.HasSuffix(name, ".txt") && !strings.HasPrefix(name, ".") {
			continue
		}
		rep.Event("files_left_by_the_killed_process")
		switch {
		case strings.HasPrefix(name, ".") && strings.Contains(name, ".txt"):
			rep.Class("left-behind:dot-<id>.txt<random>")
		case strings.HasSuffix(name, ".tmp"):
			rep.Class("left-behind:<id>.txt.tmp")
		default:
			rep.Class("left-behind:other")
		}
		o.logf("left behind: %s", name)
	}

	// The program is started again.
	d, err := o.instance(conf)
	if err != nil {
		rep.Violate("crash:restart:data-dir-rejected", "filtering.New fails on the data directory left by the killed process: "+err.Error(),
			map[string]any{"round": o.n, "events": o.log})

		return
	}
	defer func() { o.d.Close() }()
	_ = d
	for _, l := range lists {
		if l.cur != nil {
			role := "not-downloaded"
			if l.key == "a" {
				role = "stored-by-the-killed-process"
			}
			want[l.key] = &c15ovWant{URL: o.url(l.path), Allow: l.key == "t" && allowT, Text: l.cur, Role: role, Name: "list " + l.key}
		}
	}
	// What was in force before the crash is loaded again; nothing of the
	// aborted download shows.
	o.judge("restart-after-kill", want)
	ghostCheck := func(step string) {
		for _, name := range []string{ghost, ab.Probe} {
			if name == "" {
				continue
			}
			c, b, _ := c15Call(o.handlers["GET /control/filtering/check_host"], http.MethodGet, "/control/filtering/check_host?name="+name, "")
			var ch checkHostResp
			if c != http.StatusOK || json.Unmarshal(b, &ch) != nil {
				continue
			}
			rep.Event("checks_that_rules_of_the_aborted_download_are_not_in_force")
			if ch.Reason != NotFilteredNotFound.String() {
				rep.Violate("crash:"+step+":rule-of-aborted-download-in-force",
					fmt.Sprintf("%s was only ever listed by the download that the kill aborted, yet check_host says %s", name, ch.Reason),
					map[string]any{"round": o.n, "events": o.log})

				return
			}
		}
	}
	ghostCheck("restart-after-kill")

	// Refreshes of the fresh instance.  The first one of T brings content
	// shorter than what the aborted download had written (2 of 3 rounds), or
	// longer, or the content T had before.
	steps := []string{"shorter", "longer"}
	switch rng.Intn(6) {
	case 0, 1:
		steps = []string{"longer", "shorter"}
	case 2:
		if target.cur != nil {
			steps = []string{"same-as-before-the-crash", "shorter", "longer"}
		}
	}
	ver := 10
	for si, step := range steps {
		ver++
		var nt *c15ovText
		switch step {
		case "shorter":
			nt = c15ovGen(rng, tag("t"), ver, 12)
			for try := 0; len(nt.NF) >= len(writtenNF) && try < 20; try++ {
				nt = c15ovGen(rng, tag("t"), ver, 12)
			}
		case "longer":
			nt = c15ovGen(rng, tag("t"), ver, bytes.Count(ab.NF, []byte("\n"))+20+rng.Intn(100))
		default:
			nt = target.cur
		}
		o.srv.set(target.path, &c15ovRoute{body: nt.Bytes})
		old := ""
		if target.cur != nil && target.cur != nt {
			old = target.cur.Probe
		}
		for _, l := range lists {
			if l.key == "z" {
				// The list behind T: fails first, then gets content.
				if si == 0 {
					o.srv.set(l.path, &c15ovRoute{status: 503})
				} else {
					if l.cur != nil {
						want["z"].OldProbe = l.cur.Probe
					}
					l.cur = c15ovGen(rng, tag("z"), ver, 12+rng.Intn(40))
					o.srv.set(l.path, &c15ovRoute{body: l.cur.Bytes})
					if want["z"] == nil {
						want["z"] = &c15ovWant{URL: o.url(l.path), Name: "list z"}
					}
					want["z"].Text, want["z"].Role = l.cur, "fast-download"
				}
			}
		}
		o.post("/control/filtering/refresh", `{"whitelist":false}`)
		if allowT {
			o.post("/control/filtering/refresh", `{"whitelist":true}`)
		}
		target.cur = nt
		want["t"] = &c15ovWant{URL: o.url(target.path), Allow: allowT, Text: nt, Role: "aborted-download:" + step, OldProbe: old, Name: "list t"}
		before := rep.ClassCount("stored-exactly-own-content:aborted-download:" + step)
		o.judge(fmt.Sprintf("refresh-%d-after-kill", si+1), want)
		ghostCheck(fmt.Sprintf("refresh-%d-after-kill", si+1))
		if rep.ClassCount("stored-exactly-own-content:aborted-download:"+step) > before {
			if step == "shorter" && len(nt.NF) < len(writtenNF) {
				rep.Class("after-crash:shorter-content-stored-exactly")
			} else {
				rep.Class("after-crash:" + step + "-content-stored-exactly")
			}
		}

		// And the next start of the program finds the same.
		o.d.Close()
		last := map[int][2]uint32{}
		func() {
			o.d.conf.filtersMu.RLock()
			defer o.d.conf.filtersMu.RUnlock()
			for _, f := range append(append([]FilterYAML{}, o.d.conf.Filters...), o.d.conf.WhitelistFilters...) {
				last[int(f.ID)] = [2]uint32{uint32(f.RulesCount), f.checksum}
			}
		}()
		if _, err = o.instance(conf); err != nil {
			rep.Violate("crash:restart:data-dir-rejected", "filtering.New fails on the data directory: "+err.Error(),
				map[string]any{"round": o.n, "events": o.log})

			return
		}
		for _, f := range append(append([]FilterYAML{}, o.d.conf.Filters...), o.d.conf.WhitelistFilters...) {
			rep.Event("restart_comparisons")
			if l := last[int(f.ID)]; l != [2]uint32{uint32(f.RulesCount), f.checksum} {
				rep.Violate("crash:restart:count-or-checksum-differs",
					fmt.Sprintf("list %d: the refresh had reported %d rules / checksum %d, the next start loads %d rules / checksum %d from the file",
						f.ID, l[0], l[1], f.RulesCount, f.checksum),
					map[string]any{"round": o.n, "step": step, "events": o.log})
			}
		}
	}
}
