//go:build verif && goexperiment.synctest

package filtering

import (
	"encoding/json"
	"fmt"
	"net/netip"
	"strings"
	"testing"
	"testing/synctest"
	"time"

	"github.com/AdguardTeam/AdGuardHome/internal/schedule"
	"github.com/AdguardTeam/AdGuardHome/internal/verifkit"
	"github.com/miekg/dns"
)

// c18FSched is the monitor's own weekly schedule (minutes from local midnight).
type c18FSched struct {
	Zone  string `json:"zone"`
	Start [7]int `json:"start_min"`
	End   [7]int `json:"end_min"`
}

var c18FDays = [7]string{"sun", "mon", "tue", "wed", "thu", "fri", "sat"}

func (s c18FSched) weekly() (*schedule.Weekly, error) {
	m := map[string]any{"time_zone": s.Zone}
	for d := 0; d < 7; d++ {
		if s.Start[d] == 0 && s.End[d] == 0 {
			continue
		}
		m[c18FDays[d]] = map[string]any{"start": int64(s.Start[d]) * 60000, "end": int64(s.End[d]) * 60000}
	}
	b, _ := json.Marshal(m)
	w := &schedule.Weekly{}

	return w, json.Unmarshal(b, w)
}

// contains is the wall-clock oracle.
func (s c18FSched) contains(t time.Time, loc *time.Location) bool {
	lt := t.In(loc)
	h, m, sec := lt.Clock()
	off := time.Duration(h)*time.Hour + time.Duration(m)*time.Minute + time.Duration(sec)*time.Second + time.Duration(lt.Nanosecond())
	wd := int(lt.Weekday())

	return time.Duration(s.Start[wd])*time.Minute <= off && off < time.Duration(s.End[wd])*time.Minute
}

// TestVerifC18Filter checks the pause schedule where it is consulted: on the
// request path of the filter, for the global blocked services and for a
// client's own blocked services, on virtual time.
func TestVerifC18Filter(t *testing.T) {
	rep := verifkit.New("C18", "filter",
		"case = (global schedule, client's own schedule, instant on the virtual clock, client); a name of a blocked service is checked through ApplyAdditionalFiltering + CheckHost and must be blocked exactly when the service is in the effective list and the effective pause schedule does not contain the instant by wall-clock reckoning; non-trivial = the two schedules disagree at the instant or the instant is within a minute of a range edge; distinct by (schedules, instant, client)")
	defer func() {
		if err := rep.Write(); err != nil {
			t.Fatal(err)
		}
	}()
	InitModule()
	rng := rep.Rand("main")
	zones := []string{"UTC", "America/New_York", "Europe/Berlin", "Asia/Kolkata", "Australia/Lord_Howe", "America/Havana", "Pacific/Chatham", "Asia/Tehran"}
	nHist := verifkit.Pick(800, 8000)
	for h := 0; h < nHist; h++ {
		seedZone := zones[rng.Intn(len(zones))]
		loc, err := time.LoadLocation(seedZone)
		if err != nil {
			continue
		}
		mk := func(zone string) c18FSched {
			s := c18FSched{Zone: zone}
			for d := 0; d < 7; d++ {
				switch rng.Intn(6) {
				case 0:
				case 1:
					s.Start[d], s.End[d] = 0, 1440
				default:
					a := rng.Intn(1439)
					s.Start[d], s.End[d] = a, a+1+rng.Intn(1440-a)
				}
			}

			return s
		}
		global, own := mk(seedZone), mk(zones[rng.Intn(len(zones))])
		ownLoc, _ := time.LoadLocation(own.Zone)
		gw, gerr := global.weekly()
		ow, oerr := own.weekly()
		if gerr != nil || oerr != nil {
			rep.Violate("valid-schedule-rejected", fmt.Sprint(gerr, oerr), map[string]any{"global": global, "own": own})

			continue
		}
		globalIDs := [][]string{{"youtube"}, {"youtube", "tiktok"}, {}}[rng.Intn(3)]
		ownIDs := [][]string{{"tiktok"}, {"youtube"}, {}}[rng.Intn(3)]
		clientAddr := netip.MustParseAddr("10.0.0.7")
		synctest.Run(func() {
			d, nerr := New(&Config{
				DataDir: t.TempDir(), ProtectionEnabled: true, FilteringEnabled: true, BlockingMode: BlockingModeDefault,
				BlockedServices: &BlockedServices{Schedule: gw, IDs: globalIDs},
				ApplyClientFiltering: func(_ string, addr netip.Addr, setts *Settings) {
					if addr == clientAddr {
						setts.ClientName = "kid"
						setts.BlockedServices = &BlockedServices{Schedule: ow.Clone(), IDs: ownIDs}
					}
				},
			}, nil)
			if nerr != nil {
				rep.Inconcl("filtering.New: " + nerr.Error())

				return
			}
			defer d.Close()
			// The virtual clock starts on 2000-01-01; walk it forward through
			// a few weeks, with steps that land near range edges and, for
			// zones with DST, across the spring transition of 2000.
			steps := 25 + rng.Intn(25)
			for i := 0; i < steps; i++ {
				var step time.Duration
				switch rng.Intn(5) {
				case 0:
					step = time.Duration(1+rng.Intn(90)) * time.Second
				case 1:
					step = time.Duration(1+rng.Intn(180)) * time.Minute
				case 2:
					step = time.Duration(1+rng.Intn(72)) * time.Hour
				case 3:
					// Jump to just before/after an edge of the current day.
					lt := time.Now().In(loc)
					wd := int(lt.Weekday())
					e := []int{global.Start[wd], global.End[wd]}[rng.Intn(2)]
					y, m, dd := lt.Date()
					target := time.Date(y, m, dd, e/60, e%60, 0, 0, loc).Add(time.Duration(rng.Intn(3)-1) * time.Second)
					if target.After(time.Now()) {
						step = time.Until(target)
					} else {
						step = time.Until(target.Add(24 * time.Hour))
					}
				default:
					step = time.Duration(1+rng.Intn(20)) * 24 * time.Hour
				}
				if step <= 0 {
					step = time.Second
				}
				time.Sleep(step)
				now := time.Now()
				for _, who := range []struct {
					name string
					addr netip.Addr
				}{{"nobody", netip.MustParseAddr("10.0.0.99")}, {"kid", clientAddr}} {
					ids, sched, sloc := globalIDs, global, loc
					if who.name == "kid" {
						ids, sched, sloc = ownIDs, own, ownLoc
					}
					paused := sched.contains(now, sloc)
					for _, svc := range []struct{ id, host string }{{"youtube", "www.youtube.com"}, {"tiktok", "www.tiktok.com"}} {
						inList := false
						for _, id := range ids {
							inList = inList || id == svc.id
						}
						want := inList && !paused
						setts := d.Settings()
						setts.ProtectionEnabled = true
						d.ApplyAdditionalFiltering(who.addr, "", setts)
						res, cerr := d.CheckHost(svc.host, dns.TypeA, setts)
						got := cerr == nil && res.IsFiltered && res.Reason == FilteredBlockedService
						lt := now.In(sloc)
						minOfDay := lt.Hour()*60 + lt.Minute()
						wd := int(lt.Weekday())
						nearEdge := c18FAbs(minOfDay-sched.Start[wd]) <= 1 || c18FAbs(minOfDay-sched.End[wd]) <= 1
						disagree := global.contains(now, loc) != own.contains(now, ownLoc)
						rep.Eval(nearEdge || disagree, fmt.Sprintf("%d|%d|%s|%s", h, now.UnixNano(), who.name, svc.id))
						if want {
							rep.Class("expected_blocked")
						} else if inList {
							rep.Class("expected_paused")
						}
						if got != want {
							kind := "global-schedule"
							if who.name == "kid" {
								kind = "client-own-schedule"
							}
							rep.Violate("filter-path:"+kind+":"+map[bool]string{true: "blocked-during-pause-or-not-listed", false: "not-blocked-outside-pause"}[got],
								fmt.Sprintf("%s for %s at %s: blocked=%v, expected %v (service listed=%v, pause in effect=%v)", svc.host, who.name, lt.Format("Mon 2006-01-02 15:04:05 -0700"), got, want, inList, paused),
								map[string]any{"global_schedule": global, "global_services": globalIDs, "own_schedule": own, "own_services": ownIDs,
									"client": who.name, "instant_utc": now.UTC().Format(time.RFC3339Nano), "result_reason": res.Reason.String()})
						}
					}
				}
			}
		})
		if h == 0 {
			rep.Sample(map[string]any{"global_schedule": global, "own_schedule": own, "global_services": globalIDs, "own_services": ownIDs})
		}
	}
	if rep.ClassCount("expected_blocked") < 100 || rep.ClassCount("expected_paused") < 100 {
		rep.Inconcl(fmt.Sprintf("too few decisive cases: blocked=%d paused=%d", rep.ClassCount("expected_blocked"), rep.ClassCount("expected_paused")))
	}
	_ = strings.TrimSpace
}

func c18FAbs(a int) int {
	if a < 0 {
		return -a
	}

	return a
}
