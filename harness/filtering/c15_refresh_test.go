//go:build verif

package filtering

import (
	"bytes"
	"encoding/json"
	"fmt"
	"io"
	"math/rand"
	"net"
	"net/http"
	"net/http/httptest"
	"net/url"
	"os"
	"path/filepath"
	"sort"
	"strconv"
	"strings"
	"sync"
	"syscall"
	"testing"
	"time"

	"github.com/AdguardTeam/AdGuardHome/internal/verifkit"
)

// c15Beh is what the source of one list does during one step.
type c15Beh struct {
	// Kind is the transport behaviour: ok-length, ok-chunked, ok-gzip,
	// refuse, close-before-headers, reset-before-headers, close-in-headers,
	// status-NNN, cut-length-midline, cut-length-boundary, cut-length-zero,
	// cut-chunked-midline, cut-chunked-boundary, cut-gzip, file-write,
	// file-vanished, file-directory, file-dangling-symlink.
	Kind   string
	Status int
	Text   *c15Text
	// SendN is the number of body bytes really sent by the cut kinds (for
	// cut-gzip: of the compressed stream).
	SendN int
	Level string
	Zones []string
	// Then makes the behaviour a response script: the first request of a step
	// gets this behaviour, the k-th one Then[k-2], later ones the last entry.
	// Only kinds that Go's transport never retries by itself are scripted
	// (a response whose headers arrived: ok-*, status-*, cut-*).
	Then []*c15Beh
	// Alt is the text of the first complete 200 response of a script that
	// starts with a failing response (Level c15FailThenOK).
	Alt *c15Text
}

// c15FailThenOK: the first response of the script fails, a later one is
// complete.  Either nothing changes, or - if the product asks again - exactly
// the complete content is stored.
const c15FailThenOK = "fail-then-ok"

// at returns the behaviour for the k-th request (k from 0) of a step.
func (b *c15Beh) at(k int) *c15Beh {
	if k == 0 || len(b.Then) == 0 {
		return b
	}

	return b.Then[min(k, len(b.Then))-1]
}

func (b *c15Beh) chain() []*c15Beh {
	return append([]*c15Beh{b}, b.Then...)
}

func (b *c15Beh) show() map[string]any {
	m := map[string]any{"kind": b.Kind, "expectation": b.Level, "content_class": b.Text.Class,
		"text": c15Show(b.Text.Bytes), "probe_name": b.Text.Probe}
	if strings.HasPrefix(b.Kind, "cut-") {
		m["body_bytes_sent"] = b.SendN
		if b.Kind != "cut-gzip" {
			m["sent_part"] = c15Show(b.Text.Bytes[:b.SendN])
		}
	}
	if len(b.Zones) > 0 {
		m["unspecified_zones"] = b.Zones
	}
	if len(b.Then) > 0 {
		var later []map[string]any
		for _, t := range b.Then {
			e := map[string]any{"kind": t.Kind, "text": c15Show(t.Text.Bytes), "probe_name": t.Text.Probe}
			if strings.HasPrefix(t.Kind, "cut-") {
				e["body_bytes_sent"] = t.SendN
			}
			later = append(later, e)
		}
		m["responses_to_further_requests_in_this_step"] = later
	}

	return m
}

// c15Script is the behaviour table shared by the list servers.
type c15Script struct {
	mu         sync.Mutex
	beh        map[string]*c15Beh
	hits       map[string]int
	// done counts, per path and step, the complete 200 responses that left the
	// list server without a write error.
	done  map[string]int
	total int
	unscripted []string
}

func c15NewScript() *c15Script {
	return &c15Script{beh: map[string]*c15Beh{}, hits: map[string]int{}, done: map[string]int{}}
}

func (s *c15Script) set(path string, b *c15Beh) {
	s.mu.Lock()
	defer s.mu.Unlock()
	if b == nil {
		delete(s.beh, path)
	} else {
		s.beh[path] = b
	}
	s.hits[path] = 0
	s.done[path] = 0
}

func (s *c15Script) markDone(path string) {
	s.mu.Lock()
	defer s.mu.Unlock()
	s.done[path]++
}

func (s *c15Script) doneCount(path string) int {
	s.mu.Lock()
	defer s.mu.Unlock()

	return s.done[path]
}

func (s *c15Script) take(path string) *c15Beh {
	s.mu.Lock()
	defer s.mu.Unlock()
	b := s.beh[path]
	if b == nil {
		s.unscripted = append(s.unscripted, path)
	} else {
		b = b.at(s.hits[path])
	}
	s.hits[path]++
	s.total++

	return b
}

func (s *c15Script) totalHits() int {
	s.mu.Lock()
	defer s.mu.Unlock()

	return s.total
}

func (s *c15Script) hitCount(path string) int {
	s.mu.Lock()
	defer s.mu.Unlock()

	return s.hits[path]
}

// c15Server is a real net/http server on loopback that can be stopped and
// started again on the same port.
type c15Server struct {
	script *c15Script
	addr   string
	mu     sync.Mutex
	srv    *http.Server
}

func c15StartServer(script *c15Script) (*c15Server, error) {
	var lastErr error
	for try := 0; try < 20; try++ {
		s := &c15Server{script: script, addr: fmt.Sprintf("127.0.0.1:%d", verifkit.FreePort())}
		if lastErr = s.start(); lastErr == nil {
			return s, nil
		}
	}

	return nil, lastErr
}

func (s *c15Server) start() error {
	var ln net.Listener
	var err error
	for try := 0; try < 50; try++ {
		ln, err = net.Listen("tcp4", s.addr)
		if err == nil {
			break
		}
		time.Sleep(20 * time.Millisecond)
	}
	if err != nil {
		return err
	}
	srv := &http.Server{Handler: http.HandlerFunc(s.serve)}
	s.mu.Lock()
	s.srv = srv
	s.mu.Unlock()
	go func() { _ = srv.Serve(ln) }()

	return nil
}

// stop closes the listener and every connection, so that the next connection
// attempt is refused.
func (s *c15Server) stop() {
	s.mu.Lock()
	srv := s.srv
	s.srv = nil
	s.mu.Unlock()
	if srv != nil {
		_ = srv.Close()
	}
}

func (s *c15Server) serve(w http.ResponseWriter, r *http.Request) {
	b := s.script.take(r.URL.Path)
	if b == nil {
		http.Error(w, "no script", http.StatusGone)

		return
	}
	body := b.Text.Bytes
	h := w.Header()
	h.Set("Content-Type", "text/plain; charset=utf-8")
	switch {
	case b.Kind == "ok-length":
		h.Set("Content-Length", strconv.Itoa(len(body)))
		if n, werr := w.Write(body); werr == nil && n == len(body) {
			s.script.markDone(r.URL.Path)
		}

		return
	case b.Kind == "ok-chunked":
		fl := w.(http.Flusher)
		piece := len(body)/3 + 1
		good := true
		for off := 0; off < len(body); off += piece {
			if _, werr := w.Write(body[off:min(off+piece, len(body))]); werr != nil {
				good = false
			}
			fl.Flush()
		}
		fl.Flush()
		if good {
			s.script.markDone(r.URL.Path)
		}

		return
	case b.Kind == "ok-gzip":
		gz := c15Gzip(body)
		h.Set("Content-Encoding", "gzip")
		h.Set("Content-Length", strconv.Itoa(len(gz)))
		if n, werr := w.Write(gz); werr == nil && n == len(gz) {
			s.script.markDone(r.URL.Path)
		}

		return
	case strings.HasPrefix(b.Kind, "status-"):
		h.Set("Content-Length", strconv.Itoa(len(body)))
		w.WriteHeader(b.Status)
		_, _ = w.Write(body)

		return
	}
	hj, ok := w.(http.Hijacker)
	if !ok {
		http.Error(w, "cannot hijack", http.StatusInternalServerError)

		return
	}
	conn, _, err := hj.Hijack()
	if err != nil {
		return
	}
	defer func() { _ = conn.Close() }()
	const head = "HTTP/1.1 200 OK\r\nContent-Type: text/plain; charset=utf-8\r\n"
	switch b.Kind {
	case "close-before-headers":
	case "reset-before-headers":
		if tc, isTCP := conn.(*net.TCPConn); isTCP {
			_ = tc.SetLinger(0)
		}
	case "close-in-headers":
		_, _ = conn.Write([]byte("HTTP/1.1 200 OK\r\nContent-Type: text/plain\r\nContent-Len"))
	case "cut-length-midline", "cut-length-boundary", "cut-length-zero":
		_, _ = fmt.Fprintf(conn, "%sContent-Length: %d\r\n\r\n", head, len(body))
		_, _ = conn.Write(body[:b.SendN])
	case "cut-chunked-midline", "cut-chunked-boundary":
		_, _ = fmt.Fprintf(conn, "%sTransfer-Encoding: chunked\r\n\r\n", head)
		half := b.SendN / 2
		if half > 0 {
			_, _ = fmt.Fprintf(conn, "%x\r\n%s\r\n", half, body[:half])
		}
		// The second chunk announces more than is sent when the sent part is
		// odd-sized, and is complete (but never followed by the last-chunk)
		// otherwise.
		rest := body[half:b.SendN]
		_, _ = fmt.Fprintf(conn, "%x\r\n%s", len(rest)+b.SendN%2*7, rest)
		if b.SendN%2 == 0 {
			_, _ = conn.Write([]byte("\r\n"))
		}
	case "cut-gzip":
		gz := c15Gzip(body)
		_, _ = fmt.Fprintf(conn, "%sContent-Encoding: gzip\r\nContent-Length: %d\r\n\r\n", head, b.SendN)
		_, _ = conn.Write(gz[:b.SendN])
	}
}

// c15ListM is the monitor's record of one list of a sequence.
type c15ListM struct {
	Idx   int
	ID    int
	Allow bool
	// Src: "http" (main server), "http2" (server that can be stopped), "file".
	Src string
	URL string
	// Key is the server path or the source file path.
	Key       string
	GoodProbe string
	PrevProbe string
	Ver       int
	LastOK    *c15Text
	Preseeded bool
}

type c15Step struct {
	Mode string
	Beh  map[int]*c15Beh
	Down bool
	// OpenFault, if not nil, is a list whose refresh fails in this step and
	// whose stored file cannot be opened while the step runs.
	OpenFault *c15ListM
}

// c15MakeUnopenable makes open(2) of path fail with ELOOP without ever leaving
// the path missing (a missing file legitimately means "no rules"): the file is
// hard-linked aside, a symlink pointing to itself is created under a temporary
// name and renamed over the path.  restore renames the hard link back, so the
// path holds the same inode as before.
func c15MakeUnopenable(path string) (restore func() error, err error) {
	aside, tmp := path+".c15-aside", path+".c15-loop"
	_ = os.Remove(aside)
	_ = os.Remove(tmp)
	if err = os.Link(path, aside); err != nil {
		return nil, err
	}
	if err = os.Symlink(filepath.Base(path), tmp); err != nil {
		_ = os.Remove(aside)

		return nil, err
	}
	if err = os.Rename(tmp, path); err != nil {
		_ = os.Remove(aside)
		_ = os.Remove(tmp)

		return nil, err
	}

	return func() error { return os.Rename(aside, path) }, nil
}

// c15Env is shared by all sequences of a run.
type c15Env struct {
	rep    *verifkit.Report
	script *c15Script
	main   *c15Server
	second *c15Server
	root   string
	// mem is set by the virtual-time part: list sources are served by an
	// in-memory RoundTripper and scheduled refreshes are fired by the
	// product's own timer; waitTick sleeps until that has happened.
	mem      bool
	waitTick func(q *c15Seq) map[string]any
	// hugeLeft is the number of bodies larger than 64 MiB still to be served.
	hugeLeft int
}

// c15HugeText is a complete, well-formed list of more than 64 MiB: a few rules,
// some 65-67 MiB of comment lines, and a few more rules (the probe among them)
// behind them.  Its normal form is a dozen lines.
func c15HugeText(rng *rand.Rand, probe string) *c15Text {
	var sb bytes.Buffer
	sb.WriteString("! Title: a very large list\n")
	for i := 0; i < 3; i++ {
		sb.WriteString(c15RuleLine(rng) + "\n")
	}
	pad := []byte("# padding padding padding padding padding padding padding pad\r\n")
	sb.Write(bytes.Repeat(pad, (64<<20)/len(pad)+(1+rng.Intn(3))*(1<<20)/len(pad)))
	for i := 0; i < 4; i++ {
		sb.WriteString(c15RuleLine(rng) + "\n")
	}
	sb.WriteString(c15ProbeLine(rng, probe) + "\n")
	sb.WriteString(c15RuleLine(rng) + "\n")

	return &c15Text{Bytes: sb.Bytes(), Probe: probe, ProbeEnd: sb.Len(), Class: "larger-than-64-MiB"}
}

// c15Seq is one sequence: one DNSFilter, its lists and the history so far.
type c15Seq struct {
	env      *c15Env
	n        int
	rng      *rand.Rand
	d        *DNSFilter
	handlers map[string]http.HandlerFunc
	lists    []*c15ListM
	dataDir  string
	srcDir   string
	history  []map[string]any
	sched    bool
	tr       *http.Transport
	client   *http.Client
}

func c15Call(h http.HandlerFunc, method, target, body string) (code int, resp []byte, panicked any) {
	defer func() {
		if p := recover(); p != nil {
			panicked = p
		}
	}()
	r := httptest.NewRequest(method, target, strings.NewReader(body))
	w := httptest.NewRecorder()
	h(w, r)

	return w.Code, w.Body.Bytes(), nil
}

func (q *c15Seq) describe() map[string]any {
	var ls []map[string]any
	for _, l := range q.lists {
		ls = append(ls, map[string]any{"list": l.Idx, "id": l.ID, "allow_list": l.Allow, "source": l.Src,
			"file_existed_at_start": l.Preseeded})
	}

	m := map[string]any{"sequence": q.n, "lists": ls, "scheduled_capable": q.sched}
	if q.tr != nil {
		m["keep_alives_disabled"] = q.tr.DisableKeepAlives
	} else {
		m["in_memory_transport_and_product_timer"] = true
	}

	return m
}

// snapshot reads, for every list, file and metadata, and the decisions for
// names.
func (q *c15Seq) snapshot(names []string) (*c15World, error) {
	w := &c15World{Lists: map[int]*c15Snap{}, Dec: map[string]string{}}
	code, body, pn := c15Call(q.handlers["GET /control/filtering/status"], http.MethodGet, "/control/filtering/status", "")
	if pn != nil || code != http.StatusOK {
		return nil, fmt.Errorf("status API: code %d panic %v", code, pn)
	}
	var st filteringConfig
	if err := json.Unmarshal(body, &st); err != nil {
		return nil, fmt.Errorf("status API: %w", err)
	}
	byID := map[int]filterJSON{}
	for _, f := range append(append([]filterJSON{}, st.Filters...), st.WhitelistFilters...) {
		byID[int(f.ID)] = f
	}
	sums := map[int]uint32{}
	func() {
		q.d.conf.filtersMu.RLock()
		defer q.d.conf.filtersMu.RUnlock()
		for _, f := range q.d.conf.Filters {
			sums[int(f.ID)] = f.checksum
		}
		for _, f := range q.d.conf.WhitelistFilters {
			sums[int(f.ID)] = f.checksum
		}
	}()
	func() {
		q.d.engineLock.RLock()
		defer q.d.engineLock.RUnlock()
		w.Engines = fmt.Sprintf("%p/%p", q.d.filteringEngine, q.d.filteringEngineAllow)
	}()
	known := map[string]bool{}
	for _, l := range q.lists {
		s := &c15Snap{}
		p := filepath.Join(q.dataDir, filterDir, strconv.Itoa(l.ID)+".txt")
		known[filepath.Base(p)] = true
		fi, err := os.Stat(p)
		if err == nil {
			s.Exists = true
			s.MtimeNS = fi.ModTime().UnixNano()
			if sys, ok := fi.Sys().(*syscall.Stat_t); ok {
				s.Ino = sys.Ino
			}
			if s.Bytes, err = os.ReadFile(p); err != nil {
				return nil, err
			}
		} else if !os.IsNotExist(err) {
			return nil, err
		}
		fj, ok := byID[l.ID]
		if !ok {
			return nil, fmt.Errorf("list %d missing from the status API", l.ID)
		}
		s.Count, s.LastUpdated, s.Sum = int(fj.RulesCount), fj.LastUpdated, sums[l.ID]
		w.Lists[l.ID] = s
	}
	ents, _ := os.ReadDir(filepath.Join(q.dataDir, filterDir))
	for _, e := range ents {
		if !known[e.Name()] {
			w.Extra = append(w.Extra, e.Name())
		}
	}
	for _, n := range names {
		if n == "" {
			continue
		}
		code, body, pn = c15Call(q.handlers["GET /control/filtering/check_host"], http.MethodGet,
			"/control/filtering/check_host?name="+url.QueryEscape(n), "")
		if pn != nil || code != http.StatusOK {
			return nil, fmt.Errorf("check_host API: code %d panic %v", code, pn)
		}
		var ch checkHostResp
		if err := json.Unmarshal(body, &ch); err != nil {
			return nil, fmt.Errorf("check_host API: %w", err)
		}
		id := 0
		if len(ch.Rules) > 0 {
			id = int(ch.Rules[0].FilterListID)
		}
		w.Dec[n] = fmt.Sprintf("%s/%d", ch.Reason, id)
	}

	return w, nil
}

const c15Never = "never-listed.c15probe.test"

func c15LevelOf(kind string, t *c15Text) (level string, zones []string) {
	if !strings.HasPrefix(kind, "ok-") && kind != "file-write" {
		return c15MustFail, nil
	}
	if t.Class == "html" || t.Class == "binary" || t.Class == "ctrl-in-rule" {
		// "ctrl-in-rule": one control character other than tab, LF, CR inside
		// a rule line (or as its first / last byte unless it is VT or FF) is
		// binary content.
		return c15MustFail, nil
	}
	if zones = c15Exotic(t.Bytes); len(zones) > 0 {
		return c15Either, zones
	}

	return c15MustSucceed, nil
}

var c15HTTPFaults = []string{
	"close-before-headers", "reset-before-headers", "close-in-headers",
	"status", "status", "status",
	"cut-length-midline", "cut-length-midline", "cut-length-boundary", "cut-length-boundary", "cut-length-zero",
	"cut-chunked-midline", "cut-chunked-boundary", "cut-gzip",
}

var c15Statuses = []int{403, 404, 404, 500, 503, 206, 203}

var c15ExoticClasses = []string{"exotic-edge", "lone-cr", "ctrl-in-rule", "ctrl-in-rule", "ctrl-in-comment", "html-after-rule", "over-long"}

// genBeh chooses what the source of list l does in the next step.
func (q *c15Seq) genBeh(l *c15ListM, cur *c15Snap, down bool) *c15Beh {
	rng := q.rng
	l.Ver++
	probe := fmt.Sprintf("v%d.l%d.c15probe.test", l.Ver, l.Idx)
	b := &c15Beh{}
	if q.env.hugeLeft > 0 && l.Src == "http" && q.n >= 2 && !down {
		// Nothing in the statement limits the size of a list: either it is
		// stored completely, or the refresh fails and nothing changes.
		q.env.hugeLeft--
		t := c15HugeText(rng, probe)
		for try := 0; try < 20 && len(c15Exotic(t.Bytes[:1<<10])) > 0; try++ {
			t = c15HugeText(rng, probe)
		}

		return &c15Beh{Kind: []string{"ok-length", "ok-chunked"}[rng.Intn(2)], Text: t, Level: c15Either,
			Zones: []string{"body-larger-than-64-MiB"}}
	}
	var coll *c15Text
	okKind := func() string {
		if l.Src == "file" {
			return "file-write"
		}

		return []string{"ok-length", "ok-length", "ok-chunked", "ok-gzip"}[rng.Intn(4)]
	}
	switch r := rng.Intn(100); {
	case down && (l.Src == "http2" || l.Src == "mem2"):
		b.Kind, b.Text = "refuse", c15GenText(rng, probe, "plain", 1)
	case r < 27:
		b.Kind, b.Text = okKind(), c15GenText(rng, probe, "plain", 0)
	case r < 39 && cur.Exists && len(cur.Bytes) > 0:
		b.Kind, b.Text = okKind(), c15Rerender(rng, cur.Bytes, l.GoodProbe)
	case r < 44 && l.LastOK != nil:
		t := *l.LastOK
		t.Class = "identical"
		b.Kind, b.Text = okKind(), &t
	case r < 45 && cur.Exists && func() bool { coll = c15Collide(rng, cur.Bytes, l.GoodProbe); return coll != nil }():
		// Two stored lines glued into one: other rules, same checksum.
		b.Kind, b.Text = okKind(), coll
	case r < 47:
		// Nothing but comments: the empty list.
		b.Kind, b.Text = okKind(), &c15Text{Bytes: []byte("! Title: empty\r\n# nothing\n\n"), Class: "plain"}
	case r < 57:
		b.Kind, b.Text = okKind(), c15GenText(rng, probe, c15ExoticClasses[rng.Intn(len(c15ExoticClasses))], 0)
	case r < 63:
		b.Kind, b.Text = okKind(), c15GenText(rng, probe, "html", 0)
	case r < 68:
		b.Kind, b.Text = okKind(), c15GenText(rng, probe, "binary", 0)
	case l.Src != "file" && r < 77:
		b = c15GenScript(rng, probe, fmt.Sprintf("v%d.l%d.c15probe.test", l.Ver+1000, l.Idx))
		if b.Level != "" {
			return b
		}
		b = &c15Beh{Kind: okKind(), Text: c15GenText(rng, probe, "plain", 0)}
	case l.Src == "file":
		b.Kind = []string{"file-vanished", "file-directory", "file-dangling-symlink"}[rng.Intn(3)]
		b.Text = &c15Text{Bytes: []byte{}, Class: "none"}
	default:
		b.Kind = c15HTTPFaults[rng.Intn(len(c15HTTPFaults))]
		b.Text = c15GenText(rng, probe, "plain", 4)
		switch b.Kind {
		case "status":
			b.Status = c15Statuses[rng.Intn(len(c15Statuses))]
			b.Kind = fmt.Sprintf("status-%d", b.Status)
		case "cut-length-midline", "cut-chunked-midline":
			n, ok := c15CutPoint(rng, b.Text, false)
			if !ok {
				b.Kind, n = "cut-length-zero", 0
			}
			b.SendN = n
		case "cut-length-boundary", "cut-chunked-boundary":
			n, ok := c15CutPoint(rng, b.Text, true)
			if !ok {
				b.Kind, n = "cut-length-zero", 0
			}
			b.SendN = n
		case "cut-gzip":
			gz := c15Gzip(b.Text.Bytes)
			// Anywhere in the stream, including inside the 8-byte trailer.
			if rng.Intn(3) == 0 {
				b.SendN = len(gz) - 1 - rng.Intn(8)
			} else {
				b.SendN = 1 + rng.Intn(len(gz)-1)
			}
		}
	}
	b.Level, b.Zones = c15LevelOf(b.Kind, b.Text)

	return b
}

// c15GenScript builds a response script for one URL and one refresh:
// [cut, ok], [cut, cut, ok], [5xx, ok], [cut, ok with other content], [ok, cut].
func c15GenScript(rng *rand.Rand, probe, probe2 string) *c15Beh {
	plain := func(p string) *c15Text {
		t := c15GenText(rng, p, "plain", 4)
		for try := 0; try < 50 && len(c15Exotic(t.Bytes)) > 0; try++ {
			t = c15GenText(rng, p, "plain", 4)
		}

		return t
	}
	text := plain(probe)
	okB := func(t *c15Text) *c15Beh {
		return &c15Beh{Kind: []string{"ok-length", "ok-chunked"}[rng.Intn(2)], Text: t}
	}
	cutB := func(t *c15Text) *c15Beh {
		kind := []string{"cut-length-midline", "cut-length-midline", "cut-chunked-midline", "cut-length-boundary", "cut-chunked-boundary"}[rng.Intn(5)]
		n, ok := c15CutPoint(rng, t, strings.HasSuffix(kind, "boundary"))
		if !ok {
			kind, n = "cut-length-zero", 0
		}

		return &c15Beh{Kind: kind, Text: t, SendN: n}
	}
	statusB := func(t *c15Text) *c15Beh {
		st := []int{500, 503, 502}[rng.Intn(3)]

		return &c15Beh{Kind: fmt.Sprintf("status-%d", st), Status: st, Text: t}
	}
	var chain []*c15Beh
	switch r := rng.Intn(20); {
	case r < 10:
		chain = []*c15Beh{cutB(text), okB(text)}
	case r < 13:
		chain = []*c15Beh{cutB(text), cutB(text), okB(text)}
	case r < 16:
		chain = []*c15Beh{statusB(text), okB(text)}
	case r < 18:
		chain = []*c15Beh{cutB(text), okB(plain(probe2))}
	default:
		chain = []*c15Beh{okB(text), cutB(text)}
	}
	b := chain[0]
	b.Then = chain[1:]
	b.Level, b.Zones = c15LevelOf(b.Kind, b.Text)
	if b.Level == c15MustFail {
		for _, t := range b.Then {
			if strings.HasPrefix(t.Kind, "ok-") {
				b.Level, b.Alt = c15FailThenOK, t.Text

				break
			}
		}
	}
	if len(c15Exotic(text.Bytes)) > 0 || (b.Alt != nil && len(c15Exotic(b.Alt.Bytes)) > 0) {
		// No unambiguous text found: no script this time.
		return &c15Beh{}
	}

	return b
}

// apply installs the behaviour at the list's source.
func (q *c15Seq) apply(l *c15ListM, b *c15Beh) error {
	if l.Src != "file" {
		q.env.script.set(l.Key, b)

		return nil
	}
	if err := os.RemoveAll(l.Key); err != nil {
		return err
	}
	switch b.Kind {
	case "file-write":
		return os.WriteFile(l.Key, b.Text.Bytes, 0o644)
	case "file-vanished":
		return nil
	case "file-directory":
		return os.Mkdir(l.Key, 0o755)
	case "file-dangling-symlink":
		return os.Symlink(l.Key+".does-not-exist", l.Key)
	}

	return fmt.Errorf("unknown file behaviour %q", b.Kind)
}

// namesFor returns the probe names that belong to list l in a step.
func c15NamesFor(l *c15ListM, b *c15Beh) []string {
	names := []string{l.GoodProbe, l.PrevProbe}
	if b != nil {
		names = append(names, b.Text.Probe)
		if b.Alt != nil {
			names = append(names, b.Alt.Probe)
		}
	}

	return names
}

// refresh performs the step's refresh through the product.
func (q *c15Seq) refresh(mode string) (info map[string]any) {
	info = map[string]any{}
	switch mode {
	case "forced-block", "forced-allow":
		body := fmt.Sprintf(`{"whitelist":%t}`, mode == "forced-allow")
		code, resp, pn := c15Call(q.handlers["POST /control/filtering/refresh"], http.MethodPost, "/control/filtering/refresh", body)
		info["handler_status"], info["handler_body"] = code, strings.TrimSpace(string(resp))
		if pn != nil {
			info["panic"] = fmt.Sprint(pn)
		}
	case "scheduled":
		if q.env.mem {
			return q.env.waitTick(q)
		}
		// Two hours pass: the due test compares LastUpdated with the clock,
		// nothing else of the refresh depends on time.
		func() {
			q.d.conf.filtersMu.Lock()
			defer q.d.conf.filtersMu.Unlock()
			for i := range q.d.conf.Filters {
				f := &q.d.conf.Filters[i]
				f.LastUpdated = f.LastUpdated.Add(-2 * time.Hour)
			}
			for i := range q.d.conf.WhitelistFilters {
				f := &q.d.conf.WhitelistFilters[i]
				f.LastUpdated = f.LastUpdated.Add(-2 * time.Hour)
			}
		}()
		func() {
			defer func() {
				if p := recover(); p != nil {
					info["panic"] = fmt.Sprint(p)
				}
			}()
			info["next_interval"] = q.d.periodicallyRefreshFilters(5 * time.Second).String()
		}()
	}

	return info
}

// step generates, runs and judges one step.  It returns false if the sequence
// cannot go on.
func (q *c15Seq) step(si int) bool {
	rep, rng := q.env.rep, q.rng
	hasAllow := false
	for _, l := range q.lists {
		hasAllow = hasAllow || l.Allow
	}
	st := &c15Step{Mode: "forced-block", Beh: map[int]*c15Beh{}}
	switch r := rng.Intn(100); {
	case q.env.mem:
		st.Mode = "scheduled"
	case q.sched && r < 35:
		st.Mode = "scheduled"
	case hasAllow && r < 65:
		st.Mode = "forced-allow"
	}
	st.Down = rng.Intn(6) == 0

	// The state the behaviours are derived from.
	var allNames []string
	for _, l := range q.lists {
		allNames = append(allNames, l.GoodProbe, l.PrevProbe)
	}
	cur, err := q.snapshot(nil)
	if err != nil {
		rep.Inconcl("snapshot failed: " + err.Error())

		return false
	}
	anyDown := false
	for _, l := range q.lists {
		addressed := st.Mode == "scheduled" || (st.Mode == "forced-allow") == l.Allow
		if !addressed {
			continue
		}
		b := q.genBeh(l, cur.Lists[l.ID], st.Down)
		st.Beh[l.Idx] = b
		anyDown = anyDown || b.Kind == "refuse"
		allNames = append(allNames, b.Text.Probe)
		if b.Alt != nil {
			allNames = append(allNames, b.Alt.Probe)
		}
		if err = q.apply(l, b); err != nil {
			rep.Inconcl("cannot install behaviour: " + err.Error())

			return false
		}
	}
	allNames = append(allNames, c15Never)

	before, err := q.snapshot(allNames)
	if err != nil {
		rep.Inconcl("snapshot failed: " + err.Error())

		return false
	}
	// A mixed round - one list is going to be updated, so the engines are
	// rebuilt, another one fails - may run with the failing list's stored
	// file unopenable.
	var restoreOpen func() error
	if rng.Intn(2) == 0 {
		var failing []*c15ListM
		updating := false
		for _, l := range q.lists {
			b, bs := st.Beh[l.Idx], before.Lists[l.ID]
			switch {
			case b == nil:
			case b.Level == c15MustFail && bs.Exists && bs.Count > 0 && l.GoodProbe != "":
				failing = append(failing, l)
			case b.Level == c15MustSucceed:
				if nf, _ := c15Normalise(b.Text.Bytes, false, false, false); !bytes.Equal(nf, bs.Bytes) && len(nf) > 0 {
					sum, _ := c15ProductSum(nf)
					updating = updating || sum != bs.Sum
				}
			}
		}
		if updating && len(failing) > 0 {
			l := failing[rng.Intn(len(failing))]
			p := filepath.Join(q.dataDir, filterDir, strconv.Itoa(l.ID)+".txt")
			if restoreOpen, err = c15MakeUnopenable(p); err != nil {
				rep.Inconcl("cannot make a stored file unopenable: " + err.Error())

				return false
			}
			st.OpenFault = l
		}
	}
	if anyDown && !q.env.mem {
		q.env.second.stop()
	}
	t0 := time.Now()
	info := q.refresh(st.Mode)
	for _, b := range st.Beh {
		if len(b.Text.Bytes) > 8<<20 {
			rep.EventN("milliseconds_spent_in_the_refresh_with_a_body_over_64_MiB", int(time.Since(t0).Milliseconds()))
		}
	}
	if restoreOpen != nil {
		if err = restoreOpen(); err != nil {
			rep.Inconcl("cannot restore a stored file: " + err.Error())

			return false
		}
	}
	if anyDown && !q.env.mem {
		if err = q.env.second.start(); err != nil {
			rep.Event("second_server_port_lost")
			if q.env.second, err = c15StartServer(q.env.script); err != nil {
				rep.Inconcl("cannot restart the second list server: " + err.Error())
			}

			return false
		}
	}
	after, err := q.snapshot(allNames)
	if err != nil {
		rep.Inconcl("snapshot failed: " + err.Error())

		return false
	}

	// History entry and witness.
	hist := map[string]any{"step": si, "mode": st.Mode, "refresh": info}
	// wholeOld: the step ran with an unopenable stored file and the engine
	// objects are the ones from before - the rebuild failed as a whole.
	wholeOld := false
	if st.OpenFault != nil {
		hist["stored_file_unopenable_during_the_step"] = fmt.Sprintf("list%d (open fails with ELOOP)", st.OpenFault.Idx)
		rep.Event("steps_with_a_failing_list_whose_stored_file_cannot_be_opened")
		wholeOld = before.Engines == after.Engines
		if wholeOld {
			rep.Event("open_fault:rebuild_failed_as_a_whole_and_old_engines_kept")
		} else {
			rep.Event("open_fault:engines_rebuilt")
		}
	}
	for _, l := range q.lists {
		if b := st.Beh[l.Idx]; b != nil {
			hist[fmt.Sprintf("list%d", l.Idx)] = b.show()
		}
	}
	q.history = append(q.history, hist)
	witness := func(l *c15ListM, extra map[string]any) map[string]any {
		m := map[string]any{"sequence": q.describe(), "history_up_to_this_step": q.history, "list": l.Idx,
			"list_id": l.ID, "before": before.Lists[l.ID].show(), "after": after.Lists[l.ID].show(),
			"decisions_before": before.Dec, "decisions_after": after.Dec,
			"probe_in_force_before": l.GoodProbe}
		for k, v := range extra {
			m[k] = v
		}

		return m
	}
	if p, ok := info["panic"]; ok {
		rep.Violate(st.Mode+":refresh-panicked", fmt.Sprintf("the refresh panicked: %v", p), witness(q.lists[0], nil))
	}
	if before.Dec[c15Never] != c15NotListed || after.Dec[c15Never] != c15NotListed {
		rep.Violate(st.Mode+":never-listed-name-filtered", "a name no list ever contained is filtered", witness(q.lists[0], nil))
	}
	if len(after.Extra) > 0 {
		rep.EventN("extra_files_in_filters_dir_after_step", len(after.Extra))
	}
	rep.Class("step:" + st.Mode)
	nFail, nOK := 0, 0
	for _, b := range st.Beh {
		if b.Level == c15MustFail {
			nFail++
		} else if b.Level == c15MustSucceed {
			nOK++
		}
	}
	if len(st.Beh) > 1 && nFail > 0 && nOK > 0 {
		rep.Event("steps_mixing_failing_and_succeeding_lists")
	}
	if len(st.Beh) > 0 && nFail == len(st.Beh) {
		rep.Event("steps_where_every_addressed_list_fails")
	}

	resyncEngines := false
	anyFileChanged := false
	for _, l := range q.lists {
		bs, as := before.Lists[l.ID], after.Lists[l.ID]
		anyFileChanged = anyFileChanged || bs.Exists != as.Exists || !bytes.Equal(bs.Bytes, as.Bytes)
	}
	if !anyFileChanged && before.Engines != after.Engines {
		// Not a change of the rules in force, hence not asserted.
		rep.Event("engines_rebuilt_though_no_list_file_changed")
	}
	for _, l := range q.lists {
		b := st.Beh[l.Idx]
		bs, as := before.Lists[l.ID], after.Lists[l.ID]
		names := c15NamesFor(l, b)
		ud := c15UnchangedDiffs(l.ID, before, after, names)
		src := strings.TrimSuffix(l.Src, "2")
		if b == nil {
			rep.Eval(false, "")
			rep.Class("list-not-addressed-by-step")
			if len(ud) > 0 {
				resyncEngines = resyncEngines || c15Has(ud, "decision-changed")
				rep.Violate(st.Mode+":list-not-addressed:"+ud[0], "a list the refresh did not address changed: "+strings.Join(ud, ", "),
					witness(l, map[string]any{"differences": ud}))
			}
			q.resync(l, bs, as, nil)

			continue
		}
		rep.Eval(true, fmt.Sprintf("%s|%s|%s|%d|%s|%v|%s", st.Mode, b.Kind, verifkit.Hash(string(b.Text.Bytes)), b.SendN,
			verifkit.Hash(string(bs.Bytes)), bs.Exists, src))
		rep.Class("kind:" + b.Kind)
		rep.Class("content:" + b.Text.Class)
		rep.Class("expect:" + b.Level)
		if l.Src != "file" {
			hits := q.env.script.hitCount(l.Key)
			rep.EventN("list_server_requests", hits)
			if hits > 1 && len(b.Then) == 0 {
				rep.EventN("transport_retries", hits-1)
			}
			if len(b.Then) > 0 {
				kinds := []string{}
				for _, e := range b.chain() {
					kinds = append(kinds, strings.SplitN(e.Kind, "-", 2)[0])
				}
				rep.Class("scripted:" + strings.Join(kinds, ","))
				rep.Class(fmt.Sprintf("scripted:requests-in-this-refresh:%d", hits))
			}
			if hits == 0 && b.Kind != "refuse" {
				rep.Event("addressed_list_not_requested")
			}
		}
		if strings.HasPrefix(b.Kind, "cut-") && b.Kind != "cut-gzip" && b.SendN >= b.Text.ProbeEnd {
			rep.Event("partial_transfers_containing_the_new_probe_rule")
		}
		if bs.Exists && as.Exists && bs.MtimeNS != as.MtimeNS && bs.Ino == as.Ino {
			rep.Event("mtime_bumped_without_rewrite")
		}

		if l.Src != "file" && b.Level == c15MustSucceed && len(ud) == 0 && q.env.script.doneCount(l.Key) == 0 {
			// The oracle's premise - the list server delivered a complete
			// list - does not hold: no complete response left the server in
			// this step (the client never got through, or the transfer broke
			// for reasons of the environment), and nothing changed.  That is a
			// failed refresh that changed nothing; there is nothing to judge.
			rep.Event("cases_not_judged:no_complete_response_left_the_list_server")
			hist[fmt.Sprintf("list%d_not_judged", l.Idx)] = fmt.Sprintf("requests seen by the list server: %d, complete responses sent: 0",
				q.env.script.hitCount(l.Key))
			rep.Class("outcome:no-complete-response-and-nothing-changed")
			q.resync(l, bs, as, b)

			continue
		}
		var forms [][]byte
		if len(b.Text.Bytes) > 8<<20 {
			// The very large text is plain by construction: one reading.
			nf, _ := c15Normalise(b.Text.Bytes, false, false, false)
			forms = [][]byte{nf}
		} else {
			forms, _ = c15Forms(b.Text.Bytes)
		}
		// succeeded(f) lists what contradicts a successful refresh to form f.
		newProbe := b.Text.Probe
		succeeded := func(f []byte) (diffs []string, label string) {
			fCount := bytes.Count(f, []byte("\n"))
			same := bytes.Equal(f, bs.Bytes) && bs.Exists || (!bs.Exists && len(f) == 0)
			if same {
				return ud, "content-unchanged"
			}
			rd := c15ReplacedDiffs(l.ID, l.Allow, f, fCount, after, newProbe, l.GoodProbe)
			if sum, ok := c15ProductSum(f); ok && sum == bs.Sum {
				// Changed content with the stored checksum: both keeping and
				// replacing the file are covered by the statement.
				if len(ud) == 0 {
					return nil, "checksum-collision-kept"
				}

				return rd, "checksum-collision-replaced"
			}

			return rd, "content-replaced"
		}

		switch b.Level {
		case c15MustFail:
			if bs.LastUpdated != as.LastUpdated {
				rep.Unspec("last_updated-changed-by-failed-refresh")
			}
			if len(ud) == 1 && ud[0] == "decision-changed" && st.OpenFault == l {
				resyncEngines = true
				rep.Violate(st.Mode+":open-fault-at-rebuild:failed-list-dropped-from-engines",
					fmt.Sprintf("the refresh of the list failed (%s) and its stored file could not be opened when the engines were rebuilt: file, count and checksum are unchanged, but its rules are no longer in force (%s: %s before, %s after)",
						b.Kind, l.GoodProbe, before.Dec[l.GoodProbe], after.Dec[l.GoodProbe]),
					witness(l, map[string]any{"differences": ud, "this_step": b.show()}))
			} else if len(ud) > 0 {
				resyncEngines = resyncEngines || c15Has(ud, "decision-changed")
				rep.Violate(fmt.Sprintf("%s:failed:%s:%s:%s", st.Mode, src, c15KindClass(b), ud[0]),
					fmt.Sprintf("a refresh that failed (%s) changed the list: %s", b.Kind, strings.Join(ud, ", ")),
					witness(l, map[string]any{"differences": ud, "this_step": b.show()}))
			} else {
				rep.Class("outcome:failed-and-nothing-changed")
				rep.Class("failed-and-nothing-changed:" + c15KindClass(b))
				if st.OpenFault == l {
					rep.Class("outcome:open-fault:failed-list-still-in-force")
				}
			}
		case c15FailThenOK:
			// The first response of the step failed, a later one is complete.
			newProbe = b.Alt.Probe
			nfAlt, _ := c15Normalise(b.Alt.Bytes, false, false, false)
			diffs, label := succeeded(nfAlt)
			switch {
			case len(ud) == 0:
				rep.Class("outcome:fail-then-ok:nothing-changed")
			case len(diffs) == 0:
				rep.Class("outcome:fail-then-ok:asked-again-and-stored-the-complete-content")
			case wholeOld && c15ForceOnly(diffs) && !c15Has(ud, "decision-changed"):
				resyncEngines = true
				rep.Class("outcome:open-fault:stored-and-old-engines-kept-as-a-whole")
			default:
				resyncEngines = true
				k := c15DiffKey(diffs)
				for _, e := range b.chain() {
					if !strings.HasPrefix(e.Kind, "cut-") || e.Kind == "cut-gzip" || !as.Exists {
						continue
					}
					if nfCut, _ := c15Normalise(e.Text.Bytes[:e.SendN], false, false, false); len(nfCut) > 0 &&
						bytes.HasPrefix(as.Bytes, nfCut) && !bytes.Equal(as.Bytes, bs.Bytes) {
						k = "stored-file-contains-cut-body"
					}
				}
				rep.Violate(fmt.Sprintf("%s:scripted-responses:%s:%s", st.Mode, label, k),
					fmt.Sprintf("the first response of the refresh failed (%s), a later one was complete: the list is neither unchanged (%s) nor the normal form of the complete content (%s)",
						b.Kind, strings.Join(ud, ", "), strings.Join(diffs, ", ")),
					witness(l, map[string]any{"differences_to_unchanged": ud, "differences_to_complete_content": diffs,
						"this_step": b.show(), "expected_if_stored": c15Show(nfAlt),
						"requests_in_this_refresh": q.env.script.hitCount(l.Key)}))
			}
		case c15MustSucceed:
			diffs, label := succeeded(forms[0])
			switch {
			case wholeOld && c15ForceOnly(diffs) && !c15Has(ud, "decision-changed"):
				// Stored, and the rebuild failed as a whole: the old engines,
				// this list's old rules included, are still in force.
				resyncEngines = true
				rep.Class("outcome:open-fault:stored-and-old-engines-kept-as-a-whole")
			case len(diffs) > 0:
				resyncEngines = resyncEngines || c15ForceOnly(diffs) || c15Has(diffs, "decision-changed")
				rep.Violate(fmt.Sprintf("%s:succeeded:%s:%s", st.Mode, label, c15DiffKey(diffs)),
					fmt.Sprintf("after a successful refresh (%s, %s): %s", b.Kind, label, strings.Join(diffs, ", ")),
					witness(l, map[string]any{"differences": diffs, "this_step": b.show(),
						"expected_stored_form": c15Show(forms[0])}))
			case strings.HasPrefix(label, "checksum-collision"):
				rep.Unspec(label)
			case label == "content-unchanged":
				rep.Class("outcome:unchanged-content-not-rewritten")
				if !bs.Exists {
					rep.Unspec("empty-list-and-no-file")
				}
			default:
				rep.Class("outcome:new-content-stored-in-normal-form")
			}
		default:
			for _, z := range b.Zones {
				rep.Unspec(z)
			}
			okAs := ""
			if len(ud) == 0 {
				okAs = "unchanged"
			}
			best, bestLabel, bestForm := []string(nil), "", -1
			for fi, f := range forms {
				diffs, label := succeeded(f)
				if len(diffs) == 0 && okAs == "" {
					okAs = label
				}
				if bestForm < 0 || len(diffs) < len(best) {
					best, bestLabel, bestForm = diffs, label, fi
				}
			}
			switch {
			case okAs != "":
				rep.Class("outcome:either:" + okAs)
			case wholeOld && c15ForceOnly(best) && !c15Has(ud, "decision-changed"):
				resyncEngines = true
				rep.Class("outcome:open-fault:stored-and-old-engines-kept-as-a-whole")
			case c15ForceOnly(best):
				resyncEngines = true
				rep.Violate(fmt.Sprintf("%s:succeeded:%s:%s", st.Mode, bestLabel, c15DiffKey(best)),
					fmt.Sprintf("after a successful refresh (%s, %s): %s", b.Kind, bestLabel, strings.Join(best, ", ")),
					witness(l, map[string]any{"differences": best, "this_step": b.show(),
						"expected_stored_form": c15Show(forms[bestForm])}))
			default:
				resyncEngines = true
				if as.Exists && len(as.Bytes) < len(forms[bestForm]) && bytes.HasPrefix(forms[bestForm], bytes.TrimRight(as.Bytes, "\n")) &&
					!bytes.Equal(as.Bytes, bs.Bytes) {
					best = append([]string{"stored-file-is-a-truncated-form-of-the-served-content"}, best...)
				}
				rep.Violate(fmt.Sprintf("%s:either-outcome:%s:%s", st.Mode, bestLabel, c15DiffKey(best)),
					fmt.Sprintf("content in an unspecified zone (%s) left the list neither unchanged (%s) nor in an acceptable normal form (%s)",
						b.Text.Class, strings.Join(ud, ", "), strings.Join(best, ", ")),
					witness(l, map[string]any{"differences_to_unchanged": ud, "differences_to_closest_form": best,
						"closest_form": c15Show(forms[bestForm]), "this_step": b.show()}))
			}
		}
		q.resync(l, bs, as, b)
	}
	if resyncEngines {
		// The rules in force disagree with the files: rebuild the engines, so
		// that the next steps do not report the same disagreement again.
		q.d.EnableFilters(false)
		rep.Event("engines_rebuilt_by_monitor_to_resynchronise")
	}
	for _, p := range q.env.script.drainUnscripted() {
		rep.Event("unscripted_requests")
		_ = p
	}

	return true
}

func (s *c15Script) drainUnscripted() []string {
	s.mu.Lock()
	defer s.mu.Unlock()
	u := s.unscripted
	s.unscripted = nil

	return u
}

// c15ForceOnly reports whether diffs is non-empty and only says that stored
// rules and rules in force disagree.
func c15ForceOnly(diffs []string) bool {
	for _, d := range diffs {
		if d != "new-rule-not-in-force" && d != "old-rule-still-in-force" {
			return false
		}
	}

	return len(diffs) > 0
}

func c15DiffKey(diffs []string) string {
	if c15ForceOnly(diffs) {
		return "stored-but-not-in-force"
	}

	return diffs[0]
}

func c15Has(s []string, v string) bool {
	for _, x := range s {
		if x == v {
			return true
		}
	}

	return false
}

// c15KindClass groups the fault kinds for violation keys.
func c15KindClass(b *c15Beh) string {
	switch {
	case b.Level != c15MustFail:
		return b.Kind
	case b.Text.Class == "html" || b.Text.Class == "binary":
		return b.Text.Class + "-content"
	case b.Text.Class == "ctrl-in-rule":
		return "control-byte-content"
	case strings.HasPrefix(b.Kind, "status-"):
		return "non-200-status"
	case strings.HasPrefix(b.Kind, "cut-"):
		return "body-" + b.Kind
	case strings.HasPrefix(b.Kind, "file-"):
		return "unreadable-" + b.Kind
	default:
		return "connection-" + b.Kind
	}
}

// resync aligns the monitor's record of the list with what is on disk now, so
// that one violation does not cascade.
func (q *c15Seq) resync(l *c15ListM, bs, as *c15Snap, b *c15Beh) {
	if bs.Exists == as.Exists && bytes.Equal(bs.Bytes, as.Bytes) {
		return
	}
	found := c15ProbeRE.FindAll(as.Bytes, -1)
	np := ""
	if len(found) > 0 {
		np = string(found[len(found)-1])
	}
	if np != l.GoodProbe {
		l.PrevProbe, l.GoodProbe = l.GoodProbe, np
	}
	l.LastOK = nil
	if b != nil && b.Level != c15MustFail && len(b.Text.Bytes) < 8<<20 {
		t := *b.Text
		if b.Alt != nil {
			t = *b.Alt
		}
		l.LastOK = &t
	}
}

// c15NewSeq builds the DNSFilter of sequence n.
func c15NewSeq(env *c15Env, n int) (q *c15Seq, err error) {
	rep := env.rep
	rng := rep.Rand(fmt.Sprintf("seq-%d", n))
	q = &c15Seq{env: env, n: n, rng: rng, handlers: map[string]http.HandlerFunc{}}
	q.dataDir = filepath.Join(env.root, fmt.Sprintf("seq%d", n), "data")
	q.srcDir = filepath.Join(env.root, fmt.Sprintf("seq%d", n), "src")
	for _, d := range []string{filepath.Join(q.dataDir, filterDir), q.srcDir} {
		if err = os.MkdirAll(d, 0o755); err != nil {
			return nil, err
		}
	}
	q.sched = rng.Intn(2) == 0
	nBlock, nAllow := 1+rng.Intn(3), rng.Intn(3)
	idBase := 1 + rng.Intn(100000)
	var block, allow []FilterYAML
	for i := 0; i < nBlock+nAllow; i++ {
		l := &c15ListM{Idx: i, ID: idBase + i*7 + rng.Intn(5), Allow: i >= nBlock}
		switch r := rng.Intn(10); {
		case env.mem && (r < 5 || i == 0):
			l.Src, l.Key = "mem", fmt.Sprintf("/s%d/l%d.txt", n, i)
			l.URL = "http://lists.c15.test" + l.Key
		case env.mem && r < 8:
			l.Src, l.Key = "mem2", fmt.Sprintf("/s%d/l%d.txt", n, i)
			l.URL = "http://lists2.c15.test" + l.Key
		case r < 5:
			l.Src, l.Key = "http", fmt.Sprintf("/s%d/l%d.txt", n, i)
			l.URL = "http://" + env.main.addr + l.Key
		case r < 8:
			l.Src, l.Key = "http2", fmt.Sprintf("/s%d/l%d.txt", n, i)
			l.URL = "http://" + env.second.addr + l.Key
		default:
			l.Src, l.Key = "file", filepath.Join(q.srcDir, fmt.Sprintf("l%d.txt", i))
			l.URL = l.Key
		}
		if rng.Intn(2) == 0 {
			// A file left by an earlier run of the program.
			probe := fmt.Sprintf("v0.l%d.c15probe.test", i)
			// Its content is the same under every reading of the statement.
			t := c15GenText(rng, probe, "plain", 0)
			for try := 0; try < 50 && len(c15Exotic(t.Bytes)) > 0; try++ {
				t = c15GenText(rng, probe, "plain", 0)
			}
			if len(c15Exotic(t.Bytes)) > 0 {
				t = &c15Text{Bytes: []byte("||" + probe + "^\n||ads.example.org^\n"), Probe: probe, Class: "plain"}
			}
			nf, _ := c15Normalise(t.Bytes, false, false, false)
			p := filepath.Join(q.dataDir, filterDir, strconv.Itoa(l.ID)+".txt")
			if err = os.WriteFile(p, nf, 0o644); err != nil {
				return nil, err
			}
			if env.mem {
				// The file is two hours old on the virtual clock.
				old := time.Now().Add(-2 * time.Hour)
				if err = os.Chtimes(p, old, old); err != nil {
					return nil, err
				}
			}
			l.GoodProbe, l.Preseeded = probe, true
		}
		name := fmt.Sprintf("list %d", i)
		if rng.Intn(4) == 0 {
			name = ""
		}
		fy := FilterYAML{Enabled: true, URL: l.URL, Name: name, white: l.Allow, Filter: Filter{ID: l.ID}}
		if l.Allow {
			allow = append(allow, fy)
		} else {
			block = append(block, fy)
		}
		q.lists = append(q.lists, l)
	}
	client := &http.Client{Transport: &c15MemTransport{script: env.script}}
	if env.mem {
		q.sched = true
	} else {
		q.tr = &http.Transport{DisableKeepAlives: rng.Intn(3) == 0, MaxIdleConnsPerHost: 4}
		client = &http.Client{Timeout: 60 * time.Second, Transport: q.tr}
	}
	if os.Getenv("C15_SELFTEST_NETFAIL") != "" && !env.mem && n >= 5 && n <= 9 {
		// Self-test of the monitor (docs/notes/C15.md, follow-up 8): the
		// client cannot reach any list server during these sequences.
		client = &http.Client{Transport: c15FailingTransport{}}
	}
	q.client = client
	conf := &Config{
		DataDir:          q.dataDir,
		FilteringEnabled: true,
		HTTPClient:       client,
		HTTPRegister: func(method, u string, h http.HandlerFunc) {
			q.handlers[method+" "+u] = h
		},
		ConfigModified:   func() {},
		Filters:          block,
		WhitelistFilters: allow,
		SafeFSPatterns:   []string{filepath.Join(q.srcDir, "*")},
	}
	if q.sched {
		conf.FiltersUpdateIntervalHours = 1
	}
	if q.d, err = New(conf, nil); err != nil {
		return nil, err
	}
	q.d.EnableFilters(false)
	if q.sched && !env.mem {
		// The timer loop is left out, so that the only scheduled refreshes
		// are the ones the sequence asks for.
		q.d.RegisterFilteringHandlers()
	} else {
		q.d.Start()
	}
	for _, k := range []string{"GET /control/filtering/status", "POST /control/filtering/refresh", "GET /control/filtering/check_host"} {
		if q.handlers[k] == nil {
			q.d.Close()

			return nil, fmt.Errorf("handler %q was not registered", k)
		}
	}

	return q, nil
}

func (q *c15Seq) close() {
	q.d.Close()
	if q.tr != nil {
		q.tr.CloseIdleConnections()
	}
	for _, l := range q.lists {
		if l.Src != "file" {
			q.env.script.set(l.Key, nil)
		}
	}
	_ = os.RemoveAll(filepath.Dir(q.dataDir))
}

// checkStart verifies that the files found at start are in force.
func (q *c15Seq) checkStart() bool {
	rep := q.env.rep
	var names []string
	for _, l := range q.lists {
		names = append(names, l.GoodProbe)
	}
	w, err := q.snapshot(names)
	if err != nil {
		rep.Inconcl("snapshot failed: " + err.Error())

		return false
	}
	for _, l := range q.lists {
		s := w.Lists[l.ID]
		if !l.Preseeded {
			continue
		}
		if s.Count != bytes.Count(s.Bytes, []byte("\n")) || w.Dec[l.GoodProbe] != c15InForce(l.ID, l.Allow) {
			rep.Event("file_found_at_start_not_in_force")
			rep.Inconcl(fmt.Sprintf("a list file present at start is not loaded as expected (count %d, decision %s)", s.Count, w.Dec[l.GoodProbe]))

			return false
		}
		rep.Event("files_found_at_start_loaded")
	}

	return true
}

// checkRestart loads the data directory into a second DNSFilter, the way a
// restart of the program does, and compares count and checksum per list.
func (q *c15Seq) checkRestart() {
	rep := q.env.rep
	last, err := q.snapshot(nil)
	if err != nil {
		return
	}
	var block, allow []FilterYAML
	for _, l := range q.lists {
		fy := FilterYAML{Enabled: true, URL: l.URL, Name: "x", white: l.Allow, Filter: Filter{ID: l.ID}}
		if l.Allow {
			allow = append(allow, fy)
		} else {
			block = append(block, fy)
		}
	}
	h2 := map[string]http.HandlerFunc{}
	d2, err := New(&Config{DataDir: q.dataDir, FilteringEnabled: true, Filters: block, WhitelistFilters: allow,
		HTTPClient: q.client, ConfigModified: func() {}, SafeFSPatterns: []string{filepath.Join(q.srcDir, "*")},
		HTTPRegister: func(method, u string, h http.HandlerFunc) { h2[method+" "+u] = h }}, nil)
	if err != nil {
		rep.Violate("restart:data-dir-rejected", "filtering.New fails on the data directory left by the refreshes: "+err.Error(),
			map[string]any{"sequence": q.describe(), "history": q.history})

		return
	}
	defer d2.Close()
	for _, l := range q.lists {
		var got *FilterYAML
		for _, arr := range [][]FilterYAML{d2.conf.Filters, d2.conf.WhitelistFilters} {
			for i := range arr {
				if int(arr[i].ID) == l.ID {
					got = &arr[i]
				}
			}
		}
		s := last.Lists[l.ID]
		if got == nil {
			continue
		}
		rep.Event("restart_comparisons")
		if got.RulesCount != s.Count || got.checksum != s.Sum {
			rep.Violate("restart:count-or-checksum-differs",
				fmt.Sprintf("loading the stored file again gives count %d checksum %d, the refresh had reported count %d checksum %d",
					got.RulesCount, got.checksum, s.Count, s.Sum),
				map[string]any{"sequence": q.describe(), "history": q.history, "list": l.Idx, "stored": s.show()})
		}
	}

	// The restarted instance refreshes every list; the sources serve content
	// whose normal form is what is stored (preferably the very text that was
	// stored from), or fail.  No file may be rewritten.
	d2.EnableFilters(false)
	d2.RegisterFilteringHandlers()
	refresh := h2["POST /control/filtering/refresh"]
	if refresh == nil {
		return
	}
	served := map[int]*c15Beh{}
	hasAllow := false
	for _, l := range q.lists {
		hasAllow = hasAllow || l.Allow
		s := last.Lists[l.ID]
		b := &c15Beh{Kind: "status-404", Status: 404, Text: &c15Text{Bytes: []byte("||x.example.org^\n"), Class: "plain"}, Level: c15MustFail}
		if l.Src == "file" {
			b.Kind = "file-vanished"
		}
		var t *c15Text
		switch {
		case !s.Exists:
		case l.LastOK != nil:
			c := *l.LastOK
			c.Class = "identical"
			t = &c
		default:
			t = c15Rerender(q.rng, s.Bytes, l.GoodProbe)
			if forms, _ := c15Forms(t.Bytes); len(forms) != 1 || !bytes.Equal(forms[0], s.Bytes) || len(c15Exotic(t.Bytes)) > 0 {
				t = nil
			}
		}
		if t != nil {
			b = &c15Beh{Kind: "ok-length", Text: t, Level: c15MustSucceed}
			if l.Src == "file" {
				b.Kind = "file-write"
			}
		}
		served[l.Idx] = b
		if err = q.apply(l, b); err != nil {
			return
		}
	}
	info := map[string]any{}
	for _, white := range []bool{false, true} {
		if white && !hasAllow {
			continue
		}
		code, body, pn := c15Call(refresh, http.MethodPost, "/control/filtering/refresh", fmt.Sprintf(`{"whitelist":%t}`, white))
		info[fmt.Sprintf("whitelist=%t", white)] = fmt.Sprintf("%d %s panic=%v", code, strings.TrimSpace(string(body)), pn)
	}
	for _, l := range q.lists {
		s, b := last.Lists[l.ID], served[l.Idx]
		p := filepath.Join(q.dataDir, filterDir, strconv.Itoa(l.ID)+".txt")
		now := &c15Snap{}
		if fi, serr := os.Stat(p); serr == nil {
			now.Exists = true
			if sys, ok := fi.Sys().(*syscall.Stat_t); ok {
				now.Ino = sys.Ino
			}
			now.Bytes, _ = os.ReadFile(p)
		}
		var cnt int
		var sum uint32
		for _, arr := range [][]FilterYAML{d2.conf.Filters, d2.conf.WhitelistFilters} {
			for i := range arr {
				if int(arr[i].ID) == l.ID {
					cnt, sum = arr[i].RulesCount, arr[i].checksum
				}
			}
		}
		now.Count, now.Sum = cnt, sum
		diff := ""
		switch {
		case s.Exists != now.Exists:
			diff = "file-created-or-removed"
		case !bytes.Equal(s.Bytes, now.Bytes):
			diff = "file-bytes-changed"
		case s.Ino != now.Ino:
			diff = "file-rewritten-new-inode"
		case s.Count != now.Count:
			diff = "rules-count-changed"
		}
		if b.Level == c15MustSucceed {
			rep.Event("restart_refreshes_of_unchanged_content")
		}
		if diff == "" {
			continue
		}
		key := "restart:failed-refresh:" + diff
		what := "after a restart, a failed refresh changed the list: " + diff
		if b.Level == c15MustSucceed {
			key = "restart:unchanged-content:" + diff
			what = "after a restart, a refresh that served content with the stored normal form changed the list: " + diff
		}
		rep.Violate(key, what, map[string]any{"sequence": q.describe(), "history": q.history, "list": l.Idx, "list_id": l.ID,
			"stored_before_restart": s.show(), "after_refresh_by_second_instance": now.show(), "served": b.show(), "refresh": info})
	}
}

func TestVerifC15Refresh(t *testing.T) {
	rep := verifkit.New("C15", "refresh",
		"case = (list, refresh step) of a sequence of 3-10 refreshes of one DNSFilter with 2-5 lists; snapshots (file bytes, inode, rules_count, checksum, check_host answers for the probe names) before and after the step are compared; non-trivial = the list was addressed by the step (its source was fetched or read); distinct by (mode, transport behaviour, served text, cut offset, stored content before)")
	defer func() {
		if err := rep.Write(); err != nil {
			t.Fatal(err)
		}
	}()
	root, err := os.MkdirTemp(os.Getenv("VERIF_SCRATCH"), "c15-")
	if err != nil {
		rep.Inconcl("no scratch directory: " + err.Error())

		return
	}
	defer func() { _ = os.RemoveAll(root) }()
	if root, err = filepath.EvalSymlinks(root); err != nil {
		rep.Inconcl(err.Error())

		return
	}
	env := &c15Env{rep: rep, script: c15NewScript(), root: root}
	if env.main, err = c15StartServer(env.script); err != nil {
		rep.Inconcl("cannot start the list server: " + err.Error())

		return
	}
	defer env.main.stop()
	if env.second, err = c15StartServer(env.script); err != nil {
		rep.Inconcl("cannot start the second list server: " + err.Error())

		return
	}
	defer func() { env.second.stop() }()

	env.hugeLeft = verifkit.Pick(1, 4)
	nSeq := verifkit.Pick(450, 6000)
	for n := 0; n < nSeq; n++ {
		q, err := c15NewSeq(env, n)
		if err != nil {
			rep.Inconcl("cannot build a DNSFilter: " + err.Error())

			return
		}
		if n < 3 {
			rep.Sample(q.describe())
		}
		rep.Class("sequences")
		if q.checkStart() {
			steps := 3 + q.rng.Intn(8)
			for si := 0; si < steps; si++ {
				if !q.step(si) {
					rep.Event("sequences_abandoned")

					break
				}
			}
			if n < 2 && len(q.history) > 0 {
				rep.Sample(map[string]any{"sequence": n, "first_step": q.history[0]})
			}
			q.checkRestart()
		}
		q.close()
	}

	// The run must have seen each kind of outcome it exists to observe.
	need := map[string]int{
		"outcome:failed-and-nothing-changed":      nSeq / 2,
		"outcome:new-content-stored-in-normal-form": nSeq / 2,
		"outcome:unchanged-content-not-rewritten": nSeq / 20,
	}
	if !rep.Violated() {
		keys := make([]string, 0, len(need))
		for k := range need {
			keys = append(keys, k)
		}
		sort.Strings(keys)
		for _, k := range keys {
			if rep.ClassCount(k) < need[k] {
				rep.Inconcl(fmt.Sprintf("only %d observations of %q (need %d)", rep.ClassCount(k), k, need[k]))
			}
		}
		if got := rep.EventCount("steps_with_a_failing_list_whose_stored_file_cannot_be_opened"); got < nSeq/10 {
			rep.Inconcl(fmt.Sprintf("only %d mixed steps ran with the failing list's stored file unopenable", got))
		}
		if got := rep.EventCount("cases_not_judged:no_complete_response_left_the_list_server"); got > nSeq/10 {
			rep.Inconcl(fmt.Sprintf("%d refreshes never got a complete response from the list server: the loopback network of this machine is not usable", got))
		}
		if rep.EventCount("unscripted_requests") > 0 {
			rep.Inconcl(fmt.Sprintf("%d requests reached the list server outside the script", rep.EventCount("unscripted_requests")))
		}
	}
}

// c15MemTransport serves the script without sockets (for the virtual-time
// part): connection-level faults become RoundTrip errors, cut bodies become
// readers that end with io.ErrUnexpectedEOF.
type c15MemTransport struct {
	script *c15Script
}

type c15CutReader struct {
	r io.Reader
}

func (c *c15CutReader) Read(p []byte) (n int, err error) {
	n, err = c.r.Read(p)
	if err == io.EOF {
		err = io.ErrUnexpectedEOF
	}

	return n, err
}

func (c *c15CutReader) Close() error { return nil }

func (t *c15MemTransport) RoundTrip(req *http.Request) (*http.Response, error) {
	b := t.script.take(req.URL.Path)
	resp := &http.Response{Status: "200 OK", StatusCode: http.StatusOK, Proto: "HTTP/1.1", ProtoMajor: 1, ProtoMinor: 1,
		Header: http.Header{"Content-Type": []string{"text/plain"}}, Request: req, ContentLength: -1}
	switch {
	case b == nil:
		resp.Status, resp.StatusCode = "410 Gone", http.StatusGone
		resp.Body = io.NopCloser(strings.NewReader("no script"))
	case strings.HasPrefix(b.Kind, "ok-"):
		resp.Body = io.NopCloser(bytes.NewReader(b.Text.Bytes))
		t.script.markDone(req.URL.Path)
	case strings.HasPrefix(b.Kind, "status-"):
		resp.Status, resp.StatusCode = fmt.Sprintf("%d %s", b.Status, http.StatusText(b.Status)), b.Status
		resp.Body = io.NopCloser(bytes.NewReader(b.Text.Bytes))
	case b.Kind == "cut-gzip":
		// Truncated compressed stream: what was decodable, then the error.
		n := len(b.Text.Bytes) * b.SendN / (len(c15Gzip(b.Text.Bytes)) + 1)
		resp.Body = &c15CutReader{r: bytes.NewReader(b.Text.Bytes[:n])}
	case strings.HasPrefix(b.Kind, "cut-"):
		resp.Body = &c15CutReader{r: bytes.NewReader(b.Text.Bytes[:b.SendN])}
	default:
		return nil, &net.OpError{Op: "dial", Net: "tcp", Err: fmt.Errorf("simulated %s", b.Kind)}
	}

	return resp, nil
}

// c15FailingTransport fails every request the way an unusable network does.
type c15FailingTransport struct{}

func (c15FailingTransport) RoundTrip(*http.Request) (*http.Response, error) {
	return nil, &net.OpError{Op: "dial", Net: "tcp", Err: fmt.Errorf("self-test: network unreachable")}
}
