//go:build verif

package filtering

import (
	"fmt"
	"net"
	"net/http"
	"net/http/httptest"
	"net/netip"
	"os"
	"path/filepath"
	"strings"
	"sync"
	"testing"
	"time"

	"github.com/AdguardTeam/AdGuardHome/internal/verifkit"
	"github.com/miekg/dns"
)

// c01RServer serves rule lists whose content and health the test sets.
type c01RServer struct {
	mu     sync.Mutex
	bodies map[string]string
	fail   string // "", "502", "drop"
	srv    *httptest.Server
}

func (s *c01RServer) ServeHTTP(w http.ResponseWriter, r *http.Request) {
	s.mu.Lock()
	body, fail := s.bodies[r.URL.Path], s.fail
	s.mu.Unlock()
	switch fail {
	case "502":
		w.WriteHeader(http.StatusBadGateway)
	case "drop":
		if hj, ok := w.(http.Hijacker); ok {
			if c, _, err := hj.Hijack(); err == nil {
				_ = c.Close()
			}
		}
	default:
		_, _ = w.Write([]byte(body))
	}
}

// TestVerifC01Rounds runs the refresh round of the program's own update timer
// (block lists and allow lists in one round) while the servers of one group
// fail, the lists of the other group change, both or neither.  After every
// round the decisions must be those of the lists AS STORED: a name that a
// stored, enabled block list contains and no stored allow list allows is
// blocked, everything else is not.
func TestVerifC01Rounds(t *testing.T) {
	rep := verifkit.New("C01", "rounds",
		"case = one probe name after one refresh round of the update timer's kind (block and allow lists together, lists due by their age) in which the servers of the block lists / of the allow lists answer 502, drop the connection or serve changed / unchanged content; the decision of CheckHost must be the one the lists as stored in the data directory give (blocked iff in a stored enabled block list and in no stored allow list); non-trivial = some server failed in the round and some stored list changed; distinct by (history, round, probe)")
	defer func() {
		if err := rep.Write(); err != nil {
			t.Fatal(err)
		}
	}()
	InitModule()
	rng := rep.Rand("rounds")
	histories := verifkit.Pick(8, 80)
	roundsPer := verifkit.Pick(14, 30)
	for h := 0; h < histories; h++ {
		bs := &c01RServer{bodies: map[string]string{}}
		bs.srv = httptest.NewServer(bs)
		as := &c01RServer{bodies: map[string]string{}}
		as.srv = httptest.NewServer(as)
		names := make([]string, 12)
		for i := range names {
			names[i] = fmt.Sprintf("n%d-h%d.rounds.test", i, h)
		}
		gen := func(allow bool) string {
			var sb strings.Builder
			sb.WriteString("! Title: generated\n")
			for _, n := range names {
				if rng.Intn(3) == 0 {
					sb.WriteString("||" + n + "^\n")
				}
			}
			if allow {
				sb.WriteString("||always-allowed.rounds.test^\n")
			} else {
				sb.WriteString("||always-blocked.rounds.test^\n")
			}

			return sb.String()
		}
		bs.bodies["/b1.txt"], bs.bodies["/b2.txt"], as.bodies["/a1.txt"] = gen(false), gen(false), gen(true)
		dir := t.TempDir()
		d, err := New(&Config{
			DataDir: dir, ProtectionEnabled: true, FilteringEnabled: true, BlockingMode: BlockingModeDefault,
			FiltersUpdateIntervalHours: 1, HTTPClient: &http.Client{Timeout: 5 * time.Second},
			ConfigModified:       func() {},
			ApplyClientFiltering: func(_ string, _ netip.Addr, _ *Settings) {},
			Filters: []FilterYAML{
				{Enabled: true, URL: bs.srv.URL + "/b1.txt", Name: "b1", Filter: Filter{ID: 1001}},
				{Enabled: true, URL: bs.srv.URL + "/b2.txt", Name: "b2", Filter: Filter{ID: 1002}},
			},
			WhitelistFilters: []FilterYAML{
				{Enabled: true, URL: as.srv.URL + "/a1.txt", Name: "a1", Filter: Filter{ID: 2001}},
			},
		}, nil)
		if err != nil {
			rep.Inconcl("filtering.New: " + err.Error())

			return
		}
		stored := func(id int) (set map[string]bool) {
			set = map[string]bool{}
			b, _ := os.ReadFile(filepath.Join(dir, "filters", fmt.Sprintf("%d.txt", id)))
			for _, l := range strings.Split(string(b), "\n") {
				if strings.HasPrefix(l, "||") && strings.HasSuffix(l, "^") {
					set[l[2:len(l)-1]] = true
				}
			}

			return set
		}
		age := func() {
			d.conf.filtersMu.Lock()
			old := time.Now().Add(-3 * time.Hour)
			for i := range d.conf.Filters {
				d.conf.Filters[i].LastUpdated = old
			}
			for i := range d.conf.WhitelistFilters {
				d.conf.WhitelistFilters[i].LastUpdated = old
			}
			d.conf.filtersMu.Unlock()
		}
		for r := 0; r < roundsPer; r++ {
			before := fmt.Sprint(stored(1001), stored(1002), stored(2001))
			bFail, aFail := "", ""
			kind := "all-servers-well"
			switch rng.Intn(5) {
			case 0:
				aFail, kind = []string{"502", "drop"}[rng.Intn(2)], "allow-list-server-fails"
			case 1:
				bFail, kind = []string{"502", "drop"}[rng.Intn(2)], "block-list-server-fails"
			case 2:
				bFail, aFail, kind = "502", "drop", "all-servers-fail"
			}
			if r == 0 {
				bFail, aFail, kind = "", "", "first-download"
			}
			bs.mu.Lock()
			bs.fail = bFail
			if rng.Intn(4) != 0 {
				bs.bodies["/b1.txt"] = gen(false)
			}
			if rng.Intn(3) == 0 {
				bs.bodies["/b2.txt"] = gen(false)
			}
			bs.mu.Unlock()
			as.mu.Lock()
			as.fail = aFail
			if rng.Intn(2) == 0 {
				as.bodies["/a1.txt"] = gen(true)
			}
			as.mu.Unlock()
			age()
			_, _, ok := d.tryRefreshFilters(true, true, false)
			if !ok {
				rep.Inconcl("the refresh lock was taken")

				return
			}
			b1, b2, a1 := stored(1001), stored(1002), stored(2001)
			changed := fmt.Sprint(b1, b2, a1) != before
			rep.Class("round:" + kind)
			if changed {
				rep.Class("rounds-that-changed-a-stored-list")
			}
			setts := d.Settings()
			setts.ProtectionEnabled, setts.FilteringEnabled = true, true
			probes := append(append([]string{}, names...), "always-blocked.rounds.test", "always-allowed.rounds.test", "never-listed.rounds.test")
			for _, n := range probes {
				want := (b1[n] || b2[n]) && !a1[n]
				res, cerr := d.CheckHost(n, dns.TypeA, setts)
				got := cerr == nil && res.IsFiltered
				rep.Eval((bFail != "" || aFail != "") && changed, fmt.Sprintf("%d|%d|%s", h, r, n))
				if cerr != nil || got != want {
					rep.Violate("rounds:decision-differs-from-the-lists-as-stored:"+kind,
						fmt.Sprintf("after a refresh round (%s) %s is blocked=%v (reason %v, err %v); the lists as stored give blocked=%v (in stored block list: %v, in stored allow list: %v)", kind, n, got, res.Reason, cerr, want, b1[n] || b2[n], a1[n]),
						map[string]any{"history": h, "round": r, "stored_lists_changed_in_this_round": changed})

					break
				}
			}
			if rep.Violated() {
				break
			}
		}
		d.Close()
		bs.srv.Close()
		as.srv.Close()
		if rep.Violated() {
			break
		}
	}
	_ = net.IPv4zero
	if rep.ClassCount("rounds-that-changed-a-stored-list") < 20 || rep.ClassCount("round:allow-list-server-fails") < 5 || rep.ClassCount("round:block-list-server-fails") < 5 {
		rep.Inconcl(fmt.Sprintf("too few decisive rounds: changed=%d allow-fails=%d block-fails=%d", rep.ClassCount("rounds-that-changed-a-stored-list"), rep.ClassCount("round:allow-list-server-fails"), rep.ClassCount("round:block-list-server-fails")))
	}
}
