//go:build verif

package filtering

import (
	"fmt"
	"io"
	"math/rand"
	"net/netip"
	"os"
	"runtime"
	"sort"
	"strings"
	"sync"
	"testing"
	"time"

	"github.com/AdguardTeam/AdGuardHome/internal/verifkit"
	"github.com/AdguardTeam/golibs/log"
	"github.com/miekg/dns"
)

// The name tree every table is queried over.
var c06Tree = []string{
	"example.org", "a.example.org", "b.example.org", "c.example.org",
	"a.a.example.org", "b.a.example.org", "c.b.example.org",
	"a.a.a.example.org", "b.a.a.example.org", "c.b.a.example.org",
	"other.test", "a.other.test", "b.a.other.test", "c.other.test",
	// Names that end with the characters of a wildcard's apex without a label
	// boundary in front of them: "*.example.org" must not match
	// "xexample.org" or "a.xexample.org", "*.a.example.org" must not match
	// "xa.example.org" (which "*.example.org" does match), "*.org" must not
	// match "xorg".  The apexes themselves (example.org, a.example.org,
	// other.test) are above.
	"xexample.org", "a.xexample.org", "xa.example.org", "xother.test", "b.xother.test", "xorg",
}

// Names that are only ever CNAME targets: some are covered by wildcards of
// the tree, the last two are outside every possible table.
var c06TargetsOnly = []string{
	"z.a.example.org", "z.b.a.example.org", "z.other.test", "z.example.org",
}

var c06External = []string{"ext.invalid", "cdn.ext.invalid"}

// Suffixes for wildcard patterns "*.<suffix>": one to four labels.
var c06WildSuffixes = []string{
	"org", "example.org", "a.example.org", "b.example.org", "a.a.example.org",
	"b.a.example.org", "test", "other.test", "a.other.test",
}

var (
	c06V4 = []string{"10.0.0.1", "10.0.0.2", "10.0.0.3", "10.0.0.4"}
	c06V6 = []string{"fd00::1", "fd00::2", "fd00::3", "fd00::4"}
)

const c06HangLimit = 20 * time.Second

func c06AnyPattern(rng *rand.Rand) string {
	if rng.Intn(100) < 55 {
		return c06Tree[rng.Intn(len(c06Tree))]
	}

	return "*." + c06WildSuffixes[rng.Intn(len(c06WildSuffixes))]
}

// c06Family returns the patterns that can match base, most specific first,
// plus the exact names of its ancestors in the tree.
func c06Family(base string) (pats []string) {
	pats = append(pats, base)
	rest := base
	for {
		i := strings.IndexByte(rest, '.')
		if i < 0 {
			break
		}
		rest = rest[i+1:]
		pats = append(pats, "*."+rest)
		for _, n := range c06Tree {
			if n == rest {
				pats = append(pats, n)
			}
		}
	}

	return pats
}

func c06MixCase(rng *rand.Rand, s string) string {
	if rng.Intn(2) == 0 {
		return strings.ToUpper(s)
	}
	b := []byte(s)
	for i := range b {
		if rng.Intn(2) == 0 && b[i] >= 'a' && b[i] <= 'z' {
			b[i] -= 'a' - 'A'
		}
	}

	return string(b)
}

// c06GenTable generates one table of 1-12 entries.  Patterns are drawn
// mostly from a small focus set around one name of the tree so that entries
// compete.  Kinds and patterns are chosen first; CNAME targets are then drawn
// mostly from names that address entries or other CNAME entries of the same
// table match, so that chains end in values and cycles arise.
func c06GenTable(rng *rand.Rand) (table []c06Entry) {
	n := 1 + rng.Intn(12)
	base := c06Tree[rng.Intn(len(c06Tree))]
	fam := c06Family(base)
	var focus []string
	for i, nf := 0, 2+rng.Intn(4); i < nf; i++ {
		if rng.Intn(100) < 70 {
			focus = append(focus, fam[rng.Intn(len(fam))])
		} else {
			focus = append(focus, c06AnyPattern(rng))
		}
	}
	all := append(append([]string(nil), c06Tree...), c06TargetsOnly...)

	type slot struct {
		pat, ans string
		cname    bool
	}
	slots := make([]slot, 0, n)
	for len(slots) < n {
		var sl slot
		if rng.Intn(100) < 75 {
			sl.pat = focus[rng.Intn(len(focus))]
		} else {
			sl.pat = c06AnyPattern(rng)
		}
		switch w := rng.Intn(100); {
		case w < 27:
			sl.ans = c06V4[rng.Intn(len(c06V4))]
		case w < 44:
			sl.ans = c06V6[rng.Intn(len(c06V6))]
		case w < 52:
			sl.ans = "A"
		case w < 60:
			sl.ans = "AAAA"
		case w < 67:
			sl.ans = sl.pat
		default:
			sl.cname = true
		}
		slots = append(slots, sl)
	}
	// Names matched by address-kind lines and by CNAME lines of this table.
	var valued, chained []string
	for _, cand := range all {
		v, c := false, false
		for _, sl := range slots {
			if c06Match(sl.pat, cand) {
				v = v || (!sl.cname && sl.ans != sl.pat)
				c = c || sl.cname
			}
		}
		if v {
			valued = append(valued, cand)
		}
		if c {
			chained = append(chained, cand)
		}
	}
	for i := range slots {
		sl := &slots[i]
		if !sl.cname {
			continue
		}
		// A wildcard CNAME into its own pattern is an unspecified zone for
		// every name below the pattern; keep some, not most.
		allowOwn := rng.Intn(100) < 10
		for try := 0; ; try++ {
			switch w := rng.Intn(100); {
			case w < 40 && len(valued) > 0:
				sl.ans = valued[rng.Intn(len(valued))]
			case w < 70 && len(chained) > 0:
				sl.ans = chained[rng.Intn(len(chained))]
			case w < 88:
				sl.ans = all[rng.Intn(len(all))]
			default:
				sl.ans = c06External[rng.Intn(len(c06External))]
			}
			if allowOwn || !(c06IsWild(sl.pat) && c06Match(sl.pat, sl.ans)) {
				break
			}
			if try == 5 {
				sl.ans = c06External[rng.Intn(len(c06External))]

				break
			}
		}
	}

	for _, sl := range slots {
		dom := sl.pat
		if rng.Intn(100) < 12 {
			dom = c06MixCase(rng, sl.pat)
		}
		table = append(table, c06Entry{Domain: dom, Answer: sl.ans})
		if len(table) < n && rng.Intn(100) < 10 {
			// Duplicate of an earlier entry, possibly in another case.
			e := table[rng.Intn(len(table))]
			if rng.Intn(3) == 0 {
				e.Domain = c06MixCase(rng, strings.ToLower(e.Domain))
			}
			table = append(table, e)
		}
		if len(table) >= n {
			break
		}
	}

	return table
}

// c06Capitalise respells answers of a generated table: in 30 % of the tables
// canonical names (CNAME targets and, independently, pattern-onto-itself
// answers) get upper-case letters - all of them, so that whole chains and
// cycles are capitalised, or each with its own probability, so that they are
// mixed; "A"/"AAAA" exceptions are occasionally written in another case and
// IPv6 values in upper case.
func c06Capitalise(rng *rand.Rand, table []c06Entry) []c06Entry {
	mode := rng.Intn(100)
	if mode < 70 {
		return table
	}
	pTarget, pSelf := 100, 100
	if mode >= 82 {
		pTarget, pSelf = 45, 30
	}
	if mode >= 94 {
		// Targets only; exceptions and self-references as written.
		pSelf = 0
	}
	out := append([]c06Entry(nil), table...)
	for i := range out {
		e := &out[i]
		switch r := c06Read(*e); {
		case r.kind == c06KindCNAME && strings.EqualFold(e.Answer, e.Domain):
			if rng.Intn(100) < pSelf {
				e.Answer = c06MixCase(rng, e.Answer)
			}
		case r.kind == c06KindCNAME:
			if rng.Intn(100) < pTarget {
				e.Answer = c06MixCase(rng, e.Answer)
			}
		case r.kind == c06KindExcA || r.kind == c06KindExcAAAA:
			if pSelf > 0 && rng.Intn(100) < 15 {
				odd := map[string][]string{"A": {"a"}, "AAAA": {"aaaa", "Aaaa", "aAAA"}}[e.Answer]
				e.Answer = odd[rng.Intn(len(odd))]
			}
		case r.kind == c06KindAAAA:
			if rng.Intn(100) < 25 {
				e.Answer = strings.ToUpper(e.Answer)
			}
		}
	}

	return out
}

// c06ChainLen draws the length of a CNAME chain: mostly around powers of two
// and small limits, else anything from 1 to 40.
func c06ChainLen(rng *rand.Rand) int {
	if rng.Intn(100) < 60 {
		special := []int{7, 8, 9, 10, 15, 16, 17, 31, 32, 33}

		return special[rng.Intn(len(special))]
	}

	return 1 + rng.Intn(40)
}

// c06GenChain generates a table that is one loop-free chain of CNAME lines
// n0 -> n1 -> ... -> nL (some hops through wildcard patterns) and an ending
// at nL: values, an exception, nothing (the chain leaves the table) or a CNAME
// back into the chain (a long chain that ends in a cycle).  It returns the
// table and the chain's names, n0 first.
func c06GenChain(rng *rand.Rand) (table []c06Entry, names []string, ending string) {
	l := c06ChainLen(rng)
	pats := make([]string, l+1)
	for i := 0; i <= l; i++ {
		if rng.Intn(100) < 20 {
			names = append(names, fmt.Sprintf("x.h%02d.chain.test", i))
			pats[i] = fmt.Sprintf("*.h%02d.chain.test", i)
		} else {
			names = append(names, fmt.Sprintf("h%02d.chain.test", i))
			pats[i] = names[i]
		}
		if rng.Intn(100) < 10 {
			pats[i] = c06MixCase(rng, pats[i])
		}
	}
	for i := 0; i < l; i++ {
		table = append(table, c06Entry{Domain: pats[i], Answer: names[i+1]})
	}
	switch w := rng.Intn(100); {
	case w < 45:
		ending = "value"
		table = append(table, c06Entry{Domain: pats[l], Answer: c06V4[rng.Intn(len(c06V4))]})
		if rng.Intn(2) == 0 {
			table = append(table, c06Entry{Domain: pats[l], Answer: c06V6[rng.Intn(len(c06V6))]})
		}
	case w < 57:
		ending = "exception"
		table = append(table, c06Entry{Domain: pats[l], Answer: []string{"A", "AAAA"}[rng.Intn(2)]})
	case w < 77:
		ending = "leaves-table"
	default:
		ending = "cycle"
		table = append(table, c06Entry{Domain: pats[l], Answer: names[rng.Intn(l+1)]})
	}
	if rng.Intn(100) < 25 {
		// Address lines below every hop: CNAME lines still go first.
		table = append(table, c06Entry{Domain: "*.chain.test", Answer: "10.9.9.9"})
	}

	return table, names, ending
}

// Unusual spellings of addresses.  An entry's family is that of the address
// as written: an IPv4-mapped or IPv4-compatible literal is an IPv6 value (for
// netip, ParseAddr("::ffff:1.2.3.4").Is4() is false), and the value served is
// that very address.  "::ffff:10.0.0.1" and "::10.0.0.2" carry the digits of
// values of the IPv4 pool on purpose.
var (
	c06OddV6 = []string{
		"::ffff:10.0.0.5", "::ffff:a00:5", "::ffff:10.0.0.1", "::FFFF:10.0.0.2", "::10.0.0.5", "::10.0.0.2",
		"2001:DB8:0:0::1", "2001:0db8:0000:0000:0000:0000:0000:0001", "2001:db8::1", "FD00:0:0:0::2", "::", "::1",
	}
	c06OddV4 = []string{"0.0.0.0", "127.0.0.1", "10.0.0.5", "255.255.255.255"}
)

// c06Respell replaces, in 30 % of the tables, half of the address values by
// unusual spellings of the same family.
func c06Respell(rng *rand.Rand, table []c06Entry) []c06Entry {
	if rng.Intn(100) >= 30 {
		return table
	}
	out := append([]c06Entry(nil), table...)
	for i := range out {
		if rng.Intn(2) == 0 {
			continue
		}
		switch c06Read(out[i]).kind {
		case c06KindA:
			out[i].Answer = c06OddV4[rng.Intn(len(c06OddV4))]
		case c06KindAAAA:
			out[i].Answer = c06OddV6[rng.Intn(len(c06OddV6))]
		}
	}

	return out
}

// c06Scripted are tables every run contains: the examples of AGHTechDoc and
// of the package's own tests plus the corner cases named in DESIGN.
func c06Scripted() [][]c06Entry {
	e := func(kv ...string) (t []c06Entry) {
		for i := 0; i+1 < len(kv); i += 2 {
			t = append(t, c06Entry{Domain: kv[i], Answer: kv[i+1]})
		}

		return t
	}

	return [][]c06Entry{
		e("a.example.org", "10.0.0.1"),
		e("a.example.org", "fd00::1"),
		e("a.example.org", "example.org"),
		e("a.example.org", "example.org", "example.org", "10.0.0.1"),
		e("*.example.org", "10.0.0.1", "a.example.org", "a.example.org"),
		e("a.example.org", "10.0.0.1", "a.example.org", "AAAA"),
		e("a.example.org", "A"),
		e("example.org", "10.0.0.1", "*.example.org", "10.0.0.2", "*.a.example.org", "10.0.0.3"),
		e("*.example.org", "10.0.0.2", "a.example.org", "a.example.org", "*.a.example.org", "*.a.example.org"),
		e("*.example.org", "a.example.org"),
		e("*.example.org", "a.example.org", "a.example.org", "10.0.0.1"),
		e("*.a.example.org", "10.0.0.2", "*.example.org", "10.0.0.1"),
		e("*.example.org", "10.0.0.3", "*.example.org", "fd00::2"),
		// Cycles: of length 1-4, with and without the queried name.
		e("a.example.org", "b.example.org", "b.example.org", "a.example.org"),
		e("a.example.org", "b.example.org", "b.example.org", "c.example.org", "c.example.org", "b.example.org"),
		e("a.example.org", "b.example.org", "b.example.org", "c.example.org", "c.example.org", "a.a.example.org",
			"a.a.example.org", "b.example.org", "b.example.org", "10.0.0.1"),
		e("*.example.org", "a.other.test", "*.other.test", "b.example.org"),
		e("*.a.example.org", "z.a.example.org", "z.a.example.org", "10.0.0.1"),
		e("other.test", "example.org", "example.org", "a.example.org", "a.example.org", "a.a.example.org",
			"a.a.example.org", "a.a.a.example.org", "a.a.a.example.org", "10.0.0.4", "a.a.a.example.org", "fd00::4"),
		// CNAME against address entries of every rank.
		e("a.example.org", "10.0.0.1", "*.example.org", "b.example.org", "b.example.org", "b.example.org"),
		e("a.example.org", "10.0.0.1", "A.EXAMPLE.ORG", "other.test", "other.test", "10.0.0.2"),
		e("*.example.org", "A", "*.example.org", "AAAA"),
		e("*.example.org", "AAAA", "*.example.org", "A"),
		e("*.example.org", "AAAA", "*.example.org", "10.0.0.1"),
		e("*.example.org", "10.0.0.1", "*.example.org", "AAAA"),
		e("a.example.org", "AAAA", "a.example.org", "A"),
		e("a.example.org", "fd00::1", "*.example.org", "10.0.0.1"),
		e("a.example.org", "ext.invalid", "ext.invalid", "10.0.0.1"),
		// Addresses in unusual spellings: the family is that of the literal.
		e("a.example.org", "::ffff:10.0.0.5", "b.example.org", "::ffff:a00:5", "b.example.org", "10.0.0.5"),
		e("a.example.org", "::ffff:10.0.0.1", "a.example.org", "10.0.0.2", "*.example.org", "::10.0.0.5"),
		e("c.example.org", "a.example.org", "a.example.org", "::ffff:10.0.0.5"),
		e("a.example.org", "0.0.0.0", "a.example.org", "::", "b.example.org", "127.0.0.1", "b.example.org", "::1"),
		e("a.example.org", "2001:DB8:0:0::1", "b.example.org", "2001:0db8:0000:0000:0000:0000:0000:0001", "*.other.test", "::FFFF:10.0.0.2"),
		// Label boundary of wildcards: names glued to the apex, the apex
		// itself, as queried names and as CNAME targets.
		e("*.example.org", "10.0.0.1", "*.other.test", "fd00::1", "*.org", "AAAA"),
		e("*.a.example.org", "10.0.0.3", "*.example.org", "fd00::1", "*.org", "10.0.0.4"),
		e("a.example.org", "xexample.org", "b.example.org", "a.xexample.org", "c.example.org", "example.org", "*.example.org", "10.0.0.2"),
		e("other.test", "XOTHER.TEST", "a.other.test", "b.xother.test", "*.other.test", "10.0.0.2", "*.OTHER.TEST", "fd00::2"),
		e("*.example.org", "xorg", "*.org", "10.0.0.1"),
		e("xexample.org", "a.example.org", "*.example.org", "10.0.0.1", "*.xexample.org", "10.0.0.2"),
		// Canonical names spelled with upper-case letters: a pair, a cycle
		// entered from outside (media -> NAS -> Storage -> NAS), cycles made
		// of capitalised targets only, mixed ones, chains into wildcards.
		e("a.example.org", "B.example.org", "b.example.org", "A.example.org"),
		e("c.example.org", "A.A.example.org", "a.a.example.org", "B.A.example.org", "b.a.example.org", "A.A.example.org"),
		e("c.example.org", "A.A.EXAMPLE.ORG", "a.a.example.org", "B.A.EXAMPLE.ORG", "b.a.example.org", "C.B.EXAMPLE.ORG",
			"c.b.example.org", "B.A.EXAMPLE.ORG"),
		e("a.example.org", "B.example.org", "b.example.org", "c.example.org", "c.example.org", "A.example.org"),
		e("a.example.org", "b.example.org", "b.example.org", "C.Example.Org", "c.example.org", "b.example.org"),
		e("other.test", "A.Other.Test", "a.other.test", "Other.Test", "*.other.test", "10.0.0.1"),
		e("*.example.org", "A.OTHER.TEST", "*.other.test", "B.EXAMPLE.ORG"),
		e("*.a.example.org", "Z.a.example.org", "z.a.example.org", "10.0.0.1"),
		e("a.example.org", "Z.a.example.org", "*.a.example.org", "10.0.0.1", "*.a.example.org", "fd00::1"),
		e("a.example.org", "z.A.EXAMPLE.ORG", "*.a.example.org", "10.0.0.1"),
		e("a.example.org", "A.example.org", "a.example.org", "10.0.0.1"),
		e("a.example.org", "A.EXAMPLE.ORG", "A.EXAMPLE.ORG", "b.example.org", "b.example.org", "A.Example.org"),
		e("*.example.org", "*.EXAMPLE.org", "*.example.org", "10.0.0.2"),
		e("a.example.org", "a", "a.example.org", "10.0.0.1", "a.example.org", "fd00::1"),
		e("a.example.org", "aaaa", "*.example.org", "Aaaa", "*.example.org", "FD00::2"),
		e("a.example.org", "EXT.invalid", "b.example.org", "Cdn.Ext.Invalid"),
	}
}

// c06Watch is the termination watchdog: the monitor tells it what it is about
// to evaluate; a goroutine fires when one table batch takes longer than
// c06HangLimit.
type c06Watch struct {
	mu      sync.Mutex
	active  bool
	started time.Time
	table   []c06Entry
	tableNo int
	order   int
	name    string
	qt      uint16
	stop    chan struct{}
}

func (w *c06Watch) begin(no int) {
	w.mu.Lock()
	w.active, w.started, w.tableNo = true, time.Now(), no
	w.mu.Unlock()
}

func (w *c06Watch) at(table []c06Entry, order int, name string, qt uint16) {
	w.mu.Lock()
	w.table, w.order, w.name, w.qt = table, order, name, qt
	w.mu.Unlock()
}

func (w *c06Watch) end() {
	w.mu.Lock()
	w.active = false
	w.mu.Unlock()
}

func (w *c06Watch) run(rep *verifkit.Report) {
	tick := time.NewTicker(200 * time.Millisecond)
	defer tick.Stop()
	for {
		select {
		case <-w.stop:
			return
		case <-tick.C:
		}
		w.mu.Lock()
		hung := w.active && time.Since(w.started) > c06HangLimit
		wit := map[string]any{
			"table_in_the_order_given": w.table, "table_no": w.tableNo, "permutation": w.order,
			"query_name": w.name, "query_type": dns.TypeToString[w.qt],
		}
		w.mu.Unlock()
		if !hung {
			continue
		}
		buf := make([]byte, 1<<16)
		buf = buf[:runtime.Stack(buf, true)]
		dump := string(buf)
		if i := strings.Index(dump, "processRewrites"); i > 600 {
			dump = dump[i-600:]
		}
		if len(dump) > 5000 {
			dump = dump[:5000]
		}
		wit["goroutines"] = dump
		rep.Violate("hang:checkhost",
			fmt.Sprintf("CheckHost(%q, %s) did not return within %s", wit["query_name"], wit["query_type"], c06HangLimit), wit)
		rep.Event("watchdog_fired")
		_ = rep.Write()
		// The evaluating goroutine can never be stopped; leave.
		os.Exit(3)
	}
}

type c06Query struct {
	name string
	qt   uint16
}

func c06Queries(tableNo int) (qs []c06Query) {
	for i, n := range c06Tree {
		other := dns.TypeTXT
		if (i+tableNo)%2 == 1 {
			other = dns.TypeHTTPS
		}
		qs = append(qs, c06Query{n, dns.TypeA}, c06Query{n, dns.TypeAAAA}, c06Query{n, other})
	}

	return qs
}

func c06Canon(table []c06Entry, q c06Query) string {
	ks := make([]string, 0, len(table))
	for _, e := range table {
		ks = append(ks, strings.ToLower(e.Domain)+">"+e.Answer)
	}
	sort.Strings(ks)

	return strings.Join(ks, ";") + "|" + q.name + "|" + dns.TypeToString[q.qt]
}

// c06Call runs CheckHost and converts a panic into a value.
func c06Call(d *DNSFilter, setts *Settings, name string, qt uint16) (res Result, err error, pan any) {
	defer func() { pan = recover() }()
	res, err = d.CheckHost(name, qt, setts)

	return res, err, nil
}

func TestVerifC06Table(t *testing.T) {
	rep := verifkit.New("C06", "table",
		"case = (rewrite table of 1-12 entries, name of a 14-name tree, qtype in {A, AAAA, TXT|HTTPS}); the result of filtering.DNSFilter.CheckHost on a DNSFilter built by filtering.New from the table, in 3 entry orders, is compared with an independent reference model (precedence, chains, exceptions) and checked for soundness and termination; non-trivial = at least two entries match the queried name, or a CNAME is followed, or the single matching entry is an exception/of another type; distinct by (table as a multiset of lower-cased lines, name, qtype)")
	defer func() {
		if err := rep.Write(); err != nil {
			t.Fatal(err)
		}
	}()
	rep.Assume("the watchdog (20 s of wall clock per table batch of 126 CheckHost calls that each take microseconds) is the only use of real time; its firing is reported as non-termination")
	rng := rep.Rand("tables")
	prng := rep.Rand("perms")
	crng := rep.Rand("answercase")

	prevOut := log.Writer()
	log.SetOutput(io.Discard)
	defer log.SetOutput(prevOut)

	dataDir := t.TempDir()
	setts := &Settings{ProtectionEnabled: true, FilteringEnabled: true}

	w := &c06Watch{stop: make(chan struct{})}
	go w.run(rep)
	defer close(w.stop)

	scripted := c06Scripted()
	nTables := verifkit.Pick(10000, 200000)
	samples := 0

	// Every chainEvery-th generated table is one long CNAME chain, queried at
	// every distance from its end.
	const chainEvery = 25
	chrng := rep.Rand("chains")
	arng := rep.Rand("addrspelling")
	hrng := rep.Rand("hostsfiles")
	yrng := rep.Rand("handedited")
	hostsDir := t.TempDir()

	for ti := 0; ti < nTables+len(scripted); ti++ {
		var table []c06Entry
		var chainNames []string
		if ti < len(scripted) {
			table = scripted[ti]
			rep.Class("tables:scripted")
		} else if (ti-len(scripted))%chainEvery == chainEvery-1 {
			var ending string
			table, chainNames, ending = c06GenChain(chrng)
			table = c06Respell(arng, table)
			rep.Class("tables:chain:ending-" + ending)
			rep.Class(fmt.Sprintf("tables:chain:length-%s", c06LenBucket(len(chainNames)-1)))
		} else {
			table = c06Respell(arng, c06Capitalise(crng, c06GenTable(rng)))
			rep.Class("tables:generated")
		}
		rep.Event("tables")
		rep.EventN("table_entries", len(table))

		orders := [3][]c06Entry{table}
		for k := 1; k < 3; k++ {
			p := append([]c06Entry(nil), table...)
			prng.Shuffle(len(p), func(i, j int) { p[i], p[j] = p[j], p[i] })
			orders[k] = p
		}
		qs := c06Queries(ti)
		if chainNames != nil {
			qs = qs[:0]
			for i, n := range chainNames {
				qs = append(qs, c06Query{n, dns.TypeA})
				if i%3 == 0 {
					qs = append(qs, c06Query{n, dns.TypeAAAA})
				}
				if i%5 == 0 {
					qs = append(qs, c06Query{n, dns.TypeTXT})
				}
			}
			qs = append(qs, c06Query{"chain.test", dns.TypeA}, c06Query{"h99.chain.test", dns.TypeA}, c06Query{"example.org", dns.TypeA})
		}
		obs := make([][3]c06Obs, len(qs))
		var viaFile []c06Obs
		var inFile []c06Entry
		var withHosts []c06Obs
		var hostsLines []string
		var handEdited []c06Obs
		var handText, handKinds string
		failed := make([]bool, len(qs))

		w.begin(ti)
		for k, ord := range orders {
			rw := make([]*LegacyRewrite, len(ord))
			for i, e := range ord {
				rw[i] = &LegacyRewrite{Domain: e.Domain, Answer: e.Answer}
			}
			d, err := New(&Config{Rewrites: rw, DataDir: dataDir}, nil)
			if err != nil {
				rep.Violate("table-rejected", "filtering.New rejected a table of well-formed entries: "+err.Error(),
					map[string]any{"table": ord})
				for qi := range failed {
					failed[qi] = true
				}

				continue
			}
			rep.Event("filters_built")
			for qi, q := range qs {
				name := q.name
				if k == 2 {
					name = strings.ToUpper(name)
				}
				w.at(ord, k, name, q.qt)
				res, cerr, pan := c06Call(d, setts, name, q.qt)
				rep.Event("checkhost_calls")
				switch {
				case pan != nil:
					failed[qi] = true
					rep.Violate("panic:checkhost", fmt.Sprintf("CheckHost panicked: %v", pan),
						map[string]any{"table": ord, "query_name": name, "query_type": dns.TypeToString[q.qt]})
				case cerr != nil:
					failed[qi] = true
					rep.Violate("error:checkhost", "CheckHost returned an error: "+cerr.Error(),
						map[string]any{"table": ord, "query_name": name, "query_type": dns.TypeToString[q.qt]})
				case res.Reason != Rewritten && res.Reason != NotFilteredNotFound:
					failed[qi] = true
					rep.Violate("foreign-reason:"+res.Reason.String(), "a DNSFilter holding only rewrites answered with another reason",
						map[string]any{"table": ord, "query_name": name, "query_type": dns.TypeToString[q.qt]})
				default:
					obs[qi][k] = c06Observe(res)
				}
			}
			if k == 0 && ti%5 == 0 {
				// The same table in the same order on a filter that also has
				// a hosts container in which names of this table appear with
				// other addresses: the table's verdict must not change.
				qnames := make([]string, 0, len(qs))
				for qi, q := range qs {
					if qi == 0 || q.name != qs[qi-1].name {
						qnames = append(qnames, q.name)
					}
				}
				hostsLines = c06HostsLines(hrng.Intn, ord, qnames)
				if hc, herr := c06HostsContainer(hostsDir, hostsLines); herr != nil {
					rep.Inconcl("hosts container: " + herr.Error())
				} else {
					rw2 := make([]*LegacyRewrite, len(ord))
					for i, e := range ord {
						rw2[i] = &LegacyRewrite{Domain: e.Domain, Answer: e.Answer}
					}
					if hd, nerr := New(&Config{Rewrites: rw2, DataDir: dataDir, EtcHosts: hc}, nil); nerr == nil {
						rep.Event("filters_with_hosts_container")
						rep.EventN("hosts_file_lines", len(hostsLines))
						withHosts = make([]c06Obs, len(qs))
						for qi, q := range qs {
							w.at(ord, 4, q.name, q.qt)
							res, cerr, pan := c06Call(hd, setts, q.name, q.qt)
							rep.Event("checkhost_calls")
							if cerr != nil || pan != nil || (res.Reason != Rewritten && res.Reason != NotFilteredNotFound && res.Reason != RewrittenAutoHosts) {
								failed[qi] = true
								rep.Violate("panic-error-or-foreign-reason:checkhost-with-hosts-files", fmt.Sprintf("CheckHost with a hosts container: %v %v %s", pan, cerr, res.Reason),
									map[string]any{"table": ord, "hosts_file": hostsLines, "query_name": q.name})

								continue
							}
							withHosts[qi] = c06Observe(res)
						}
						hd.Close()
					}
					_ = hc.Close()
				}
			}
			if k == 0 && ti%4 == 1 {
				// The same table as a hand-edited configuration file can
				// contain it: with empty list items and items that concern
				// no name.  Either the start-up refuses the file, or every
				// name resolves as with the table without those items.
				handText, handKinds = c06HandEditedYAML(yrng.Intn, ord)
				hd, items, perr, nerr := c06LoadYAML(handText, dataDir)
				switch {
				case perr != nil:
					rep.Inconcl("the monitor's hand-edited YAML does not parse: " + perr.Error())
				case nerr != nil:
					rep.Event("hand_edited_files_refused_at_start:" + handKinds)
				default:
					rep.Event("hand_edited_files_accepted:" + handKinds)
					rep.EventN("hand_edited_list_items", items)
					handEdited = make([]c06Obs, len(qs))
					for qi, q := range qs {
						w.at(ord, 5, q.name, q.qt)
						res, cerr, pan := c06Call(hd, setts, q.name, q.qt)
						rep.Event("checkhost_calls")
						if cerr != nil || pan != nil {
							failed[qi] = true
							rep.Violate("panic-or-error:checkhost-after-hand-edited-file", fmt.Sprintf("CheckHost failed: %v %v", pan, cerr),
								map[string]any{"rewrites_section": handText, "query_name": q.name})

							continue
						}
						handEdited[qi] = c06Observe(res)
					}
					hd.Close()
				}
			}
			if k == 0 {
				// The product's own restart: WriteDiskConfig, YAML, New.
				nd, tbl, rerr := c06RestartThroughConfigFile(d, dataDir)
				if rerr != nil {
					rep.Violate("restart-through-config-file-fails", "the configuration written by WriteDiskConfig cannot be loaded again: "+rerr.Error(),
						map[string]any{"table": ord})
				} else {
					rep.Event("restarts_through_config_file")
					inFile = tbl
					viaFile = make([]c06Obs, len(qs))
					for qi, q := range qs {
						w.at(tbl, 3, q.name, q.qt)
						res, cerr, pan := c06Call(nd, setts, q.name, q.qt)
						rep.Event("checkhost_calls")
						if cerr != nil || pan != nil {
							failed[qi] = true
							rep.Violate("panic-or-error:checkhost-after-restart", fmt.Sprintf("CheckHost failed after the restart: %v %v", pan, cerr),
								map[string]any{"table": ord, "table_in_config_file": tbl, "query_name": q.name})

							continue
						}
						viaFile[qi] = c06Observe(res)
					}
					nd.Close()
				}
			}
			d.Close()
		}
		w.end()

		tableTags := map[string]bool{}
		for qi, q := range qs {
			exp := c06Resolve(table, q.name, q.qt)
			rep.Eval(exp.Nontrivial, c06Canon(table, q))
			rep.Class(exp.Class)
			for _, tg := range exp.Tags {
				rep.Class("saw:" + tg)
			}
			if exp.Zone != "" {
				rep.Unspec(exp.Zone)
				tableTags[exp.Zone] = true
			}
			for _, s := range exp.Soft {
				rep.Unspec(s)
			}
			switch {
			case exp.Depth >= 4:
				rep.Event("chain_len_4plus")
			case exp.Depth >= 1:
				rep.Event(fmt.Sprintf("chain_len_%d", exp.Depth))
			}
			if failed[qi] {
				continue
			}
			wit := func(k int) map[string]any {
				return map[string]any{
					"table_in_the_order_given": orders[k], "permutation": k,
					"query_name": q.name, "query_type": dns.TypeToString[q.qt],
					"observed": obs[qi][k], "model": exp,
					"observed_in_all_three_orders": []c06Obs{obs[qi][0], obs[qi][1], obs[qi][2]},
				}
			}
			reported := false
			for k := 0; k < 3; k++ {
				o := obs[qi][k]
				rep.Event("observed:" + o.shape())
				if k == 0 && (exp.Zone == "mixed-case-cname-answer" || exp.Zone == "odd-case-exception-answer") {
					spelled := ""
					if c06HasUpper(o.Canon) {
						spelled = ":canonical-name-as-spelled"
					}
					rep.Event("in_zone:" + exp.Zone + ":product_answered:" + o.shape() + spelled)
				}
				if o.Pass && (o.Canon != "" || len(o.IPs) > 0) {
					rep.Violate("pass-with-data", "a not-rewritten result carries a canonical name or addresses", wit(k))
					reported = true

					continue
				}
				if bad, why := c06Sound(table, q.name, q.qt, o); bad != "" {
					rep.Violate("unsound-address:"+why+":"+o.shape(),
						fmt.Sprintf("address %s returned for %s %s is not a value of an entry matching the final name for that family",
							bad, q.name, dns.TypeToString[q.qt]), wit(k))
					reported = true

					continue
				}
				if exp.Zone == "" && !c06Accepts(exp.Alts, o) {
					rule := c06RuleFor(exp, o)
					rep.Violate("mismatch:"+rule+":got-"+o.shape(),
						fmt.Sprintf("%s %s: rule %q expects %s, CheckHost returned %s", q.name, dns.TypeToString[q.qt],
							rule, verifkit.JSON(exp.Alts), verifkit.JSON(o)), wit(k))
					reported = true
				}
			}
			if !reported && !exp.Ties {
				rep.Event("order_independence_checked")
				if obs[qi][0].key() != obs[qi][1].key() || obs[qi][0].key() != obs[qi][2].key() {
					rep.Violate("order-dependent:"+exp.Class,
						fmt.Sprintf("%s %s: no entries of equal rank compete, yet the result depends on the entry order",
							q.name, dns.TypeToString[q.qt]), wit(1))
				}
			}
			if viaFile != nil {
				rep.Event("restart_comparisons")
				o, r := obs[qi][0], viaFile[qi]
				if o.Pass != r.Pass || o.Canon != r.Canon || strings.Join(o.IPs, ",") != strings.Join(r.IPs, ",") {
					m := wit(0)
					m["table_in_config_file"] = inFile
					m["answer_after_restart_through_config_file"] = r
					rep.Violate("restart-through-config-file-changes-resolution:"+c06FileDiffKinds(orders[0], inFile),
						fmt.Sprintf("%s %s: the running filter returned %s, the filter started from the configuration it wrote returns %s",
							q.name, dns.TypeToString[q.qt], verifkit.JSON(o), verifkit.JSON(r)), m)
				}
			}
			if handEdited != nil {
				rep.Event("hand_edited_comparisons")
				o, h := obs[qi][0], handEdited[qi]
				if o.Pass != h.Pass || o.Canon != h.Canon || strings.Join(o.IPs, ",") != strings.Join(h.IPs, ",") {
					m := wit(0)
					m["rewrites_section_of_the_hand_edited_file"] = handText
					m["answer_after_start_from_that_file"] = h
					rep.Violate("hand-edited-config-file-changes-resolution:"+handKinds,
						fmt.Sprintf("%s %s: the table answers %s; started from a file that holds the same items plus empty ones, the filter answers %s",
							q.name, dns.TypeToString[q.qt], verifkit.JSON(o), verifkit.JSON(h)), m)
				}
			}
			if withHosts != nil {
				o, h := obs[qi][0], withHosts[qi]
				inHosts := false
				for _, l := range hostsLines {
					inHosts = inHosts || strings.HasSuffix(l, " "+q.name)
				}
				switch {
				case h.Hosts && o.Pass:
					rep.Event("hosts_files_answered_a_name_the_table_passes")
				case h.Hosts:
					m := wit(0)
					m["hosts_file"] = hostsLines
					m["answer_with_hosts_container"] = h
					rep.Violate("hosts-files-override-rewrite-table:"+o.shape(),
						fmt.Sprintf("%s %s: the table answers %s, but with the name also in the hosts files the answer came from the hosts files",
							q.name, dns.TypeToString[q.qt], verifkit.JSON(o)), m)
				case o.Pass != h.Pass || o.Canon != h.Canon || strings.Join(o.IPs, ",") != strings.Join(h.IPs, ","):
					m := wit(0)
					m["hosts_file"] = hostsLines
					m["answer_with_hosts_container"] = h
					rep.Violate("hosts-files-change-rewrite-answer:"+o.shape(),
						fmt.Sprintf("%s %s: the table answers %s without and %s with a hosts container", q.name, dns.TypeToString[q.qt], verifkit.JSON(o), verifkit.JSON(h)), m)
				case !o.Pass && inHosts:
					rep.Event("table_answer_unchanged_for_a_name_in_the_hosts_files:" + o.shape())
				}
			}
			if exp.Depth >= 9 {
				c06CountLong(rep, exp)
			}
			for _, ip := range obs[qi][0].IPs {
				if a, perr := netip.ParseAddr(ip); perr == nil && a.Is4In6() {
					rep.Event("served:ipv4-mapped-ipv6-value")
				} else if perr == nil && (a.IsUnspecified() || a.IsLoopback()) {
					rep.Event("served:zero-or-loopback-value")
				}
			}
			if exp.Nontrivial && samples < 6 && ti >= len(scripted) && (ti-len(scripted))/97 == samples && exp.Depth+len(exp.Tags) > 0 {
				samples++
				rep.Sample(wit(0))
			}
		}
		for z := range tableTags {
			rep.Event("tables_touching:" + z)
		}
	}

	// The run must have seen the situations the property is about.
	need := map[string]int{
		"saw:cname-over-address":                                        50,
		"saw:cname:exact-over-wildcard":                                 20,
		"saw:cycle:through-queried-name":                                20,
		"saw:cycle:not-containing-queried-name":                         20,
		"values-exact-over-wildcard":                                    50,
		"values-most-specific-wildcard":                                 50,
		"self-exception":                                                50,
		"type-exception-exact":                                          20,
		"empty-no-value":                                                50,
		"empty-other-qtype":                                             50,
		"cname>values-exact":                                            50,
		"cname>chain-leaves-table":                                      20,
		"zone:mixed-case-cname-answer":                                  50,
		"saw:cycle:with-capitalised-target:through-queried-name":        20,
		"saw:cycle:with-capitalised-target:not-containing-queried-name": 20,
		"zone:cname-cycle":                                              20,
	}
	needKeys := make([]string, 0, len(need))
	for c := range need {
		needKeys = append(needKeys, c)
	}
	sort.Strings(needKeys)
	for _, c := range needKeys {
		n := need[c]
		if rep.Classes[c] < n {
			rep.Inconcl(fmt.Sprintf("class %q seen %d times, fewer than %d", c, rep.Classes[c], n))
		}
	}
	for _, k := range []string{"chain_len_9plus_decided_by_model", "chain_len_17plus_decided_by_model", "chain_len_33plus_decided_by_model"} {
		if rep.Events[k] < 50 {
			rep.Inconcl(fmt.Sprintf("event %q seen %d times, fewer than 50", k, rep.Events[k]))
		}
	}
	if rep.Events["served:ipv4-mapped-ipv6-value"] < 100 || rep.Events["served:zero-or-loopback-value"] < 50 {
		rep.Inconcl("too few answers with IPv4-mapped, zero or loopback values observed")
	}
	for _, sh := range []string{"values", "empty", "cname-only", "cname-values"} {
		if k := "table_answer_unchanged_for_a_name_in_the_hosts_files:" + sh; rep.Events[k] < 100 {
			rep.Inconcl(fmt.Sprintf("event %q seen %d times, fewer than 100", k, rep.Events[k]))
		}
	}
	nHand, nNil := 0, 0
	for k, v := range rep.Events {
		if strings.HasPrefix(k, "hand_edited_files_") {
			nHand += v
			if strings.Contains(k, "nil-item") {
				nNil += v
			}
		}
	}
	if nHand < 500 || nNil < 200 || rep.Events["hand_edited_comparisons"] < 5000 {
		rep.Inconcl(fmt.Sprintf("too few hand-edited configuration files: %d, %d with empty items, %d comparisons", nHand, nNil, rep.Events["hand_edited_comparisons"]))
	}
	if rep.Classes["tables:chain:ending-cycle"] < 10 || rep.Events["restart_comparisons"] < 10000 {
		rep.Inconcl("too few long chains ending in a cycle or too few restart comparisons")
	}
	if rep.Events["chain_len_2"]+rep.Events["chain_len_3"]+rep.Events["chain_len_4plus"] < 50 {
		rep.Inconcl("fewer than 50 cases with a CNAME chain of two or more steps")
	}
}

func c06LenBucket(l int) string {
	switch {
	case l <= 8:
		return "1-8"
	case l <= 16:
		return "9-16"
	case l <= 32:
		return "17-32"
	default:
		return "33-40"
	}
}

// c06CountLong counts cases with long chains, separately those the model
// decides (loop-free, outside the zones).
func c06CountLong(rep *verifkit.Report, exp *c06Expect) {
	for _, b := range []int{9, 17, 33} {
		if exp.Depth >= b {
			rep.Event(fmt.Sprintf("chain_len_%dplus", b))
			if exp.Zone == "" {
				rep.Event(fmt.Sprintf("chain_len_%dplus_decided_by_model", b))
			}
		}
	}
}
