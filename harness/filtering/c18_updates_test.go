//go:build verif

package filtering

import (
	"bytes"
	"encoding/json"
	"fmt"
	"net/http"
	"net/http/httptest"
	"net/netip"
	"sync"
	"sync/atomic"
	"testing"
	"time"

	"github.com/AdguardTeam/AdGuardHome/internal/schedule"
	"github.com/AdguardTeam/AdGuardHome/internal/verifkit"
	"github.com/miekg/dns"
	"gopkg.in/yaml.v3"
)

// c18USched is one body of PUT /control/blocked_services/update together with
// what the monitor expects of it at the (real) instant of the run.
type c18USched struct {
	Kind   string         `json:"kind"`
	Body   map[string]any `json:"body"`
	Paused bool           `json:"paused_now"`
}

// c18UMake builds a schedule whose state at now is unambiguous for hours
// around now, so that the real clock cannot make the expectation wrong.
func c18UMake(kind int, now time.Time, ids []string) (s c18USched, ok bool) {
	days := [7]string{"sun", "mon", "tue", "wed", "thu", "fri", "sat"}
	// The schedules are written in a fixed-offset zone in which it is around
	// midday now, so that windows of hours around the current instant fit into
	// the current local day whatever the real time of the run is.
	etc := func(off int) string {
		switch {
		case off == 0:
			return "UTC"
		case off > 0:
			return fmt.Sprintf("Etc/GMT-%d", off)
		default:
			return fmt.Sprintf("Etc/GMT+%d", -off)
		}
	}
	utcMin := now.UTC().Hour()*60 + now.UTC().Minute()
	base, best := 0, 1<<30
	for off := -12; off <= 14; off++ {
		local := ((utcMin+60*off)%1440 + 1440) % 1440
		if d := local - 720; d*d < best {
			base, best = off, d*d
		}
	}
	far := base - 12
	if far < -12 {
		far = base + 12
	}
	baseZone, farZone := etc(base), etc(far)
	loc, lerr := time.LoadLocation(baseZone)
	if lerr != nil {
		return s, false
	}
	ut := now.In(loc)
	wd := int(ut.Weekday())
	minOfDay := ut.Hour()*60 + ut.Minute()
	sch := map[string]any{"time_zone": baseZone}
	full := map[string]any{"start": 0, "end": 86400000}
	switch kind {
	case 0:
		s.Kind, s.Paused = "all-week", true
		for _, d := range days {
			sch[d] = full
		}
	case 1:
		s.Kind, s.Paused = "empty", false
	case 2:
		// Only a weekday three days away.
		s.Kind, s.Paused = "other-weekday", false
		sch[days[(wd+3)%7]] = full
	case 3:
		// A window of several hours around now, today.
		if minOfDay < 200 || minOfDay > 1240 {
			return s, false
		}
		s.Kind, s.Paused = "window-around-now", true
		sch[days[wd]] = map[string]any{"start": int64(minOfDay-180) * 60000, "end": int64(minOfDay+180) * 60000}
	case 4:
		// A window today that ended hours ago or starts hours from now.
		if minOfDay < 400 {
			s.Kind = "window-later-today"
			sch[days[wd]] = map[string]any{"start": int64(minOfDay+240) * 60000, "end": int64(minOfDay+300) * 60000}
		} else {
			s.Kind = "window-earlier-today"
			sch[days[wd]] = map[string]any{"start": int64(minOfDay-300) * 60000, "end": int64(minOfDay-240) * 60000}
		}
		s.Paused = false
	case 6:
		// The ranges of the window around now (UTC reckoning) in a zone twelve
		// hours away: the same day ranges, another time zone, not pausing.
		if minOfDay < 200 || minOfDay > 1240 {
			return s, false
		}
		s.Kind, s.Paused = "window-ranges-in-zone-12h-away", false
		sch["time_zone"] = farZone
		sch[days[wd]] = map[string]any{"start": int64(minOfDay-180) * 60000, "end": int64(minOfDay+180) * 60000}
	default:
		// No schedule key at all.
		s.Kind, s.Paused = "no-schedule", false
		s.Body = map[string]any{"ids": ids}

		return s, true
	}
	s.Body = map[string]any{"ids": ids, "schedule": sch}

	return s, true
}

// TestVerifC18Updates changes the global pause schedule through the admin
// handler while requests are being filtered, and requires every request that
// starts after the handler has returned to follow the new schedule.
func TestVerifC18Updates(t *testing.T) {
	rep := verifkit.New("C18", "updates",
		"case = one accepted PUT /control/blocked_services/update (schedule whose state at the real instant is unambiguous for hours: all week, empty, other weekday, window around now, window elsewhere today, no schedule key) issued while 8 goroutines filter requests for a name of the blocked service; the 40 requests the controller makes after the handler has returned must be blocked exactly when the new schedule does not contain the instant; requests overlapping the update are only counted; non-trivial = the update flips the pause state while at least one worker request overlapped it; distinct by (round, update number)")
	defer func() {
		if err := rep.Write(); err != nil {
			t.Fatal(err)
		}
	}()
	InitModule()
	rng := rep.Rand("updates")
	rounds := verifkit.Pick(6, 60)
	updatesPerRound := verifkit.Pick(150, 400)
	addr := netip.MustParseAddr("10.0.0.99")
	for round := 0; round < rounds; round++ {
		// As at start-up: the configuration file is decoded over defaults that
		// hold schedule.EmptyWeekly().  In some rounds the file has a schedule
		// that pauses all week; the first update then replaces it.
		startBS := &BlockedServices{Schedule: schedule.EmptyWeekly(), IDs: []string{"youtube"}}
		if round%2 == 1 {
			doc := "ids: [youtube]\nschedule:\n  time_zone: UTC\n"
			for _, dn := range []string{"sun", "mon", "tue", "wed", "thu", "fri", "sat"} {
				doc += "  " + dn + ": {start: 0s, end: 24h}\n"
			}
			if yerr := yaml.Unmarshal([]byte(doc), startBS); yerr != nil {
				rep.Inconcl("decoding the start-up schedule: " + yerr.Error())

				return
			}
			rep.Class("rounds_started_from_a_file_with_an_all-week_pause")
			if schedule.EmptyWeekly().Contains(time.Now()) {
				rep.Violate("updates:empty-schedule-not-empty-after-config-load", "after a configuration with a pause schedule was decoded over the defaults, schedule.EmptyWeekly() contains the current instant", map[string]any{"start_up_document": doc})
			}
		}
		d, err := New(&Config{
			DataDir: t.TempDir(), ProtectionEnabled: true, FilteringEnabled: true, BlockingMode: BlockingModeDefault,
			BlockedServices: startBS,
			ConfigModified:  func() {},
			ApplyClientFiltering: func(_ string, _ netip.Addr, _ *Settings) {},
		}, nil)
		if err != nil {
			rep.Inconcl("filtering.New: " + err.Error())

			return
		}
		check := func() (blocked bool, cerr error) {
			setts := d.Settings()
			setts.ProtectionEnabled = true
			d.ApplyAdditionalFiltering(addr, "", setts)
			res, cerr := d.CheckHost("www.youtube.com", dns.TypeA, setts)

			return cerr == nil && res.IsFiltered && res.Reason == FilteredBlockedService, cerr
		}
		var stop atomic.Bool
		var inFlight, workerChecks atomic.Int64
		// epoch = 2*i while configuration i is in force, 2*i+1 while update
		// i+1 is in the handler; expBlocked[i] = 1 (blocked) / 2 (not) for
		// configuration i.  A request that overlapped updates must be decided
		// as one of the configurations in force during it decides - as a whole.
		var epoch atomic.Int64
		var expBlocked [1024]atomic.Int32
		startBlocked := int32(1)
		if startBS.Schedule.Contains(time.Now()) {
			startBlocked = 2
		}
		expBlocked[0].Store(startBlocked)
		var tornMu sync.Mutex
		var torn map[string]any
		var wg sync.WaitGroup
		for w := 0; w < 8; w++ {
			wg.Add(1)
			go func() {
				defer wg.Done()
				for !stop.Load() {
					inFlight.Add(1)
					e1 := epoch.Load()
					got, cerr := check()
					e2 := epoch.Load()
					inFlight.Add(-1)
					workerChecks.Add(1)
					if cerr != nil {
						continue
					}
					okAny, known := false, true
					for c := e1 / 2; c <= (e2+1)/2 && c < int64(len(expBlocked)); c++ {
						switch expBlocked[c].Load() {
						case 0:
							known = false
						case 1:
							okAny = okAny || got
						case 2:
							okAny = okAny || !got
						}
					}
					if e2 > e1 || e1%2 == 1 {
						rep.Event("worker-requests-that-overlapped-an-update")
					}
					if known && !okAny {
						tornMu.Lock()
						if torn == nil {
							torn = map[string]any{"blocked": got, "first_configuration_in_force": e1 / 2, "last_configuration_in_force": (e2 + 1) / 2}
						}
						tornMu.Unlock()
					}
				}
			}()
		}
		prevPaused := startBlocked == 2
		accepted := 0
		lastKind := -1
		for u := 0; u < updatesPerRound; u++ {
			kind := rng.Intn(8)
			if kind == 7 {
				kind = 5
			}
			if lastKind == 3 && rng.Intn(2) == 0 {
				// Only the time zone changes with respect to the previous
				// update.
				kind = 6
			} else if lastKind == 6 && rng.Intn(2) == 0 {
				kind = 3
			}
			ids := []string{"youtube"}
			if rng.Intn(3) == 0 {
				// The list of services changes together with the schedule.
				ids = []string{}
			}
			s, ok := c18UMake(kind, time.Now(), ids)
			if ok {
				lastKind = kind
			}
			if !ok {
				continue
			}
			b, _ := json.Marshal(s.Body)
			before := workerChecks.Load()
			w := httptest.NewRecorder()
			r := httptest.NewRequest(http.MethodPut, "/control/blocked_services/update", bytes.NewReader(b))
			r.Header.Set("Content-Type", "application/json")
			wantBlocked := len(ids) > 0 && !s.Paused
			if accepted+1 < len(expBlocked) {
				expBlocked[accepted+1].Store(map[bool]int32{true: 1, false: 2}[wantBlocked])
			}
			epoch.Store(int64(2*accepted + 1))
			d.handleBlockedServicesUpdate(w, r)
			if w.Code == http.StatusOK {
				accepted++
			}
			epoch.Store(int64(2 * accepted))
			overlapped := workerChecks.Load() != before || inFlight.Load() > 0
			if w.Code != http.StatusOK {
				rep.Violate("updates:valid-schedule-rejected:"+s.Kind, fmt.Sprintf("status %d: %s", w.Code, w.Body.String()), map[string]any{"update": s})

				continue
			}
			flips := !wantBlocked != prevPaused
			rep.Eval(flips && overlapped, fmt.Sprintf("%d|%d", round, u))
			rep.Class("update:" + s.Kind)
			if flips {
				rep.Class("update-flips-pause-state")
			}
			if overlapped {
				rep.Class("update-overlapped-by-requests")
			}
			want := wantBlocked
			for i := 0; i < 40; i++ {
				got, cerr := check()
				rep.Event("post-update-check")
				if cerr != nil || got != want {
					rep.Violate("updates:request-after-update-follows-old-schedule:"+s.Kind,
						fmt.Sprintf("request %d after the accepted update: blocked=%v, the schedule now in force (%s) gives blocked=%v (err=%v)", i, got, s.Kind, want, cerr),
						map[string]any{"update": s, "previous_paused": prevPaused, "round": round, "n": u, "instant_utc": time.Now().UTC().Format(time.RFC3339Nano)})

					break
				}
			}
			prevPaused = !wantBlocked
			tornMu.Lock()
			tw := torn
			tornMu.Unlock()
			if tw != nil {
				tw["round"], tw["update"] = round, s
				rep.Violate("updates:request-during-update-follows-neither-the-old-nor-the-new-configuration", "a request that overlapped an update of the blocked services (list and schedule changed together) was decided as none of the configurations in force during it decides", tw)

				break
			}
			if round == 0 && u < 3 {
				rep.Sample(map[string]any{"update": s, "worker_requests_so_far": workerChecks.Load()})
			}
		}
		stop.Store(true)
		wg.Wait()
		rep.EventN("worker-requests", int(workerChecks.Load()))
		d.Close()
	}
	if rep.ClassCount("update-flips-pause-state") < 50 || rep.ClassCount("update-overlapped-by-requests") < 50 {
		rep.Inconcl(fmt.Sprintf("too few decisive updates: flips=%d overlapped=%d", rep.ClassCount("update-flips-pause-state"), rep.ClassCount("update-overlapped-by-requests")))
	}
}
