//go:build verif

package filtering

import (
	"fmt"
	"net/netip"
	"os"
	"path/filepath"
	"sort"
	"strings"

	"github.com/AdguardTeam/AdGuardHome/internal/aghnet"
	"github.com/miekg/dns"
	"gopkg.in/yaml.v3"
)

// This file holds the reference model of property C06 (DESIGN.md, appendix
// A.3).  It is written from the property statement and AGHTechDoc.md
// ("Rewrites"), not from the product's sort comparator: precedence is decided
// by set operations on (kind, exact/wildcard, number of labels).

// c06Entry is one line of a rewrite table as the administrator writes it.
type c06Entry struct {
	Domain string `json:"domain"`
	Answer string `json:"answer"`
}

type c06Kind int

const (
	c06KindA c06Kind = iota
	c06KindAAAA
	c06KindCNAME
	c06KindExcA
	c06KindExcAAAA
)

// c06Row is the model's reading of an entry.
type c06Row struct {
	pat  string // lower-case pattern
	ans  string // answer as written
	kind c06Kind
	ip   string // canonical text of the address for value rows
}

// c06Read classifies an entry the way AGHTechDoc describes the syntax:
// "A"/"AAAA" are exceptions, an IP address is a value of its family,
// everything else is a canonical name.
func c06Read(e c06Entry) (r c06Row) {
	r.pat = strings.ToLower(e.Domain)
	r.ans = e.Answer
	switch e.Answer {
	case "A":
		r.kind = c06KindExcA
	case "AAAA":
		r.kind = c06KindExcAAAA
	default:
		ip, err := netip.ParseAddr(e.Answer)
		switch {
		case err != nil:
			r.kind = c06KindCNAME
		case ip.Is4():
			r.kind, r.ip = c06KindA, ip.String()
		default:
			r.kind, r.ip = c06KindAAAA, ip.String()
		}
	}

	return r
}

func c06IsWild(pat string) bool { return strings.HasPrefix(pat, "*.") }

// c06HasUpper reports whether a CNAME answer is spelled with upper-case
// letters.  The statement and AGHTechDoc say nothing about the case of
// answers (the product lower-cases patterns and queried names only).
func c06HasUpper(s string) bool { return s != strings.ToLower(s) }

// c06OddException reports answers that are "A"/"AAAA" in another spelling
// ("a", "Aaaa"): an exception under a case-insensitive reading, a canonical
// name under a literal one.
func c06OddException(ans string) bool {
	return ans != "A" && ans != "AAAA" && (strings.EqualFold(ans, "A") || strings.EqualFold(ans, "AAAA"))
}

// c06Match: an exact pattern matches its own name; "*.s" matches every name
// strictly below s.
func c06Match(pat, name string) bool {
	if pat == name {
		return true
	}

	return c06IsWild(pat) && len(name) > len(pat)-1 && strings.HasSuffix(name, pat[1:])
}

// c06Labels is the specificity of a pattern.
func c06Labels(pat string) int { return strings.Count(pat, ".") + 1 }

// c06Top keeps the rows of the winning pattern: the exact ones if there are
// any, otherwise those of the wildcard with the most labels.
func c06Top(rows []c06Row) (top []c06Row) {
	best := -1
	for _, r := range rows {
		s := c06Labels(r.pat)
		if !c06IsWild(r.pat) {
			s = 1 << 20
		}
		if s > best {
			best, top = s, top[:0:0]
		}
		if s == best {
			top = append(top, r)
		}
	}

	return top
}

// c06Alt is one acceptable result.
type c06Alt struct {
	Pass  bool     `json:"pass,omitempty"`
	Canon string   `json:"canon,omitempty"`
	IPs   []string `json:"ips"`
	// Subset: any non-empty subset of IPs is acceptable (several values on
	// the winning wildcard pattern; which of them are served is not stated).
	Subset bool `json:"any_nonempty_subset,omitempty"`
	// Rule names the deciding rule of this alternative.
	Rule string `json:"rule"`
}

// c06Expect is the model's verdict for one (table, name, qtype).
type c06Expect struct {
	// Zone, when not empty, names the unspecified zone the case fell into:
	// only termination and soundness are asserted.
	Zone string   `json:"zone,omitempty"`
	Alts []c06Alt `json:"acceptable,omitempty"`
	// Class describes the deciding rule (stable, used in violation keys).
	Class string `json:"class"`
	// Ties: entries of equal rank competed somewhere, so the product may
	// legitimately answer differently for different entry orders.
	Ties bool `json:"ties,omitempty"`
	// Soft zones: counted, outcome still constrained by Alts.
	Soft []string `json:"soft_zones,omitempty"`
	// Facts for the evidence counters.
	Depth      int      `json:"chain_len"`
	Path       []string `json:"path,omitempty"`
	Tags       []string `json:"tags,omitempty"`
	Nontrivial bool     `json:"-"`
}

type c06Model struct {
	rows []c06Row
	name string
	qt   uint16
	exp  *c06Expect
}

func (m *c06Model) tag(s string) {
	for _, t := range m.exp.Tags {
		if t == s {
			return
		}
	}
	m.exp.Tags = append(m.exp.Tags, s)
}

func (m *c06Model) soft(s string) {
	for _, t := range m.exp.Soft {
		if t == s {
			return
		}
	}
	m.exp.Soft = append(m.exp.Soft, s)
}

func (m *c06Model) zone(z string, depth int, path []string) {
	if m.exp.Zone == "" {
		m.exp.Zone = z
		m.exp.Class = "zone:" + z
	}
	m.note(depth, path)
}

func (m *c06Model) note(depth int, path []string) {
	if depth >= m.exp.Depth {
		m.exp.Depth = depth
		m.exp.Path = append([]string(nil), path...)
	}
}

func (m *c06Model) alt(a c06Alt, class string, depth int, path []string) {
	if depth > 0 {
		class = "cname>" + class
	}
	if m.exp.Class == "" {
		m.exp.Class = class
	} else if m.exp.Class != class && !strings.HasPrefix(m.exp.Class, "zone:") {
		m.exp.Class = "ambiguous-cname"
	}
	a.Rule = class
	sort.Strings(a.IPs)
	if a.IPs == nil {
		a.IPs = []string{}
	}
	m.exp.Alts = append(m.exp.Alts, a)
	m.note(depth, path)
}

// c06Resolve is A.3.
func c06Resolve(table []c06Entry, name string, qt uint16) *c06Expect {
	m := &c06Model{name: strings.ToLower(name), qt: qt, exp: &c06Expect{}}
	for _, e := range table {
		m.rows = append(m.rows, c06Read(e))
	}
	m.explore(m.name, 0, map[string]bool{}, nil, false)
	nmatch := 0
	for _, r := range m.rows {
		if c06Match(r.pat, m.name) {
			nmatch++
		}
	}
	m.exp.Nontrivial = nmatch >= 2 || m.exp.Depth >= 1 || (nmatch == 1 && m.exp.Class != "values-exact" && m.exp.Class != "values-wildcard")

	return m.exp
}

func (m *c06Model) explore(cur string, depth int, seen map[string]bool, path []string, mixed bool) {
	var cn, addr []c06Row
	for _, r := range m.rows {
		if !c06Match(r.pat, cur) {
			continue
		}
		if c06OddException(r.ans) {
			// Unspecified; nothing below depends on how it is read.
			m.zone("odd-case-exception-answer", depth, path)
			// Which lines compete depends on the reading: no order claim.
			m.exp.Ties = true

			return
		}
		if r.kind == c06KindCNAME {
			cn = append(cn, r)
		} else {
			addr = append(addr, r)
		}
	}

	if len(cn) > 0 {
		// CNAME entries take precedence over address entries.
		if len(addr) > 0 {
			m.tag("cname-over-address")
		}
		top := c06Top(cn)
		if len(top) < len(cn) {
			if c06IsWild(top[0].pat) {
				m.tag("cname:most-specific-wildcard")
			} else {
				m.tag("cname:exact-over-wildcard")
			}
		}
		type pa struct{ pat, ans string }
		var distinct []pa
		for _, r := range top {
			k := pa{r.pat, r.ans}
			dup := false
			for _, d := range distinct {
				dup = dup || d == k
			}
			if !dup {
				distinct = append(distinct, k)
			}
		}
		if len(distinct) > 1 {
			m.exp.Ties = true
			m.soft("several-cnames-of-equal-rank")
		}
		mixedIn := mixed
		for _, d := range distinct {
			mixed = mixedIn
			if c06HasUpper(d.ans) {
				// Unspecified zone: whether "NAS.home.example" continues at
				// the lines for nas.home.example, is its own exception, or is
				// served as spelled is not stated.  The walk goes on with the
				// lower-cased name only to tell the evidence what kind of
				// structure (chain, cycle) the capitalised names form.
				m.zone("mixed-case-cname-answer", depth, path)
				// Which lines are met next depends on the reading, so which
				// of them compete is unknown: no order-independence claim.
				m.exp.Ties = true
				d.ans = strings.ToLower(d.ans)
				mixed = true
			}
			switch {
			case d.ans == d.pat:
				// "key -> key": CNAME exception.
				if depth == 0 {
					m.alt(c06Alt{Pass: true}, "self-exception", depth, path)
				} else {
					m.zone("cname-target-carries-exception", depth, path)
				}
			case d.ans == m.name:
				if depth == 0 {
					// A wildcard entry whose answer is the queried name.
					m.zone("wildcard-cname-into-own-pattern", depth, path)
				} else {
					m.tag("cycle:through-queried-name")
					if mixed {
						m.tag("cycle:with-capitalised-target:through-queried-name")
					}
					m.zone("cname-cycle", depth, path)
				}
			case c06IsWild(d.pat) && d.ans == cur:
				m.zone("wildcard-cname-into-own-pattern", depth, path)
			case seen[d.ans]:
				m.tag("cycle:not-containing-queried-name")
				if mixed {
					m.tag("cycle:with-capitalised-target:not-containing-queried-name")
				}
				m.zone("cname-cycle", depth, path)
			default:
				s2 := make(map[string]bool, len(seen)+1)
				for k := range seen {
					s2[k] = true
				}
				s2[d.ans] = true
				m.explore(d.ans, depth+1, s2, append(append([]string(nil), path...), d.ans), mixed)
			}
		}

		return
	}

	canon := ""
	if depth > 0 {
		canon = cur
	}

	if len(addr) == 0 {
		if depth == 0 {
			m.alt(c06Alt{Pass: true}, "unmatched", depth, path)
		} else {
			m.alt(c06Alt{Canon: canon}, "chain-leaves-table", depth, path)
		}

		return
	}

	if m.qt != dns.TypeA && m.qt != dns.TypeAAAA {
		m.alt(c06Alt{Canon: canon}, "empty-other-qtype", depth, path)

		return
	}

	valKind, excKind := c06KindA, c06KindExcA
	if m.qt == dns.TypeAAAA {
		valKind, excKind = c06KindAAAA, c06KindExcAAAA
	}
	fit := func(r c06Row) bool {
		return r.kind == valKind || r.kind == c06KindExcA || r.kind == c06KindExcAAAA
	}
	var fits []c06Row
	for _, r := range addr {
		if fit(r) {
			fits = append(fits, r)
		}
	}
	// Reading 1: the entries that can say something about this type are
	// ranked by specificity.  Reading 2: the most specific pattern wins
	// first and then answers for the type.  The statement does not choose
	// between the two; where they differ the case is unspecified.
	top1 := c06Top(fits)
	var top2 []c06Row
	for _, r := range c06Top(addr) {
		if fit(r) {
			top2 = append(top2, r)
		}
	}
	if !c06SameRows(top1, top2) {
		if len(top1) > 1 && c06IsWild(top1[0].pat) {
			m.exp.Ties = true
		}
		m.zone("cross-family-shadowing", depth, path)

		return
	}
	if len(top1) == 0 {
		m.alt(c06Alt{Canon: canon}, "empty-no-value", depth, path)

		return
	}

	wild := c06IsWild(top1[0].pat)
	nPatterns := map[string]bool{}
	for _, r := range fits {
		nPatterns[r.pat] = true
	}
	var distinct []c06Row
	var vals []string
	hasExc := false
	for _, r := range top1 {
		dup := false
		for _, d := range distinct {
			dup = dup || (d.kind == r.kind && d.ip == r.ip)
		}
		if dup {
			m.soft("duplicate-entries")

			continue
		}
		distinct = append(distinct, r)
		if r.kind == valKind {
			vals = append(vals, r.ip)
		}
		hasExc = hasExc || r.kind == excKind
	}
	if wild && len(distinct) > 1 {
		m.exp.Ties = true
	}
	rank := "exact"
	switch {
	case !wild && len(nPatterns) > 1:
		rank = "exact-over-wildcard"
	case wild && len(nPatterns) > 1:
		rank = "most-specific-wildcard"
	case wild:
		rank = "wildcard"
	}
	if wild && len(distinct) > 1 {
		// Several different lines on the winning wildcard pattern.
		rank = "wildcard-siblings"
	}

	switch {
	case hasExc && depth > 0:
		m.zone("cname-target-carries-exception", depth, path)
	case hasExc && wild && len(vals) > 0:
		// "*.d -> 1.2.3.4" together with "*.d -> A": contradictory lines
		// of equal rank.
		m.soft("wildcard-value-and-exception-of-same-type")
		m.alt(c06Alt{Pass: true}, "type-exception-"+rank, depth, path)
		m.alt(c06Alt{IPs: vals, Subset: true}, "type-exception-"+rank, depth, path)
	case hasExc:
		m.alt(c06Alt{Pass: true}, "type-exception-"+rank, depth, path)
	case len(vals) == 0:
		// Only an exception for the other type: "host -> A" leaves AAAA
		// empty (AGHTechDoc, "pass A only").
		m.alt(c06Alt{Canon: canon}, "empty-other-type-exception-"+rank, depth, path)
	case wild && len(vals) > 1:
		m.soft("several-values-on-winning-wildcard")
		m.alt(c06Alt{Canon: canon, IPs: vals, Subset: true}, "values-"+rank, depth, path)
	default:
		m.alt(c06Alt{Canon: canon, IPs: vals}, "values-"+rank, depth, path)
	}
}

func c06SameRows(a, b []c06Row) bool {
	key := func(rs []c06Row) string {
		var ks []string
		for _, r := range rs {
			ks = append(ks, r.pat+">"+r.ans)
		}
		sort.Strings(ks)

		return strings.Join(ks, "\n")
	}

	return key(a) == key(b)
}

// c06Obs is what CheckHost returned, in comparable form.
type c06Obs struct {
	Pass bool `json:"pass,omitempty"`
	// Hosts: the rewrite table did not answer and the hosts files did
	// (Reason RewrittenAutoHosts); for the table this is a pass.
	Hosts  bool     `json:"answered_from_hosts_files,omitempty"`
	Reason string   `json:"reason"`
	Canon  string   `json:"canon,omitempty"`
	IPs    []string `json:"ips"`
	// IPSet is IPs sorted and deduplicated.
	IPSet []string `json:"-"`
}

func c06Observe(res Result) (o c06Obs) {
	o.Reason = res.Reason.String()
	o.Pass = res.Reason == NotFilteredNotFound
	if res.Reason == RewrittenAutoHosts {
		o.Pass, o.Hosts = true, true
		o.IPs = []string{}

		return o
	}
	o.Canon = res.CanonName
	o.IPs = []string{}
	set := map[string]bool{}
	for _, ip := range res.IPList {
		o.IPs = append(o.IPs, ip.String())
		if !set[ip.String()] {
			set[ip.String()] = true
			o.IPSet = append(o.IPSet, ip.String())
		}
	}
	sort.Strings(o.IPSet)

	return o
}

func (o c06Obs) shape() string {
	switch {
	case o.Pass:
		return "pass"
	case o.Canon == "" && len(o.IPs) == 0:
		return "empty"
	case o.Canon == "":
		return "values"
	case len(o.IPs) == 0:
		return "cname-only"
	default:
		return "cname-values"
	}
}

func (o c06Obs) key() string {
	return o.shape() + "|" + o.Canon + "|" + strings.Join(o.IPSet, ",")
}

// c06Accepts reports whether the observation is one of the acceptable
// results.
func c06Accepts(alts []c06Alt, o c06Obs) bool {
	for _, a := range alts {
		if a.Pass {
			if o.Pass {
				return true
			}

			continue
		}
		if o.Pass || a.Canon != o.Canon {
			continue
		}
		if !a.Subset {
			if strings.Join(a.IPs, ",") == strings.Join(o.IPSet, ",") {
				return true
			}

			continue
		}
		if len(o.IPSet) == 0 {
			continue
		}
		ok := true
		for _, ip := range o.IPSet {
			found := false
			for _, x := range a.IPs {
				found = found || x == ip
			}
			ok = ok && found
		}
		if ok {
			return true
		}
	}

	return false
}

// c06Sound is (S): every returned address is the value of an entry whose
// pattern matches the final name and whose family is the requested one.  It
// returns the first offending address and why.
func c06Sound(table []c06Entry, name string, qt uint16, o c06Obs) (bad, why string) {
	if o.Pass {
		return "", ""
	}
	final := strings.ToLower(name)
	if o.Canon != "" {
		// Names are compared without regard to case.
		final = strings.ToLower(o.Canon)
	}
	for _, ip := range o.IPs {
		inTable, famOK := false, false
		for _, e := range table {
			r := c06Read(e)
			if r.ip != ip || !c06Match(r.pat, final) {
				continue
			}
			inTable = true
			if (qt == dns.TypeA && r.kind == c06KindA) || (qt == dns.TypeAAAA && r.kind == c06KindAAAA) {
				famOK = true
			}
		}
		switch {
		case !inTable:
			return ip, "not-in-table-for-final-name"
		case !famOK:
			return ip, "wrong-family"
		}
	}

	return "", ""
}

// c06RuleFor names the rule a mismatching observation is measured against:
// when several CNAMEs of equal rank gave several alternatives, the one whose
// canonical name the product chose.
func c06RuleFor(exp *c06Expect, o c06Obs) string {
	if exp.Class != "ambiguous-cname" {
		return exp.Class
	}
	rule := ""
	for _, a := range exp.Alts {
		if a.Pass || a.Canon != o.Canon {
			continue
		}
		if rule != "" && rule != a.Rule {
			return exp.Class
		}
		rule = a.Rule
	}
	if rule == "" {
		return exp.Class
	}

	return rule
}

// c06RestartThroughConfigFile takes the product's own way through a restart:
// WriteDiskConfig copies the configuration for the YAML file, the copy is
// marshalled with the struct's yaml tags (as home does for the filtering
// section), unmarshalled into a fresh Config and given to New.  It returns the
// new filter and the table as it stood in the file.
func c06RestartThroughConfigFile(d *DNSFilter, dataDir string) (nd *DNSFilter, inFile []c06Entry, err error) {
	dc := &Config{}
	d.WriteDiskConfig(dc)
	b, err := yaml.Marshal(dc)
	if err != nil {
		return nil, nil, fmt.Errorf("marshalling: %w", err)
	}
	nc := &Config{}
	if err = yaml.Unmarshal(b, nc); err != nil {
		return nil, nil, fmt.Errorf("unmarshalling: %w", err)
	}
	for _, rw := range nc.Rewrites {
		inFile = append(inFile, c06Entry{Domain: rw.Domain, Answer: rw.Answer})
	}
	nc.DataDir = dataDir
	nd, err = New(nc, nil)

	return nd, inFile, err
}

// c06FileDiffKinds names the kinds of the lines that stand in the
// configuration file with another pattern (case aside) or another answer than
// in the running table; "file-identical" if there is none.
func c06FileDiffKinds(table, inFile []c06Entry) string {
	if len(table) != len(inFile) {
		return "line-count"
	}
	seen := map[string]bool{}
	for i, e := range table {
		if strings.EqualFold(e.Domain, inFile[i].Domain) && e.Answer == inFile[i].Answer {
			continue
		}
		switch r := c06Read(e); {
		case r.kind == c06KindA || r.kind == c06KindAAAA:
			seen["address"] = true
		case r.kind == c06KindExcA || r.kind == c06KindExcAAAA:
			seen["exception"] = true
		default:
			seen["cname"] = true
		}
	}
	var ks []string
	for _, k := range []string{"address", "cname", "exception"} {
		if seen[k] {
			ks = append(ks, k)
		}
	}
	if len(ks) == 0 {
		return "file-identical"
	}

	return "altered-in-file-" + strings.Join(ks, "+")
}

// c06NopWatcher is a file-system watcher for hosts files that never change.
type c06NopWatcher struct{}

func (c06NopWatcher) Start() (err error)          { return nil }
func (c06NopWatcher) Close() (err error)          { return nil }
func (c06NopWatcher) Events() (e <-chan struct{}) { return nil }
func (c06NopWatcher) Add(_ string) (err error)    { return nil }

// c06HostsContainer writes a hosts file into dir and builds the hosts
// container from it the way home does for the operating system's files
// (aghnet.NewHostsContainer over a file system and a path).
func c06HostsContainer(dir string, lines []string) (hc *aghnet.HostsContainer, err error) {
	err = os.WriteFile(filepath.Join(dir, "hosts"), []byte(strings.Join(lines, "\n")+"\n"), 0o644)
	if err != nil {
		return nil, err
	}

	return aghnet.NewHostsContainer(os.DirFS(dir), c06NopWatcher{}, "hosts")
}

// c06HostsLines makes hosts-file lines for names the table is concerned with:
// the given names (queried names, CNAME sources) and the lower-case CNAME
// targets of the table, each with addresses the table never uses, of one or
// both families.
func c06HostsLines(pick func(n int) int, table []c06Entry, names []string) (lines []string) {
	cand := append([]string(nil), names...)
	for _, e := range table {
		if r := c06Read(e); r.kind == c06KindCNAME && !c06HasUpper(e.Answer) && !strings.Contains(e.Answer, "*") && !c06OddException(e.Answer) {
			cand = append(cand, e.Answer)
		}
	}
	seen := map[string]bool{}
	for _, n := range cand {
		if seen[n] || pick(100) < 35 {
			continue
		}
		seen[n] = true
		switch pick(3) {
		case 0:
			lines = append(lines, fmt.Sprintf("10.9.9.%d %s", 1+pick(250), n))
		case 1:
			lines = append(lines, fmt.Sprintf("fd99::%x %s", 1+pick(250), n))
		default:
			lines = append(lines, fmt.Sprintf("10.9.9.%d %s", 1+pick(250), n), fmt.Sprintf("fd99::%x %s", 1+pick(250), n))
		}
	}

	return lines
}

// c06HandEditedYAML renders the table as the `rewrites` list of a
// configuration file that somebody has edited by hand: between the real
// items there are empty ones (a dangling dash, `- null`, `- ~`), at the
// start, in the middle, at the end, several in a row, and other things YAML
// admits for a list item that cannot concern any queried name: an empty
// mapping, an item with only an answer, an item with only a domain (a domain
// no query and no CNAME target of the monitor ever uses).  It returns the
// text and the kinds of odd items it put in.
func c06HandEditedYAML(pick func(n int) int, table []c06Entry) (text, kinds string) {
	q := func(v string) string { return "'" + strings.ReplaceAll(v, "'", "''") + "'" }
	var b strings.Builder
	b.WriteString("rewrites:\n")
	seen := map[string]bool{}
	odd := func() {
		switch w := pick(100); {
		case w < 40:
			b.WriteString("  -\n")
			seen["nil-item"] = true
		case w < 55:
			b.WriteString("  - null\n")
			seen["nil-item"] = true
		case w < 62:
			b.WriteString("  - ~\n")
			seen["nil-item"] = true
		case w < 75:
			b.WriteString("  - {}\n")
			seen["empty-mapping"] = true
		case w < 88:
			b.WriteString("  - answer: " + q([]string{"10.8.8.8", "fd88::8", "a.example.org", "A"}[pick(4)]) + "\n")
			seen["only-answer"] = true
		default:
			b.WriteString("  - domain: " + q([]string{"unused.invalid", "*.unused.invalid"}[pick(2)]) + "\n")
			seen["only-domain"] = true
		}
	}
	// Positions: 0 = before the first item ... len = after the last one.
	mode := pick(4)
	for i := 0; i <= len(table); i++ {
		n := 0
		switch {
		case mode == 0 && i == 0, mode == 1 && i == len(table), mode == 2 && i == (len(table)+1)/2:
			n = 1 + pick(3)
		case mode == 3 && pick(100) < 35:
			n = 1 + pick(2)
		}
		if mode == 3 && i == len(table) && len(seen) == 0 {
			n = 1
		}
		for ; n > 0; n-- {
			odd()
		}
		if i < len(table) {
			b.WriteString("  - domain: " + q(table[i].Domain) + "\n    answer: " + q(table[i].Answer) + "\n")
		}
	}
	var ks []string
	for _, k := range []string{"nil-item", "empty-mapping", "only-answer", "only-domain"} {
		if seen[k] {
			ks = append(ks, k)
		}
	}

	return b.String(), strings.Join(ks, "+")
}

// c06LoadYAML loads the filtering section text the way a start-up does:
// yaml.Unmarshal into a Config, then filtering.New.  perr is a YAML error
// (the monitor's text is wrong), nerr the refusal of New.
func c06LoadYAML(text, dataDir string) (d *DNSFilter, items int, perr, nerr error) {
	nc := &Config{}
	if perr = yaml.Unmarshal([]byte(text), nc); perr != nil {
		return nil, 0, perr, nil
	}
	items = len(nc.Rewrites)
	nc.DataDir = dataDir
	d, nerr = New(nc, nil)

	return d, items, nil, nerr
}
