//go:build verif

package filtering

import (
	"bytes"
	"fmt"
	"math/rand"
	"net/http"
	"runtime"
	"strings"
	"sync"
	"sync/atomic"
	"testing"
	"time"

	"github.com/AdguardTeam/AdGuardHome/internal/verifkit"
	"github.com/AdguardTeam/golibs/log"
	"github.com/miekg/dns"
)

// Concurrent family of C06: lookups run on a live DNSFilter while a
// controller changes the rewrite table through the admin handlers.  One
// lookup must be answered from ONE state of the table that was in force while
// it ran.  The oracle does not depend on the interleaving: a logical clock
// counts started and finished handler calls; a lookup that began after f calls
// had finished and ended when s calls had started can only have seen the
// tables number f..s; its answer must be the answer of one of them.  "The
// answer of table k" is what a fresh DNSFilter built from the table listed
// after call k gives (the table and api parts check that this is what the
// statement wants), so the comparison is exact also in the unspecified zones.

// c06COp is one table change.
type c06COp struct {
	Op     string    `json:"op"`
	Target *c06Entry `json:"target,omitempty"`
	Entry  *c06Entry `json:"entry,omitempty"`
}

func c06CAdd(d, a string) c06COp { return c06COp{Op: "add", Entry: &c06Entry{Domain: d, Answer: a}} }
func c06CDelete(d, a string) c06COp {
	return c06COp{Op: "delete", Target: &c06Entry{Domain: d, Answer: a}}
}
func c06CUpdate(d, a, d2, a2 string) c06COp {
	return c06COp{Op: "update", Target: &c06Entry{Domain: d, Answer: a}, Entry: &c06Entry{Domain: d2, Answer: a2}}
}

// c06CScenario is a start table, the names looked up and the changes, which
// are applied cyclically (scripted) or drawn per step (random).
type c06CScenario struct {
	name   string
	table  []c06Entry
	probes []string
	cycle  []c06COp
	random bool
}

func c06CScenarios() []c06CScenario {
	e := func(kv ...string) (t []c06Entry) {
		for i := 0; i+1 < len(kv); i += 2 {
			t = append(t, c06Entry{Domain: kv[i], Answer: kv[i+1]})
		}

		return t
	}

	return []c06CScenario{{
		// The wildcard that sent media.lan to nas.lan is edited into an
		// address while the chain is followed.
		name:   "wildcard-cname-edited-to-address",
		table:  e("*.lan", "nas.lan", "nas.lan", "10.0.0.2"),
		probes: []string{"media.lan", "tv.lan", "nas.lan"},
		cycle:  []c06COp{c06CUpdate("*.lan", "nas.lan", "*.lan", "10.0.0.7"), c06CUpdate("*.lan", "10.0.0.7", "*.lan", "nas.lan")},
	}, {
		// Two edits along a chain of three: the head is redirected, then the
		// value at the tail changes.
		name:   "head-redirected-then-tail-value-edited",
		table:  e("a.example.org", "b.example.org", "b.example.org", "c.example.org", "c.example.org", "10.0.0.1"),
		probes: []string{"a.example.org", "b.example.org", "c.example.org"},
		cycle: []c06COp{
			c06CUpdate("a.example.org", "b.example.org", "a.example.org", "z.example.org"),
			c06CUpdate("c.example.org", "10.0.0.1", "c.example.org", "10.0.0.2"),
			c06CUpdate("a.example.org", "z.example.org", "a.example.org", "b.example.org"),
			c06CUpdate("c.example.org", "10.0.0.2", "c.example.org", "10.0.0.1"),
		},
	}, {
		name: "wildcard-head-middle-and-tail-edited",
		table: e("*.example.org", "a.other.test", "a.other.test", "other.test", "other.test", "10.0.0.1",
			"other.test", "fd00::1", "c.other.test", "10.0.0.4"),
		probes: []string{"a.example.org", "b.a.example.org", "a.other.test", "other.test"},
		cycle: []c06COp{
			c06CUpdate("*.example.org", "a.other.test", "*.example.org", "10.0.0.9"),
			c06CUpdate("other.test", "10.0.0.1", "other.test", "10.0.0.3"),
			c06CUpdate("*.example.org", "10.0.0.9", "*.example.org", "a.other.test"),
			c06CUpdate("a.other.test", "other.test", "a.other.test", "c.other.test"),
			c06CUpdate("other.test", "10.0.0.3", "other.test", "10.0.0.1"),
			c06CUpdate("a.other.test", "c.other.test", "a.other.test", "other.test"),
		},
	}, {
		name:   "add-delete-and-update",
		table:  e("a.other.test", "other.test", "other.test", "10.0.0.1"),
		probes: []string{"a.other.test", "other.test"},
		cycle: []c06COp{
			c06CDelete("a.other.test", "other.test"),
			c06CUpdate("other.test", "10.0.0.1", "other.test", "10.0.0.2"),
			c06CAdd("a.other.test", "other.test"),
			c06CDelete("other.test", "10.0.0.2"),
			c06CAdd("other.test", "10.0.0.1"),
		},
	}, {
		name:   "random-history",
		probes: c06Tree,
		random: true,
	}}
}

// c06CHook is the writer of the product's debug log.  The line that
// processRewrites prints between two passes over the table is a suspension
// point the harness owns: the lookup is held there for a moment so that
// table changes land between the passes.  (Schedule perturbation only; the
// oracle never looks at time.)
type c06CHook struct {
	n atomic.Uint64
}

var c06CMarker = []byte("rewrite: cname for")

func (h *c06CHook) Write(p []byte) (n int, err error) {
	if bytes.Contains(p, c06CMarker) {
		switch k := h.n.Add(1); k % 4 {
		case 0:
			time.Sleep(time.Duration(40+(k%7)*40) * time.Microsecond)
		case 1:
			runtime.Gosched()
		}
	}

	return len(p), nil
}

// c06CRecord is one lookup as a worker saw it.
type c06CRecord struct {
	name   string
	qt     uint16
	lo, hi int64
	obs    c06Obs
	pan    any
	err    error
}

func c06CObsKey(o c06Obs) string {
	return o.shape() + "|" + o.Canon + "|" + strings.Join(o.IPs, ",")
}

// c06CRandomOp draws one change for the listed table.
func c06CRandomOp(rng *rand.Rand, g *c06APIGen, listed []c06Entry) (op c06COp, ok bool) {
	fresh := func(pat string) (e c06Entry, ok bool) {
		for try := 0; try < 8; try++ {
			e = c06Entry{Domain: pat, Answer: g.answer(g.kind(), pat, listed)}
			if !c06APIHas(listed, e) {
				return e, true
			}
		}

		return e, false
	}
	c := rng.Intn(100)
	switch {
	case len(listed) < 3 || (c < 18 && len(listed) < 10):
		e, ok := fresh(g.pattern())

		return c06COp{Op: "add", Entry: &e}, ok
	case c < 30:
		t := listed[rng.Intn(len(listed))]

		return c06COp{Op: "delete", Target: &t}, true
	default:
		t := listed[rng.Intn(len(listed))]
		pat := strings.ToLower(t.Domain)
		if rng.Intn(100) < 25 {
			pat = g.flip(pat)
		}
		e, ok := fresh(pat)

		return c06COp{Op: "update", Target: &t, Entry: &e}, ok
	}
}

func TestVerifC06Concurrent(t *testing.T) {
	rep := verifkit.New("C06", "concurrent",
		"case = one CheckHost call made by one of 4 worker goroutines on a live DNSFilter while a controller applies rewrite/add, rewrite/delete and rewrite/update requests through the admin handlers (scripted alternations of two to six tables and random histories); the answer must equal the answer of a fresh DNSFilter built from one of the tables that were in force between the start and the end of the call, as bounded by counters of started and finished handler calls; non-trivial = at least one handler call overlapped the lookup; distinct by (scenario, tables in force, query, answer)")
	defer func() {
		if err := rep.Write(); err != nil {
			t.Fatal(err)
		}
	}()
	rep.Assume("the answer of one table is taken from a fresh DNSFilter built by filtering.New from the table rewrite/list reported; that this answer is the documented one is decided by the table and api parts")
	rng := rep.Rand("controller")

	prevOut, prevLevel := log.Writer(), log.GetLevel()
	hook := &c06CHook{}
	log.SetOutput(hook)
	log.SetLevel(log.DEBUG)
	defer func() {
		log.SetLevel(prevLevel)
		log.SetOutput(prevOut)
	}()

	dataDir := t.TempDir()
	setts := &Settings{ProtectionEnabled: true, FilteringEnabled: true}
	const workers = 4
	opsPerRound := verifkit.Pick(150, 300)
	roundsScripted := verifkit.Pick(4, 15)
	roundsRandom := verifkit.Pick(10, 60)
	samples := 0

	for _, sc := range c06CScenarios() {
		rounds := roundsScripted
		if sc.random {
			rounds = roundsRandom
		}
		for round := 0; round < rounds; round++ {
			rep.Class("rounds:" + sc.name)
			var g *c06APIGen
			start := sc.table
			if sc.random {
				g = c06NewAPIGen(rng)
				start = nil
				for len(start) < 4+rng.Intn(5) {
					pat := g.pattern()
					e := c06Entry{Domain: pat, Answer: g.answer(g.kind(), pat, start)}
					if !c06APIHas(start, e) {
						start = append(start, e)
					}
				}
			}
			rw := make([]*LegacyRewrite, len(start))
			for i, e := range start {
				rw[i] = &LegacyRewrite{Domain: e.Domain, Answer: e.Answer}
			}
			d, err := New(&Config{Rewrites: rw, DataDir: dataDir, ConfigModified: func() {}}, nil)
			if err != nil {
				rep.Inconcl("filtering.New: " + err.Error())

				return
			}
			listed, lerr := c06APIList(d)
			if lerr != nil {
				rep.Inconcl("rewrite/list: " + lerr.Error())

				return
			}
			tables := [][]c06Entry{listed} // tables[k] = table after k handler calls
			ops := []c06COp{{}}            // ops[k] = call number k (1-based)

			var started, finished atomic.Int64
			var stop atomic.Bool
			recs := make([][]c06CRecord, workers)
			var wg sync.WaitGroup
			for wi := 0; wi < workers; wi++ {
				wrng := rand.New(rand.NewSource(rng.Int63()))
				wg.Add(1)
				go func(wi int) {
					defer wg.Done()
					for !stop.Load() {
						r := c06CRecord{name: sc.probes[wrng.Intn(len(sc.probes))], qt: dns.TypeA}
						if wrng.Intn(4) == 0 {
							r.qt = dns.TypeAAAA
						}
						r.lo = finished.Load()
						res, cerr, pan := c06Call(d, setts, r.name, r.qt)
						r.hi = started.Load()
						r.err, r.pan = cerr, pan
						if cerr == nil && pan == nil {
							r.obs = c06Observe(res)
						}
						recs[wi] = append(recs[wi], r)
					}
				}(wi)
			}

			failed := false
			for k := 0; k < opsPerRound && !failed; k++ {
				var op c06COp
				if sc.random {
					var ok bool
					if op, ok = c06CRandomOp(rng, g, tables[len(tables)-1]); !ok {
						continue
					}
				} else {
					op = sc.cycle[k%len(sc.cycle)]
				}
				switch rng.Intn(4) {
				case 0:
					time.Sleep(time.Duration(rng.Intn(120)) * time.Microsecond)
				case 1:
					runtime.Gosched()
				}
				var st int
				started.Add(1)
				switch op.Op {
				case "add":
					st, _ = c06APICall(d.handleRewriteAdd, http.MethodPost, "/control/rewrite/add", op.Entry)
				case "delete":
					st, _ = c06APICall(d.handleRewriteDelete, http.MethodPost, "/control/rewrite/delete", op.Target)
				case "update":
					st, _ = c06APICall(d.handleRewriteUpdate, http.MethodPut, "/control/rewrite/update",
						map[string]any{"target": op.Target, "update": op.Entry})
				}
				finished.Add(1)
				rep.Event("operations:" + op.Op)
				listed, lerr = c06APIList(d)
				if st != http.StatusOK || lerr != nil {
					rep.Violate("concurrent:valid-operation-rejected:"+op.Op, fmt.Sprintf("rewrite/%s answered %d (list error: %v)", op.Op, st, lerr),
						map[string]any{"scenario": sc.name, "table_before": tables[len(tables)-1], "operation": op})
					failed = true

					break
				}
				tables = append(tables, listed)
				ops = append(ops, op)
			}
			stop.Store(true)
			wg.Wait()
			d.Close()
			if failed {
				continue
			}

			// Evaluation, after quiescence.
			freshF := map[int]*DNSFilter{}
			type ak struct {
				v    int
				name string
				qt   uint16
			}
			answers := map[ak]c06Obs{}
			answer := func(v int, name string, qt uint16) c06Obs {
				k := ak{v, name, qt}
				if o, ok := answers[k]; ok {
					return o
				}
				f := freshF[v]
				if f == nil {
					frw := make([]*LegacyRewrite, len(tables[v]))
					for i, e := range tables[v] {
						frw[i] = &LegacyRewrite{Domain: e.Domain, Answer: e.Answer}
					}
					f, _ = New(&Config{Rewrites: frw, DataDir: dataDir}, nil)
					freshF[v] = f
				}
				res, _, _ := c06Call(f, setts, name, qt)
				o := c06Observe(res)
				answers[k] = o

				return o
			}
			reported := 0
			for wi := range recs {
				for _, r := range recs[wi] {
					rep.Event("lookups")
					if r.pan != nil || r.err != nil {
						rep.Violate("concurrent:panic-or-error:checkhost", fmt.Sprintf("CheckHost failed: %v %v", r.pan, r.err),
							map[string]any{"scenario": sc.name, "query_name": r.name})

						continue
					}
					lo, hi := int(r.lo), int(r.hi)
					if hi >= len(tables) {
						hi = len(tables) - 1
					}
					okAny, differ := false, false
					first := ""
					for v := lo; v <= hi; v++ {
						k := c06CObsKey(answer(v, r.name, r.qt))
						if v == lo {
							first = k
						}
						differ = differ || k != first
						okAny = okAny || k == c06CObsKey(r.obs)
					}
					overlap := hi > lo
					rep.Eval(overlap, fmt.Sprintf("%s|%s|%s|%d|%s", sc.name, verifkit.JSON(tables[lo:hi+1]), r.name, r.qt, c06CObsKey(r.obs)))
					if overlap {
						rep.Event("lookups_overlapping_a_handler_call")
						rep.Class("overlapping:" + sc.name)
						if hi-lo > 1 {
							rep.Event("lookups_overlapping_several_handler_calls")
						}
					}
					if differ {
						rep.Event("lookups_whose_answer_differs_between_tables_in_force")
						if r.obs.Canon != "" {
							rep.Event("lookups_whose_answer_differs_between_tables_in_force_and_followed_a_cname")
						}
					}
					if okAny {
						continue
					}
					reported++
					if reported > 3 {
						rep.Violate("concurrent:answer-of-no-table-in-force", "", nil)

						continue
					}
					var inForce []map[string]any
					for v := lo; v <= hi; v++ {
						m := map[string]any{"table_no": v, "table": tables[v], "answer_of_this_table": answer(v, r.name, r.qt)}
						if v > lo {
							m["reached_by_operation"] = ops[v]
						}
						inForce = append(inForce, m)
					}
					rep.Violate("concurrent:answer-of-no-table-in-force",
						fmt.Sprintf("%s: CheckHost(%s, %s) returned %s, which none of the %d table(s) in force during the call gives",
							sc.name, r.name, dns.TypeToString[r.qt], verifkit.JSON(r.obs), hi-lo+1),
						map[string]any{"scenario": sc.name, "query_name": r.name, "query_type": dns.TypeToString[r.qt],
							"observed": r.obs, "handler_calls_finished_before_lookup": lo, "handler_calls_started_by_end_of_lookup": hi,
							"tables_in_force": inForce})
				}
			}
			for _, f := range freshF {
				if f != nil {
					f.Close()
				}
			}
			if samples < 4 && round == 0 {
				samples++
				rep.Sample(map[string]any{"scenario": sc.name, "start_table": tables[0], "first_operations": ops[1:min(len(ops), 7)],
					"lookups_in_this_round": len(recs[0]) + len(recs[1]) + len(recs[2]) + len(recs[3])})
			}
		}
	}

	need := []struct {
		k string
		n int
	}{
		{"lookups", 5000},
		{"lookups_overlapping_a_handler_call", 500},
		{"lookups_whose_answer_differs_between_tables_in_force", 100},
		{"lookups_whose_answer_differs_between_tables_in_force_and_followed_a_cname", 30},
	}
	for _, x := range need {
		if rep.Events[x.k] < x.n {
			rep.Inconcl(fmt.Sprintf("event %q seen %d times, fewer than %d", x.k, rep.Events[x.k], x.n))
		}
	}
}
