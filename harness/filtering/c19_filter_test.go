//go:build verif

package filtering

import (
	"crypto/sha256"
	"encoding/hex"
	"errors"
	"fmt"
	"math/rand"
	"sort"
	"strings"
	"testing"
	"time"

	"github.com/AdguardTeam/AdGuardHome/internal/filtering/hashprefix"
	"github.com/AdguardTeam/AdGuardHome/internal/verifkit"
	"github.com/miekg/dns"
	"golang.org/x/net/publicsuffix"
)

// This part drives the same oracle as the part "lookup" (package hashprefix)
// through DNSFilter.CheckHost, with host names in mixed letter case and both
// the safe-browsing and the parental-control service enabled or disabled per
// check.  The model is repeated here because test code of another package
// cannot be imported.

type c19fSuf struct{ name, icann string }

var c19fSufs = []c19fSuf{
	{"com", "com"}, {"co.uk", "co.uk"}, {"com.au", "com.au"}, {"org", "org"},
	{"github.io", "io"}, {"blogspot.com", "com"},
	// Last labels in no public-suffix list: nothing to exclude.
	{"lan", ""}, {"home", ""}, {"internal", ""}, {"corp", ""}, {"intranet", ""},
	{"localdomain", ""}, {"test", ""}, {"qzx9net", ""}, {"fritzy", ""},
}

// c19fDom: see c19Dom of the part "lookup".
type c19fDom struct {
	Typed   string
	Name    string
	A, U    []string
	Dis     map[string]string
	Private bool
	// Unlisted: the last label is in no public-suffix list.
	Unlisted bool
}

func c19fAnalyse(typed string) (d c19fDom, ok bool) {
	lower := strings.ToLower(typed)
	var e *c19fSuf
	for i := range c19fSufs {
		s := &c19fSufs[i]
		if lower == s.name || strings.HasSuffix(lower, "."+s.name) {
			if e == nil || len(s.name) > len(e.name) {
				e = s
			}
		}
	}
	if e == nil {
		return d, false
	}
	labels := strings.Split(lower, ".")
	total := len(labels)
	icannLabels := strings.Count(e.icann, ".") + 1
	if e.icann == "" {
		icannLabels = 0
	}
	d = c19fDom{Typed: typed, Name: lower, Dis: map[string]string{}, Private: e.name != e.icann, Unlisted: e.icann == ""}
	for i := 0; i < total; i++ {
		s := strings.Join(labels[i:], ".")
		nl := total - i
		switch {
		case nl > 4:
			d.Dis[s] = "beyond-four-labels"
		case nl > icannLabels:
			d.A = append(d.A, s)
		case nl == icannLabels:
			if d.Private || total == icannLabels {
				d.U = append(d.U, s)
			} else {
				d.Dis[s] = "public-suffix"
			}
		default:
			d.Dis[s] = "public-suffix-parent"
		}
	}
	ps, icann := publicsuffix.PublicSuffix(lower)
	if ps != e.name || icann != !d.Private {
		return d, false
	}
	return d, true
}

func c19fHash(s string) string {
	h := sha256.Sum256([]byte(s))
	return hex.EncodeToString(h[:])
}

func c19fIsHex(s string) bool {
	for i := 0; i < len(s); i++ {
		c := s[i]
		if !(c >= '0' && c <= '9' || c >= 'a' && c <= 'f' || c >= 'A' && c <= 'F') {
			return false
		}
	}
	return s != ""
}

const c19fAlnum = "abcdefghijklmnopqrstuvwxyz0123456789"

func c19fLabel(rng *rand.Rand) string {
	b := make([]byte, 1+rng.Intn(9))
	for i := range b {
		b[i] = c19fAlnum[rng.Intn(len(c19fAlnum))]
	}
	return string(b)
}

func c19fMixCase(rng *rand.Rand, s string) string {
	b := []byte(s)
	mode := rng.Intn(4) // 0 = keep lower case
	for i, c := range b {
		if c < 'a' || c > 'z' {
			continue
		}
		if mode == 1 || mode >= 2 && rng.Intn(2) == 0 {
			b[i] = c - 'a' + 'A'
		}
	}
	return string(b)
}

func c19fGen(rng *rand.Rand) c19fDom {
	for {
		suf := c19fSufs[rng.Intn(6)]
		k := 1 + rng.Intn(6)
		if rng.Intn(30) == 0 {
			k = 0
		}
		if rng.Intn(4) == 0 {
			suf = c19fSufs[6+rng.Intn(len(c19fSufs)-6)]
			if rng.Intn(6) == 0 {
				k = 0
			}
		}
		parts := make([]string, 0, k+1)
		for i := 0; i < k; i++ {
			parts = append(parts, c19fLabel(rng))
		}
		parts = append(parts, suf.name)
		if d, ok := c19fAnalyse(c19fMixCase(rng, strings.Join(parts, "."))); ok {
			return d
		}
	}
}

type c19fSeen struct {
	Name      string `json:"question_name"`
	NQuestion int    `json:"questions"`
	Failed    bool   `json:"service_returned_error,omitempty"`
}

// c19fService is a faithful in-memory lookup service.
type c19fService struct {
	suffix string
	names  []string
	set    map[string]bool
	by     map[string][]string
	log    []c19fSeen
	// failLeft is the number of coming CheckHost calls during which the
	// service answers every request with an error; failedNow counts the
	// requests it failed during the current call.
	failLeft  int
	failedNow int
	// rng chooses the letter case of the hex strings of the answers.
	rng *rand.Rand
}

// c19fSpell writes a hex string in lower, upper or mixed case.
func c19fSpell(rng *rand.Rand, h string) string {
	if rng == nil {
		return h
	}
	switch rng.Intn(3) {
	case 0:
		return h
	case 1:
		return strings.ToUpper(h)
	}
	b := []byte(h)
	for i, c := range b {
		if c >= 'a' && c <= 'f' && rng.Intn(2) == 0 {
			b[i] = c - 'a' + 'A'
		}
	}
	return string(b)
}

func c19fNewService(suffix string, names []string) *c19fService {
	u := &c19fService{suffix: suffix, set: map[string]bool{}, by: map[string][]string{}}
	sort.Strings(names)
	for i, n := range names {
		if i > 0 && names[i-1] == n {
			continue
		}
		u.names = append(u.names, n)
		h := c19fHash(n)
		u.set[h] = true
		u.by[h[:4]] = append(u.by[h[:4]], h)
	}
	return u
}

func (u *c19fService) Address() string { return "c19.lookup.example" }
func (u *c19fService) Close() error    { return nil }

func (u *c19fService) Exchange(req *dns.Msg) (*dns.Msg, error) {
	seen := c19fSeen{NQuestion: len(req.Question)}
	if u.failLeft > 0 {
		if len(req.Question) > 0 {
			seen.Name = req.Question[0].Name
		}
		seen.Failed = true
		u.log = append(u.log, seen)
		u.failedNow++
		return nil, errors.New("c19: injected failure of the lookup service (i/o timeout)")
	}
	resp := (&dns.Msg{}).SetReply(req)
	var strs []string
	if len(req.Question) > 0 {
		seen.Name = req.Question[0].Name
		lower := strings.ToLower(seen.Name)
		if strings.HasSuffix(lower, u.suffix) {
			rest := strings.TrimSuffix(strings.TrimSuffix(lower, u.suffix), ".")
			if rest != "" {
				for _, l := range strings.Split(rest, ".") {
					if len(l) == 4 && c19fIsHex(l) {
						for _, h := range u.by[l] {
							strs = append(strs, c19fSpell(u.rng, h))
						}
					}
				}
			}
		}
		resp.Answer = append(resp.Answer, &dns.TXT{
			Hdr: dns.RR_Header{Name: seen.Name, Rrtype: dns.TypeTXT, Class: dns.ClassINET, Ttl: 60},
			Txt: strs,
		})
	}
	u.log = append(u.log, seen)
	return resp, nil
}

func (u *c19fService) want(d c19fDom) string {
	for _, s := range d.A {
		if u.set[c19fHash(s)] {
			return "blocked"
		}
	}
	for _, s := range d.U {
		if u.set[c19fHash(s)] {
			return "unspecified"
		}
	}
	return "clean"
}

// c19fQuestions is the privacy oracle over the requests one service received
// during one CheckHost call.
func c19fQuestions(rep *verifkit.Report, svcName string, u *c19fService, d c19fDom, wit func(map[string]any) any) {
	allowed := map[string]bool{}
	for _, s := range d.A {
		allowed[c19fHash(s)[:4]] = true
	}
	unspec := map[string]bool{}
	for _, s := range d.U {
		unspec[c19fHash(s)[:4]] = true
	}
	for _, q := range u.log {
		rep.Event("lookup_requests_seen:" + svcName)
		qn := strings.ToLower(q.Name)
		if q.NQuestion != 1 || !strings.HasSuffix(qn, u.suffix) {
			rep.Violate("question:wrong-suffix", "question name does not end with the service suffix",
				wit(map[string]any{"service": svcName, "request": q}))
			continue
		}
		rest := strings.TrimSuffix(strings.TrimSuffix(qn, u.suffix), ".")
		if rest == "" {
			continue
		}
		for _, l := range strings.Split(rest, ".") {
			if len(l) == 4 && c19fIsHex(l) && allowed[l] {
				rep.Event("prefixes_disclosed")
				continue
			}
			if len(l) == 4 && c19fIsHex(l) && unspec[l] {
				rep.Unspec("prefix of the ICANN suffix sent (name under a private suffix, or bare suffix queried)")
				continue
			}
			kind := "unexpected-label"
			if len(l) == 4 && c19fIsHex(l) {
				kind = "unknown-prefix"
				for s, why := range d.Dis {
					if c19fHash(s)[:4] == l {
						kind = "prefix-of-disallowed-subdomain:" + why
					}
				}
				tl := strings.Split(d.Typed, ".")
				for i := range tl {
					s := strings.Join(tl[i:], ".")
					if s != strings.ToLower(s) && c19fHash(s)[:4] == l {
						kind = "prefix-of-name-not-lower-cased"
					}
				}
			} else if c19fIsHex(l) {
				kind = "hex-label-longer-than-2-bytes"
			} else {
				for _, nl := range strings.Split(d.Name, ".") {
					if nl == l {
						kind = "name-label-in-clear"
					}
				}
			}
			rep.Violate("question:"+kind,
				fmt.Sprintf("%s question label %q is not the 2-byte SHA-256 prefix of an allowed sub-domain of %q", svcName, l, d.Name),
				wit(map[string]any{"service": svcName, "request": q, "offending_label": l}))
		}
	}
}

type c19fStep struct {
	Host     string     `json:"host"`
	SB       bool       `json:"safe_browsing_enabled"`
	PC       bool       `json:"parental_enabled"`
	SBAsked  []c19fSeen `json:"safe_browsing_requests,omitempty"`
	PCAsked  []c19fSeen `json:"parental_requests,omitempty"`
	Reason   string     `json:"reason,omitempty"`
	Filtered bool       `json:"is_filtered"`
	Err      string     `json:"error,omitempty"`
	WantSB   string     `json:"expected_safe_browsing"`
	WantPC   string     `json:"expected_parental"`
}

func TestVerifC19Filter(t *testing.T) {
	rep := verifkit.New("C19", "filter",
		"case = one DNSFilter.CheckHost(host) with a mixed-case host inside a history of 5-20 checks sharing one DNSFilter whose safe-browsing and parental-control checkers talk to two in-memory lookup services with different databases; requests and result are compared with the oracle of the part \"lookup\" applied to the lower-cased name; non-trivial = host has upper-case letters or one of the databases lists a hash of an allowed sub-domain; distinct by (host as typed, databases, enabled services)")
	defer func() {
		if err := rep.Write(); err != nil {
			t.Fatal(err)
		}
	}()
	rng := rep.Rand("main")
	dataDir := t.TempDir()
	n := verifkit.Pick(1500, 20000)
	for h := 0; h < n; h++ {
		var universe []c19fDom
		var candSB, candPC []string
		for b := 1 + rng.Intn(3); b > 0; b-- {
			d := c19fGen(rng)
			universe = append(universe, d)
			// The same name in other letter case, a child and the parent.
			if d2, ok := c19fAnalyse(c19fMixCase(rng, d.Name)); ok {
				universe = append(universe, d2)
			}
			if d2, ok := c19fAnalyse(c19fMixCase(rng, c19fLabel(rng)+"."+d.Name)); ok && strings.Count(d2.Name, ".") < 8 {
				universe = append(universe, d2)
			}
		}
		for _, d := range universe {
			for _, c := range []*[]string{&candSB, &candPC} {
				for _, s := range d.A {
					if rng.Intn(100) < 8 {
						*c = append(*c, s)
					}
				}
				for _, s := range d.U {
					if rng.Intn(100) < 6 {
						*c = append(*c, s)
					}
				}
				for s := range d.Dis {
					if rng.Intn(100) < 25 {
						*c = append(*c, s)
					}
				}
				// Hashes of the name as typed must not matter.
				if d.Typed != d.Name && rng.Intn(100) < 40 {
					*c = append(*c, d.Typed)
				}
			}
		}
		// d.Dis is a map: make the databases independent of its order.
		sort.Strings(candSB)
		sort.Strings(candPC)
		sb := c19fNewService("sb.dns.adguard.com.", candSB)
		pc := c19fNewService("pc.dns.adguard.com.", candPC)
		sb.rng = rand.New(rand.NewSource(rng.Int63()))
		pc.rng = rand.New(rand.NewSource(rng.Int63()))
		// Ample caches only: small ones are the business of the part "lookup".
		sizes := []uint{0, 1 << 16, 1 << 20}
		conf := &Config{
			DataDir: dataDir,
			SafeBrowsingChecker: hashprefix.New(&hashprefix.Config{Upstream: sb, ServiceName: "sb",
				TXTSuffix: sb.suffix, CacheTime: 10 * time.Minute, CacheSize: sizes[rng.Intn(len(sizes))]}),
			ParentalControlChecker: hashprefix.New(&hashprefix.Config{Upstream: pc, ServiceName: "pc",
				TXTSuffix: pc.suffix, CacheTime: 10 * time.Minute, CacheSize: sizes[rng.Intn(len(sizes))]}),
		}
		f, err := New(conf, nil)
		if err != nil {
			rep.Inconcl("filtering.New failed: " + err.Error())
			return
		}
		rep.Class("history")
		var trace []c19fStep
		for s := 5 + rng.Intn(16); s > 0; s-- {
			d := universe[rng.Intn(len(universe))]
			setts := &Settings{ProtectionEnabled: true, FilteringEnabled: rng.Intn(2) == 0,
				SafeBrowsingEnabled: rng.Intn(4) != 0, ParentalEnabled: rng.Intn(4) != 0}
			sb.log, pc.log = nil, nil
			for _, u := range []*c19fService{sb, pc} {
				if u.failLeft == 0 && rng.Intn(100) < 6 {
					u.failLeft = 1 + rng.Intn(2)
				}
				u.failedNow = 0
			}
			wantSB, wantPC := sb.want(d), pc.want(d)
			var res Result
			var cerr error
			var panicked any
			func() {
				defer func() { panicked = recover() }()
				res, cerr = f.CheckHost(d.Typed, dns.TypeA, setts)
			}()
			step := c19fStep{Host: d.Typed, SB: setts.SafeBrowsingEnabled, PC: setts.ParentalEnabled,
				SBAsked: sb.log, PCAsked: pc.log, Reason: res.Reason.String(), Filtered: res.IsFiltered,
				WantSB: wantSB, WantPC: wantPC}
			if cerr != nil {
				step.Err = cerr.Error()
			}
			trace = append(trace, step)
			failedNow := sb.failedNow + pc.failedNow
			for _, u := range []*c19fService{sb, pc} {
				if u.failLeft > 0 {
					u.failLeft--
				}
			}
			wit := func(extra map[string]any) any {
				w := map[string]any{
					"safe_browsing_database_names": sb.names, "parental_database_names": pc.names,
					"steps": append([]c19fStep{}, trace...), "host_as_typed": d.Typed,
					"allowed_subdomains": d.A, "unspecified_subdomains": d.U,
				}
				for k, v := range extra {
					w[k] = v
				}
				return w
			}
			mixed := d.Typed != d.Name
			rep.Eval(mixed || wantSB == "blocked" || wantPC == "blocked",
				fmt.Sprintf("%s|%v|%v|%v|%v", d.Typed, sb.names, pc.names, setts.SafeBrowsingEnabled, setts.ParentalEnabled))
			if mixed {
				rep.Class("host_with_upper_case_letters")
			} else {
				rep.Class("host_in_lower_case")
			}
			if d.Unlisted {
				rep.Class("host_whose_last_label_is_in_no_list")
			}
			if h < 3 && s == 1 {
				rep.Sample(wit(nil))
			}

			c19fQuestions(rep, "safe-browsing", sb, d, wit)
			c19fQuestions(rep, "parental", pc, d, wit)
			if !setts.SafeBrowsingEnabled && len(sb.log) > 0 || !setts.ParentalEnabled && len(pc.log) > 0 {
				rep.Unspec("request sent to a service that is disabled for this query")
			}

			effSB, effPC := wantSB, wantPC
			if !setts.SafeBrowsingEnabled {
				effSB = "clean"
			}
			if !setts.ParentalEnabled {
				effPC = "clean"
			}
			switch {
			case panicked != nil:
				rep.Violate("check-panicked", fmt.Sprintf("CheckHost(%q) panicked: %v", d.Typed, panicked), wit(nil))
			case failedNow > 0:
				rep.Unspec("outcome of a CheckHost during which a lookup service returned an error")
				rep.Event("checks_during_service_failure")
			case cerr != nil:
				rep.Unspec("CheckHost returned an error although the services answered")
			default:
				mustBlock := effSB == "blocked" || effPC == "blocked"
				mayBlock := effSB != "clean" || effPC != "clean"
				if mayBlock && !mustBlock {
					rep.Unspec("database lists the ICANN suffix itself")
				}
				got := res.IsFiltered
				want := mustBlock
				ok := false
				switch {
				case got && res.Reason == FilteredSafeBrowsing:
					ok = effSB != "clean"
				case got && res.Reason == FilteredParental:
					ok = effPC != "clean"
				case !got && res.Reason == NotFilteredNotFound:
					ok = !mustBlock
				}
				if ok {
					if got {
						rep.Event("blocked:" + res.Reason.String())
						if mixed {
							rep.Event("blocked_host_typed_with_upper_case")
						}
						if d.Unlisted {
							rep.Event("blocked_host_whose_last_label_is_in_no_list")
						}
					} else {
						rep.Event("not_blocked")
						if mixed && (sb.set[c19fHash(d.Typed)] && setts.SafeBrowsingEnabled ||
							pc.set[c19fHash(d.Typed)] && setts.ParentalEnabled) {
							rep.Event("not_blocked_although_database_lists_hash_of_name_as_typed")
						}
					}
					break
				}
				rep.Violate(fmt.Sprintf("filter-verdict:want-blocked-%v-got-%v(%s)", want, got, res.Reason),
					fmt.Sprintf("CheckHost(%q): IsFiltered=%v Reason=%s, but fresh lookups give safe-browsing=%s parental=%s",
						d.Typed, got, res.Reason, effSB, effPC),
					wit(map[string]any{"host_has_upper_case_letters": mixed, "expected_blocked": want, "observed_blocked": got, "reason": res.Reason.String()}))
			}
		}
		f.Close()
	}
	ev := rep.Events
	for _, k := range []string{"lookup_requests_seen:safe-browsing", "lookup_requests_seen:parental",
		"blocked_host_typed_with_upper_case", "blocked_host_whose_last_label_is_in_no_list", "not_blocked", "checks_during_service_failure", "blocked:" + FilteredParental.String(),
		"blocked:" + FilteredSafeBrowsing.String()} {
		if ev[k] == 0 && !rep.Violated() {
			rep.Inconcl("event never observed: " + k)
		}
	}
}
