//go:build verif

package filtering

import (
	"bytes"
	"encoding/json"
	"fmt"
	"math/rand"
	"net/http"
	"net/http/httptest"
	"net/url"
	"os"
	"path/filepath"
	"sort"
	"strconv"
	"strings"
	"sync"
	"testing"
	"time"

	"github.com/AdguardTeam/AdGuardHome/internal/verifkit"
)

// Part "overlap": downloads that really run at the same time.  A forced
// refresh holds refreshLock, but POST add_url and POST set_url download without
// it, so a refresh (or an add_url) whose list server pauses in the middle of a
// line overlaps with complete downloads of OTHER lists.  Every rule of a list
// carries the list's tag; at quiescence every stored file must be exactly the
// normal form of its own list's text.

type c15ovRoute struct {
	body []byte
	// split > 0: send body[:split] (ends inside a line), flush, wait for the
	// gate, send the rest.
	split    int
	partSent chan struct{}
	gate     chan struct{}
	once     sync.Once
	// status != 0: answer with this status and no list.
	status int
	// later, if not empty, answers the second, third... request of the path
	// (the last entry answers all further ones); requests counts them.
	later    []*c15ovRoute
	requests int
}

type c15ovServer struct {
	mu           sync.Mutex
	routes       map[string]*c15ovRoute
	gatedWaiting int
	// startedDuringPause / finishedDuringPause count requests of other lists
	// that started / completed while a paused response was waiting.
	startedDuringPause  int
	finishedDuringPause int
	gateTimeouts        int
	unknown             int
	srv                 *httptest.Server
}

func (s *c15ovServer) set(path string, r *c15ovRoute) {
	s.mu.Lock()
	defer s.mu.Unlock()
	s.routes[path] = r
}

func (s *c15ovServer) serve(w http.ResponseWriter, req *http.Request) {
	s.mu.Lock()
	r := s.routes[req.URL.Path]
	if r != nil {
		k := r.requests
		r.requests++
		if k > 0 && len(r.later) > 0 {
			r = r.later[min(k, len(r.later))-1]
		}
	}
	if r == nil {
		s.unknown++
	} else if r.split == 0 && s.gatedWaiting > 0 {
		s.startedDuringPause++
	}
	s.mu.Unlock()
	if r == nil {
		http.Error(w, "no such list", http.StatusNotFound)

		return
	}
	if r.status != 0 {
		http.Error(w, "list server error", r.status)

		return
	}
	w.Header().Set("Content-Type", "text/plain")
	w.Header().Set("Content-Length", strconv.Itoa(len(r.body)))
	if r.split == 0 {
		_, _ = w.Write(r.body)
		s.mu.Lock()
		if s.gatedWaiting > 0 {
			s.finishedDuringPause++
		}
		s.mu.Unlock()

		return
	}
	_, _ = w.Write(r.body[:r.split])
	w.(http.Flusher).Flush()
	s.mu.Lock()
	s.gatedWaiting++
	s.mu.Unlock()
	r.once.Do(func() { close(r.partSent) })
	select {
	case <-r.gate:
	case <-time.After(30 * time.Second):
		s.mu.Lock()
		s.gateTimeouts++
		s.mu.Unlock()
	}
	s.mu.Lock()
	s.gatedWaiting--
	s.mu.Unlock()
	_, _ = w.Write(r.body[r.split:])
}

// c15ovText is the text of one version of one tagged list.
type c15ovText struct {
	Tag   string
	Ver   int
	Bytes []byte
	NF    []byte
	Probe string
	// Split is an offset inside a rule line behind at least three whole rule
	// lines; LastWhole is the last whole rule line in front of it.
	Split     int
	LastWhole string
}

func c15ovGen(rng *rand.Rand, tag string, ver, rules int) *c15ovText {
	t := &c15ovText{Tag: tag, Ver: ver, Probe: fmt.Sprintf("v%d.%s.c15probe.test", ver, tag)}
	var sb bytes.Buffer
	fmt.Fprintf(&sb, "! Title: list %s version %d\n", tag, ver)
	probeAt := rng.Intn(rules)
	type span struct{ start, end int }
	var ruleSpans []span
	for i := 0; i < rules; i++ {
		if rng.Intn(6) == 0 {
			fmt.Fprintf(&sb, "# comment of %s\n", tag)
		}
		line := fmt.Sprintf("||%s-v%d-%04d.c15ov.example^", tag, ver, i)
		if i == probeAt {
			line = "||" + t.Probe + "^"
		}
		if rng.Intn(5) == 0 {
			sb.WriteString("  ")
		}
		start := sb.Len()
		sb.WriteString(line)
		ruleSpans = append(ruleSpans, span{start, sb.Len()})
		sb.WriteString([]string{"\n", "\n", "\r\n", " \n"}[rng.Intn(4)])
	}
	t.Bytes = sb.Bytes()
	t.NF, _ = c15Normalise(t.Bytes, false, false, false)
	// A split point inside rule line k (k >= 3, not the last one).
	k := 3 + rng.Intn(len(ruleSpans)-4)
	sp := ruleSpans[k]
	t.Split = sp.start + 3 + rng.Intn(sp.end-sp.start-6)
	t.LastWhole = string(t.Bytes[ruleSpans[k-1].start:ruleSpans[k-1].end])

	return t
}

type c15ovRound struct {
	rep      *verifkit.Report
	srv      *c15ovServer
	n        int
	d        *DNSFilter
	handlers map[string]http.HandlerFunc
	dataDir  string
	log      []string
	logMu    sync.Mutex
	// prefix starts the violation keys ("overlap" or "crash").
	prefix string
	// gone are URLs of lists that were removed and must not be configured.
	gone []string
	// aborted, if not empty, occurs in every line of a download that was
	// aborted by the death of the process.
	aborted string
}

func (o *c15ovRound) logf(format string, a ...any) {
	o.logMu.Lock()
	defer o.logMu.Unlock()
	o.log = append(o.log, fmt.Sprintf(format, a...))
}

func (o *c15ovRound) post(path, body string) (code int, resp string) {
	c, b, pn := c15Call(o.handlers["POST "+path], http.MethodPost, path, body)
	if pn != nil {
		o.rep.Violate(o.prefix+":handler-panicked:"+path, fmt.Sprintf("POST %s panicked: %v", path, pn), map[string]any{"round": o.n, "events": o.log})
	}
	o.logf("POST %s %s -> %d %s", path, body, c, strings.TrimSpace(string(b)))

	return c, string(b)
}

func (o *c15ovRound) url(path string) string { return o.srv.srv.URL + path }

// waitPending waits until some pending file of the data directory (or of the
// OS temporary directory) contains want, i.e. until the download has consumed
// the first part of the body.
func (o *c15ovRound) waitPending(want string) bool {
	dirs := []string{filepath.Join(o.dataDir, filterDir), os.TempDir()}
	deadline := time.Now().Add(5 * time.Second)
	for time.Now().Before(deadline) {
		for di, dir := range dirs {
			pat := ".*.txt*"
			if di == 0 {
				// Whatever the pending file is called.
				pat = "*"
			}
			names, _ := filepath.Glob(filepath.Join(dir, pat))
			for _, name := range names {
				if data, err := os.ReadFile(name); err == nil && bytes.Contains(data, []byte(want)) {
					return true
				}
			}
		}
		time.Sleep(2 * time.Millisecond)
	}

	return false
}

type c15ovWant struct {
	URL   string
	Allow bool
	Text  *c15ovText
	// Role: slow-download, fast-download, not-downloaded.
	Role string
	// OldProbe must not be in force any more.
	OldProbe string
	// Name, if not empty, is the configured name.
	Name string
	// Alt are other versions the list's server has served in the round; the
	// list must be one of them as a whole (file, count and checksum).
	Alt []*c15ovText
}

func (o *c15ovRound) run(rng *rand.Rand) {
	rep := o.rep
	tag := func(letter string) string { return fmt.Sprintf("r%d%s", o.n, letter) }
	nRules := func() int { return 12 + rng.Intn(60) }
	// Three configured lists, version 1 stored by an initial refresh.
	a1, b1, c1 := c15ovGen(rng, tag("a"), 1, nRules()), c15ovGen(rng, tag("b"), 1, nRules()), c15ovGen(rng, tag("c"), 1, nRules())
	pa, pb, pc := "/"+a1.Tag+".txt", "/"+b1.Tag+".txt", "/"+c1.Tag+".txt"
	for p, t := range map[string]*c15ovText{pa: a1, pb: b1, pc: c1} {
		o.srv.set(p, &c15ovRoute{body: t.Bytes})
	}
	idBase := 1 + rng.Intn(50000)
	conf := &Config{
		DataDir:          o.dataDir,
		FilteringEnabled: true,
		HTTPClient:       &http.Client{Timeout: 60 * time.Second, Transport: &http.Transport{MaxIdleConnsPerHost: 4}},
		HTTPRegister:     func(method, u string, h http.HandlerFunc) { o.handlers[method+" "+u] = h },
		ConfigModified:   func() {},
		Filters: []FilterYAML{
			{Enabled: true, URL: o.url(pa), Name: "a", Filter: Filter{ID: idBase}},
			{Enabled: true, URL: o.url(pb), Name: "b", Filter: Filter{ID: idBase + 3}},
		},
		WhitelistFilters: []FilterYAML{{Enabled: true, URL: o.url(pc), Name: "c", white: true, Filter: Filter{ID: idBase + 7}}},
	}
	d, err := New(conf, nil)
	if err != nil {
		rep.Inconcl("cannot build a DNSFilter: " + err.Error())

		return
	}
	o.d = d
	defer func() {
		d.Close()
		conf.HTTPClient.CloseIdleConnections()
	}()
	d.EnableFilters(false)
	d.Start()
	o.post("/control/filtering/refresh", `{"whitelist":false}`)
	o.post("/control/filtering/refresh", `{"whitelist":true}`)

	want := map[string]*c15ovWant{
		"a": {URL: o.url(pa), Text: a1, Role: "not-downloaded"},
		"b": {URL: o.url(pb), Text: b1, Role: "not-downloaded"},
		"c": {URL: o.url(pc), Allow: true, Text: c1, Role: "not-downloaded"},
	}
	// Version 2 of everything, a new list d, new URLs for the set_url targets.
	a2, b2, c2 := c15ovGen(rng, a1.Tag, 2, nRules()), c15ovGen(rng, b1.Tag, 2, nRules()), c15ovGen(rng, c1.Tag, 2, nRules())
	d2 := c15ovGen(rng, tag("d"), 1, nRules())
	pd := "/" + d2.Tag + ".txt"
	gate := make(chan struct{})
	gated := func(t *c15ovText) *c15ovRoute {
		return &c15ovRoute{body: t.Bytes, split: t.Split, partSent: make(chan struct{}), gate: gate}
	}
	addBody := func(white bool) string {
		b, _ := json.Marshal(filterAddJSON{Name: "d", URL: o.url(pd), Whitelist: white})

		return string(b)
	}
	setBody := func(oldPath, newPath string, white bool) string {
		b, _ := json.Marshal(filterURLReq{URL: o.url(oldPath), Whitelist: white,
			Data: &filterURLReqData{Name: "moved", URL: o.url(newPath), Enabled: true}})

		return string(b)
	}
	type op struct {
		name string
		do   func() bool
	}
	var slow op
	var fast []op
	var slowRoute *c15ovRoute
	var slowText *c15ovText
	dWhite := rng.Intn(2) == 0
	scenario := []string{"refresh-block", "refresh-block", "refresh-allow", "add-url"}[rng.Intn(4)]
	// newVer records that a refresh brings list key to text t.
	newVer := func(key string, t *c15ovText, role string) {
		w := want[key]
		w.OldProbe, w.Text, w.Role = w.Text.Probe, t, role
	}
	refreshOp := func(white bool, then func()) op {
		return op{fmt.Sprintf("refresh(whitelist=%t)", white), func() bool {
			c, _ := o.post("/control/filtering/refresh", fmt.Sprintf(`{"whitelist":%t}`, white))
			if c == http.StatusOK {
				then()
			}

			return c == http.StatusOK
		}}
	}
	addOp := op{"add_url", func() bool {
		c, _ := o.post("/control/filtering/add_url", addBody(dWhite))

		return c == http.StatusOK
	}}
	setOp := func(key, oldPath string, newText *c15ovText, white bool) op {
		newPath := "/" + newText.Tag + "-moved.txt"
		o.srv.set(newPath, &c15ovRoute{body: newText.Bytes})

		return op{"set_url(" + key + ")", func() bool {
			c, _ := o.post("/control/filtering/set_url", setBody(oldPath, newPath, white))
			if c == http.StatusOK {
				w := want[key]
				w.OldProbe, w.URL, w.Text, w.Role = w.Text.Probe, o.url(newPath), newText, "fast-download"
			}

			return c == http.StatusOK
		}}
	}
	switch scenario {
	case "refresh-block":
		// One block list pauses, the other is complete; meanwhile add_url
		// and set_url of the allow list.
		if rng.Intn(2) == 0 {
			slowText, slowRoute = a2, gated(a2)
			o.srv.set(pa, slowRoute)
			o.srv.set(pb, &c15ovRoute{body: b2.Bytes})
			slow = refreshOp(false, func() { newVer("a", a2, "slow-download"); newVer("b", b2, "fast-download") })
		} else {
			slowText, slowRoute = b2, gated(b2)
			o.srv.set(pb, slowRoute)
			o.srv.set(pa, &c15ovRoute{body: a2.Bytes})
			slow = refreshOp(false, func() { newVer("b", b2, "slow-download"); newVer("a", a2, "fast-download") })
		}
		o.srv.set(pd, &c15ovRoute{body: d2.Bytes})
		fast = []op{addOp, setOp("c", pc, c2, true)}
	case "refresh-allow":
		slowText, slowRoute = c2, gated(c2)
		o.srv.set(pc, slowRoute)
		slow = refreshOp(true, func() { newVer("c", c2, "slow-download") })
		o.srv.set(pd, &c15ovRoute{body: d2.Bytes})
		fast = []op{addOp, setOp("b", pb, b2, false)}
	default:
		// add_url pauses; meanwhile a forced refresh of the block lists and
		// set_url of the allow list.
		slowText, slowRoute = d2, gated(d2)
		o.srv.set(pd, slowRoute)
		slow = addOp
		o.srv.set(pa, &c15ovRoute{body: a2.Bytes})
		o.srv.set(pb, &c15ovRoute{body: b2.Bytes})
		fast = []op{refreshOp(false, func() { newVer("a", a2, "fast-download"); newVer("b", b2, "fast-download") }), setOp("c", pc, c2, true)}
	}
	if rng.Intn(4) == 0 {
		i := rng.Intn(2)
		fast = fast[i : i+1]
	}
	rep.Class("scenario:" + scenario)

	// Run: the slow operation, then - once its download has consumed the
	// first part of the body - the fast ones, then the gate opens.
	failed := map[string]bool{}
	var fmu sync.Mutex
	slowDone := make(chan struct{})
	go func() {
		defer close(slowDone)
		if !slow.do() {
			fmu.Lock()
			failed[slow.name] = true
			fmu.Unlock()
		}
	}()
	select {
	case <-slowRoute.partSent:
	case <-time.After(20 * time.Second):
		rep.Event("paused_response_never_requested")
	}
	if o.waitPending(slowText.LastWhole) {
		rep.Event("rounds_where_the_paused_download_had_consumed_its_first_part")
	}
	time.Sleep(10 * time.Millisecond)
	h0 := func() int {
		o.srv.mu.Lock()
		defer o.srv.mu.Unlock()

		return o.srv.finishedDuringPause
	}()
	var wg sync.WaitGroup
	for _, f := range fast {
		wg.Add(1)
		go func() {
			defer wg.Done()
			if !f.do() {
				fmu.Lock()
				failed[f.name] = true
				fmu.Unlock()
			}
		}()
	}
	fastDone := make(chan struct{})
	go func() { wg.Wait(); close(fastDone) }()
	select {
	case <-fastDone:
	case <-time.After(20 * time.Second):
		rep.Event("fast_operations_waited_for_the_paused_one")
	}
	overl := func() int {
		o.srv.mu.Lock()
		defer o.srv.mu.Unlock()

		return o.srv.finishedDuringPause - h0
	}()
	if overl > 0 {
		rep.Event("rounds_with_complete_downloads_during_a_paused_one")
		rep.EventN("downloads_completed_during_a_paused_one", overl)
	}
	close(gate)
	<-slowDone
	<-fastDone
	// Quiescence: every handler has returned.
	if len(failed) > 0 {
		for k := range failed {
			rep.Event("operation_not_ok:" + strings.SplitN(k, "(", 2)[0])
		}
	}
	addOK := true
	for _, f := range append([]op{slow}, fast...) {
		if f.name == "add_url" {
			addOK = !failed["add_url"]
			if addOK {
				want["d"] = &c15ovWant{URL: o.url(pd), Allow: dWhite, Text: d2, Role: "fast-download"}
				if scenario == "add-url" {
					want["d"].Role = "slow-download"
				}
			}
		}
	}
	if failed[slow.name] || failed["refresh(whitelist=false)"] || failed["refresh(whitelist=true)"] {
		// Not expected; the round cannot be judged list by list.
		rep.Event("rounds_not_judged")

		return
	}
	o.judge(scenario, want)
}

// judge compares every configured list with its own list's text.
func (o *c15ovRound) judge(scenario string, want map[string]*c15ovWant) {
	rep := o.rep
	code, body, _ := c15Call(o.handlers["GET /control/filtering/status"], http.MethodGet, "/control/filtering/status", "")
	var st filteringConfig
	if code != http.StatusOK || json.Unmarshal(body, &st) != nil {
		rep.Inconcl("status API failed")

		return
	}
	sums := map[string]uint32{}
	func() {
		o.d.conf.filtersMu.RLock()
		defer o.d.conf.filtersMu.RUnlock()
		for _, f := range append(append([]FilterYAML{}, o.d.conf.Filters...), o.d.conf.WhitelistFilters...) {
			sums[f.URL] = f.checksum
		}
	}()
	byURL := map[string]filterJSON{}
	isAllow := map[string]bool{}
	for _, f := range st.Filters {
		byURL[f.URL] = f
	}
	for _, f := range st.WhitelistFilters {
		byURL[f.URL], isAllow[f.URL] = f, true
	}
	var allTags []string
	for _, w := range want {
		allTags = append(allTags, w.Text.Tag)
	}
	keys := make([]string, 0, len(want))
	for k := range want {
		keys = append(keys, k)
	}
	sort.Strings(keys)
	type settle struct{ name, want, role string }
	var settles []settle
	for _, k := range keys {
		w := want[k]
		fj, ok := byURL[w.URL]
		rep.Eval(w.Role != "not-downloaded", fmt.Sprintf("%s|%s|%s", scenario, w.Role, verifkit.Hash(string(w.Text.Bytes))))
		rep.Class("list:" + w.Role)
		wit := func(extra map[string]any) map[string]any {
			m := map[string]any{"round": o.n, "scenario": scenario, "list": k, "role": w.Role, "url": w.URL,
				"served_text": c15Show(w.Text.Bytes), "expected_stored_form": c15Show(w.Text.NF), "events": o.log}
			for kk, v := range extra {
				m[kk] = v
			}

			return m
		}
		if !ok || isAllow[w.URL] != w.Allow {
			rep.Violate(fmt.Sprintf("%s:%s:%s:list-missing-from-configuration", o.prefix, scenario, w.Role),
				"a list whose add_url / set_url returned 200 is not in the configuration", wit(nil))

			continue
		}
		p := filepath.Join(o.dataDir, filterDir, strconv.Itoa(int(fj.ID))+".txt")
		stored, rerr := os.ReadFile(p)
		for _, alt := range w.Alt {
			// Judge against the version the file holds.
			if rerr == nil && bytes.Equal(stored, alt.NF) && !bytes.Equal(stored, w.Text.NF) {
				w.Text = alt
				rep.Class("list-holds-another-served-version")
			}
		}
		var diffs []string
		switch {
		case rerr != nil:
			diffs = append(diffs, "file-missing")
		case !bytes.Equal(stored, w.Text.NF):
			d := "stored-file-not-normal-form"
			if o.aborted != "" && bytes.Contains(stored, []byte(o.aborted)) {
				diffs = append(diffs, "stored-file-contains-remains-of-aborted-download")

				break
			}
			own := map[string]bool{}
			for _, l := range strings.Split(string(w.Text.NF), "\n") {
				own[l] = true
			}
			for _, l := range strings.Split(strings.TrimSuffix(string(stored), "\n"), "\n") {
				if own[l] {
					continue
				}
				d = "stored-file-has-fragment-line"
				for _, tg := range allTags {
					if tg != w.Text.Tag && strings.Contains(l, tg) {
						d = "stored-file-has-foreign-list-content"
					}
				}
				if d != "stored-file-has-fragment-line" {
					break
				}
			}
			diffs = append(diffs, d)
		}
		if int(fj.RulesCount) != bytes.Count(w.Text.NF, []byte("\n")) {
			diffs = append(diffs, "rules-count-wrong")
		}
		if rerr == nil {
			out, n, sum, perr := c15Reparse(stored)
			switch {
			case perr != nil:
				diffs = append(diffs, "stored-file-rejected-on-reparse")
			case !bytes.Equal(out, stored):
				diffs = append(diffs, "stored-file-not-fixed-point")
			case n != int(fj.RulesCount):
				diffs = append(diffs, "reparse-count-differs")
			case sum != sums[w.URL]:
				diffs = append(diffs, "reparse-checksum-differs")
			}
		}
		if w.Name != "" && fj.Name != w.Name {
			diffs = append(diffs, "name-not-as-configured")
		}
		if fj.URL != w.URL || !fj.Enabled {
			diffs = append(diffs, "url-or-enabled-not-as-configured")
		}
		if len(diffs) > 0 && rerr == nil && bytes.Equal(stored, w.Text.NF) {
			// The file is the list's own; is the metadata another list's?
			for _, k2 := range keys {
				m := want[k2]
				if k2 == k {
					continue
				}
				msum, _ := c15ProductSum(m.Text.NF)
				if (int(fj.RulesCount) == bytes.Count(m.Text.NF, []byte("\n")) && sums[w.URL] == msum) ||
					(m.Name != "" && w.Name != "" && m.Name != w.Name && fj.Name == m.Name) {
					diffs = append([]string{"list-has-other-lists-metadata"}, diffs...)

					break
				}
			}
		}
		if len(diffs) > 0 {
			rep.Violate(fmt.Sprintf("%s:%s:%s:%s", o.prefix, scenario, w.Role, diffs[0]),
				fmt.Sprintf("the list (%s) is not what its own server sent: %s", w.Role, strings.Join(diffs, ", ")),
				wit(map[string]any{"differences": diffs, "stored_file": c15Show(stored), "rules_count": fj.RulesCount,
					"checksum": sums[w.URL], "name": fj.Name, "expected_name": w.Name,
					"expected_rules_count": bytes.Count(w.Text.NF, []byte("\n"))}))

			continue
		}
		rep.Class("stored-exactly-own-content:" + w.Role)
		settles = append(settles, settle{w.Text.Probe, c15InForce(int(fj.ID), w.Allow), w.Role})
		if w.OldProbe != "" {
			settles = append(settles, settle{w.OldProbe, c15NotListed, w.Role})
		}
	}
	for _, u := range o.gone {
		if _, still := byURL[u]; still {
			rep.Violate(fmt.Sprintf("%s:%s:removed-list-still-configured", o.prefix, scenario),
				"a list whose remove_url returned 200 is still in the configuration", map[string]any{"round": o.n, "url": u, "events": o.log})
		}
	}
	// Rules in force.  add_url and set_url rebuild the engines asynchronously,
	// so the decisions are polled.  Every handler has returned and nothing
	// else is scheduled, so a disagreement that lasts 20 s is permanent: no
	// further rebuild is pending (the queue of the update loop is empty then).
	deadline := time.Now().Add(20 * time.Second)
	for {
		bad, badRole := "", ""
		for _, s := range settles {
			c, b, _ := c15Call(o.handlers["GET /control/filtering/check_host"], http.MethodGet,
				"/control/filtering/check_host?name="+url.QueryEscape(s.name), "")
			var ch checkHostResp
			if c != http.StatusOK || json.Unmarshal(b, &ch) != nil {
				bad, badRole = s.name+": check_host failed", s.role

				break
			}
			id := 0
			if len(ch.Rules) > 0 {
				id = int(ch.Rules[0].FilterListID)
			}
			if got := fmt.Sprintf("%s/%d", ch.Reason, id); got != s.want {
				bad, badRole = fmt.Sprintf("check_host(%s) = %s, want %s", s.name, got, s.want), s.role

				break
			}
		}
		if bad == "" {
			rep.Event("rounds_with_decisions_following_the_stored_lists")

			return
		}
		if time.Now().After(deadline) {
			if len(o.d.filtersInitializerChan) != 0 {
				rep.Unspec("engine-rebuild-still-queued-after-20s")

				return
			}
			rep.Violate(o.prefix+":stored-but-not-in-force",
				"every list is stored and reported correctly, but 20 s after the last handler returned the rules in force still are not the stored ones: "+bad,
				map[string]any{"round": o.n, "scenario": scenario, "role_of_the_list": badRole, "events": o.log, "disagreement": bad})

			return
		}
		time.Sleep(5 * time.Millisecond)
	}
}

func TestVerifC15Overlap(t *testing.T) {
	rep := verifkit.New("C15", "overlap",
		"case = (list, round): a refresh or add_url whose list server pauses inside a line runs together with add_url / set_url / refresh of other lists; at quiescence each list's file, count and checksum are compared with its own text; non-trivial = the list was downloaded in the round; distinct by (scenario, role, text)")
	defer func() {
		if err := rep.Write(); err != nil {
			t.Fatal(err)
		}
	}()
	root, err := os.MkdirTemp(os.Getenv("VERIF_SCRATCH"), "c15o-")
	if err != nil {
		rep.Inconcl("no scratch directory: " + err.Error())

		return
	}
	defer func() { _ = os.RemoveAll(root) }()
	srv := &c15ovServer{routes: map[string]*c15ovRoute{}}
	srv.srv = httptest.NewServer(http.HandlerFunc(srv.serve))
	defer srv.srv.Close()

	nRounds := verifkit.Pick(96, 960)
	for n := 0; n < nRounds; n++ {
		o := &c15ovRound{rep: rep, srv: srv, n: n, handlers: map[string]http.HandlerFunc{}, prefix: "overlap",
			dataDir: filepath.Join(root, fmt.Sprintf("r%d", n))}
		if err = os.MkdirAll(o.dataDir, 0o755); err != nil {
			rep.Inconcl(err.Error())

			return
		}
		if n%4 == 2 {
			o.runScheduled(rep.Rand(fmt.Sprintf("round-%d", n)))
		} else if n%4 == 3 {
			o.runScheduledVsForced(rep.Rand(fmt.Sprintf("round-%d", n)))
		} else {
			o.run(rep.Rand(fmt.Sprintf("round-%d", n)))
		}
		if n < 2 {
			rep.Sample(map[string]any{"round": n, "events": o.log})
		}
		_ = os.RemoveAll(o.dataDir)
		srv.mu.Lock()
		srv.routes = map[string]*c15ovRoute{}
		srv.mu.Unlock()
		if len(rep.Inconclusive) > 0 {
			return
		}
	}
	srv.mu.Lock()
	rep.EventN("requests_started_during_a_paused_response", srv.startedDuringPause)
	rep.EventN("paused_responses_released_by_timeout", srv.gateTimeouts)
	rep.EventN("requests_for_unknown_paths", srv.unknown)
	srv.mu.Unlock()
	if !rep.Violated() {
		if got := rep.EventCount("rounds_with_complete_downloads_during_a_paused_one"); got < nRounds/2 {
			rep.Inconcl(fmt.Sprintf("only %d of %d rounds had a complete download during a paused one", got, nRounds))
		}
		if got := rep.ClassCount("stored-exactly-own-content:slow-download"); got < nRounds/2 {
			rep.Inconcl(fmt.Sprintf("only %d paused downloads were judged", got))
		}
	}
}
