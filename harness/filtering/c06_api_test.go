//go:build verif

package filtering

import (
	"bytes"
	"encoding/json"
	"fmt"
	"io"
	"math/rand"
	"net/http"
	"net/http/httptest"
	"sort"
	"strings"
	"testing"

	"github.com/AdguardTeam/AdGuardHome/internal/verifkit"
	"github.com/AdguardTeam/golibs/log"
	"github.com/miekg/dns"
)

// API-history family of C06: the rewrite table of a live DNSFilter is built
// and changed only through the admin handlers (rewrite/add, rewrite/delete,
// rewrite/update, read back with rewrite/list).  After every operation the
// resolution must follow the table as listed.

// c06APIKind names the kind of an answer for the operation classes.
func c06APIKind(e c06Entry) string {
	switch r := c06Read(e); {
	case r.kind == c06KindA || r.kind == c06KindAAAA:
		return "address"
	case r.kind == c06KindExcA || r.kind == c06KindExcAAAA:
		return "exception"
	case strings.EqualFold(e.Answer, e.Domain):
		return "self"
	default:
		return "cname"
	}
}

func c06APIShape(dom string) string {
	if c06IsWild(strings.ToLower(dom)) {
		return "wildcard"
	}

	return "exact"
}

// c06APICall sends one request to a handler and returns status and body.
func c06APICall(h http.HandlerFunc, method, path string, body any) (status int, resp []byte) {
	var rd io.Reader
	if body != nil {
		b, _ := json.Marshal(body)
		rd = bytes.NewReader(b)
	}
	r := httptest.NewRequest(method, path, rd)
	r.Header.Set("Content-Type", "application/json")
	w := httptest.NewRecorder()
	h(w, r)

	return w.Code, w.Body.Bytes()
}

// c06APIList reads the table through the list handler.
func c06APIList(d *DNSFilter) (table []c06Entry, err error) {
	st, body := c06APICall(d.handleRewriteList, http.MethodGet, "/control/rewrite/list", nil)
	if st != http.StatusOK {
		return nil, fmt.Errorf("status %d: %s", st, body)
	}
	table = []c06Entry{}
	err = json.Unmarshal(body, &table)

	return table, err
}

func c06APIKey(e c06Entry) string { return strings.ToLower(e.Domain) + ">" + e.Answer }

func c06APISameSet(a, b []c06Entry) bool {
	if len(a) != len(b) {
		return false
	}
	ka, kb := make([]string, len(a)), make([]string, len(b))
	for i := range a {
		ka[i], kb[i] = c06APIKey(a[i]), c06APIKey(b[i])
	}
	sort.Strings(ka)
	sort.Strings(kb)

	return strings.Join(ka, "\n") == strings.Join(kb, "\n")
}

func c06APISameOrder(a, b []c06Entry) bool {
	for i := range a {
		if c06APIKey(a[i]) != c06APIKey(b[i]) {
			return false
		}
	}

	return len(a) == len(b)
}

// c06APIGen draws patterns and answers for one history around one name of
// the tree, so that the entries of the history compete and chain.
type c06APIGen struct {
	rng   *rand.Rand
	focus []string
	all   []string
}

func c06NewAPIGen(rng *rand.Rand) *c06APIGen {
	g := &c06APIGen{rng: rng, all: append(append([]string(nil), c06Tree...), c06TargetsOnly...)}
	fam := c06Family(c06Tree[rng.Intn(len(c06Tree))])
	for i, nf := 0, 3+rng.Intn(3); i < nf; i++ {
		if rng.Intn(100) < 75 {
			g.focus = append(g.focus, fam[rng.Intn(len(fam))])
		} else {
			g.focus = append(g.focus, c06AnyPattern(rng))
		}
	}

	return g
}

func (g *c06APIGen) pattern() string {
	if g.rng.Intn(100) < 75 {
		return g.focus[g.rng.Intn(len(g.focus))]
	}

	return c06AnyPattern(g.rng)
}

// flip turns an exact pattern into a wildcard that covers names near it and a
// wildcard into an exact name it covers (or its own suffix).
func (g *c06APIGen) flip(pat string) string {
	if c06IsWild(pat) {
		var under []string
		for _, n := range g.all {
			if c06Match(pat, n) || n == pat[2:] {
				under = append(under, n)
			}
		}
		if len(under) > 0 {
			return under[g.rng.Intn(len(under))]
		}

		return c06Tree[g.rng.Intn(len(c06Tree))]
	}
	if g.rng.Intn(2) == 0 {
		return "*." + pat
	}
	if i := strings.IndexByte(pat, '.'); i > 0 {
		return "*." + pat[i+1:]
	}

	return "*." + pat
}

// answer draws an answer of the wanted kind for the pattern.
func (g *c06APIGen) answer(kind, pat string, table []c06Entry) string {
	switch kind {
	case "address":
		switch w := g.rng.Intn(100); {
		case w < 48:
			return c06V4[g.rng.Intn(len(c06V4))]
		case w < 60:
			return c06OddV4[g.rng.Intn(len(c06OddV4))]
		case w < 82:
			return c06V6[g.rng.Intn(len(c06V6))]
		default:
			return c06OddV6[g.rng.Intn(len(c06OddV6))]
		}
	case "exception":
		return []string{"A", "AAAA"}[g.rng.Intn(2)]
	case "self":
		return pat
	}
	// A canonical name: mostly one that lines of the current table match.
	var matched []string
	for _, n := range g.all {
		for _, e := range table {
			if c06Match(strings.ToLower(e.Domain), n) {
				matched = append(matched, n)

				break
			}
		}
	}
	for try := 0; try < 6; try++ {
		var ans string
		switch w := g.rng.Intn(100); {
		case w < 60 && len(matched) > 0:
			ans = matched[g.rng.Intn(len(matched))]
		case w < 88:
			ans = g.all[g.rng.Intn(len(g.all))]
		default:
			ans = c06External[g.rng.Intn(len(c06External))]
		}
		if ans != pat && !(c06IsWild(pat) && c06Match(pat, ans) && g.rng.Intn(100) < 85) {
			return ans
		}
	}

	return c06External[g.rng.Intn(len(c06External))]
}

func (g *c06APIGen) kind() string {
	switch w := g.rng.Intn(100); {
	case w < 42:
		return "address"
	case w < 76:
		return "cname"
	case w < 90:
		return "exception"
	default:
		return "self"
	}
}

// c06APIOpKey is the part of an operation class used in violation keys:
// operation and answer kinds, without the pattern shape.
func c06APIOpKey(class string) string {
	p := strings.SplitN(class, ":", 3)
	if len(p) < 2 {
		return class
	}

	return p[0] + ":" + p[1]
}

// chainHistEvery: every n-th history of the api part is a long-chain history.
const chainHistEvery = 25

func c06PlanEntries(plan []c06COp) (es []c06Entry) {
	for _, p := range plan {
		if p.Entry != nil {
			es = append(es, *p.Entry)
		}
	}

	return es
}

func c06APIIndex(table []c06Entry, e c06Entry) int {
	for i, x := range table {
		if c06APIKey(x) == c06APIKey(e) {
			return i
		}
	}

	return -1
}

// c06ChainMutation edits a chain that has been built: a hop is pointed at
// another name of the chain (a shortcut, or a cycle when it points back), the
// value at the end is changed, or a hop is deleted.
func c06ChainMutation(rng *rand.Rand, model []c06Entry, names []string) (op c06COp, ok bool) {
	if len(model) == 0 {
		return op, false
	}
	t := model[rng.Intn(len(model))]
	switch r := c06Read(t); {
	case rng.Intn(100) < 20:
		return c06COp{Op: "delete", Target: &t}, true
	case r.kind == c06KindCNAME:
		e := c06Entry{Domain: strings.ToLower(t.Domain), Answer: names[rng.Intn(len(names))]}

		return c06COp{Op: "update", Target: &t, Entry: &e}, !c06APIHas(model, e)
	default:
		e := c06Entry{Domain: strings.ToLower(t.Domain), Answer: []string{"10.0.0.1", "10.0.0.2", "fd00::1", "A", "AAAA", names[0]}[rng.Intn(6)]}

		return c06COp{Op: "update", Target: &t, Entry: &e}, !c06APIHas(model, e)
	}
}

func c06APIHas(table []c06Entry, e c06Entry) bool {
	for _, x := range table {
		if c06APIKey(x) == c06APIKey(e) {
			return true
		}
	}

	return false
}

// c06APIOp is one operation of a history, as sent.
type c06APIOp struct {
	Op       string    `json:"op"`
	Entry    *c06Entry `json:"entry,omitempty"`
	Target   *c06Entry `json:"target,omitempty"`
	Update   *c06Entry `json:"update,omitempty"`
	Status   int       `json:"http_status"`
	Class    string    `json:"class"`
	Rejected bool      `json:"must_be_rejected,omitempty"`
}

func TestVerifC06API(t *testing.T) {
	rep := verifkit.New("C06", "api",
		"case = (history of rewrite/add, rewrite/delete and rewrite/update requests sent to the real admin handlers of one DNSFilter, step); after every step the table returned by rewrite/list is compared with a shadow table, and CheckHost of the live filter for 14 names x {A, AAAA} is compared with the reference model of the table tier evaluated on the listed table and with a fresh DNSFilter built by filtering.New from the listed table; non-trivial = the step changed the table or had to be rejected; distinct by (listed table before, operation)")
	defer func() {
		if err := rep.Write(); err != nil {
			t.Fatal(err)
		}
	}()
	rng := rep.Rand("histories")

	prevOut := log.Writer()
	log.SetOutput(io.Discard)
	defer log.SetOutput(prevOut)

	dataDir := t.TempDir()
	hostsDir := t.TempDir()
	setts := &Settings{ProtectionEnabled: true, FilteringEnabled: true}

	w := &c06Watch{stop: make(chan struct{})}
	go w.run(rep)
	defer close(w.stop)

	nHist := verifkit.Pick(1200, 24000)
	samples := 0

	for hi := 0; hi < nHist; hi++ {
		modified := 0
		// Every fourth history runs on a filter that also has a hosts
		// container knowing many of the probed names with other addresses.
		var hostsLines []string
		liveConf := &Config{DataDir: dataDir, ConfigModified: func() { modified++ }}
		if hi%4 == 1 {
			hostsLines = c06HostsLines(rng.Intn, nil, append(append([]string(nil), c06Tree...), c06TargetsOnly...))
			hc, herr := c06HostsContainer(hostsDir, hostsLines)
			if herr != nil {
				rep.Inconcl("hosts container: " + herr.Error())

				return
			}
			liveConf.EtcHosts = hc
			rep.Event("histories_with_hosts_container")
			defer func() { _ = hc.Close() }()
		}
		d, err := New(liveConf, nil)
		if err != nil {
			rep.Inconcl("filtering.New failed: " + err.Error())

			return
		}
		rep.Event("histories")
		g := c06NewAPIGen(rng)
		var model []c06Entry // shadow table, in the spelling the list handler reports
		var history []c06APIOp
		nOps := 8 + rng.Intn(18)
		probes := c06Tree
		// Every chainHistEvery-th history builds one long CNAME chain line
		// by line (tail first, head first or in random order) and then edits
		// it; the probes are the names of the chain.
		var plan []c06COp
		var chainNames []string
		if hi%chainHistEvery == chainHistEvery-1 {
			var tbl []c06Entry
			var ending string
			tbl, chainNames, ending = c06GenChain(rng)
			rep.Class("histories:chain:ending-" + ending)
			rep.Class("histories:chain:length-" + c06LenBucket(len(chainNames)-1))
			switch rng.Intn(5) {
			case 0:
			case 1:
				rng.Shuffle(len(tbl), func(i, j int) { tbl[i], tbl[j] = tbl[j], tbl[i] })
			default:
				for i, j := 0, len(tbl)-1; i < j; i, j = i+1, j-1 {
					tbl[i], tbl[j] = tbl[j], tbl[i]
				}
			}
			for _, e := range tbl {
				e.Domain = strings.ToLower(e.Domain)
				if !c06APIHas(c06PlanEntries(plan), e) {
					e := e
					plan = append(plan, c06COp{Op: "add", Entry: &e})
				}
			}
			nOps = len(plan) + 6
			probes = append(append([]string(nil), chainNames...), "chain.test", "h99.chain.test")
		}
		w.begin(hi)

		for si := 0; si < nOps; si++ {
			before := append([]c06Entry(nil), model...)
			op := c06APIOp{}
			want := before
			modBefore := modified

			var planned *c06COp
			if chainNames != nil {
				if si < len(plan) {
					planned = &plan[si]
				} else if m, ok := c06ChainMutation(rng, model, chainNames); ok {
					planned = &m
				}
			}
			choice := rng.Intn(100)
			switch {
			case planned != nil:
				op.Op = planned.Op
			case len(model) == 0 || (choice < 32 && len(model) < 12):
				op.Op = "add"
			case choice < 46:
				op.Op = "delete"
			case choice < 88:
				op.Op = "update"
			case choice < 95:
				op.Op = "update-missing"
			default:
				op.Op = "delete-missing"
			}

			fresh := func(pat, kind string) (e c06Entry, ok bool) {
				for try := 0; try < 8; try++ {
					e = c06Entry{Domain: pat, Answer: g.answer(kind, pat, model)}
					if !c06APIHas(model, e) {
						return e, true
					}
					if kind == "self" || kind == "exception" {
						kind = g.kind()
					}
				}

				return e, false
			}

			switch op.Op {
			case "add":
				kind := g.kind()
				e, ok := fresh(g.pattern(), kind)
				if planned != nil {
					e, ok = *planned.Entry, !c06APIHas(model, *planned.Entry)
				}
				if !ok {
					continue
				}
				sent := e
				if rng.Intn(100) < 10 {
					sent.Domain = c06MixCase(rng, e.Domain)
				}
				op.Entry = &sent
				op.Class = "add:" + c06APIKind(e) + ":" + c06APIShape(e.Domain)
				op.Status, _ = c06APICall(d.handleRewriteAdd, http.MethodPost, "/control/rewrite/add", sent)
				want = append(append([]c06Entry(nil), before...), e)
			case "delete":
				i := rng.Intn(len(model))
				if planned != nil {
					if i = c06APIIndex(model, *planned.Target); i < 0 {
						continue
					}
				}
				tgt := model[i]
				op.Target = &tgt
				op.Class = "delete:" + c06APIKind(tgt) + ":" + c06APIShape(tgt.Domain)
				op.Status, _ = c06APICall(d.handleRewriteDelete, http.MethodPost, "/control/rewrite/delete", tgt)
				want = append(append([]c06Entry(nil), before[:i]...), before[i+1:]...)
			case "update":
				i := rng.Intn(len(model))
				tgt := model[i]
				pat := strings.ToLower(tgt.Domain)
				domChange := "same-domain"
				switch c := rng.Intn(100); {
				case c < 50:
				case c < 78:
					np := g.flip(pat)
					domChange = c06APIShape(pat) + "->" + c06APIShape(np)
					pat = np
				default:
					np := g.pattern()
					if np != pat {
						domChange = c06APIShape(pat) + "->" + c06APIShape(np)
					}
					pat = np
				}
				kind := g.kind()
				if c06APIKind(tgt) == "self" && kind == "self" && domChange == "same-domain" {
					kind = "address"
				}
				e, ok := fresh(pat, kind)
				if planned != nil {
					if i = c06APIIndex(model, *planned.Target); i < 0 {
						continue
					}
					tgt, domChange = model[i], "same-domain"
					e, ok = *planned.Entry, !c06APIHas(model, *planned.Entry)
				}
				if !ok {
					continue
				}
				sent := e
				if rng.Intn(100) < 10 {
					sent.Domain = c06MixCase(rng, e.Domain)
				}
				op.Target, op.Update = &tgt, &sent
				op.Class = "update:" + c06APIKind(tgt) + "->" + c06APIKind(e)
				rep.Class("op:update:domain:" + domChange)
				op.Status, _ = c06APICall(d.handleRewriteUpdate, http.MethodPut, "/control/rewrite/update",
					map[string]any{"target": tgt, "update": sent})
				want = append([]c06Entry(nil), before...)
				want[i] = e
			case "update-missing", "delete-missing":
				// A target that is not in the table: same domain with
				// another answer, or an entry that was never added.
				var tgt c06Entry
				ok := false
				for try := 0; try < 8 && !ok; try++ {
					pat := g.pattern()
					if len(model) > 0 && rng.Intn(2) == 0 {
						pat = strings.ToLower(model[rng.Intn(len(model))].Domain)
					}
					tgt = c06Entry{Domain: pat, Answer: g.answer(g.kind(), pat, model)}
					ok = !c06APIHas(model, tgt)
				}
				if !ok {
					continue
				}
				op.Target = &tgt
				if op.Op == "update-missing" {
					upd, ok2 := fresh(g.pattern(), g.kind())
					if !ok2 {
						continue
					}
					op.Update = &upd
					op.Rejected = true
					op.Class = "update-missing:" + c06APIKind(tgt) + "->" + c06APIKind(upd)
					op.Status, _ = c06APICall(d.handleRewriteUpdate, http.MethodPut, "/control/rewrite/update",
						map[string]any{"target": tgt, "update": upd})
				} else {
					op.Class = "delete-missing:" + c06APIKind(tgt)
					op.Status, _ = c06APICall(d.handleRewriteDelete, http.MethodPost, "/control/rewrite/delete", tgt)
				}
			}
			history = append(history, op)
			rep.Class("op:" + op.Class)
			rep.Event("operations:" + op.Op)

			hist := func() []c06APIOp {
				if len(history) > 30 {
					return history[len(history)-30:]
				}

				return history
			}
			wit := func(extra map[string]any) map[string]any {
				m := map[string]any{
					"history_no": hi, "operations_so_far_last_is_the_failing_one": hist(),
					"table_before_last_operation": before, "table_expected_after": want,
				}
				for k, v := range extra {
					m[k] = v
				}

				return m
			}

			// Status.
			switch {
			case op.Rejected && op.Status == http.StatusOK:
				rep.Violate("api-update-of-missing-entry-accepted", "rewrite/update for a target that is not in the table answered 200", wit(nil))
			case !op.Rejected && op.Status != http.StatusOK:
				rep.Violate("api-valid-operation-rejected:"+op.Op, fmt.Sprintf("rewrite/%s answered %d", op.Op, op.Status), wit(nil))

				model = nil
				if listed, lerr := c06APIList(d); lerr == nil {
					model = listed
				}

				continue
			}
			if op.Rejected {
				rep.Event("rejected_operations")
				if modified != modBefore {
					rep.Violate("api-rejected-operation-marked-config-modified", "a rejected update called ConfigModified", wit(nil))
				}
			}

			// (1) The listed table.
			listed, lerr := c06APIList(d)
			if lerr != nil {
				rep.Violate("api-list-failed", "rewrite/list: "+lerr.Error(), wit(nil))

				break
			}
			rep.Event("lists_compared")
			changed := !c06APISameSet(before, want)
			rep.Eval(changed || op.Rejected, verifkit.JSON(before)+"|"+verifkit.JSON(op))
			if !c06APISameSet(listed, want) {
				rep.Violate("api-list-differs:after-"+op.Op, "rewrite/list does not show the table the operations lead to",
					wit(map[string]any{"table_listed": listed}))
				// Go on from what the product says it holds.
				model = listed

				continue
			}
			if !c06APISameOrder(listed, want) {
				rep.Event("listed_order_differs_from_append_and_replace_order")
			}
			if changed && !op.Rejected && modified == modBefore {
				rep.Violate("api-change-not-marked-config-modified:"+op.Op, "a table change did not call ConfigModified (it would not be saved)", wit(nil))
			}
			model = listed

			// (2) Resolution follows the listed table: the reference model,
			// and (3) a fresh filter built from the listed table.
			rw := make([]*LegacyRewrite, len(listed))
			for i, e := range listed {
				rw[i] = &LegacyRewrite{Domain: e.Domain, Answer: e.Answer}
			}
			fd, ferr := New(&Config{Rewrites: rw, DataDir: dataDir}, nil)
			if ferr != nil {
				rep.Violate("api-listed-table-rejected-by-new", "filtering.New rejects the listed table: "+ferr.Error(), wit(nil))

				continue
			}
			// (4) The product's own restart: WriteDiskConfig, YAML, New.
			cd, inFile, rerr := c06RestartThroughConfigFile(d, dataDir)
			if rerr != nil {
				rep.Violate("api-restart-through-config-file-fails", "the configuration written by WriteDiskConfig cannot be loaded again: "+rerr.Error(), wit(nil))
				fd.Close()

				continue
			}
			rep.Event("restarts_through_config_file")
			modelBad, restartBad, fileBad := false, false, false
			for pi, name := range probes {
				for _, qt := range []uint16{dns.TypeA, dns.TypeAAAA} {
					if chainNames != nil && qt == dns.TypeAAAA && pi%4 != 0 {
						continue
					}
					w.at(listed, -1, name, qt)
					res, cerr, pan := c06Call(d, setts, name, qt)
					fres, fcerr, fpan := c06Call(fd, setts, name, qt)
					cres, ccerr, cpan := c06Call(cd, setts, name, qt)
					rep.EventN("checkhost_calls", 3)
					if ccerr != nil || cpan != nil {
						fcerr, fpan = ccerr, cpan
					}
					if pan != nil || fpan != nil || cerr != nil || fcerr != nil {
						rep.Violate("panic-or-error:checkhost", fmt.Sprintf("CheckHost failed: %v %v %v %v", pan, fpan, cerr, fcerr),
							wit(map[string]any{"query_name": name, "query_type": dns.TypeToString[qt]}))

						continue
					}
					o, fo := c06Observe(res), c06Observe(fres)
					exp := c06Resolve(listed, name, qt)
					rep.Event("probes")
					q := map[string]any{
						"table_listed": listed, "query_name": name, "query_type": dns.TypeToString[qt],
						"live_filter_answered": o, "fresh_filter_from_listed_table_answered": fo, "model": exp,
					}
					if hostsLines != nil {
						q["hosts_file"] = hostsLines
					}
					if o.Hosts && !fo.Pass {
						if !modelBad {
							modelBad = true
							rep.Violate("api-hosts-files-override-rewrite-table:"+fo.shape(),
								fmt.Sprintf("%s %s: the listed table answers %s, but the live filter, whose hosts files also know the name, answered from the hosts files",
									name, dns.TypeToString[qt], verifkit.JSON(fo)), wit(q))
						}

						continue
					} else if o.Hosts {
						rep.Event("hosts_files_answered_a_name_the_table_passes")
					} else if hostsLines != nil && !o.Pass {
						rep.Event("table_answer_with_hosts_container_present")
					}
					if bad, why := c06Sound(listed, name, qt, o); bad != "" && !modelBad {
						modelBad = true
						rep.Violate("api-unsound-address:"+why+":after-"+c06APIOpKey(op.Class),
							fmt.Sprintf("%s %s: address %s is not a value of a listed entry matching the final name for that family", name, dns.TypeToString[qt], bad), wit(q))
					} else if exp.Zone == "" && !c06Accepts(exp.Alts, o) && !modelBad {
						modelBad = true
						rep.Violate("api-resolution-differs-from-listed-table:after-"+c06APIOpKey(op.Class),
							fmt.Sprintf("%s %s: rule %q on the listed table expects %s, the live filter returned %s", name, dns.TypeToString[qt],
								c06RuleFor(exp, o), verifkit.JSON(exp.Alts), verifkit.JSON(o)), wit(q))
					}
					if exp.Zone != "" {
						rep.Unspec(exp.Zone)
					} else {
						rep.Event("probes_decided_by_model")
					}
					same := o.Pass == fo.Pass && o.Canon == fo.Canon && strings.Join(o.IPs, ",") == strings.Join(fo.IPs, ",")
					if !same && !restartBad {
						restartBad = true
						rep.Violate("api-restart-changes-resolution:after-"+c06APIOpKey(op.Class),
							fmt.Sprintf("%s %s: the live filter returned %s, a filter freshly built from the listed table returns %s",
								name, dns.TypeToString[qt], verifkit.JSON(o), verifkit.JSON(fo)), wit(q))
					}
					if co := c06Observe(cres); !fileBad && (o.Pass != co.Pass || o.Canon != co.Canon || strings.Join(o.IPs, ",") != strings.Join(co.IPs, ",")) {
						fileBad = true
						q["table_in_config_file"] = inFile
						q["filter_started_from_written_config_answered"] = co
						rep.Violate("api-restart-through-config-file-changes-resolution:"+c06FileDiffKinds(listed, inFile),
							fmt.Sprintf("%s %s: the live filter returned %s, a filter started from the configuration it wrote returns %s",
								name, dns.TypeToString[qt], verifkit.JSON(o), verifkit.JSON(co)), wit(q))
					}
					if exp.Depth >= 9 {
						c06CountLong(rep, exp)
					}
					if exp.Nontrivial && samples < 4 && hi/37 == samples && si > 3 {
						samples++
						rep.Sample(wit(q))
					}
				}
			}
			fd.Close()
			cd.Close()
			if modelBad || restartBad {
				// The live filter no longer follows its table; later steps of
				// this history would only blame innocent operations.
				rep.Event("histories_abandoned_after_violation")

				break
			}
		}
		w.end()
		d.Close()
	}

	need := map[string]int{
		"operations:add": 200, "operations:delete": 100, "operations:update": 300,
		"operations:update-missing": 50, "operations:delete-missing": 30, "probes_decided_by_model": 10000,
	}
	for _, k := range []string{"operations:add", "operations:delete", "operations:update", "operations:update-missing",
		"operations:delete-missing", "probes_decided_by_model"} {
		if rep.Events[k] < need[k] {
			rep.Inconcl(fmt.Sprintf("event %q seen %d times, fewer than %d", k, rep.Events[k], need[k]))
		}
	}
	if rep.Events["table_answer_with_hosts_container_present"] < 1000 {
		rep.Inconcl("too few table answers observed on filters with a hosts container")
	}
	if rep.Events["chain_len_9plus_decided_by_model"] < 50 || rep.Events["chain_len_17plus_decided_by_model"] < 20 ||
		rep.Events["restarts_through_config_file"] < 1000 {
		rep.Inconcl("too few long chains or restarts through the configuration file observed")
	}
	for _, from := range []string{"address", "cname", "exception", "self"} {
		for _, to := range []string{"address", "cname", "exception"} {
			n := 0
			for c, v := range rep.Classes {
				if c == "op:update:"+from+"->"+to {
					n += v
				}
			}
			if n < 10 {
				rep.Inconcl(fmt.Sprintf("update %s->%s seen %d times, fewer than 10", from, to, n))
			}
		}
	}
}
