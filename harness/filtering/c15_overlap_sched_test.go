//go:build verif

package filtering

import (
	"bytes"
	"encoding/json"
	"fmt"
	"math/rand"
	"net/http"
	"os"
	"path/filepath"
	"strconv"
	"strings"
	"sync"
	"syscall"
	"time"
)

// runScheduled is the scenario "scheduled-round-vs-remove_url" of part
// overlap: a scheduled (background) refresh round, which in the real program
// is the only refresh that can run while the administrator changes the
// configuration, is paused by a list server inside a line; meanwhile a list of
// the same kind is removed (and, in some rounds, another one is added and a
// third one renamed).
//
// The round is started the way the refresh part does it: every LastUpdated is
// moved two hours back and periodicallyRefreshFilters - the function the update
// timer calls - runs in a goroutine standing in for the timer.  The update loop
// itself is running too (Start), it serves the asynchronous engine rebuilds.
func (o *c15ovRound) runScheduled(rng *rand.Rand) {
	rep := o.rep
	const scenario = "scheduled-round-vs-remove_url"
	rep.Class("scenario:" + scenario)
	tag := func(letter string) string { return fmt.Sprintf("r%d%s", o.n, letter) }
	nRules := func() int { return 12 + rng.Intn(40) }

	// 3-5 block lists and one allow list.
	letters := []string{"a", "b", "e", "f", "g"}[:3+rng.Intn(3)]
	type lst struct {
		key, path, name string
		v1, v2          *c15ovText
		// beh in the scheduled round: paused-new, new, fail, same.
		beh string
	}
	var blocks []*lst
	idBase := 1 + rng.Intn(50000)
	var fy []FilterYAML
	want := map[string]*c15ovWant{}
	for i, le := range letters {
		l := &lst{key: le, name: "list " + le}
		l.v1, l.v2 = c15ovGen(rng, tag(le), 1, nRules()), c15ovGen(rng, tag(le), 2, nRules())
		l.path = "/" + l.v1.Tag + ".txt"
		o.srv.set(l.path, &c15ovRoute{body: l.v1.Bytes})
		fy = append(fy, FilterYAML{Enabled: true, URL: o.url(l.path), Name: l.name, Filter: Filter{ID: idBase + 5*i}})
		want[le] = &c15ovWant{URL: o.url(l.path), Text: l.v1, Role: "not-downloaded", Name: l.name}
		blocks = append(blocks, l)
	}
	c1, c2 := c15ovGen(rng, tag("c"), 1, nRules()), c15ovGen(rng, tag("c"), 2, nRules())
	pc := "/" + c1.Tag + ".txt"
	o.srv.set(pc, &c15ovRoute{body: c1.Bytes})
	want["c"] = &c15ovWant{URL: o.url(pc), Allow: true, Text: c1, Role: "not-downloaded", Name: "list c"}

	conf := &Config{
		DataDir:                    o.dataDir,
		FilteringEnabled:           true,
		FiltersUpdateIntervalHours: 1,
		HTTPClient:                 &http.Client{Timeout: 60 * time.Second, Transport: &http.Transport{MaxIdleConnsPerHost: 4}},
		HTTPRegister:               func(method, u string, h http.HandlerFunc) { o.handlers[method+" "+u] = h },
		ConfigModified:             func() {},
		Filters:                    fy,
		WhitelistFilters: []FilterYAML{{Enabled: true, URL: o.url(pc), Name: "list c", white: true,
			Filter: Filter{ID: idBase + 100}}},
	}
	d, err := New(conf, nil)
	if err != nil {
		rep.Inconcl("cannot build a DNSFilter: " + err.Error())

		return
	}
	o.d = d
	defer func() {
		d.Close()
		conf.HTTPClient.CloseIdleConnections()
	}()
	d.EnableFilters(false)
	d.Start()
	o.post("/control/filtering/refresh", `{"whitelist":false}`)
	o.post("/control/filtering/refresh", `{"whitelist":true}`)

	// The plan of the scheduled round.  The removed list R is not the last
	// one; some list behind it gets new content, so that results have to find
	// their lists after the removal has shifted them.
	r := rng.Intn(len(blocks) - 1)
	for _, l := range blocks {
		l.beh = []string{"new", "new", "fail", "same"}[rng.Intn(4)]
	}
	blocks[r+1+rng.Intn(len(blocks)-r-1)].beh = "new"
	paused := blocks[rng.Intn(len(blocks))]
	paused.beh = "paused-new"
	gate := make(chan struct{})
	var pausedRoute *c15ovRoute
	for _, l := range blocks {
		w := want[l.key]
		switch l.beh {
		case "paused-new":
			pausedRoute = &c15ovRoute{body: l.v2.Bytes, split: l.v2.Split, partSent: make(chan struct{}), gate: gate}
			o.srv.set(l.path, pausedRoute)
			w.OldProbe, w.Text, w.Role = l.v1.Probe, l.v2, "slow-download"
		case "new":
			o.srv.set(l.path, &c15ovRoute{body: l.v2.Bytes})
			w.OldProbe, w.Text, w.Role = l.v1.Probe, l.v2, "fast-download"
		case "fail":
			o.srv.set(l.path, &c15ovRoute{status: []int{500, 503, 404}[rng.Intn(3)]})
			w.Role = "refresh-failed"
		default:
			w.Role = "same-content"
		}
		rep.Class("scheduled-round:list-" + l.beh)
	}
	if rng.Intn(2) == 0 {
		o.srv.set(pc, &c15ovRoute{body: c2.Bytes})
		want["c"].OldProbe, want["c"].Text, want["c"].Role = c1.Probe, c2, "fast-download"
	}
	o.logf("scheduled round: %s; removed meanwhile: list %s (index %d of %d)", func() string {
		s := ""
		for _, l := range blocks {
			s += l.key + "=" + l.beh + " "
		}

		return s
	}(), blocks[r].key, r, len(blocks))

	// Two hours pass.
	func() {
		d.conf.filtersMu.Lock()
		defer d.conf.filtersMu.Unlock()
		for i := range d.conf.Filters {
			d.conf.Filters[i].LastUpdated = d.conf.Filters[i].LastUpdated.Add(-2 * time.Hour)
		}
		for i := range d.conf.WhitelistFilters {
			d.conf.WhitelistFilters[i].LastUpdated = d.conf.WhitelistFilters[i].LastUpdated.Add(-2 * time.Hour)
		}
	}()
	roundDone := make(chan struct{})
	go func() {
		defer close(roundDone)
		defer func() {
			if p := recover(); p != nil {
				rep.Violate("overlap:"+scenario+":refresh-panicked", fmt.Sprintf("the scheduled round panicked: %v", p),
					map[string]any{"round": o.n, "events": o.log})
			}
		}()
		ivl := d.periodicallyRefreshFilters(5 * time.Second)
		o.logf("scheduled round finished, next interval %s", ivl)
	}()
	select {
	case <-pausedRoute.partSent:
	case <-time.After(20 * time.Second):
		rep.Event("paused_response_never_requested")
	}
	if o.waitPending(paused.v2.LastWhole) {
		rep.Event("rounds_where_the_paused_download_had_consumed_its_first_part")
	}
	time.Sleep(5 * time.Millisecond)

	// Meanwhile, the administrator.
	var wg sync.WaitGroup
	admin := func(f func()) {
		wg.Add(1)
		go func() { defer wg.Done(); f() }()
	}
	rm := blocks[r]
	admin(func() {
		b, _ := json.Marshal(map[string]any{"url": o.url(rm.path), "whitelist": false})
		if c, _ := o.post("/control/filtering/remove_url", string(b)); c == http.StatusOK {
			rep.Event("lists_removed_during_a_scheduled_round")
		} else {
			rep.Event("operation_not_ok:remove_url")
		}
	})
	if rng.Intn(2) == 0 {
		d2 := c15ovGen(rng, tag("d"), 1, nRules())
		pd := "/" + d2.Tag + ".txt"
		o.srv.set(pd, &c15ovRoute{body: d2.Bytes})
		white := rng.Intn(3) == 0
		admin(func() {
			b, _ := json.Marshal(filterAddJSON{Name: "list d", URL: o.url(pd), Whitelist: white})
			if c, _ := o.post("/control/filtering/add_url", string(b)); c == http.StatusOK {
				want["d"] = &c15ovWant{URL: o.url(pd), Allow: white, Text: d2, Role: "fast-download", Name: "list d"}
			} else {
				rep.Event("operation_not_ok:add_url")
			}
		})
	}
	// A rename (set_url with the same URL) of a list whose content does not
	// change in this round: the refresh writes the name it saw at its start
	// back to the lists it updates, which is outside this property.
	var renamed *lst
	for _, l := range blocks {
		if l != rm && (l.beh == "fail" || l.beh == "same") && rng.Intn(2) == 0 {
			renamed = l

			break
		}
	}
	wg.Wait()
	if renamed != nil {
		b, _ := json.Marshal(filterURLReq{URL: o.url(renamed.path), Whitelist: false,
			Data: &filterURLReqData{Name: "renamed " + renamed.key, URL: o.url(renamed.path), Enabled: true}})
		if c, _ := o.post("/control/filtering/set_url", string(b)); c == http.StatusOK {
			want[renamed.key].Name = "renamed " + renamed.key
			rep.Event("lists_renamed_during_a_scheduled_round")
		}
	}
	o.srv.mu.Lock()
	if o.srv.gatedWaiting > 0 {
		rep.Event("rounds_with_complete_downloads_during_a_paused_one")
	}
	o.srv.mu.Unlock()
	close(gate)
	select {
	case <-roundDone:
	case <-time.After(90 * time.Second):
		rep.Inconcl("the scheduled round did not finish")

		return
	}
	delete(want, rm.key)
	o.gone = append(o.gone, o.url(rm.path))
	o.judge(scenario, want)
}

// runScheduledVsForced is the scenario "scheduled-round-vs-forced-refresh": the
// scheduled round (driven as in runScheduled) has downloaded an earlier list X
// and is waiting for a later list Y that its server pauses inside a line, when
// POST /control/filtering/refresh for the same kind arrives through the
// registered handler.  X's server gives every request another version.  At
// quiescence file, count and checksum of every list must belong to ONE served
// version; a further refresh that brings that version again must be a no-op,
// one that brings another version must update.
func (o *c15ovRound) runScheduledVsForced(rng *rand.Rand) {
	rep := o.rep
	const scenario = "scheduled-round-vs-forced-refresh"
	rep.Class("scenario:" + scenario)
	tag := func(letter string) string { return fmt.Sprintf("r%d%s", o.n, letter) }
	// Versions of one list have different numbers of rules.
	used := map[int]bool{}
	nRules := func() int {
		for {
			if n := 12 + rng.Intn(60); !used[n] {
				used[n] = true

				return n
			}
		}
	}
	kindAllow := rng.Intn(3) == 0
	x1, y1, c1 := c15ovGen(rng, tag("x"), 1, nRules()), c15ovGen(rng, tag("y"), 1, nRules()), c15ovGen(rng, tag("c"), 1, nRules())
	xB, xC, xD := c15ovGen(rng, x1.Tag, 2, nRules()), c15ovGen(rng, x1.Tag, 3, nRules()), c15ovGen(rng, x1.Tag, 4, nRules())
	y2 := c15ovGen(rng, y1.Tag, 2, nRules())
	px, py, pc := "/"+x1.Tag+".txt", "/"+y1.Tag+".txt", "/"+c1.Tag+".txt"
	for p, t := range map[string]*c15ovText{px: x1, py: y1, pc: c1} {
		o.srv.set(p, &c15ovRoute{body: t.Bytes})
	}
	idBase := 1 + rng.Intn(50000)
	xy := []FilterYAML{
		{Enabled: true, URL: o.url(px), Name: "list x", white: kindAllow, Filter: Filter{ID: idBase}},
		{Enabled: true, URL: o.url(py), Name: "list y", white: kindAllow, Filter: Filter{ID: idBase + 4}},
	}
	other := []FilterYAML{{Enabled: true, URL: o.url(pc), Name: "list c", white: !kindAllow, Filter: Filter{ID: idBase + 9}}}
	conf := &Config{
		DataDir:                    o.dataDir,
		FilteringEnabled:           true,
		FiltersUpdateIntervalHours: 1,
		HTTPClient:                 &http.Client{Timeout: 60 * time.Second, Transport: &http.Transport{MaxIdleConnsPerHost: 4}},
		HTTPRegister:               func(method, u string, h http.HandlerFunc) { o.handlers[method+" "+u] = h },
		ConfigModified:             func() {},
		Filters:                    xy,
		WhitelistFilters:           other,
	}
	if kindAllow {
		conf.Filters, conf.WhitelistFilters = other, xy
	}
	d, err := New(conf, nil)
	if err != nil {
		rep.Inconcl("cannot build a DNSFilter: " + err.Error())

		return
	}
	o.d = d
	defer func() {
		d.Close()
		conf.HTTPClient.CloseIdleConnections()
	}()
	d.EnableFilters(false)
	d.Start()
	o.post("/control/filtering/refresh", `{"whitelist":false}`)
	o.post("/control/filtering/refresh", `{"whitelist":true}`)
	want := map[string]*c15ovWant{
		"x": {URL: o.url(px), Allow: kindAllow, Text: x1, Role: "not-downloaded", Name: "list x"},
		"y": {URL: o.url(py), Allow: kindAllow, Text: y1, Role: "not-downloaded", Name: "list y"},
		"c": {URL: o.url(pc), Allow: !kindAllow, Text: c1, Role: "not-downloaded", Name: "list c"},
	}

	// The round: X answers B to the first request, C to the second, B again
	// afterwards; Y pauses the first request and is complete for later ones.
	gate := make(chan struct{})
	o.srv.set(px, &c15ovRoute{body: xB.Bytes, later: []*c15ovRoute{{body: xC.Bytes}, {body: xB.Bytes}}})
	paused := &c15ovRoute{body: y2.Bytes, split: y2.Split, partSent: make(chan struct{}), gate: gate,
		later: []*c15ovRoute{{body: y2.Bytes}}}
	o.srv.set(py, paused)
	func() {
		d.conf.filtersMu.Lock()
		defer d.conf.filtersMu.Unlock()
		for i := range d.conf.Filters {
			d.conf.Filters[i].LastUpdated = d.conf.Filters[i].LastUpdated.Add(-2 * time.Hour)
		}
		for i := range d.conf.WhitelistFilters {
			d.conf.WhitelistFilters[i].LastUpdated = d.conf.WhitelistFilters[i].LastUpdated.Add(-2 * time.Hour)
		}
	}()
	roundDone := make(chan struct{})
	go func() {
		defer close(roundDone)
		ivl := d.periodicallyRefreshFilters(5 * time.Second)
		o.logf("scheduled round finished, next interval %s", ivl)
	}()
	select {
	case <-paused.partSent:
	case <-time.After(20 * time.Second):
		rep.Event("paused_response_never_requested")
	}
	if o.waitPending(y2.LastWhole) {
		rep.Event("rounds_where_the_paused_download_had_consumed_its_first_part")
	}
	// The administrator presses "check for updates".
	code, body := o.post("/control/filtering/refresh", fmt.Sprintf(`{"whitelist":%t}`, kindAllow))
	switch {
	case code == http.StatusOK:
		rep.Event("forced_refresh_during_a_scheduled_round:ran")
	case strings.Contains(body, "already running"):
		rep.Event("forced_refresh_during_a_scheduled_round:refused-as-already-running")
	default:
		rep.Event("forced_refresh_during_a_scheduled_round:other-answer")
	}
	o.srv.mu.Lock()
	if o.srv.gatedWaiting > 0 {
		rep.Event("rounds_with_complete_downloads_during_a_paused_one")
	}
	o.srv.mu.Unlock()
	close(gate)
	select {
	case <-roundDone:
	case <-time.After(90 * time.Second):
		rep.Inconcl("the scheduled round did not finish")

		return
	}
	want["x"] = &c15ovWant{URL: o.url(px), Allow: kindAllow, Text: xB, Alt: []*c15ovText{xC}, Role: "fast-download", OldProbe: x1.Probe, Name: "list x"}
	want["y"] = &c15ovWant{URL: o.url(py), Allow: kindAllow, Text: y2, Role: "slow-download", OldProbe: y1.Probe, Name: "list y"}
	o.judge(scenario, want)

	// Which version does X hold now?
	stat := func() (ino uint64, data []byte) {
		p := filepath.Join(o.dataDir, filterDir, strconv.Itoa(idBase)+".txt")
		if fi, serr := os.Stat(p); serr == nil {
			if sys, ok := fi.Sys().(*syscall.Stat_t); ok {
				ino = sys.Ino
			}
		}
		data, _ = os.ReadFile(p)

		return ino, data
	}
	_, data := stat()
	held, otherVer := xB, xC
	switch {
	case bytes.Equal(data, xC.NF):
		held, otherVer = xC, xB
	case !bytes.Equal(data, xB.NF):
		// Already reported by judge.
		return
	}
	wit := func(extra map[string]any) map[string]any {
		m := map[string]any{"round": o.n, "scenario": scenario, "events": o.log, "version_held_by_the_file": held.Ver}
		for k, v := range extra {
			m[k] = v
		}

		return m
	}
	refresh := func() { o.post("/control/filtering/refresh", fmt.Sprintf(`{"whitelist":%t}`, kindAllow)) }
	// 1. The same version again: a no-op.
	o.srv.set(px, &c15ovRoute{body: held.Bytes})
	o.srv.set(py, &c15ovRoute{body: y2.Bytes})
	ino0, _ := stat()
	refresh()
	ino1, data1 := stat()
	rep.Event("refreshes_with_the_version_already_stored")
	if ino1 != ino0 || !bytes.Equal(data1, held.NF) {
		rep.Violate("overlap:"+scenario+":refresh-with-the-stored-version-rewrote-the-file",
			"the file held one served version completely, yet a refresh that brought exactly that version replaced the file (the recorded checksum was another version's)",
			wit(map[string]any{"inode_before": ino0, "inode_after": ino1}))
	}
	want["x"] = &c15ovWant{URL: o.url(px), Allow: kindAllow, Text: held, Role: "same-content", Name: "list x"}
	want["y"].OldProbe = ""
	o.judge(scenario+":same-version-again", want)
	// 2. The other version of the round, then a brand-new one: each must be
	// stored.
	for _, nv := range []*c15ovText{otherVer, xD} {
		o.srv.set(px, &c15ovRoute{body: nv.Bytes})
		refresh()
		rep.Event("refreshes_with_another_version")
		_, data2 := stat()
		if !bytes.Equal(data2, nv.NF) {
			rep.Violate("overlap:"+scenario+":refresh-with-another-version-did-not-update",
				fmt.Sprintf("the server now serves version %d, the refresh left version %d on disk", nv.Ver, held.Ver),
				wit(map[string]any{"served_now": c15Show(nv.Bytes), "stored": c15Show(data2)}))

			return
		}
		want["x"] = &c15ovWant{URL: o.url(px), Allow: kindAllow, Text: nv, Role: "fast-download", OldProbe: held.Probe, Name: "list x"}
		o.judge(scenario+":another-version", want)
		held = nv
	}
}
