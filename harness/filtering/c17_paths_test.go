//go:build verif

package filtering

import (
	"bytes"
	"context"
	"encoding/json"
	"fmt"
	"io"
	"math/rand"
	"net"
	"net/http"
	"net/http/httptest"
	"net/url"
	"os"
	"path/filepath"
	"regexp"
	"sort"
	"strconv"
	"strings"
	"syscall"
	"testing"
	"time"

	"github.com/AdguardTeam/AdGuardHome/internal/verifkit"
	"github.com/AdguardTeam/golibs/log"
	"github.com/miekg/dns"
)

// ---------------------------------------------------------------------------
// File tree
// ---------------------------------------------------------------------------

// c17File is one regular file of the tree.  Every file holds one unique
// blocking rule, so a read of the file is observable as content.
type c17File struct {
	// Kind is set for the files at places derived from the instance under
	// test (its data directory, the directory of its configuration file,
	// the temporary directory).
	Kind string `json:"kind,omitempty"`
	// extra is the text after the file's own rule: lines that name other
	// files (c17SetMentions).
	extra string
	N     int    `json:"n"`
	Abs   string `json:"path"`
	Host  string `json:"host"`
}

type c17Tree struct {
	root string
	cwd  string
	// gen is the content generation: every file holds the rule of host
	// g<gen>-<n>.example.  bump rewrites all files with the next generation,
	// so that content cached by an earlier server instance can be told from
	// a read by the current one.
	gen   int
	files []*c17File
	byAbs map[string]*c17File
	// subdirs maps a directory inside the tree to the names of its
	// subdirectories (sorted).
	subdirs map[string][]string
}

// c17TreeFiles are the files of the tree, relative to its root.
var c17TreeFiles = []string{
	"top.txt",
	"lists/a.txt", "lists/b.txt", "lists/c.txt", "lists/d.txt", "lists/ab.txt", "lists/A.txt",
	"lists/a.txt.bak", "lists/a.dat", "lists/we ird[1].txt",
	"lists/sub/e.txt", "lists/sub/a.txt",
	"lists/sub/deep/f.txt", "lists/sub/deep/a.txt",
	"lists/sub/deep/deeper/g.txt",
	// One directory deeper than a file name of the same length, so that a
	// separator lines up with a metacharacter of a pattern for the latter:
	// "prv/keys" against "????????", "sub/e" against "sub?e".
	"lists/prv/keys.txt", "lists/abcdefgh.txt", "lists/subxe.txt",
	// Lists whose CONTENT names other files (see c17Mentions) and the files
	// they name: next to the list, below it, above it.
	"inc/main.txt", "inc/main.txt.bak", "inc/sibling.lst", "inc/private/extra.rules",
	"inc/nested/main.txt", "inc/nested/other.txt", "inc/nested/deeper/x.txt",
	// Names for the corner cases of the filepath.Match syntax (classes that
	// begin with '!' or '^', escaped metacharacters, '-' and ']' in classes):
	// for every pattern of the "match-syntax" lists some of these match it as
	// configured and others only under another reading of the same text.
	// Where a RELATIVE location naming a place of the instance (relative to
	// its data directory, its work directory) would lead when resolved
	// against the process working directory (<root>/cwd) instead.
	"cwd/userfilters/x.txt", "cwd/x.txt", "cwd/filters/9999.txt", "cwd/data/userfilters/x.txt", "x.txt",
	"cls/a.txt", "cls/b.txt", "cls/p.txt", "cls/z.txt", "cls/!.txt", "cls/^.txt", "cls/-.txt", "cls/].txt",
	"cls/*.txt", "cls/?.txt", `cls/\.txt`, "cls/a].txt", "cls/secret.txt", "cls/public.txt", "cls/!readme.txt",
	"lists2/a.txt", "lists2/sub/e.txt",
	"secret/c.txt", "secret/a.txt", "secret/key.pem",
	"secret/deep/k.txt", "secret/deep/a.txt",
	"secret/deep/deeper/z.txt",
	"cwd/c.txt", "cwd/a.txt", "cwd/lists/a.txt",
}

func c17Rule(host string) string { return "||" + host + "^" }

func c17FileBody(f *c17File) []byte {
	return []byte(fmt.Sprintf("! Title: tree file %d\n%s\n%s", f.N, c17Rule(f.Host), f.extra))
}

// c17MentionSyntaxes are the ways in which the text of a list may name
// another file.  Reading a list that matches a pattern must not make the
// server read what the list's text names: a file is read only if its own path
// matches a pattern.  For the list parser all of these are comments or
// (meaningless) rule lines.
var c17MentionSyntaxes = []string{
	"!#include %s", "!#include ./%s", "!#include  %s ", "!#include \"%s\"", "!#INCLUDE %s", "! #include %s", "!#include:%s",
	"!include %s", "! include: %s", "!#import %s", "!#source %s", "!#if (exists %s)", "!+ include %s",
	"@include %s", "@include \"%s\"", "@import %s", "$include %s", "$include(%s)", "%%include %s",
	"#include %s", "#include \"%s\"", "#include <%s>", "# include %s", "# see %s", "#!include %s",
	"include %s", "source %s", ". %s", "import %s", "[include %s]", "{{include %s}}", "0.0.0.0 mention.example # %s",
	"!#safari_cb_affinity(%s)", "! Expires: %s", "! Homepage: %s", "%s",
}

// c17Mentions renders every syntax for every name.
func c17Mentions(names []string, syntaxes []string) string {
	var sb strings.Builder
	for _, n := range names {
		for _, syn := range syntaxes {
			fmt.Fprintf(&sb, syn+"\n", n)
		}
	}
	return sb.String()
}

// c17SetMentions fills the text that every tree file carries after its own
// rule: the two lists in inc/ name their neighbours in every syntax; every
// other file names up to three files of its own directory and one below it
// in the include syntaxes.
func (tr *c17Tree) c17SetMentions() {
	byDir := map[string][]*c17File{}
	for _, f := range tr.files {
		byDir[filepath.Dir(f.Abs)] = append(byDir[filepath.Dir(f.Abs)], f)
	}
	inc := filepath.Join(tr.root, "inc")
	secret := filepath.Join(tr.root, "secret", "c.txt")
	for _, f := range tr.files {
		dir := filepath.Dir(f.Abs)
		switch f.Abs {
		case filepath.Join(inc, "main.txt"):
			f.extra = c17Mentions([]string{"main.txt.bak", "sibling.lst", "private/extra.rules", "nested/other.txt",
				"nested/deeper/x.txt", "../secret/c.txt", "private/../sibling.lst", secret, "file://" + secret,
				filepath.Join(inc, "main.txt.bak")}, c17MentionSyntaxes)
		case filepath.Join(inc, "nested", "main.txt"):
			f.extra = c17Mentions([]string{"other.txt", "deeper/x.txt", "../sibling.lst", "../main.txt.bak",
				filepath.Join(inc, "nested", "other.txt")}, c17MentionSyntaxes)
		default:
			var names []string
			for _, g := range byDir[dir] {
				if g != f && len(names) < 3 {
					names = append(names, filepath.Base(g.Abs))
				}
			}
			for _, g := range tr.files {
				if filepath.Dir(filepath.Dir(g.Abs)) == dir {
					rel, _ := filepath.Rel(dir, g.Abs)
					names = append(names, rel)
					break
				}
			}
			f.extra = c17Mentions(names, c17MentionSyntaxes[:3])
		}
	}
}

// bump rewrites every tree file with the rule of the next generation.  The
// new content is written under another name and renamed over the file, so
// that the monitor itself never opens a tree file (the syscall-level observer
// counts every open of one).
func (tr *c17Tree) bump() error {
	tr.gen++
	for _, f := range tr.files {
		f.Host = fmt.Sprintf("g%d-%d.example", tr.gen, f.N)
		tmp := f.Abs + ".c17tmp"
		if err := os.WriteFile(tmp, c17FileBody(f), 0o644); err != nil {
			return err
		}
		if err := os.Rename(tmp, f.Abs); err != nil {
			return err
		}
	}
	return nil
}

// c17SeenFiles returns the numbers of the tree files whose rule of the
// current generation occurs in b.
func (tr *c17Tree) c17SeenFiles(b []byte) (ns []int) {
	for _, m := range c17FileHostRe.FindAllSubmatch(b, -1) {
		g, _ := strconv.Atoi(string(m[1]))
		n, _ := strconv.Atoi(string(m[2]))
		if g == tr.gen && n >= 1 && n <= len(tr.files) {
			ns = append(ns, n)
		}
	}
	return ns
}

func c17BuildTree(root string) (tr *c17Tree, err error) {
	tr = &c17Tree{root: root, cwd: filepath.Join(root, "cwd"), byAbs: map[string]*c17File{},
		subdirs: map[string][]string{}}
	for i, rel := range c17TreeFiles {
		abs := filepath.Join(root, filepath.FromSlash(rel))
		if err = os.MkdirAll(filepath.Dir(abs), 0o755); err != nil {
			return nil, err
		}
		f := &c17File{N: i + 1, Abs: abs, Host: fmt.Sprintf("g0-%d.example", i+1)}
		tr.files = append(tr.files, f)
		tr.byAbs[abs] = f
	}
	tr.c17SetMentions()
	for _, f := range tr.files {
		if err = os.WriteFile(f.Abs, c17FileBody(f), 0o644); err != nil {
			return nil, err
		}
	}
	if err = os.MkdirAll(filepath.Join(root, "x"), 0o755); err != nil {
		return nil, err
	}
	err = filepath.Walk(root, func(p string, info os.FileInfo, werr error) error {
		if werr != nil {
			return werr
		}
		if info.IsDir() && p != root {
			parent := filepath.Dir(p)
			tr.subdirs[parent] = append(tr.subdirs[parent], filepath.Base(p))
		}
		return nil
	})
	for k := range tr.subdirs {
		sort.Strings(tr.subdirs[k])
	}
	return tr, err
}

// ---------------------------------------------------------------------------
// Oracle
// ---------------------------------------------------------------------------

// c17MatchAny is the independent matcher of the statement: p is a cleaned
// absolute path; it is allowed iff filepath.Match accepts it for a pattern.
func c17MatchAny(pats []string, p string) bool {
	for _, g := range pats {
		if ok, err := filepath.Match(g, p); err == nil && ok {
			return true
		}
	}
	return false
}

func c17CleanAbs(cwd, s string) string {
	if s == "" {
		return ""
	}
	if !filepath.IsAbs(s) {
		s = filepath.Join(cwd, s)
	}
	return filepath.Clean(s)
}

type c17Expect struct {
	// Primary is the cleaned absolute path of the location read as a file
	// name (the statement's reading); empty for http(s) URLs.
	Primary string `json:"cleaned_absolute_path"`
	// Strict: Primary matches a pattern.
	Strict bool `json:"matches_a_pattern"`
	// Liberal: some other reading of the string (scheme stripped, cut at a
	// control byte, percent-decoded, ...) gives a path that matches.
	Liberal bool `json:"some_other_reading_matches"`
	IsHTTP  bool `json:"is_http_url"`
	// Plain: the location is already a clean absolute path.
	Plain bool `json:"plain"`
	// RawMatch: the string itself, uncleaned, matches a pattern.
	RawMatch bool `json:"raw_string_matches"`
}

// c17Readings lists paths a sloppy implementation might derive from s.
func c17Readings(cwd, s string) (out []string) {
	seen := map[string]bool{}
	add := func(v string) {
		v = strings.TrimSpace(v)
		if v == "" {
			return
		}
		c := c17CleanAbs(cwd, v)
		if !seen[c] {
			seen[c] = true
			out = append(out, c)
		}
	}
	var forms []string
	forms = append(forms, s, strings.TrimSpace(s))
	for _, cut := range []string{"\x00", "\n", "\r", "\t", " ", "?", "#"} {
		if strings.Contains(s, cut) {
			for _, part := range strings.Split(s, cut) {
				forms = append(forms, part)
			}
			forms = append(forms, strings.ReplaceAll(s, cut, ""))
		}
	}
	for _, f := range append([]string(nil), forms...) {
		if i := strings.Index(f, ":"); i >= 0 {
			rest := f[i+1:]
			forms = append(forms, rest)
			trimmed := strings.TrimLeft(rest, "/")
			forms = append(forms, "/"+trimmed)
			if j := strings.Index(trimmed, "/"); j >= 0 && strings.HasPrefix(rest, "//") {
				forms = append(forms, trimmed[j:]) // authority removed
			}
		}
		if strings.Contains(f, "\\") {
			forms = append(forms, strings.ReplaceAll(f, "\\", "/"))
		}
	}
	for _, f := range append([]string(nil), forms...) {
		if strings.Contains(f, "%") {
			if u, err := url.PathUnescape(f); err == nil {
				forms = append(forms, u)
			}
		}
	}
	for _, f := range forms {
		add(f)
	}
	return out
}

func c17IsHTTP(s string) bool {
	l := strings.ToLower(s)
	// The scheme decides, as in net/url: "http:/x" is an http URL (without a
	// host), not a file name.
	return strings.HasPrefix(l, "http:") || strings.HasPrefix(l, "https:")
}

func c17Oracle(pats []string, cwd, s string) (e c17Expect) {
	e.IsHTTP = c17IsHTTP(s)
	if !e.IsHTTP {
		e.Primary = c17CleanAbs(cwd, s)
		e.Strict = c17MatchAny(pats, e.Primary)
		e.Plain = s == e.Primary
	}
	e.RawMatch = c17MatchAny(pats, s)
	for _, r := range c17Readings(cwd, s) {
		if c17MatchAny(pats, r) {
			e.Liberal = true
		}
	}
	if e.Strict {
		e.Liberal = true
	}
	return e
}

// ---------------------------------------------------------------------------
// Locations
// ---------------------------------------------------------------------------

type c17Loc struct {
	S      string `json:"location"`
	Class  string `json:"spelling"`
	Target string `json:"intended_target,omitempty"`
	// CtlHost is set for the http positive controls: the host blocked by the
	// list the control server serves at that URL.
	CtlHost string `json:"control_host,omitempty"`
}

func c17Group(class string) string {
	if strings.HasPrefix(class, "inst-") {
		return "instance-file"
	}
	if class == "glob" {
		return "glob"
	}
	switch class {
	case "plain":
		return "plain"
	case "dotdot", "dotdot-missing-dir", "root-climb", "raw-match-only", "mixed", "descend-climb":
		return "dotdot"
	case "dot", "doubled-sep", "trailing-sep":
		return "sep-dot"
	case "relative":
		return "relative"
	case "file-scheme", "ftp-scheme", "other-scheme", "http-control", "http-mixed-case", "http-to-local-path":
		return "scheme"
	case "system-file":
		return "system-file"
	default:
		return "bytes"
	}
}

func c17Segs(abs string) []string { return strings.Split(strings.TrimPrefix(abs, "/"), "/") }

func c17Join(segs []string) string { return "/" + strings.Join(segs, "/") }

// c17DirAt returns the directory that holds segs[i].
func c17DirAt(segs []string, i int) string { return filepath.Clean(c17Join(segs[:i])) }

// c17ExistingSubdir picks an existing subdirectory of dir (deterministic:
// only directories of the tree and a few fixed system directories are used).
func (tr *c17Tree) c17ExistingSubdir(rng *rand.Rand, dir string) (string, bool) {
	if dir == "/" {
		return []string{"etc", "usr", "tmp"}[rng.Intn(3)], true
	}
	if l := tr.subdirs[dir]; len(l) > 0 {
		return l[rng.Intn(len(l))], true
	}
	return "", false
}

func c17Insert(segs []string, i int, ins ...string) []string {
	out := make([]string, 0, len(segs)+len(ins))
	out = append(out, segs[:i]...)
	out = append(out, ins...)
	out = append(out, segs[i:]...)
	return out
}

// c17DotDot inserts 1-3 "D/.." pairs; D is an existing directory where the
// tree knows one, unless missing is set.
func (tr *c17Tree) c17DotDot(rng *rand.Rand, segs []string, missing bool) (out []string, allExist bool) {
	allExist = true
	type ins struct {
		at   int
		name string
	}
	var list []ins
	for k := 1 + rng.Intn(3); k > 0; k-- {
		i := rng.Intn(len(segs)) // insert before segs[i]
		name, ok := tr.c17ExistingSubdir(rng, c17DirAt(segs, i))
		if missing || !ok {
			name, allExist = []string{"nope", "x y", "..."}[rng.Intn(3)], false
		}
		list = append(list, ins{i, name})
	}
	sort.SliceStable(list, func(a, b int) bool { return list[a].at > list[b].at })
	out = append([]string(nil), segs...)
	for _, in := range list {
		out = c17Insert(out, in.at, in.name, "..")
	}
	return out, allExist
}

// c17DescendClimb inserts "d1/d2/../.." made of existing directories.
func (tr *c17Tree) c17DescendClimb(rng *rand.Rand, segs []string) []string {
	i := rng.Intn(len(segs))
	dir := c17DirAt(segs, i)
	var down []string
	for depth := 0; depth < 3; depth++ {
		name, ok := tr.c17ExistingSubdir(rng, dir)
		if !ok {
			break
		}
		down = append(down, name)
		dir = filepath.Join(dir, name)
	}
	if len(down) == 0 {
		down = []string{"nope"}
	}
	ins := append([]string(nil), down...)
	for range down {
		ins = append(ins, "..")
	}
	return c17Insert(segs, i, ins...)
}

func c17Dots(rng *rand.Rand, segs []string) []string {
	out := append([]string(nil), segs...)
	for k := 1 + rng.Intn(3); k > 0; k-- {
		out = c17Insert(out, rng.Intn(len(out)+1), ".")
	}
	return out
}

func c17JoinSloppy(rng *rand.Rand, segs []string) string {
	seps := []string{"/", "//", "///", "/./"}
	var sb strings.Builder
	sb.WriteString([]string{"/", "//", "///"}[rng.Intn(3)])
	for i, s := range segs {
		if i > 0 {
			sb.WriteString(seps[rng.Intn(len(seps))])
		}
		sb.WriteString(s)
	}
	return sb.String()
}

func c17InsertByte(rng *rand.Rand, s, b string) string {
	i := rng.Intn(len(s) + 1)
	return s[:i] + b + s[i:]
}

// c17Spell produces one spelling of target of the given class.
func (tr *c17Tree) c17Spell(rng *rand.Rand, class, target, ctlBase string, allowedSample string) string {
	segs := c17Segs(target)
	switch class {
	case "plain":
		return target
	case "dotdot":
		out, _ := tr.c17DotDot(rng, segs, false)
		return c17Join(out)
	case "dotdot-missing-dir":
		out, _ := tr.c17DotDot(rng, segs, true)
		return c17Join(out)
	case "descend-climb":
		return c17Join(tr.c17DescendClimb(rng, segs))
	case "dot":
		return c17Join(c17Dots(rng, segs))
	case "doubled-sep":
		return c17JoinSloppy(rng, segs)
	case "trailing-sep":
		base := segs[len(segs)-1]
		return target + []string{"/", "//", "/.", "/./", "/x/..", "/../" + base, "/nope/../"}[rng.Intn(7)]
	case "mixed":
		out, _ := tr.c17DotDot(rng, segs, rng.Intn(4) == 0)
		if rng.Intn(2) == 0 {
			out = tr.c17DescendClimb(rng, out[:len(out):len(out)])
		}
		out = c17Dots(rng, out)
		s := c17JoinSloppy(rng, out)
		if rng.Intn(3) == 0 {
			s += "/"
		}
		return s
	case "root-climb":
		return []string{"/..", "/../../..", "/./..", "/.././../"}[rng.Intn(4)] + target
	case "relative":
		rel, err := filepath.Rel(tr.cwd, target)
		if err != nil {
			rel = strings.Repeat("../", 12) + target[1:]
		}
		switch rng.Intn(6) {
		case 0:
			return rel
		case 1:
			return "./" + rel
		case 2:
			return strings.Repeat("../", 14) + target[1:]
		case 3:
			return "lists/../" + rel
		case 4:
			return "./nope/.././" + rel
		default:
			return strings.ReplaceAll(rel, "/", "//")
		}
	case "file-scheme":
		return []string{"file://" + target, "file:" + target, "File://" + target, "FILE:///" + target[1:],
			"file://localhost" + target, "file:////" + target[1:], "file://127.0.0.1" + target,
			"file://" + url.PathEscape(target)}[rng.Intn(8)]
	case "ftp-scheme":
		return []string{"ftp://127.0.0.1" + target, "ftp://" + target, "FTP:" + target, "ftp:" + target,
			"ftps://localhost" + target}[rng.Intn(5)]
	case "other-scheme":
		return []string{"gopher://127.0.0.1" + target, "unix://" + target, "data:" + target, "://" + target,
			":" + target, "c:" + target, "local:" + target, "jar:file://" + target, "smb://localhost" + target,
			"view-source:" + target, "fd://" + target, "httpx://127.0.0.1" + target}[rng.Intn(12)]
	case "http-to-local-path":
		return []string{ctlBase + target, ctlBase + "/.." + target, ctlBase + "/%2e%2e" + target,
			"http://" + target, "http:" + target, "https:" + target}[rng.Intn(6)]
	case "nul-byte":
		switch rng.Intn(5) {
		case 0:
			return target + "\x00"
		case 1:
			return "\x00" + target
		case 2:
			return allowedSample + "\x00/../../" + strings.TrimPrefix(target, tr.root+"/")
		case 3:
			return target + "\x00" + allowedSample
		default:
			return c17InsertByte(rng, target, "\x00")
		}
	case "newline-space":
		b := []string{"\n", "\r\n", " ", "\t", "\r"}[rng.Intn(5)]
		switch rng.Intn(5) {
		case 0:
			return target + b
		case 1:
			return b + target
		case 2:
			return allowedSample + b + target
		case 3:
			return target + b + allowedSample
		default:
			return c17InsertByte(rng, target, b)
		}
	case "percent":
		switch rng.Intn(4) {
		case 0:
			return strings.ReplaceAll(target, "/", "%2f")
		case 1:
			return filepath.Dir(target) + "/%2e%2e/" + strings.TrimPrefix(target, filepath.Dir(filepath.Dir(target))+"/")
		case 2:
			return url.PathEscape(target)
		default:
			b := []byte(target)
			i := 1 + rng.Intn(len(b)-1)
			return string(b[:i]) + fmt.Sprintf("%%%02x", b[i]) + string(b[i+1:])
		}
	case "backslash":
		if rng.Intn(2) == 0 {
			return strings.ReplaceAll(target, "/", "\\")
		}
		return filepath.Dir(target) + "\\..\\" + strings.TrimPrefix(target, filepath.Dir(filepath.Dir(target))+"/")
	case "case-changed":
		i := strings.LastIndex(target, "/")
		if rng.Intn(2) == 0 {
			return target[:i] + strings.ToUpper(target[i:])
		}
		return strings.ToUpper(target[:i]) + target[i:]
	}
	return target
}

var c17RandomClasses = []string{
	"dotdot", "dotdot", "dotdot", "dotdot-missing-dir", "descend-climb", "descend-climb", "dot", "doubled-sep",
	"trailing-sep", "mixed", "mixed", "mixed", "root-climb", "relative", "relative", "file-scheme", "file-scheme",
	"ftp-scheme", "other-scheme", "http-to-local-path", "nul-byte", "newline-space", "percent", "backslash",
	"case-changed",
}

// c17RawMatchOnly searches spellings of the non-matching file target that,
// as raw strings, match pattern pat while their cleaned form is target.
func (tr *c17Tree) c17RawMatchOnly(pat, target string) (out []string) {
	psegs := c17Segs(pat)
	fsegs := c17Segs(target)
	extra := len(psegs) - len(fsegs)
	if extra <= 0 || extra%2 != 0 || extra > 4 {
		return nil
	}
	hasMeta := func(s string) bool { return strings.ContainsAny(s, "*?[\\") }
	nameAt := func(cur []string, pos int) string {
		// Directory name to insert at index pos of the spelling: the pattern
		// segment itself when literal, else an existing directory there.
		if pos < len(psegs) && !hasMeta(psegs[pos]) {
			return psegs[pos]
		}
		dir := filepath.Clean(c17Join(cur[:pos]))
		if l := tr.subdirs[dir]; len(l) > 0 {
			return l[0]
		}
		return "x"
	}
	try := func(s []string) {
		str := c17Join(s)
		if ok, err := filepath.Match(pat, str); err == nil && ok && filepath.Clean(str) == target {
			out = append(out, str)
		}
	}
	for i := 1; i <= len(fsegs)-1; i++ {
		s1 := c17Insert(fsegs, i, nameAt(fsegs, i), "..")
		if extra == 2 {
			try(s1)
			continue
		}
		for j := 1; j <= len(s1)-1; j++ {
			if s1[j] == ".." && j == i+1 {
				// Nested: d1/d2/../..
				s2 := c17Insert(s1, j, nameAt(s1, j), "..")
				try(s2)
				continue
			}
			s2 := c17Insert(s1, j, nameAt(s1, j), "..")
			try(s2)
		}
	}
	return out
}

// ---------------------------------------------------------------------------
// Pattern lists
// ---------------------------------------------------------------------------

type c17Cfg struct {
	Kind     string   `json:"kind"`
	Patterns []string `json:"safe_fs_patterns"`
}

func c17PatternPool(r string) (fixed []c17Cfg, pool []string) {
	p := func(s string) string { return r + "/" + s }
	fixed = []c17Cfg{
		{"empty", nil},
		{"empty-non-nil", []string{}},
		// Positive control for the instance-derived files: the user filters
		// directory of any data directory below the scratch directory, and
		// the directory of the configuration file.
		{"instance-userfilters-allowed", []string{filepath.Dir(r) + "/scratch/*/data/userfilters/*", filepath.Dir(r) + "/scratch/*/x.txt",
			filepath.Dir(r) + "/scratch/*/data/x.txt", filepath.Dir(r) + "/scratch/*/data/filters/9999.txt"}},
		// The other way round: what relative names resolve to in the working
		// directory matches, the places in the data directory do not.
		{"relative-names-allowed-in-cwd", []string{p("cwd/userfilters/*"), p("cwd/x.txt"), p("x.txt")}},
		{"instance-userfilters-near-miss", []string{filepath.Dir(r) + "/scratch/*/data/userfilter/*", filepath.Dir(r) + "/scratch/*/data/*/y.txt",
			filepath.Dir(r) + "/scratch/*/data/userfilters"}},
		{"exact", []string{p("lists/a.txt")}},
		{"dir-star", []string{p("lists/*")}},
		{"star-suffix", []string{p("lists/*.txt")}},
		{"question", []string{p("lists/?.txt")}},
		{"class", []string{p("lists/[ab].txt")}},
		{"negated-class", []string{p("lists/[^a].txt")}},
		{"range-class", []string{p("lists/[a-c]*.txt")}},
		{"subdir-glob", []string{p("lists/*/*.txt")}},
		{"three-stars", []string{p("lists/*/*/*")}},
		{"stars-from-root", []string{p("*/*/*/*.txt")}},
		{"stars-from-root-5", []string{p("*/*/*/*/*.txt")}},
		{"any-dir-exact-name", []string{p("*/a.txt")}},
		{"relative-patterns", []string{"*", "*.txt", "*/*", "lists/*", "../secret/*", "./*"}},
		{"exact-two", []string{p("lists/sub/e.txt"), p("top.txt")}},
		{"escaped-meta", []string{p(`lists/we ird\[1\].txt`), p(`lists/\*`)}},
		{"dir-star-and-subdir", []string{p("lists/*"), p("lists/sub/*")}},
		{"prefix-sibling", []string{p("lists/a*")}},
		{"trailing-slash-pattern", []string{p("lists/"), p("lists/*/")}},
		{"dir-itself", []string{p("lists"), p("secret/deep")}},
		// Metacharacters lined up with a path separator of a deeper file.
		{"question-run-vs-dir/file", []string{p("lists/????????.txt")}},
		{"question-at-separator", []string{p("lists/sub?e.txt"), p("lists?b.txt"), r + "?top.txt", p("lists/sub?deep?f.txt")}},
		{"class-at-separator", []string{p("lists/sub[^a]e.txt"), p("lists/sub[!a]e.txt"), p("lists/sub[a-z]e.txt"), p("lists/sub[.-0]e.txt")}},
		{"negated-class-next-to-star", []string{p("lists/*[^a]e.txt"), p("lists/[^a]*e.txt"), p("lists/*[^x]*.txt"), p("secret[^a]*")}},
		{"star-question-mix", []string{p("lists/*?e.txt"), p("lists/???*????.txt"), p("*?a.txt")}},
		// Lists whose text names files outside the patterns.
		{"list-content-names-files", []string{p("inc/*.txt")}},
		{"list-content-names-files-exact", []string{p("inc/main.txt"), p("inc/fifo-main.txt")}},
		{"list-content-names-files-nested", []string{p("inc/*/main.txt"), p("inc/main.txt")}},
		{"escaped-next-to-meta", []string{p(`lists/su\b?e.txt`), p(`lists/\s\u\b*`), p(`lists/sub\/e.txt`)}},
		// Malformed patterns: the server may refuse to start with them; if
		// it starts, they match nothing.
		{"malformed-pattern", []string{p("lists/[a-"), p("lists/b.txt")}},
		{"malformed-pattern", []string{p("lists/a.txt"), p(`secret/*\`)}},
		{"malformed-pattern", []string{p("[]")}},
		// In Go's syntax '-' and ']' must be escaped inside a class.
		{"malformed-pattern", []string{p("cls/[-a].txt")}},
		{"malformed-pattern", []string{p("cls/[a-].txt")}},
		{"malformed-pattern", []string{p("cls/[]a].txt")}},
		// The whole filepath.Match syntax, pattern text AS CONFIGURED.  The
		// patterns of one list do not mask each other: what another reading
		// of one of them would admit, no other pattern of the list admits.
		//   [!p]   is the class of '!' and 'p' (not a negation);
		//   [a\-c] is 'a', '-', 'c' (not a range); \* \? \\ are literals.
		{"match-syntax:bang-literal,escapes", []string{p("cls/[!p].txt"), p(`cls/[a\-c].txt`), p(`cls/\*.txt`), p(`cls/\?.txt`),
			p(`cls/[\]].txt`), p(`cls/\\.txt`)}},
		{"match-syntax:bang-class-then-star", []string{p("cls/[!p]*.txt")}},
		{"match-syntax:bang-range,meta-in-class", []string{p("cls/[!a-b].txt"), p("cls/[*].txt"), p("cls/[?].txt")}},
		{"match-syntax:reversed-range,caret-not-first,posix-class", []string{p("cls/[p-a].txt"), p("cls/[a^].txt"), p(`cls/[\^z].txt`),
			p("cls/[[:alpha:]].txt")}},
		{"match-syntax:caret-negation", []string{p("cls/[^p].txt")}},
		{"match-syntax:caret-negated-range-then-star", []string{p("cls/[^a-p]*.txt"), p("cls/[^!].txt")}},
		{"malformed-pattern", []string{p("lists/*"), p("lists/*/[a-")}},
	}
	pool = []string{
		p("lists/a.txt"), p("lists/b.txt"), p("lists/*"), p("lists/*.txt"), p("lists/?.txt"), p("lists/??.txt"),
		p("lists/[ab].txt"), p("lists/[^a].txt"), p("lists/[a-c].txt"), p("lists/[A-Z].txt"), p("lists/a*"),
		p("lists/*/*.txt"), p("lists/*/*"), p("lists/*/*/*"), p("lists/*/*/*.txt"), p("lists/*/*/*/*"),
		p("lists/sub/*"), p("lists/sub/deep/?.txt"), p("lists2/*"), p("*/a.txt"), p("*/*.txt"), p("*/*/*.txt"),
		p("*/*/*/*.txt"), p("*/*/*/*/*.txt"), p("l*/sub/*"), p("*.txt"), p("top.txt"), p("cwd/lists/*"),
		p("x/*"), p("lists/*.dat"), p("lists/*.bak"), p("secret/*.pem"),
		p("cls/[!p]*.txt"), p("cls/[!a-b].txt"), p(`cls/\*.txt`), p("cls/[^p].txt"), p(`cls/[a\-c].txt`), p("cls/[!s]*"),
		p("lists/????????.txt"), p("lists/sub?e.txt"), p("lists?a.txt"), p("lists/sub[^a]e.txt"), p("lists/*[^a]e.txt"),
		p("lists/[a-z]??/[a-z]*.txt"), p("secret?c.txt"), p("lists/???/????.txt"), p(`lists/\*`), p("lists/*?.txt"),
		"*", "*.txt", "*/*", "lists/*", "/*", "/*/*", "/etc/host*", r + "*", r + "/lists*",
	}
	return fixed, pool
}

// ---------------------------------------------------------------------------
// One DNSFilter under test
// ---------------------------------------------------------------------------

var c17FileHostRe = regexp.MustCompile(`g(\d+)-(\d+)\.example`)

type c17Env struct {
	t      *testing.T
	rep    *verifkit.Report
	tr     *c17Tree
	ctlURL string
	// instSeq numbers the instances; tmpCanary is the canary file directly
	// in os.TempDir().
	instSeq   int
	tmpCanary string
	// transport reaches the control server.
	transport *http.Transport
	ctlSeq    int
	scratch   string
	strace    bool
}

type c17Inst struct {
	env      *c17Env
	cfg      c17Cfg
	d        *DNSFilter
	dataDir  string
	handlers map[string]http.HandlerFunc
	baseURL  map[bool]string
	baseID   map[bool]int
	allowed  map[int]bool // file numbers (tree and instance-derived) that match the patterns
	seq      int
	ownsDir  bool
	// extras are the canary files at places derived from this instance;
	// their numbers start at c17ExtraBase.
	extras []*c17File
}

const (
	c17ExtraBase    = 1000
	c17OtherListID  = 9999
	c17WorkDirName  = "work"
	c17ConfFileName = "AdGuardHome.yaml"
)

var c17ExtraHostRe = regexp.MustCompile(`x(\d+)-(\d+)\.example`)

// newWork creates <scratch>/work*/data, the layout of a real installation:
// the configuration file would be <work>/AdGuardHome.yaml.
func (e *c17Env) newWork() (dataDir string, err error) {
	work, err := os.MkdirTemp(e.scratch, c17WorkDirName)
	if err != nil {
		return "", err
	}
	dataDir = filepath.Join(work, "data")
	return dataDir, os.MkdirAll(dataDir, 0o755)
}

func c17RemoveWork(dataDir string) { _ = os.RemoveAll(filepath.Dir(dataDir)) }

// c17ExtraPaths lists the instance-derived canary places for a data
// directory.
func (e *c17Env) c17ExtraPaths(dataDir string) (out [][2]string) {
	work := filepath.Dir(dataDir)
	return [][2]string{
		{"<DataDir>/userfilters/x.txt", filepath.Join(dataDir, "userfilters", "x.txt")},
		{"<DataDir>/filters/<id of no list>.txt", c17CacheFile(dataDir, c17OtherListID)},
		{"<DataDir>/x.txt", filepath.Join(dataDir, "x.txt")},
		{"<DataDir>/../x.txt (directory of the configuration file)", filepath.Join(work, "x.txt")},
		{"the configuration file's own name", filepath.Join(work, c17ConfFileName)},
		{"os.TempDir()/<file>", e.tmpCanary},
	}
}

// c17WriteAside writes a file under another name and renames it into place,
// so that the monitor never opens the canary name itself.
func c17WriteAside(p string, body []byte) error {
	if err := os.MkdirAll(filepath.Dir(p), 0o755); err != nil {
		return err
	}
	if err := os.WriteFile(p+".c17tmp", body, 0o644); err != nil {
		return err
	}
	return os.Rename(p+".c17tmp", p)
}

// makeExtras (re)writes the instance-derived canaries with rules unique to
// this instance.
func (in *c17Inst) makeExtras() error {
	in.extras = nil
	for j, kp := range in.env.c17ExtraPaths(in.dataDir) {
		f := &c17File{Kind: kp[0], N: c17ExtraBase + j, Abs: kp[1], Host: fmt.Sprintf("x%d-%d.example", in.seq, j)}
		if err := c17WriteAside(f.Abs, c17FileBody(f)); err != nil {
			return err
		}
		in.extras = append(in.extras, f)
		if c17MatchAny(in.cfg.Patterns, f.Abs) {
			in.allowed[f.N] = true
		}
	}
	return nil
}

func (in *c17Inst) fileByN(n int) *c17File {
	if n >= c17ExtraBase && n-c17ExtraBase < len(in.extras) {
		return in.extras[n-c17ExtraBase]
	}
	if n >= 1 && n <= len(in.env.tr.files) {
		return in.env.tr.files[n-1]
	}
	return &c17File{N: n}
}

func (in *c17Inst) fileByAbs(abs string) *c17File {
	if f := in.env.tr.byAbs[abs]; f != nil {
		return f
	}
	for _, f := range in.extras {
		if f.Abs == abs {
			return f
		}
	}
	return nil
}

// seenFiles returns the numbers of the canary files (tree files of the
// current generation, instance-derived files of this instance) whose rule
// occurs in b.
func (in *c17Inst) seenFiles(b []byte) (ns []int) {
	ns = in.env.tr.c17SeenFiles(b)
	for _, m := range c17ExtraHostRe.FindAllSubmatch(b, -1) {
		q, _ := strconv.Atoi(string(m[1]))
		j, _ := strconv.Atoi(string(m[2]))
		if q == in.seq && j < len(in.extras) {
			ns = append(ns, c17ExtraBase+j)
		}
	}
	return ns
}

func (in *c17Inst) bodyFiles(bodies []string) (ns []int) {
	for _, b := range bodies {
		ns = append(ns, in.seenFiles([]byte(b))...)
	}
	return ns
}

// extraLocs spells the instance-derived canaries: plainly and (all, or
// nDotted chosen by rng per file) with dot-dot, dot, doubled separators and
// relative to the working directory.
func (e *c17Env) extraLocs(rng *rand.Rand, dataDir string, nDotted int) (locs []c17Loc) {
	paths := e.c17ExtraPaths(dataDir)
	paths = append(paths, [2]string{"cache file of another list", c17CacheFile(dataDir, 1000)})
	// Relative names of the instance's places: relative to the data
	// directory, to the work directory, to the filters directory.  Whatever
	// base a server might resolve them against, the process working directory
	// holds other files (canaries of the tree) under the same names.
	for _, rel := range []string{"userfilters/x.txt", "./userfilters/x.txt", "x.txt", "filters/9999.txt", "../x.txt",
		"userfilters/../userfilters//x.txt", "data/userfilters/x.txt", "9999.txt", "./x.txt"} {
		if nDotted < 99 && rng.Intn(3) != 0 {
			continue // a third of them in each refresh batch, all on the long-lived instance
		}
		locs = append(locs, c17Loc{S: rel, Class: "inst-relative-name", Target: filepath.Join(dataDir, rel)})
	}
	for _, kp := range paths {
		abs := kp[1]
		dir, name := filepath.Dir(abs), filepath.Base(abs)
		rel, err := filepath.Rel(e.tr.cwd, abs)
		if err != nil {
			rel = strings.Repeat("../", 14) + abs[1:]
		}
		dotted := []c17Loc{
			{S: dir + "/../" + filepath.Base(dir) + "/" + name, Class: "inst-dotdot", Target: abs},
			{S: dir + "/./" + name, Class: "inst-dot", Target: abs},
			{S: strings.ReplaceAll(abs, "/", "//"), Class: "inst-doubled-sep", Target: abs},
			{S: rel, Class: "inst-relative", Target: abs},
			{S: dir + "/nope/../" + name + "/", Class: "inst-dotdot", Target: abs},
		}
		locs = append(locs, c17Loc{S: abs, Class: "inst-plain", Target: abs})
		if nDotted >= len(dotted) {
			locs = append(locs, dotted...)
		} else {
			for _, k := range rng.Perm(len(dotted))[:nDotted] {
				locs = append(locs, dotted[k])
			}
		}
	}
	return locs
}

func (e *c17Env) nextCtl() (u, host string) {
	e.ctlSeq++
	return fmt.Sprintf("%s/ok/%d.txt", e.ctlURL, e.ctlSeq), fmt.Sprintf("ctl-%d.example", e.ctlSeq)
}

func (e *c17Env) newInst(cfg c17Cfg, filters, allow []FilterYAML) (in *c17Inst, err error) {
	return e.newInstAt(cfg, filters, allow, "")
}

// newInstAt is newInst on an existing data directory (a restart) when
// dataDir is not empty.
func (e *c17Env) newInstAt(cfg c17Cfg, filters, allow []FilterYAML, dataDir string) (in *c17Inst, err error) {
	in = &c17Inst{env: e, cfg: cfg, handlers: map[string]http.HandlerFunc{}, baseURL: map[bool]string{},
		baseID: map[bool]int{}, allowed: map[int]bool{}}
	if e.strace {
		// Marker for the syscall-level observer: the open of this name (it
		// does not exist) starts the section of the pattern list of this
		// instance (instances never overlap in time).
		b, _ := json.Marshal(cfg.Patterns)
		_, _ = os.Open(filepath.Join(e.tr.root, c17MarkerDir, url.PathEscape(string(b))))
	}
	e.instSeq++
	in.seq = e.instSeq
	if dataDir != "" {
		in.dataDir = dataDir
	} else if in.dataDir, err = e.newWork(); err != nil {
		return nil, err
	} else {
		in.ownsDir = true
	}
	for _, f := range e.tr.files {
		if c17MatchAny(cfg.Patterns, f.Abs) {
			in.allowed[f.N] = true
		}
	}
	if err = in.makeExtras(); err != nil {
		return nil, err
	}
	var pats []string
	if cfg.Patterns != nil {
		pats = append([]string{}, cfg.Patterns...) // nil stays nil, empty stays empty
	}
	in.d, err = New(&Config{
		FilteringEnabled: true,
		SafeFSPatterns:   pats,
		DataDir:          in.dataDir,
		HTTPClient:       &http.Client{Timeout: 10 * time.Second, Transport: e.transport},
		ConfigModified:   func() {},
		HTTPRegister: func(_, u string, h http.HandlerFunc) {
			in.handlers[u] = h
		},
		Filters:          filters,
		WhitelistFilters: allow,
	}, nil)
	if err != nil {
		if in.ownsDir {
			c17RemoveWork(in.dataDir)
		}
		return nil, err
	}
	in.d.Start()
	return in, nil
}

func (in *c17Inst) close() {
	in.d.Close()
	if in.ownsDir {
		c17RemoveWork(in.dataDir)
	}
}

// call invokes a captured handler.  A panic of the handler is returned as
// status -1.
func (in *c17Inst) call(method, path string, body any) (status int, respBody string) {
	h := in.handlers[path]
	if h == nil {
		return -2, "no handler " + path
	}
	var rd io.Reader
	if body != nil {
		b, _ := json.Marshal(body)
		rd = bytes.NewReader(b)
	}
	r := httptest.NewRequest(method, "http://127.0.0.1"+path, rd)
	r.Header.Set("Content-Type", "application/json")
	w := httptest.NewRecorder()
	func() {
		defer func() {
			if p := recover(); p != nil {
				status, respBody = -1, fmt.Sprint(p)
			}
		}()
		h(w, r)
		status, respBody = w.Code, w.Body.String()
	}()
	return status, respBody
}

type c17StatusEntry struct {
	URL        string `json:"url"`
	ID         int    `json:"id"`
	RulesCount int    `json:"rules_count"`
	Enabled    bool   `json:"enabled"`
	white      bool
}

func (in *c17Inst) status() (out []c17StatusEntry) {
	st, body := in.call(http.MethodGet, "/control/filtering/status", nil)
	if st != 200 {
		in.env.rep.Inconcl(fmt.Sprintf("filtering/status returned %d", st))
		return nil
	}
	var resp struct {
		Filters          []c17StatusEntry `json:"filters"`
		WhitelistFilters []c17StatusEntry `json:"whitelist_filters"`
	}
	if err := json.Unmarshal([]byte(body), &resp); err != nil {
		in.env.rep.Inconcl("filtering/status: " + err.Error())
		return nil
	}
	out = append(out, resp.Filters...)
	for _, w := range resp.WhitelistFilters {
		w.white = true
		out = append(out, w)
	}
	return out
}

// storedContent returns, per file below the data directory, the tree file
// numbers whose rule appears in it.
func (in *c17Inst) storedContent() (byFile map[string][]int) {
	byFile = map[string][]int{}
	_ = filepath.Walk(in.dataDir, func(p string, info os.FileInfo, err error) error {
		if err != nil || info.IsDir() {
			return nil
		}
		for _, x := range in.extras {
			if x.Abs == p {
				return nil // the canary itself; the monitor never opens it
			}
		}
		b, rerr := os.ReadFile(p)
		if rerr != nil {
			return nil
		}
		in.env.rep.Event("stored_files_scanned")
		if ns := in.seenFiles(b); len(ns) > 0 {
			byFile[p] = ns
		}
		return nil
	})
	return byFile
}

// probe rebuilds the engine synchronously from the current lists and asks
// for every tree file's host (and extra) through CheckHost.  It returns the
// matched hosts with the list ids of the matching rules.
func (in *c17Inst) probe(extra ...string) (hit map[string][]int) {
	hit = map[string][]int{}
	for i := 0; i < 200 && len(in.d.filtersInitializerChan) > 0; i++ {
		time.Sleep(time.Millisecond) // let the queued asynchronous rebuild start first
	}
	func() {
		defer func() {
			if p := recover(); p != nil {
				in.env.rep.Inconcl(fmt.Sprintf("EnableFilters panicked: %v", p))
			}
		}()
		in.d.EnableFilters(false)
	}()
	setts := &Settings{ProtectionEnabled: true, FilteringEnabled: true}
	ask := func(h string) {
		res, err := in.d.CheckHost(h, dns.TypeA, setts)
		in.env.rep.Event("checkhost_probes")
		if err != nil {
			return
		}
		if res.Reason != NotFilteredNotFound || len(res.Rules) > 0 {
			ids := []int{}
			for _, r := range res.Rules {
				ids = append(ids, int(r.FilterListID))
			}
			hit[h] = ids
		}
	}
	for _, f := range in.env.tr.files {
		ask(f.Host)
	}
	for _, f := range in.extras {
		ask(f.Host)
	}
	for _, h := range extra {
		ask(h)
	}
	return hit
}

func c17HasAll(hit map[string][]int, want []string) bool {
	for _, h := range want {
		if _, ok := hit[h]; !ok {
			return false
		}
	}
	return true
}

func (in *c17Inst) hostFile(h string) *c17File {
	for _, f := range in.env.tr.files {
		if f.Host == h {
			return f
		}
	}
	for _, f := range in.extras {
		if f.Host == h {
			return f
		}
	}
	return nil
}

// cleanFilters removes every file in the filters directory except the ones
// of the given list ids.
func (in *c17Inst) cleanFilters(keep ...int) {
	dir := filepath.Join(in.dataDir, filterDir)
	ents, _ := os.ReadDir(dir)
outer:
	for _, e := range ents {
		if e.Name() == strconv.Itoa(c17OtherListID)+".txt" {
			continue
		}
		for _, k := range keep {
			if e.Name() == strconv.Itoa(k)+".txt" {
				continue outer
			}
		}
		_ = os.Remove(filepath.Join(dir, e.Name()))
	}
}

// ---------------------------------------------------------------------------
// Case evaluation
// ---------------------------------------------------------------------------

type c17Obs struct {
	Entry       string           `json:"entry_point"`
	Whitelist   bool             `json:"whitelist"`
	Statuses    []int            `json:"http_statuses"`
	Bodies      []string         `json:"response_bodies"`
	RulesCount  int              `json:"rules_count_of_the_list"`
	Listed      bool             `json:"list_present_with_this_url"`
	StoredFiles map[string][]int `json:"tree_files_seen_in_stored_files,omitempty"`
	BodyFiles   []int            `json:"tree_files_seen_in_response_body,omitempty"`
	CheckHost   map[string][]int `json:"hosts_matched_by_checkhost,omitempty"`
	Accepted    bool             `json:"accepted"`
	// Restart variants of the refresh entry point only.
	CachedBefore *bool `json:"cached_list_file_present_at_restart,omitempty"`
	CacheChanged *bool `json:"cached_list_file_replaced_by_this_refresh,omitempty"`
}

func c17Trunc(s string) string {
	if len(s) > 300 {
		return s[:300] + "..."
	}
	return s
}

// judge applies the oracle to one observed operation.
func (in *c17Inst) judge(loc c17Loc, ex c17Expect, ob *c17Obs) {
	rep, tr := in.env.rep, in.env.tr
	entry := ob.Entry
	group := c17Group(loc.Class)
	patKind := "patterns-given"
	if len(in.cfg.Patterns) == 0 {
		patKind = "no-patterns"
	}
	wit := func() map[string]any {
		return map[string]any{"safe_fs_patterns": in.cfg.Patterns, "cwd": tr.cwd, "location": loc,
			"location_quoted": strconv.Quote(loc.S), "oracle": ex, "observed": ob, "tree_root": tr.root}
	}
	targetExists := false
	if f := in.fileByAbs(ex.Primary); f != nil {
		targetExists = true
	}
	for _, r := range c17Readings(tr.cwd, loc.S) {
		if in.fileByAbs(r) != nil {
			targetExists = true
		}
	}
	if loc.Class == "system-file" {
		targetExists = true
	}
	rep.Eval(targetExists, fmt.Sprintf("%s|%v|%q|%v", entry, in.cfg.Patterns, loc.S, ob.Whitelist))
	rep.Class("entry:" + entry)
	rep.Class("spelling:" + loc.Class + "/" + entry)
	switch {
	case ex.IsHTTP:
		rep.Class("expect:http-url")
	case ex.Strict:
		rep.Class("expect:may-read(cleaned-path-matches)")
	case ex.Liberal:
		rep.Class("expect:unspecified(other-reading-matches)")
	default:
		if targetExists {
			rep.Class("expect:must-not-read,file-exists")
		} else {
			rep.Class("expect:must-not-read,no-such-file")
		}
	}
	if !ex.IsHTTP && filepath.IsAbs(loc.S) {
		switch {
		case ex.RawMatch && !ex.Strict:
			rep.Class("match:raw-string-only")
		case !ex.RawMatch && ex.Strict && !ex.Plain:
			rep.Class("match:cleaned-path-only")
		}
	}
	for _, st := range ob.Statuses {
		switch {
		case st == -1:
			rep.Event("handler_panics(treated as rejection)")
			rep.Unspec("request ended in a handler panic (counts as rejected)")
		case st >= 200 && st < 300:
			rep.Event("responses_2xx")
		case st >= 400 && st < 500:
			rep.Event("responses_4xx")
		default:
			rep.Event("responses_other")
		}
	}

	// 1. Universal soundness: whatever was asked, content of a tree file may
	// become observable only if that file's path matches the patterns.
	seen := map[int][]string{}
	for p, ns := range ob.StoredFiles {
		for _, n := range ns {
			seen[n] = append(seen[n], "stored-file:"+filepath.Base(p))
		}
	}
	for _, n := range ob.BodyFiles {
		seen[n] = append(seen[n], "response-body")
	}
	for h := range ob.CheckHost {
		if f := in.hostFile(h); f != nil {
			seen[f.N] = append(seen[f.N], "checkhost")
		}
	}
	nums := make([]int, 0, len(seen))
	for n := range seen {
		nums = append(nums, n)
	}
	sort.Ints(nums)
	for _, n := range nums {
		f := in.fileByN(n)
		if in.allowed[n] {
			rep.Event("reads_observed_of_files_inside_patterns")
			continue
		}
		rep.Event("reads_observed_of_files_OUTSIDE_patterns")
		w := wit()
		w["file_read"] = f
		w["seen_through"] = seen[n]
		rep.Violate("unsafe-read:"+entry+":"+group+":"+patKind,
			fmt.Sprintf("content of %s (matches no safe pattern) became observable via %s after %s of %s",
				f.Abs, strings.Join(seen[n], ","), entry, strconv.Quote(loc.S)), w)
	}

	// 2. A location no reading of which matches must be refused and must not
	// count rules.
	if !ex.IsHTTP && !ex.Liberal {
		if ob.Accepted {
			rep.Violate("accepted-unsafe:"+entry+":"+group+":"+patKind,
				fmt.Sprintf("%s accepted %s although its cleaned absolute path %s matches no safe pattern",
					entry, strconv.Quote(loc.S), ex.Primary), wit())
		}
		if !ob.Accepted && ob.RulesCount > 0 {
			rep.Violate("rules-counted-unsafe:"+entry+":"+group+":"+patKind,
				fmt.Sprintf("list with location %s reports %d rules after %s although its cleaned absolute path matches no safe pattern",
					strconv.Quote(loc.S), ob.RulesCount, entry), wit())
		}
		if !ob.Accepted && ob.RulesCount == 0 {
			rep.Event("unsafe_locations_refused")
		}
	}

	// 3. Completeness for the plain spellings and the controls (so that a
	// refuse-everything change cannot pass).
	if in.cfg.Kind == "malformed-pattern" {
		// filtering.New let a malformed pattern through (filepath.Match
		// reports a syntax error only in the part of the pattern it gets
		// to); every later check may fail or panic.  Only soundness is
		// asserted for such a list.
		rep.Unspec("pattern list with a malformed pattern that was accepted at start: only soundness asserted")
		return
	}
	if ex.Strict && ex.Plain && in.fileByAbs(ex.Primary) != nil {
		rep.Event("reads_expected(plain allowed file)")
		f := in.fileByAbs(ex.Primary)
		if !ob.Accepted || ob.RulesCount == 0 || len(seen[f.N]) == 0 {
			rep.Violate("plain-allowed-rejected:"+entry,
				fmt.Sprintf("%s of the plain path %s, which matches a safe pattern and holds a valid list, was not read (accepted=%v rules=%d)",
					entry, loc.S, ob.Accepted, ob.RulesCount), wit())
		} else {
			rep.Event("reads_expected_and_observed")
		}
	} else if ex.Strict && !ex.Plain {
		if ob.Accepted {
			rep.Unspec("decorated spelling of an allowed path: accepted")
		} else {
			rep.Unspec("decorated spelling of an allowed path: refused")
		}
	} else if !ex.Strict && ex.Liberal && !ex.IsHTTP {
		rep.Unspec("string that only under another reading (scheme stripped, cut at control byte, decoded) names an allowed path")
	}
	if loc.CtlHost != "" {
		rep.Event("http_controls_tried")
		if _, ok := ob.CheckHost[loc.CtlHost]; !ob.Accepted || ob.RulesCount == 0 || !ok {
			rep.Violate("http-control-rejected:"+entry,
				fmt.Sprintf("the http list %s served by the control server was not taken (accepted=%v rules=%d)", loc.S,
					ob.Accepted, ob.RulesCount), wit())
		} else {
			rep.Event("http_controls_accepted")
		}
	}
}

func c17OK(st int) bool { return st >= 200 && st < 300 }

// observe fills the content channels of ob for the list currently holding
// location s.
func (in *c17Inst) observe(ob *c17Obs, s string, white bool, ctl string, forceProbe bool) {
	var want []string
	if ctl != "" {
		want = append(want, ctl)
	}
	if f := in.fileByAbs(s); f != nil && in.allowed[f.N] {
		want = append(want, f.Host)
	}
	for _, e := range in.status() {
		if e.URL == s && e.white == white {
			ob.Listed = true
			ob.RulesCount = e.RulesCount
		}
	}
	ob.StoredFiles = in.storedContent()
	ob.BodyFiles = in.bodyFiles(ob.Bodies)
	if ob.Accepted || ob.Listed || len(ob.StoredFiles) > 0 || forceProbe {
		ob.CheckHost = in.probe(want...)
		// The handlers also queue an asynchronous engine rebuild; a rebuild
		// queued by an earlier operation may land after the synchronous one
		// of probe and hide the newest list.  Only for the completeness
		// expectations: look again before calling a list "not taken".
		for try := 0; try < 100 && ob.Accepted && ob.RulesCount > 0 && !c17HasAll(ob.CheckHost, want); try++ {
			in.env.rep.Event("probe_retries(async engine rebuild in flight)")
			time.Sleep(10 * time.Millisecond)
			ob.CheckHost = in.probe(want...)
		}
	}
	for i := range ob.Bodies {
		ob.Bodies[i] = c17Trunc(ob.Bodies[i])
	}
}

// opAdd: POST /control/filtering/add_url.
func (in *c17Inst) opAdd(loc c17Loc, white bool, forceProbe bool) {
	ex := c17Oracle(in.cfg.Patterns, in.env.tr.cwd, loc.S)
	ob := &c17Obs{Entry: "add_url", Whitelist: white}
	st, body := in.call(http.MethodPost, "/control/filtering/add_url",
		map[string]any{"name": "n", "url": loc.S, "whitelist": white})
	ob.Statuses, ob.Bodies = []int{st}, []string{body}
	ob.Accepted = c17OK(st)
	in.observe(ob, loc.S, white, loc.CtlHost, forceProbe)
	in.judge(loc, ex, ob)
	if ob.Listed {
		in.call(http.MethodPost, "/control/filtering/remove_url", map[string]any{"url": loc.S, "whitelist": white})
	}
	in.cleanFilters(in.baseID[false], in.baseID[true])
}

// opSet: POST /control/filtering/set_url on the base list; with twoStep the
// new location is first set on a disabled list, which is then enabled.
func (in *c17Inst) opSet(loc c17Loc, white, twoStep, forceProbe bool) (ok bool) {
	ex := c17Oracle(in.cfg.Patterns, in.env.tr.cwd, loc.S)
	ob := &c17Obs{Entry: "set_url", Whitelist: white}
	base := in.baseURL[white]
	if twoStep {
		ob.Entry = "set_url(disabled-then-enabled)"
		st, body := in.call(http.MethodPost, "/control/filtering/set_url", map[string]any{"url": base, "whitelist": white,
			"data": map[string]any{"name": "n", "url": loc.S, "enabled": false}})
		ob.Statuses, ob.Bodies = append(ob.Statuses, st), append(ob.Bodies, body)
		ob.Accepted = c17OK(st)
		if ob.Accepted {
			st, body = in.call(http.MethodPost, "/control/filtering/set_url", map[string]any{"url": loc.S, "whitelist": white,
				"data": map[string]any{"name": "n", "url": loc.S, "enabled": true}})
			ob.Statuses, ob.Bodies = append(ob.Statuses, st), append(ob.Bodies, body)
		}
	} else {
		st, body := in.call(http.MethodPost, "/control/filtering/set_url", map[string]any{"url": base, "whitelist": white,
			"data": map[string]any{"name": "n", "url": loc.S, "enabled": true}})
		ob.Statuses, ob.Bodies = []int{st}, []string{body}
		ob.Accepted = c17OK(st)
	}
	in.observe(ob, loc.S, white, loc.CtlHost, forceProbe)
	in.judge(loc, ex, ob)

	// Restore the base list.
	cur := ""
	for _, e := range in.status() {
		if e.ID == in.baseID[white] && e.white == white {
			cur = e.URL
			if e.URL == base && e.Enabled {
				return true
			}
		}
	}
	if cur == "" {
		return false
	}
	st, _ := in.call(http.MethodPost, "/control/filtering/set_url", map[string]any{"url": cur, "whitelist": white,
		"data": map[string]any{"name": "base", "url": base, "enabled": true}})
	return c17OK(st)
}

// addBases adds the two http lists (block and allow) that set_url edits.
func (in *c17Inst) addBases() bool {
	for _, white := range []bool{false, true} {
		u, host := in.env.nextCtl()
		loc := c17Loc{S: u, Class: "http-control", CtlHost: host}
		ex := c17Oracle(in.cfg.Patterns, in.env.tr.cwd, u)
		ob := &c17Obs{Entry: "add_url", Whitelist: white}
		st, body := in.call(http.MethodPost, "/control/filtering/add_url", map[string]any{"name": "base", "url": u, "whitelist": white})
		ob.Statuses, ob.Bodies, ob.Accepted = []int{st}, []string{body}, c17OK(st)
		in.observe(ob, u, white, host, true)
		in.judge(loc, ex, ob)
		if !ob.Accepted {
			return false
		}
		in.baseURL[white] = u
		for _, e := range in.status() {
			if e.URL == u {
				in.baseID[white] = e.ID
			}
		}
	}
	return true
}

// ---------------------------------------------------------------------------
// Content-independent observers (add_url / set_url)
// ---------------------------------------------------------------------------

// c17CmpFiles are three files at equivalent places whose content differs in
// kind: a valid list, an HTML page, text with binary bytes at known offsets.
// They are not tree files (two of them are no valid lists).
var c17CmpFiles = []struct{ rel, kind, body string }{
	{"secret/cmp-t.txt", "text", "! Title: cmp\n||cmp-text.example^\n"},
	{"secret/cmp-h.txt", "html", "<!DOCTYPE html>\n<html><head><title>c17-html-marker</title></head><body>c17</body></html>\n"},
	{"secret/cmp-b.txt", "binary", "||cmp-bin.example^\n# padding\nab\x00\x01\x02\xff\xfecd\n"},
}

// c17Fifos are named pipes; opening one for reading blocks.
var c17Fifos = []string{"secret/fifo.txt", "lists/sub/fifo.txt"}

// c17FifoList is a valid list whose text names the FIFO next to it
// (c17FifoListTarget) in every syntax.  It is not a tree file: it is used
// only by mentionFifoOps, under a deadline.
const (
	c17FifoList       = "inc/fifo-main.txt"
	c17FifoListTarget = "inc/fifo.inc"
)

func (tr *c17Tree) c17MakeObservers() error {
	for _, c := range c17CmpFiles {
		if err := os.WriteFile(filepath.Join(tr.root, c.rel), []byte(c.body), 0o644); err != nil {
			return err
		}
	}
	for _, rel := range append([]string{c17FifoListTarget}, c17Fifos...) {
		if err := syscall.Mkfifo(filepath.Join(tr.root, rel), 0o644); err != nil {
			return err
		}
	}
	body := "! Title: names a fifo\n||fifo-main.example^\n" +
		c17Mentions([]string{filepath.Base(c17FifoListTarget), "./" + filepath.Base(c17FifoListTarget),
			filepath.Join(tr.root, c17FifoListTarget)}, c17MentionSyntaxes)
	return os.WriteFile(filepath.Join(tr.root, c17FifoList), []byte(body), 0o644)
}

// contentIndependence asks add_url and set_url for the three files (when no
// reading of their paths matches the patterns): the refusals must be the same
// up to the path, whatever the files hold.
func (in *c17Inst) contentIndependence() {
	rep, tr := in.env.rep, in.env.tr
	type ans struct {
		Kind   string `json:"content_kind"`
		Path   string `json:"path"`
		Status int    `json:"status"`
		Body   string `json:"response_body"`
		Norm   string `json:"response_body_with_the_path_replaced"`
	}
	for _, entry := range []string{"add_url", "set_url"} {
		var got []ans
		for _, c := range c17CmpFiles {
			abs := filepath.Join(tr.root, c.rel)
			if ex := c17Oracle(in.cfg.Patterns, tr.cwd, abs); ex.Liberal {
				return // inside the patterns of this list: nothing to compare
			}
			var st int
			var body string
			if entry == "add_url" {
				st, body = in.call(http.MethodPost, "/control/filtering/add_url", map[string]any{"name": "n", "url": abs})
			} else {
				st, body = in.call(http.MethodPost, "/control/filtering/set_url", map[string]any{"url": in.baseURL[false], "whitelist": false,
					"data": map[string]any{"name": "n", "url": abs, "enabled": true}})
			}
			norm := strings.ReplaceAll(body, abs, "<PATH>")
			got = append(got, ans{c.kind, abs, st, c17Trunc(body), c17Trunc(norm)})
			rep.Eval(true, fmt.Sprintf("cmp|%s|%v|%s", entry, in.cfg.Patterns, c.kind))
			rep.Class("content-independence:" + entry)
			if c17OK(st) {
				rep.Violate("accepted-unsafe:"+entry+":plain:content-kind-"+c.kind, entry+" accepted "+abs+", which matches no safe pattern",
					map[string]any{"safe_fs_patterns": in.cfg.Patterns, "answer": got[len(got)-1]})
				// Undo.
				in.call(http.MethodPost, "/control/filtering/remove_url", map[string]any{"url": abs, "whitelist": false})
			}
		}
		same := true
		for _, g := range got[1:] {
			if g.Status != got[0].Status || g.Norm != got[0].Norm {
				same = false
			}
		}
		if same {
			rep.Event("refusals_identical_for_text_html_binary_files_outside_patterns")
		} else {
			rep.Violate("unsafe-read:response-depends-on-content-of-file-outside-patterns:"+entry,
				"the refusal of "+entry+" differs between a text, an HTML and a binary file at equivalent places outside the safe patterns: the files were read",
				map[string]any{"safe_fs_patterns": in.cfg.Patterns, "answers": got})
		}
	}
	in.cleanFilters(in.baseID[false], in.baseID[true])
}

// c17ReleaseFifo lets a request that blocks on the FIFO go on: it opens and
// closes the writing end (non-blocking; that succeeds only while a reader has
// the FIFO open or waits in open) again and again, because the request may
// open the FIFO several times, until done reports that the request returned.
func c17ReleaseFifo(fifo string, done func() bool) (readerSeen, released bool) {
	for i := 0; i < 3000; i++ {
		if done() {
			return readerSeen, true
		}
		if fd, err := syscall.Open(fifo, syscall.O_WRONLY|syscall.O_NONBLOCK, 0); err == nil {
			_ = syscall.Close(fd)
			readerSeen = true
		}
		time.Sleep(5 * time.Millisecond)
	}
	return readerSeen, done()
}

// c17FifoHung remembers the entry points at which a FIFO was already found
// opened (one witness each is enough; every further try costs a deadline).
var c17FifoHung = map[string]bool{}

// c17FifoDeadline bounds a call that names a FIFO.  It is a watchdog: the
// unchanged code answers within microseconds, because it never opens the FIFO.
const c17FifoDeadline = 4 * time.Second

// fifoOps names FIFOs outside the patterns in add_url and set_url.  Opening
// a FIFO for reading blocks, so a request that does not return promptly has
// opened it; the monitor then opens the other end to let it go on.
func (in *c17Inst) fifoOps() {
	rep, tr := in.env.rep, in.env.tr
	for _, rel := range c17Fifos {
		abs := filepath.Join(tr.root, rel)
		if ex := c17Oracle(in.cfg.Patterns, tr.cwd, abs); ex.Liberal {
			rep.Event("fifo_inside_patterns_not_tried")
			continue
		}
		for _, entry := range []string{"add_url", "set_url"} {
			if c17FifoHung[entry] {
				continue
			}
			type res struct {
				st   int
				body string
			}
			ch := make(chan res, 1)
			go func() {
				var r res
				if entry == "add_url" {
					r.st, r.body = in.call(http.MethodPost, "/control/filtering/add_url", map[string]any{"name": "n", "url": abs})
				} else {
					r.st, r.body = in.call(http.MethodPost, "/control/filtering/set_url", map[string]any{"url": in.baseURL[false], "whitelist": false,
						"data": map[string]any{"name": "n", "url": abs, "enabled": true}})
				}
				ch <- r
			}()
			rep.Eval(true, fmt.Sprintf("fifo|%s|%v|%s", entry, in.cfg.Patterns, rel))
			rep.Class("fifo-outside-patterns:" + entry)
			select {
			case r := <-ch:
				rep.Event("fifo_requests_answered_promptly")
				if c17OK(r.st) {
					rep.Violate("accepted-unsafe:"+entry+":plain:fifo", entry+" accepted the FIFO "+abs+", which matches no safe pattern",
						map[string]any{"safe_fs_patterns": in.cfg.Patterns, "status": r.st, "body": c17Trunc(r.body)})
				}
			case <-time.After(c17FifoDeadline):
				c17FifoHung[entry] = true
				// Let the blocked open (or read) go on: open and close the
				// writing end.
				unblocked, released := c17ReleaseFifo(abs, func() bool {
					select {
					case r := <-ch:
						ch <- r
						return true
					default:
						return false
					}
				})
				rep.Violate("unsafe-open:fifo-outside-patterns-opened:"+entry,
					fmt.Sprintf("%s naming the FIFO %s, which matches no safe pattern, did not return within %s: the FIFO was opened for reading", entry, abs, c17FifoDeadline),
					map[string]any{"safe_fs_patterns": in.cfg.Patterns, "fifo": abs, "a_reader_was_waiting_on_the_fifo": unblocked})
				if !released {
					rep.Inconcl("a request blocked on a FIFO could not be released")
				}
			}
		}
	}
}

// mentionFifoOps adds (and sets) the list c17FifoList when it matches the
// patterns while the FIFO its text names does not: the list must be taken
// promptly; a request that hangs has opened the FIFO because the list's text
// named it.
func (in *c17Inst) mentionFifoOps() {
	rep, tr := in.env.rep, in.env.tr
	list, fifo := filepath.Join(tr.root, c17FifoList), filepath.Join(tr.root, c17FifoListTarget)
	if !c17MatchAny(in.cfg.Patterns, list) || c17MatchAny(in.cfg.Patterns, fifo) || in.cfg.Kind == "malformed-pattern" {
		return
	}
	for _, entry := range []string{"add_url", "set_url"} {
		key := entry + ":via-list-content"
		if c17FifoHung[key] {
			continue
		}
		type res struct {
			st   int
			body string
		}
		ch := make(chan res, 1)
		go func() {
			var r res
			if entry == "add_url" {
				r.st, r.body = in.call(http.MethodPost, "/control/filtering/add_url", map[string]any{"name": "n", "url": list})
			} else {
				r.st, r.body = in.call(http.MethodPost, "/control/filtering/set_url", map[string]any{"url": in.baseURL[false], "whitelist": false,
					"data": map[string]any{"name": "n", "url": list, "enabled": true}})
			}
			ch <- r
		}()
		rep.Eval(true, fmt.Sprintf("fifo-named-by-list|%s|%v", entry, in.cfg.Patterns))
		rep.Class("fifo-named-in-text-of-allowed-list:" + entry)
		select {
		case r := <-ch:
			if c17OK(r.st) {
				rep.Event("allowed_lists_naming_a_fifo_taken_promptly")
			} else {
				rep.Violate("plain-allowed-rejected:"+entry+":list-naming-a-fifo", "a list that matches a safe pattern was refused",
					map[string]any{"safe_fs_patterns": in.cfg.Patterns, "list": list, "status": r.st, "body": c17Trunc(r.body)})
			}
		case <-time.After(c17FifoDeadline):
			c17FifoHung[key] = true
			unblocked, released := c17ReleaseFifo(fifo, func() bool {
				select {
				case r := <-ch:
					ch <- r
					return true
				default:
					return false
				}
			})
			rep.Violate("unsafe-open:fifo-outside-patterns-opened:"+key,
				fmt.Sprintf("%s of the allowed list %s did not return within %s: the FIFO %s, which matches no safe pattern and is only named in the list's text, was opened for reading",
					entry, list, c17FifoDeadline, fifo),
				map[string]any{"safe_fs_patterns": in.cfg.Patterns, "list": list, "fifo": fifo, "a_reader_was_waiting_on_the_fifo": unblocked})
			if !released {
				rep.Inconcl("a request blocked on a FIFO could not be released")
			}
		}
		// Undo.
		if entry == "add_url" {
			in.call(http.MethodPost, "/control/filtering/remove_url", map[string]any{"url": list, "whitelist": false})
		} else {
			in.call(http.MethodPost, "/control/filtering/set_url", map[string]any{"url": list, "whitelist": false,
				"data": map[string]any{"name": "base", "url": in.baseURL[false], "enabled": true}})
		}
		in.cleanFilters(in.baseID[false], in.baseID[true])
	}
}

// c17RestartModes are the variants of the refresh entry point in which the
// DNSFilter under test starts on a data directory that already holds cached
// list files for the ids of its lists (a restart).
var c17RestartModes = []string{"cache-prepopulated", "after-real-refresh", "patterns-changed"}

// c17AllPatterns allows every file of the tree.
func (tr *c17Tree) c17AllPatterns() (ps []string) {
	g := tr.root
	for depth := 1; depth <= 6; depth++ {
		g += "/*"
		ps = append(ps, g)
	}
	return ps
}

func c17CacheFile(dataDir string, id int) string {
	return filepath.Join(dataDir, filterDir, strconv.Itoa(id)+".txt")
}

// refreshBatch builds a DNSFilter whose configuration already holds the
// locations (as a hand-edited configuration file would) and refreshes.
//
// mode "" starts on an empty data directory.  The restart modes first give
// every list id a cached file in the data directory the instance under test
// starts on:
//
//   - cache-prepopulated: the monitor writes a valid one-rule list per id;
//   - after-real-refresh: an earlier instance with the same pattern list
//     and http lists under the same ids refreshed successfully;
//   - patterns-changed: an earlier instance with the same locations but a
//     pattern list that allows the whole tree refreshed them; then every
//     tree file gets new content (so that a read by the instance under test
//     is distinguishable from the cache) and the instance under test starts
//     with the tightened (possibly empty) pattern list.
//
// The oracle is the one of the plain refresh, for the patterns of the
// instance in force; "taken" means that the cached file was replaced.
func (e *c17Env) refreshBatch(rng *rand.Rand, cfg c17Cfg, locs []c17Loc, whites []bool, mode string) {
	rep := e.rep
	dataDir, err := e.newWork()
	if err != nil {
		rep.Inconcl("could not create a data directory: " + err.Error())
		return
	}
	defer c17RemoveWork(dataDir)
	// Locations derived from this very data directory.
	locs = append([]c17Loc(nil), locs...)
	whites = append([]bool(nil), whites...)
	for i, l := range e.extraLocs(rng, dataDir, verifkit.Pick(1, 2)) {
		locs = append(locs, l)
		whites = append(whites, i%3 == 0)
	}
	mkLists := func(urlOf func(i int) string) (filters, allow []FilterYAML) {
		for i := range locs {
			f := FilterYAML{Enabled: true, URL: urlOf(i), Name: fmt.Sprintf("hand-edited %d", i), Filter: Filter{ID: 1000 + i}}
			if whites[i] {
				allow = append(allow, f)
			} else {
				filters = append(filters, f)
			}
		}
		return filters, allow
	}
	entryName := "refresh"
	rounds := 2
	if mode != "" {
		entryName = "refresh(restart:" + mode + ")"
		rounds = 1
	}
	refreshBoth := func(in *c17Inst) (sts []int, bodies []string) {
		for _, w := range []bool{false, true} {
			st, body := in.call(http.MethodPost, "/control/filtering/refresh", map[string]any{"whitelist": w})
			sts, bodies = append(sts, st), append(bodies, body)
		}
		return sts, bodies
	}
	switch mode {
	case "cache-prepopulated":
		err = os.MkdirAll(filepath.Join(dataDir, filterDir), 0o755)
		for i := 0; err == nil && i < len(locs); i++ {
			err = os.WriteFile(c17CacheFile(dataDir, 1000+i),
				[]byte(fmt.Sprintf("! Title: cached %d\n||cache-%d.example^\n", i, i)), 0o644)
		}
		if err != nil {
			rep.Inconcl("could not pre-populate a data directory: " + err.Error())
			return
		}
	case "after-real-refresh", "patterns-changed":
		cfg1 := cfg
		urlOf := func(i int) string { return locs[i].S }
		if mode == "after-real-refresh" {
			urls := make([]string, len(locs))
			for i := range urls {
				urls[i], _ = e.nextCtl()
			}
			urlOf = func(i int) string { return urls[i] }
		} else {
			cfg1 = c17Cfg{Kind: cfg.Kind, Patterns: append(e.tr.c17AllPatterns(), cfg.Patterns...)}
		}
		f1, a1 := mkLists(urlOf)
		in1, err := e.newInstAt(cfg1, f1, a1, dataDir)
		if err != nil && cfg.Kind == "malformed-pattern" {
			rep.Event("malformed_pattern_lists_refused_at_start")
			return
		} else if err != nil {
			rep.Inconcl("filtering.New for the first instance of a restart batch failed: " + err.Error())
			return
		}
		refreshBoth(in1)
		in1.d.Close()
		if mode == "patterns-changed" {
			if err = e.tr.bump(); err != nil {
				rep.Inconcl("could not rewrite the tree files: " + err.Error())
				return
			}
		}
	}
	prior := map[int][]byte{}
	if mode != "" {
		for i := range locs {
			if b, err := os.ReadFile(c17CacheFile(dataDir, 1000+i)); err == nil {
				prior[1000+i] = b
				rep.Event("cached_list_files_present_at_restart")
			}
		}
	}
	filters, allow := mkLists(func(i int) string { return locs[i].S })
	in, err := e.newInstAt(cfg, filters, allow, dataDir)
	if err != nil {
		if cfg.Kind == "malformed-pattern" {
			rep.Event("malformed_pattern_lists_refused_at_start")
			return
		}
		rep.Inconcl("filtering.New for a refresh batch failed: " + err.Error())
		return
	}
	defer in.close()
	rep.Event("refresh_batches")
	if mode != "" {
		rep.Event("restart_batches:" + mode)
	}
	var ctl []string
	for _, l := range locs {
		if l.CtlHost != "" {
			ctl = append(ctl, l.CtlHost)
		}
	}
	for round := 1; round <= rounds; round++ {
		sts, bodies := refreshBoth(in)
		entries := in.status()
		stored := in.storedContent()
		hits := in.probe(ctl...)
		for i, l := range locs {
			if round == 2 && i%4 != 0 {
				continue // the second refresh is evaluated for a quarter of the locations
			}
			ex := c17Oracle(cfg.Patterns, e.tr.cwd, l.S)
			ob := &c17Obs{Entry: entryName, Whitelist: whites[i]}
			if round == 2 {
				ob.Entry = "refresh(second)"
			}
			wi := 0
			if whites[i] {
				wi = 1
			}
			ob.Statuses, ob.Bodies = []int{sts[wi]}, []string{c17Trunc(bodies[wi])}
			id := 1000 + i
			for _, en := range entries {
				if en.ID == id && en.URL == l.S {
					ob.Listed, ob.RulesCount = true, en.RulesCount
				}
			}
			ob.StoredFiles = map[string][]int{}
			for p, ns := range stored {
				if filepath.Base(p) == strconv.Itoa(id)+".txt" || strings.HasPrefix(filepath.Base(p), strconv.Itoa(id)+".") {
					ob.StoredFiles[p] = ns
				}
			}
			ob.CheckHost = map[string][]int{}
			for h, ids := range hits {
				for _, hid := range ids {
					if hid == id {
						ob.CheckHost[h] = ids
					}
				}
			}
			ob.BodyFiles = in.bodyFiles(bodies)
			// At refresh nothing is "accepted" by a status code; the list
			// counts as taken when it has rules or a stored file.
			ob.Accepted = ob.RulesCount > 0 || len(ob.StoredFiles) > 0
			lj := l
			if mode != "" {
				// After a restart the rule count and the stored file may
				// come from the cache; the list counts as taken when the
				// cached file was replaced by this refresh.
				cur, rerr := os.ReadFile(c17CacheFile(in.dataDir, id))
				old, had := prior[id]
				changed := (rerr == nil) != had || (rerr == nil && !bytes.Equal(cur, old))
				ob.CacheChanged, ob.CachedBefore = &changed, &had
				if !changed {
					ob.RulesCount = 0
				} else {
					rep.Event("cached_list_files_replaced_by_refresh_after_restart")
				}
				ob.Accepted = changed || len(ob.StoredFiles) > 0
				if mode == "patterns-changed" {
					// The http control has the same content as its cache:
					// it is not fetched "anew" observably.
					lj.CtlHost = ""
				}
				if had && !ex.IsHTTP && !ex.Liberal {
					rep.Event("restart_cases:cached_list_whose_location_is_outside_patterns")
				}
			}
			in.judgeRefresh(lj, ex, ob)
		}
		// Content that cannot be attributed to a list id still must be
		// inside the patterns.
		for p, ns := range stored {
			for _, n := range ns {
				if !in.allowed[n] {
					base := filepath.Base(p)
					attributed := false
					for i := range locs {
						if strings.HasPrefix(base, strconv.Itoa(1000+i)+".") {
							attributed = true
						}
					}
					if !attributed {
						e.rep.Violate("unsafe-read:refresh:unattributed", "content of a file outside the patterns in "+p,
							map[string]any{"safe_fs_patterns": cfg.Patterns, "file": in.fileByN(n), "stored_in": p, "batch": locs, "restart_mode": mode})
					}
				}
			}
		}
		for h, ids := range hits {
			if f := in.hostFile(h); f != nil && !in.allowed[f.N] {
				attributed := false
				for _, hid := range ids {
					if hid >= 1000 && hid < 1000+len(locs) {
						attributed = true
					}
				}
				if !attributed {
					e.rep.Violate("unsafe-read:refresh:unattributed", "CheckHost matches the rule of a file outside the patterns",
						map[string]any{"safe_fs_patterns": cfg.Patterns, "file": f, "list_ids": ids, "batch": locs, "restart_mode": mode})
				}
			}
		}
	}
}

// configuredEntryOps covers entries that are ALREADY in the configuration
// (hand-written, kept from before a pattern change or a schema upgrade) and
// DISABLED, and the set_url requests that make the server read them without
// the location being edited.  Phases, each for every entry of the batch and
// followed by one observation of the whole instance:
//
//  1. set_url(enable-configured): url == data.url, enabled=true (what the
//     enable checkbox sends);
//  2. set_url(toggle-off-on): enabled=false, then enabled=true again;
//  3. set_url(rename-only): a new name, same url, enabled=true;
//  4. set_url(respelled): data.url is another spelling of the same place.
//
// With prepopulate, a cached file for every list id is in the data directory
// before the instance starts.  The oracle is the one of refresh: the list
// counts as taken when it has got a stored file (or its cached file was
// replaced); the status codes of the requests are not judged, because
// nothing says that renaming or disabling such an entry must be refused.
func (e *c17Env) configuredEntryOps(rng *rand.Rand, cfg c17Cfg, locs []c17Loc, whites []bool, prepopulate bool) {
	rep := e.rep
	dataDir, err := e.newWork()
	if err != nil {
		rep.Inconcl("could not create a data directory: " + err.Error())
		return
	}
	defer c17RemoveWork(dataDir)
	locs = append([]c17Loc(nil), locs...)
	whites = append([]bool(nil), whites...)
	for i, l := range e.extraLocs(rng, dataDir, 1) {
		if l.Class == "inst-plain" || i%2 == 0 {
			locs = append(locs, l)
			whites = append(whites, i%3 == 0)
		}
	}
	var filters, allow []FilterYAML
	for i, l := range locs {
		f := FilterYAML{Enabled: false, URL: l.S, Name: fmt.Sprintf("configured %d", i), Filter: Filter{ID: 1000 + i}}
		if whites[i] {
			allow = append(allow, f)
		} else {
			filters = append(filters, f)
		}
	}
	prior := map[int][]byte{}
	if prepopulate {
		if err = os.MkdirAll(filepath.Join(dataDir, filterDir), 0o755); err != nil {
			rep.Inconcl(err.Error())
			return
		}
		for i := range locs {
			b := []byte(fmt.Sprintf("! Title: cached %d\n||cache-%d.example^\n", i, i))
			if err = os.WriteFile(c17CacheFile(dataDir, 1000+i), b, 0o644); err != nil {
				rep.Inconcl(err.Error())
				return
			}
			prior[1000+i] = b
		}
	}
	in, err := e.newInstAt(cfg, filters, allow, dataDir)
	if err != nil {
		if cfg.Kind == "malformed-pattern" {
			rep.Event("malformed_pattern_lists_refused_at_start")
			return
		}
		rep.Inconcl("filtering.New for a batch of configured entries failed: " + err.Error())
		return
	}
	defer in.d.Close()
	rep.Event("configured_entry_batches")
	cur := make([]string, len(locs)) // current url of every entry
	for i, l := range locs {
		cur[i] = l.S
	}
	var ctl []string
	for _, l := range locs {
		if l.CtlHost != "" {
			ctl = append(ctl, l.CtlHost)
		}
	}
	set := func(i int, newURL, name string, enabled bool) int {
		st, _ := in.call(http.MethodPost, "/control/filtering/set_url", map[string]any{"url": cur[i], "whitelist": whites[i],
			"data": map[string]any{"name": name, "url": newURL, "enabled": enabled}})
		if c17OK(st) {
			cur[i] = newURL
		}
		return st
	}
	evaluate := func(entry string, sts []int) {
		entries := in.status()
		stored := in.storedContent()
		hits := in.probe(ctl...)
		for i, l := range locs {
			lj := l
			lj.S = cur[i]
			ex := c17Oracle(cfg.Patterns, e.tr.cwd, lj.S)
			ob := &c17Obs{Entry: entry, Whitelist: whites[i], Statuses: []int{sts[i]}}
			id := 1000 + i
			for _, en := range entries {
				if en.ID == id {
					ob.Listed, ob.RulesCount = true, en.RulesCount
				}
			}
			ob.StoredFiles = map[string][]int{}
			for p, ns := range stored {
				if strings.HasPrefix(filepath.Base(p), strconv.Itoa(id)+".") {
					ob.StoredFiles[p] = ns
				}
			}
			ob.CheckHost = map[string][]int{}
			for h, ids := range hits {
				for _, hid := range ids {
					if hid == id {
						ob.CheckHost[h] = ids
					}
				}
			}
			curB, rerr := os.ReadFile(c17CacheFile(in.dataDir, id))
			old, had := prior[id]
			changed := (rerr == nil) != had || (rerr == nil && !bytes.Equal(curB, old))
			ob.CacheChanged, ob.CachedBefore = &changed, &had
			if !changed {
				ob.RulesCount = 0
			}
			ob.Accepted = changed || len(ob.StoredFiles) > 0
			if !ex.IsHTTP && !ex.Liberal {
				rep.Event("configured_disabled_entries_outside_patterns_enabled_through_set_url")
			}
			in.judgeRefresh(lj, ex, ob)
		}
		for p, ns := range stored {
			for _, n := range ns {
				own := false
				for i := range locs {
					if strings.HasPrefix(filepath.Base(p), strconv.Itoa(1000+i)+".") {
						own = true
					}
				}
				if !own && !in.allowed[n] {
					rep.Violate("unsafe-read:"+entry+":unattributed", "content of a file outside the patterns in "+p,
						map[string]any{"safe_fs_patterns": cfg.Patterns, "file": in.fileByN(n), "stored_in": p})
				}
			}
		}
	}
	sts := make([]int, len(locs))
	// 1. Enable, location untouched.
	for i := range locs {
		sts[i] = set(i, cur[i], fmt.Sprintf("configured %d", i), true)
	}
	evaluate("set_url(enable-configured)", sts)
	// 2. Off and on again.
	for i := range locs {
		set(i, cur[i], fmt.Sprintf("configured %d", i), false)
		sts[i] = set(i, cur[i], fmt.Sprintf("configured %d", i), true)
	}
	evaluate("set_url(toggle-off-on)", sts)
	// 3. A new name only.
	for i := range locs {
		sts[i] = set(i, cur[i], fmt.Sprintf("renamed %d", i), true)
	}
	evaluate("set_url(rename-only)", sts)
	// 4. Another spelling of the same place.
	for i, l := range locs {
		ns := cur[i]
		switch {
		case c17IsHTTP(ns):
			ns += "?v=2"
		case filepath.IsAbs(ns) && !strings.ContainsAny(ns, "\x00\n\r"):
			ns = filepath.Dir(ns) + "/./" + filepath.Base(ns)
			if strings.HasSuffix(l.S, "/") {
				ns += "/"
			}
		}
		sts[i] = set(i, ns, fmt.Sprintf("renamed %d", i), true)
	}
	evaluate("set_url(respelled)", sts)
}

// judgeRefresh is judge without the status-code expectations that only make
// sense for add/set (the refresh call itself answers 200 for the batch).
func (in *c17Inst) judgeRefresh(loc c17Loc, ex c17Expect, ob *c17Obs) {
	sts := ob.Statuses
	ob.Statuses = nil
	in.judge(loc, ex, ob)
	ob.Statuses = sts
}

// ---------------------------------------------------------------------------
// Driver
// ---------------------------------------------------------------------------

// c17PipeListener accepts the server ends of in-memory connections.
type c17PipeListener struct {
	conns chan net.Conn
	done  chan struct{}
}

func (l *c17PipeListener) Accept() (net.Conn, error) {
	select {
	case c := <-l.conns:
		return c, nil
	case <-l.done:
		return nil, net.ErrClosed
	}
}

func (l *c17PipeListener) Close() error {
	select {
	case <-l.done:
	default:
		close(l.done)
	}
	return nil
}

func (l *c17PipeListener) Addr() net.Addr { return &net.TCPAddr{IP: net.IPv4(127, 0, 0, 1), Port: 80} }

// c17ControlServer starts the http server of the positive controls.  It is
// reached through a real http.Transport (so that scheme handling is the
// standard one) whose dialer hands out in-memory connections: thousands of
// list downloads then need no sockets (a loopback listener ran the host out
// of ephemeral ports).  Every host name leads to this server.
func c17ControlServer() (tp *http.Transport, stop func()) {
	l := &c17PipeListener{conns: make(chan net.Conn), done: make(chan struct{})}
	srv := &http.Server{Handler: http.HandlerFunc(func(w http.ResponseWriter, r *http.Request) {
		if strings.HasPrefix(r.URL.Path, "/ok/") && strings.HasSuffix(r.URL.Path, ".txt") {
			n := strings.TrimSuffix(strings.TrimPrefix(r.URL.Path, "/ok/"), ".txt")
			if _, err := strconv.Atoi(n); err == nil {
				_, _ = fmt.Fprintf(w, "! Title: control %s\n||ctl-%s.example^\n", n, n)
				return
			}
		}
		http.NotFound(w, r)
	})}
	go func() { _ = srv.Serve(l) }()
	tp = &http.Transport{
		Proxy: nil,
		DialContext: func(ctx context.Context, _, _ string) (net.Conn, error) {
			c, s := net.Pipe()
			select {
			case l.conns <- s:
				return c, nil
			case <-l.done:
				return nil, net.ErrClosed
			case <-ctx.Done():
				return nil, ctx.Err()
			}
		},
		TLSHandshakeTimeout: 2 * time.Second,
	}
	return tp, func() { tp.CloseIdleConnections(); _ = srv.Close(); _ = l.Close() }
}

// c17Locations generates the locations tried against one pattern list.
func (e *c17Env) c17Locations(rng *rand.Rand, cfg c17Cfg, nRandom int) (locs []c17Loc) {
	tr := e.tr
	var canaries, allowed []*c17File
	for _, f := range tr.files {
		if c17MatchAny(cfg.Patterns, f.Abs) {
			allowed = append(allowed, f)
		} else {
			canaries = append(canaries, f)
		}
	}
	allowedSample := tr.root + "/lists/a.txt"
	if len(allowed) > 0 {
		allowedSample = allowed[0].Abs
	}
	// Every file, plainly.
	for _, f := range tr.files {
		locs = append(locs, c17Loc{S: f.Abs, Class: "plain", Target: f.Abs})
	}
	// Spellings that match a pattern only before cleaning.
	var raw []c17Loc
	for _, p := range cfg.Patterns {
		for _, f := range canaries {
			for _, s := range tr.c17RawMatchOnly(p, f.Abs) {
				raw = append(raw, c17Loc{S: s, Class: "raw-match-only", Target: f.Abs})
			}
		}
	}
	rng.Shuffle(len(raw), func(i, j int) { raw[i], raw[j] = raw[j], raw[i] })
	if len(raw) > 24 {
		raw = raw[:24]
	}
	locs = append(locs, raw...)
	// Locations that contain glob metacharacters: the patterns of this very
	// list used as locations (plainly and dotted), and fixed would-be globs.
	// As file names they name nothing (or one file literally); a server that
	// expanded them would read every file they expand to.  Strings whose
	// expansion holds a FIFO are left out (an expanding server would block
	// for ever in a request that has no watchdog).
	var globs []string
	for _, p := range cfg.Patterns {
		if filepath.IsAbs(p) {
			d, b := filepath.Dir(p), filepath.Base(p)
			globs = append(globs, p, d+"/../"+filepath.Base(d)+"//./"+b)
		}
	}
	for _, g := range []string{"lists/*.txt", "lists/*", "lists/?.txt", "lists/[a-z].txt", "lists/{a,b}.txt", "*/*.txt", "secret/*.txt",
		"secret/c*", `lists/\*`, "cls/[!p].txt", "cls/*", "lists/sub/../*.txt", "cwd/*", "lists/../lists//./*.txt", "l*s/a.txt", "top.tx?",
		"lists/a.tx[s-u]", "inc/*.txt"} {
		globs = append(globs, tr.root+"/"+g)
	}
	globs = append(globs, "*.txt", "./*", "lists/*", "../secret/*.txt", "file://"+tr.root+"/lists/*.txt")
	rng.Shuffle(len(globs), func(i, j int) { globs[i], globs[j] = globs[j], globs[i] })
	nGlob := 0
	for _, g := range globs {
		exp, _ := filepath.Glob(c17CleanAbs(tr.cwd, g))
		fifo := false
		for _, x := range exp {
			if st, err := os.Lstat(x); err == nil && st.Mode()&os.ModeNamedPipe != 0 {
				fifo = true
			}
		}
		if fifo || nGlob >= verifkit.Pick(10, 40) {
			continue
		}
		nGlob++
		locs = append(locs, c17Loc{S: g, Class: "glob", Target: c17CleanAbs(tr.cwd, g)})
	}
	// Random spellings.
	for i := 0; i < nRandom; i++ {
		var target string
		switch r := rng.Intn(20); {
		case r < 13 && len(canaries) > 0:
			target = canaries[rng.Intn(len(canaries))].Abs
		case r < 18 && len(allowed) > 0:
			target = allowed[rng.Intn(len(allowed))].Abs
		case r < 19:
			target = tr.root + []string{"/lists/nope.txt", "/nope/a.txt", "/lists/sub/nope/a.txt", "/lists", "/secret/deep"}[rng.Intn(5)]
		default:
			target = tr.files[rng.Intn(len(tr.files))].Abs
		}
		class := c17RandomClasses[rng.Intn(len(c17RandomClasses))]
		locs = append(locs, c17Loc{S: tr.c17Spell(rng, class, target, e.ctlURL, allowedSample), Class: class, Target: target})
	}
	// System files (observed through status and rule count only).
	for _, s := range []string{"/etc/passwd", "/etc/hostname", tr.root + "/../../../../../../etc/passwd",
		"file:///etc/passwd", "../../../../../../../../../../../etc/passwd", "/proc/self/environ"} {
		locs = append(locs, c17Loc{S: s, Class: "system-file", Target: filepath.Clean(s)})
	}
	// http controls.
	for i := 0; i < 2; i++ {
		u, h := e.nextCtl()
		locs = append(locs, c17Loc{S: u, Class: "http-control", CtlHost: h})
	}
	u, _ := e.nextCtl()
	locs = append(locs, c17Loc{S: "HTTP" + strings.TrimPrefix(u, "http"), Class: "http-mixed-case"})
	// No duplicates (lists are keyed by their location).
	seen := map[string]bool{}
	out := locs[:0]
	for _, l := range locs {
		if !seen[l.S] && l.S != "" {
			seen[l.S] = true
			out = append(out, l)
		}
	}
	return out
}

func (e *c17Env) runConfig(rng *rand.Rand, cfg c17Cfg, nRandom int) {
	rep := e.rep
	rep.Class("config:" + cfg.Kind)
	locs := e.c17Locations(rng, cfg, nRandom)
	in, err := e.newInst(cfg, nil, nil)
	if err != nil && cfg.Kind == "malformed-pattern" {
		rep.Event("malformed_pattern_lists_refused_at_start")
		rep.EvalN(1)
		return
	} else if err != nil {
		rep.Inconcl("filtering.New failed for " + verifkit.JSON(cfg) + ": " + err.Error())
		return
	}
	if !in.addBases() {
		in.close()
		return
	}
	in.contentIndependence()
	in.fifoOps()
	in.mentionFifoOps()
	nAllowed := len(in.allowed)
	if len(rep.Samples) < 4 {
		rep.Sample(map[string]any{"safe_fs_patterns": cfg.Patterns, "tree_files_inside_patterns": nAllowed,
			"locations": len(locs), "first_decorated_locations": locs[len(e.tr.files):min(len(locs), len(e.tr.files)+5)]})
	}
	// The instance-derived places first (in every spelling), then the tree.
	own := e.extraLocs(rng, in.dataDir, 99)
	own = append(own, c17Loc{S: c17CacheFile(in.dataDir, in.baseID[false]), Class: "inst-plain",
		Target: c17CacheFile(in.dataDir, in.baseID[false])})
	for i, l := range append(own, locs...) {
		white := rng.Intn(3) == 0
		force := i%16 == 0
		in.opAdd(l, white, force)
		ok := in.opSet(l, white, false, force)
		if ok && (i%3 == 0 || l.Class == "plain" || l.Class == "raw-match-only" || strings.HasPrefix(l.Class, "inst-")) {
			ok = in.opSet(l, !white, true, force)
		}
		if !ok {
			// The base list could not be restored: start over with a new
			// instance.
			rep.Event("instances_rebuilt_after_failed_restore")
			in.close()
			in, err = e.newInst(cfg, nil, nil)
			if err != nil || !in.addBases() {
				rep.Inconcl("could not rebuild the DNSFilter for " + verifkit.JSON(cfg))
				return
			}
		}
	}
	// Final look at the long-lived instance.
	for h := range in.probe() {
		if f := in.hostFile(h); f != nil && !in.allowed[f.N] {
			rep.Violate("unsafe-read:final-probe", "after all operations CheckHost still matches the rule of a file outside the patterns",
				map[string]any{"safe_fs_patterns": cfg.Patterns, "file": f})
		}
	}
	in.close()

	// Refresh entry point, in batches.
	const batch = 24
	for at := 0; at < len(locs); at += batch {
		end := min(at+batch, len(locs))
		part := append([]c17Loc(nil), locs[at:end]...)
		// Every batch carries an http control so that a refresh that does
		// nothing at all is noticed.
		u, h := e.nextCtl()
		part = append(part, c17Loc{S: u, Class: "http-control", CtlHost: h})
		whites := make([]bool, len(part))
		for i := range whites {
			whites[i] = rng.Intn(3) == 0
		}
		e.refreshBatch(rng, cfg, part, whites, "")
		for _, mode := range c17RestartModes {
			e.refreshBatch(rng, cfg, part, whites, mode)
		}
		// Entries already in the configuration, disabled, and the set_url
		// requests that make the server read them (every other batch with
		// cached files present).
		e.configuredEntryOps(rng, cfg, part, whites, (at/batch)%2 == 1)
	}
}

func c17Run(t *testing.T, rep *verifkit.Report, strace bool) {
	log.SetOutput(io.Discard)
	rng := rep.Rand("main")

	// The name of the root has a fixed length: generated spellings depend on
	// string lengths, and the same seed must give the same cases.
	// The tree and the data directories live in the check's scratch directory
	// (tmpfs) when there is one: the product creates two temporary files per
	// refreshed list, which dominates the run time on a disk.
	base := os.Getenv("VERIF_SCRATCH")
	if st, serr := os.Stat(base); base == "" || serr != nil || !st.IsDir() {
		base = os.TempDir()
	}
	var root string
	var err error
	for k := 0; k < 1000; k++ {
		root = filepath.Join(base, fmt.Sprintf("TestVerifC17-%010d", (os.Getpid()*1000+k)%10000000000))
		if err = os.Mkdir(root, 0o755); err == nil {
			break
		}
	}
	if err != nil {
		t.Fatal(err)
	}
	t.Cleanup(func() { _ = os.RemoveAll(root) })
	if root, err = filepath.EvalSymlinks(root); err != nil {
		t.Fatal(err)
	}
	if strings.ContainsAny(root, "*?[\\ \n") {
		rep.Inconcl("temporary directory name contains glob meta characters: " + root)
		return
	}
	tr, err := c17BuildTree(filepath.Join(root, "t"))
	if err != nil {
		t.Fatal(err)
	}
	if err = tr.c17MakeObservers(); err != nil {
		t.Fatal(err)
	}
	scratch := filepath.Join(root, "scratch")
	if err = os.MkdirAll(scratch, 0o755); err != nil {
		t.Fatal(err)
	}
	t.Chdir(tr.cwd)
	tmpCanary := filepath.Join(os.TempDir(), "TestVerifC17-tmpcanary-"+strings.TrimPrefix(filepath.Base(root), "TestVerifC17-")+".txt")
	t.Cleanup(func() { _ = os.Remove(tmpCanary); _ = os.Remove(tmpCanary + ".c17tmp") })
	tp, stop := c17ControlServer()
	defer stop()
	env := &c17Env{t: t, rep: rep, tr: tr, ctlURL: "http://127.0.0.1:8053", transport: tp, scratch: scratch, strace: strace, tmpCanary: tmpCanary}
	rep.Assume("no symbolic links are involved (the tree is created by the monitor; the cleaned absolute path is the file)")
	rep.Assume("a read is recognised by content: every tree file holds a unique rule, looked for in stored list files, response bodies, rule counts and CheckHost")

	fixed, pool := c17PatternPool(tr.root)
	nRandomCfg := verifkit.Pick(5, 110)
	nRandomLoc := verifkit.Pick(30, 240)
	cfgs := append([]c17Cfg(nil), fixed...)
	for i := 0; i < nRandomCfg; i++ {
		n := 1 + rng.Intn(4)
		var ps []string
		for _, j := range rng.Perm(len(pool))[:n] {
			ps = append(ps, pool[j])
		}
		cfgs = append(cfgs, c17Cfg{Kind: fmt.Sprintf("random-%d-patterns", n), Patterns: ps})
	}
	for _, cfg := range cfgs {
		n := nRandomLoc
		if strings.HasPrefix(cfg.Kind, "match-syntax:") {
			n /= 3 // the plain paths of every file decide here
		}
		env.runConfig(rng, cfg, n)
	}

	// Conclusiveness.
	need := map[string]int{
		"reads_expected_and_observed":                                  50,
		"reads_observed_of_files_inside_patterns":                      50,
		"http_controls_accepted":                                       20,
		"unsafe_locations_refused":                                     1000,
		"checkhost_probes":                                             1000,
		"restart_cases:cached_list_whose_location_is_outside_patterns": 1000,
		"cached_list_files_replaced_by_refresh_after_restart":          100,
	}
	for k, n := range need {
		if rep.EventCount(k) < n {
			rep.Inconcl(fmt.Sprintf("event %q seen %d times, fewer than %d", k, rep.EventCount(k), n))
		}
	}
	for _, k := range []string{"match:raw-string-only", "match:cleaned-path-only", "entry:add_url", "entry:set_url",
		"entry:set_url(disabled-then-enabled)", "entry:refresh", "entry:refresh(second)",
		"entry:refresh(restart:cache-prepopulated)", "entry:refresh(restart:after-real-refresh)",
		"entry:refresh(restart:patterns-changed)",
		"entry:set_url(enable-configured)", "entry:set_url(toggle-off-on)", "entry:set_url(rename-only)", "entry:set_url(respelled)",
		"spelling:inst-plain/add_url", "spelling:inst-plain/set_url", "spelling:inst-plain/refresh",
		"spelling:inst-dotdot/add_url", "spelling:inst-dotdot/refresh(restart:cache-prepopulated)",
		"spelling:inst-plain/refresh(restart:patterns-changed)"} {
		if rep.ClassCount(k) < 30 {
			rep.Inconcl(fmt.Sprintf("class %q has only %d cases", k, rep.ClassCount(k)))
		}
	}
}

func TestVerifC17(t *testing.T) {
	rep := verifkit.New("C17", "paths",
		"case = (safe_fs_patterns list, location string, entry point in {add_url, set_url, set_url on a disabled list then enabling it, refresh of a list written into the configuration, second refresh, and the same refresh after a restart on a data directory that already holds cached files for the list ids: written by the monitor / left by an earlier instance that refreshed http lists under those ids / left by an earlier instance with a wider pattern list and the same locations}); the operation runs against a real DNSFilter (captured HTTP handlers) over a tree of 56 files that each hold a unique rule and whose text names neighbouring files in include-like syntaxes (plus FIFOs and HTML/binary files outside the patterns as content-independent observers at add_url/set_url); content of a file may become observable (stored list file, response body, rule count, CheckHost) only if its cleaned absolute path matches a pattern by filepath.Match; non-trivial = some reading of the location names an existing file; distinct by (entry point, patterns, location, block/allow)")
	defer func() {
		if err := rep.Write(); err != nil {
			t.Fatal(err)
		}
	}()
	c17Run(t, rep, os.Getenv("C17_STRACE_CHILD") == "1")
}
