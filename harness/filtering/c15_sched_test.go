//go:build verif && goexperiment.synctest

package filtering

import (
	"fmt"
	"os"
	"path/filepath"
	"testing"
	"testing/synctest"
	"time"

	"github.com/AdguardTeam/AdGuardHome/internal/verifkit"
)

// TestVerifC15Scheduled runs the refresh sequences on virtual time: every
// DNSFilter lives in a synctest bubble with Start() called, its update timer
// fires the scheduled refreshes (first after 5 s, then hourly), list sources
// are an in-memory RoundTripper and local files.  The steps, snapshots and
// oracle are the ones of TestVerifC15Refresh.
func TestVerifC15Scheduled(t *testing.T) {
	rep := verifkit.New("C15", "scheduled",
		"case = (list, timer-driven refresh) of a sequence of 3-10 scheduled refreshes of one DNSFilter running its own update loop on virtual time; same snapshots and oracle as the part refresh; non-trivial = the list was addressed (every enabled list is, at every tick); distinct by (behaviour, served text, cut offset, stored content before)")
	defer func() {
		if err := rep.Write(); err != nil {
			t.Fatal(err)
		}
	}()
	root, err := os.MkdirTemp(os.Getenv("VERIF_SCRATCH"), "c15s-")
	if err != nil {
		rep.Inconcl("no scratch directory: " + err.Error())

		return
	}
	defer func() { _ = os.RemoveAll(root) }()
	if root, err = filepath.EvalSymlinks(root); err != nil {
		rep.Inconcl(err.Error())

		return
	}
	env := &c15Env{rep: rep, script: c15NewScript(), root: root, mem: true}
	env.waitTick = func(q *c15Seq) map[string]any {
		// Let virtual time run until the product's timer has fired a refresh
		// (seen as a request to the in-memory source) and the update loop is
		// idle again.
		start, h0 := time.Now(), env.script.totalHits()
		for i := 0; i < 100000; i++ {
			if i < 12 {
				time.Sleep(5 * time.Second)
			} else {
				time.Sleep(time.Minute)
			}
			synctest.Wait()
			if env.script.totalHits() > h0 {
				rep.Event("timer_fired_refreshes")

				return map[string]any{"virtual_time_waited": time.Since(start).String()}
			}
		}
		rep.Inconcl("the update timer did not fire within 1600 virtual hours")

		return map[string]any{"timer": "never fired"}
	}

	nSeq := verifkit.Pick(150, 2000)
	for n := 0; n < nSeq; n++ {
		synctest.Run(func() {
			q, err := c15NewSeq(env, n)
			if err != nil {
				rep.Inconcl("cannot build a DNSFilter: " + err.Error())

				return
			}
			defer q.close()
			if n < 2 {
				rep.Sample(q.describe())
			}
			rep.Class("sequences")
			if !q.checkStart() {
				return
			}
			steps := 3 + q.rng.Intn(8)
			for si := 0; si < steps; si++ {
				if !q.step(si) {
					rep.Event("sequences_abandoned")

					break
				}
			}
			q.checkRestart()
		})
		if len(rep.Inconclusive) > 0 {
			break
		}
	}
	if !rep.Violated() {
		for _, k := range []string{"outcome:failed-and-nothing-changed", "outcome:new-content-stored-in-normal-form"} {
			if rep.ClassCount(k) < nSeq/2 {
				rep.Inconcl(fmt.Sprintf("only %d observations of %q", rep.ClassCount(k), k))
			}
		}
		if rep.EventCount("timer_fired_refreshes") < nSeq {
			rep.Inconcl(fmt.Sprintf("the product's timer fired only %d refreshes", rep.EventCount("timer_fired_refreshes")))
		}
	}
}
