//go:build verif

package schedule

import (
	"strconv"
	"math/big"
	"encoding/json"
	"fmt"
	"math/rand"
	"os"
	"path/filepath"
	"sort"
	"strings"
	"testing"
	"time"

	"github.com/AdguardTeam/AdGuardHome/internal/verifkit"
	"gopkg.in/yaml.v3"
)

// c18Sched is the monitor's own representation of a weekly schedule: per
// weekday a [start, end) range in whole minutes from local midnight.
type c18Sched struct {
	Zone  string `json:"zone"`
	Start [7]int `json:"start_min"`
	End   [7]int `json:"end_min"`
}

var c18DayKeys = [7]string{"sun", "mon", "tue", "wed", "thu", "fri", "sat"}

// json renders the schedule in the API's JSON form (milliseconds).
func (s c18Sched) json() []byte {
	m := map[string]any{"time_zone": s.Zone}
	for d := 0; d < 7; d++ {
		if s.Start[d] == 0 && s.End[d] == 0 {
			continue
		}
		m[c18DayKeys[d]] = map[string]any{
			"start": int64(s.Start[d]) * 60000,
			"end":   int64(s.End[d]) * 60000,
		}
	}
	b, _ := json.Marshal(m)
	return b
}

// yaml renders the schedule in the configuration file's YAML form.
func (s c18Sched) yaml() []byte {
	var sb strings.Builder
	fmt.Fprintf(&sb, "time_zone: %s\n", s.Zone)
	for d := 0; d < 7; d++ {
		if s.Start[d] == 0 && s.End[d] == 0 {
			continue
		}
		fmt.Fprintf(&sb, "%s:\n  start: %s\n  end: %s\n", c18DayKeys[d],
			time.Duration(s.Start[d])*time.Minute, time.Duration(s.End[d])*time.Minute)
	}
	return []byte(sb.String())
}

// want is the oracle: wall-clock time of day on its weekday in the zone.
func (s c18Sched) want(t time.Time, loc *time.Location) bool {
	lt := t.In(loc)
	h, m, sec := lt.Clock()
	off := time.Duration(h)*time.Hour + time.Duration(m)*time.Minute +
		time.Duration(sec)*time.Second + time.Duration(lt.Nanosecond())
	wd := int(lt.Weekday())
	return time.Duration(s.Start[wd])*time.Minute <= off && off < time.Duration(s.End[wd])*time.Minute
}

func c18Zones(t *testing.T) []string {
	var zones []string
	root := "/usr/share/zoneinfo"
	_ = filepath.Walk(root, func(p string, info os.FileInfo, err error) error {
		if err != nil {
			return nil
		}
		rel, _ := filepath.Rel(root, p)
		if info.IsDir() {
			if rel == "posix" || rel == "right" {
				return filepath.SkipDir
			}
			return nil
		}
		if strings.Contains(rel, ".") || rel == "leapseconds" || rel == "posixrules" ||
			rel == "localtime" || rel == "Factory" {
			return nil
		}
		if c := rel[0]; c < 'A' || c > 'Z' {
			return nil
		}
		if _, lerr := time.LoadLocation(rel); lerr == nil {
			zones = append(zones, rel)
		}
		return nil
	})
	sort.Strings(zones)
	// Zones every run must contain (half-hour offsets, midnight switches),
	// when the host has them.
	return zones
}

// c18Transitions returns the instants in [from, to) where the UTC offset of
// loc changes.
func c18Transitions(loc *time.Location, from, to time.Time) []time.Time {
	var out []time.Time
	_, prev := from.In(loc).Zone()
	for t := from; t.Before(to); t = t.Add(6 * time.Hour) {
		n := t.Add(6 * time.Hour)
		_, off := n.In(loc).Zone()
		if off == prev {
			continue
		}
		// Bisect to the second.
		lo, hi := t, n
		for hi.Sub(lo) > time.Second {
			mid := lo.Add(hi.Sub(lo) / 2).Truncate(time.Second)
			if _, o := mid.In(loc).Zone(); o == prev {
				lo = mid
			} else {
				hi = mid
			}
		}
		out = append(out, hi)
		prev = off
	}
	return out
}

func c18RandSched(rng *rand.Rand, zone string) c18Sched {
	s := c18Sched{Zone: zone}
	for d := 0; d < 7; d++ {
		switch rng.Intn(10) {
		case 0: // empty
		case 1, 2: // full day
			s.Start[d], s.End[d] = 0, 1440
		case 3: // starts at midnight
			s.Start[d], s.End[d] = 0, 1+rng.Intn(1440)
		case 4: // ends at midnight
			s.Start[d], s.End[d] = rng.Intn(1440), 1440
		case 5: // around the usual DST hours
			a := rng.Intn(240)
			s.Start[d], s.End[d] = a, a+1+rng.Intn(240)
		default:
			a := rng.Intn(1439)
			s.Start[d], s.End[d] = a, a+1+rng.Intn(1440-a)
		}
	}
	return s
}

func TestVerifC18(t *testing.T) {
	rep := verifkit.New("C18", "contains",
		"case = (time zone, weekly schedule, instant); Contains(instant) of a Weekly built through UnmarshalJSON/UnmarshalYAML is compared with wall-clock membership; non-trivial = instant lies on a local day with a UTC-offset transition, or within one minute of a range edge or of local midnight; distinct by (zone, schedule, instant)")
	defer func() {
		if err := rep.Write(); err != nil {
			t.Fatal(err)
		}
	}()
	rng := rep.Rand("main")

	zones := c18Zones(t)
	rep.EventN("zones_on_host", len(zones))
	if len(zones) < 50 {
		rep.Inconcl(fmt.Sprintf("only %d time zones loadable on this host", len(zones)))
		return
	}
	must := []string{"America/New_York", "Europe/London", "Australia/Lord_Howe", "Asia/Kolkata",
		"Asia/Kathmandu", "America/Havana", "America/Santiago", "Asia/Beirut", "America/Asuncion",
		"Africa/Cairo", "Pacific/Chatham", "America/St_Johns", "Europe/Berlin", "UTC",
		"America/Sao_Paulo", "Asia/Tehran", "Pacific/Apia", "Asia/Gaza", "America/Scoresbysund"}
	nz := verifkit.Pick(150, len(zones))
	chosen := map[string]bool{}
	var order []string
	for _, z := range must {
		if _, err := time.LoadLocation(z); err == nil && !chosen[z] {
			chosen[z] = true
			order = append(order, z)
		}
	}
	perm := rng.Perm(len(zones))
	for _, i := range perm {
		if len(order) >= nz {
			break
		}
		if !chosen[zones[i]] {
			chosen[zones[i]] = true
			order = append(order, zones[i])
		}
	}

	from := time.Date(2020, 1, 1, 0, 0, 0, 0, time.UTC)
	to := time.Date(2031, 1, 1, 0, 0, 0, 0, time.UTC)
	schedPerZone := verifkit.Pick(3, 6)
	instPerTransition := verifkit.Pick(60, 400)
	randomInst := verifkit.Pick(300, 3000)
	maxTransitions := verifkit.Pick(8, 1000)

	for _, zone := range order {
		loc, err := time.LoadLocation(zone)
		if err != nil {
			continue
		}
		trs := c18Transitions(loc, from, to)
		rep.EventN("offset_transitions_found", len(trs))
		if len(trs) > 0 {
			rep.Class("zone_with_transitions")
		} else {
			rep.Class("zone_without_transitions")
		}
		trDays := map[string]bool{}
		for _, tr := range trs {
			for _, d := range []time.Duration{-time.Second, 0} {
				y, m, dd := tr.Add(d).In(loc).Date()
				trDays[fmt.Sprintf("%d-%d-%d", y, m, dd)] = true
			}
		}
		if len(trs) > maxTransitions {
			rng.Shuffle(len(trs), func(i, j int) { trs[i], trs[j] = trs[j], trs[i] })
			trs = trs[:maxTransitions]
		}
		for si := 0; si < schedPerZone; si++ {
			s := c18RandSched(rng, zone)
			var w Weekly
			viaYAML := si%2 == 1
			if viaYAML {
				err = yaml.Unmarshal(s.yaml(), &w)
			} else {
				err = json.Unmarshal(s.json(), &w)
			}
			if err != nil {
				rep.Violate("valid-schedule-rejected", "a valid schedule was rejected: "+err.Error(),
					map[string]any{"schedule": s, "via_yaml": viaYAML})
				continue
			}
			rep.Class("schedules")
			if si == 0 {
				rep.Sample(map[string]any{"schedule": s, "transitions_sampled": len(trs)})
			}
			check := func(inst time.Time, why string) {
				got := w.Contains(inst)
				want := s.want(inst, loc)
				lt := inst.In(loc)
				y, m, dd := lt.Date()
				onTr := trDays[fmt.Sprintf("%d-%d-%d", y, m, dd)]
				h, mi, _ := lt.Clock()
				minOfDay := h*60 + mi
				wd := int(lt.Weekday())
				nearEdge := minOfDay == 0 || minOfDay == 1439 ||
					abs(minOfDay-s.Start[wd]) <= 1 || abs(minOfDay-s.End[wd]) <= 1
				nontrivial := onTr || nearEdge
				rep.Eval(nontrivial, fmt.Sprintf("%s|%v|%v|%d", zone, s.Start, s.End, inst.UnixNano()))
				if onTr {
					rep.Class("instants_on_transition_days")
				}
				if got != want {
					class := "ordinary-day"
					if onTr {
						class = "offset-transition-day"
					}
					rep.Violate("contains-mismatch:"+class,
						fmt.Sprintf("Contains=%v but wall clock %s (%s) in %s is %sin that day's range", got,
							lt.Format("2006-01-02 15:04:05.999999999 -0700"), lt.Weekday(), zone, map[bool]string{true: "", false: "not "}[want]),
						map[string]any{"schedule": s, "instant_utc": inst.UTC().Format(time.RFC3339Nano),
							"local": lt.Format(time.RFC3339Nano), "weekday": lt.Weekday().String(),
							"got": got, "want": want, "generated_as": why, "via_yaml": viaYAML})
				}
			}
			for _, tr := range trs {
				for _, d := range []time.Duration{-time.Minute, -time.Nanosecond, 0, time.Nanosecond, time.Minute,
					-time.Hour, time.Hour, -24 * time.Hour, 24 * time.Hour} {
					check(tr.Add(d), "transition edge")
				}
				for i := 0; i < instPerTransition; i++ {
					d := time.Duration(rng.Int63n(int64(72*time.Hour))) - 36*time.Hour
					check(tr.Add(d), "around transition")
				}
				// Range edges and midnights of the local days around the transition.
				for dayOff := -1; dayOff <= 1; dayOff++ {
					y, m, dd := tr.In(loc).Date()
					for _, minute := range []int{0, 1, 1439} {
						for _, ns := range []time.Duration{-1, 0, 1} {
							check(time.Date(y, m, dd+dayOff, 0, minute, 0, 0, loc).Add(ns), "midnight edge")
						}
					}
					wd := int(time.Date(y, m, dd+dayOff, 12, 0, 0, 0, loc).Weekday())
					for _, e := range []int{s.Start[wd], s.End[wd]} {
						for _, ns := range []time.Duration{-time.Minute, -1, 0, 1, time.Minute} {
							check(time.Date(y, m, dd+dayOff, e/60, e%60, 0, 0, loc).Add(ns), "range edge")
						}
					}
				}
			}
			for i := 0; i < randomInst; i++ {
				inst := from.Add(time.Duration(rng.Int63n(int64(to.Sub(from)))))
				switch rng.Intn(4) {
				case 0: // snap to a range edge of its day
					lt := inst.In(loc)
					wd := int(lt.Weekday())
					e := s.Start[wd]
					if rng.Intn(2) == 0 {
						e = s.End[wd]
					}
					y, m, dd := lt.Date()
					inst = time.Date(y, m, dd, e/60, e%60, 0, 0, loc).Add(time.Duration(rng.Intn(3) - 1))
				case 1:
					lt := inst.In(loc)
					y, m, dd := lt.Date()
					inst = time.Date(y, m, dd, 0, 0, 0, 0, loc).Add(time.Duration(rng.Intn(3) - 1))
				}
				check(inst, "random")
			}
			// Instants far from today: around the Unix epoch and before it (a
			// device without a clock battery boots there), around the ends of
			// the 32-bit second counters, and in distant years.
			for _, base := range []time.Time{
				time.Unix(0, 0), time.Unix(0, 0).Add(-time.Duration(rng.Int63n(int64(72 * time.Hour)))), time.Unix(0, 0).Add(time.Duration(rng.Int63n(int64(72 * time.Hour)))),
				time.Date(1969, 7, 20, 20, 17, 0, 0, time.UTC), time.Date(1955+rng.Intn(14), time.Month(1+rng.Intn(12)), 1+rng.Intn(28), rng.Intn(24), rng.Intn(60), 0, 0, time.UTC),
				time.Date(1901, 12, 13, 20, 45, 52, 0, time.UTC), time.Date(1+rng.Intn(1800), 3, 1, 12, 0, 0, 0, time.UTC),
				time.Unix(1<<31-1, 0), time.Unix(1<<31, 0), time.Unix(1<<32, 0), time.Date(2200+rng.Intn(7000), 6, 15, rng.Intn(24), 30, 0, 0, time.UTC),
			} {
				for _, d := range []time.Duration{-time.Second, -1, 0, 1, time.Duration(rng.Int63n(int64(24 * time.Hour)))} {
					check(base.Add(d), "far from today")
					rep.Event("instants_far_from_today")
				}
			}
		}
	}
	c18RoundTrips(rep, order)
	c18Invalid(rep)
	c18Huge(rep)
}

func abs(a int) int {
	if a < 0 {
		return -a
	}
	return a
}

// c18RoundTrips checks JSON and YAML round trips: decode, encode, decode
// again; the two decoded schedules must be equal and must encode to the same
// bytes, and the JSON->YAML->JSON route must not change the schedule either.
func c18RoundTrips(rep *verifkit.Report, zones []string) {
	rng := rep.Rand("roundtrip")
	n := verifkit.Pick(600, 6000)
	for i := 0; i < n; i++ {
		zone := zones[rng.Intn(len(zones))]
		s := c18RandSched(rng, zone)
		var w1, w2, w3, w4 Weekly
		if err := json.Unmarshal(s.json(), &w1); err != nil {
			rep.Violate("valid-schedule-rejected", "json: "+err.Error(), s)
			continue
		}
		j1, err := json.Marshal(&w1)
		if err != nil {
			rep.Violate("roundtrip:marshal-json", err.Error(), s)
			continue
		}
		if err = json.Unmarshal(j1, &w2); err != nil {
			rep.Violate("roundtrip:json", "re-decoding own JSON failed: "+err.Error(), map[string]any{"schedule": s, "json": string(j1)})
			continue
		}
		y1, err := yaml.Marshal(&w1)
		if err != nil {
			rep.Violate("roundtrip:marshal-yaml", err.Error(), s)
			continue
		}
		if err = yaml.Unmarshal(y1, &w3); err != nil {
			rep.Violate("roundtrip:yaml", "re-decoding own YAML failed: "+err.Error(), map[string]any{"schedule": s, "yaml": string(y1)})
			continue
		}
		if err = yaml.Unmarshal(s.yaml(), &w4); err != nil {
			rep.Violate("valid-schedule-rejected", "yaml: "+err.Error(), s)
			continue
		}
		j3, _ := json.Marshal(&w3)
		j4, _ := json.Marshal(&w4)
		y3, _ := yaml.Marshal(&w3)
		// Compare against the generated schedule itself (monitor's JSON form,
		// normalised through a generic decode).
		if !c18SameJSON(j1, s.json()) {
			rep.Violate("roundtrip:json-differs-from-input", "JSON encoding differs from the decoded input",
				map[string]any{"schedule": s, "input": string(s.json()), "output": string(j1)})
		}
		if string(j1) != string(j3) || string(j1) != string(j4) || string(y1) != string(y3) {
			rep.Violate("roundtrip:changed", "schedule changed by a JSON/YAML round trip",
				map[string]any{"schedule": s, "json1": string(j1), "json_after_yaml": string(j3),
					"json_from_yaml_input": string(j4), "yaml1": string(y1), "yaml3": string(y3)})
		}
		// Behavioural equality on a few instants.
		loc, _ := time.LoadLocation(zone)
		for k := 0; k < 20; k++ {
			inst := time.Date(2024, time.Month(1+rng.Intn(12)), 1+rng.Intn(28), rng.Intn(24), rng.Intn(60), 0, 0, loc)
			a := w1.Contains(inst)
			if a != w2.Contains(inst) || a != w3.Contains(inst) || a != w4.Contains(inst) {
				rep.Violate("roundtrip:behaviour", "round-tripped schedule answers Contains differently",
					map[string]any{"schedule": s, "instant": inst.Format(time.RFC3339)})
			}
		}
		rep.Eval(true, "rt|"+verifkit.JSON(s))
		rep.Class("roundtrips")
	}
}

func c18SameJSON(a, b []byte) bool {
	var x, y any
	if json.Unmarshal(a, &x) != nil || json.Unmarshal(b, &y) != nil {
		return false
	}
	return verifkit.JSON(x) == verifkit.JSON(y)
}

// c18Invalid feeds serialised schedules with one bad day range and expects
// rejection; the same document with the bad range replaced by a good one is
// the positive control.
func c18Invalid(rep *verifkit.Report) {
	rng := rep.Rand("invalid")
	n := verifkit.Pick(1500, 15000)
	type bad struct {
		name       string
		start, end time.Duration
	}
	for i := 0; i < n; i++ {
		day := c18DayKeys[rng.Intn(7)]
		var b bad
		switch rng.Intn(11) {
		case 8:
			// Bounds at the edges of the day: a range that ends at 00:00.
			b = bad{"inverted-end-at-zero", time.Duration(1+rng.Intn(1440)) * time.Minute, 0}
		case 9:
			b = bad{"negative-start-end-at-zero", -time.Duration(1+rng.Intn(1440)) * time.Minute, 0}
		case 10:
			b = bad{"start-over-24h-end-at-zero-or-24h", 24*time.Hour + time.Duration(1+rng.Intn(600))*time.Minute, []time.Duration{0, 24 * time.Hour}[rng.Intn(2)]}
		case 0:
			b = bad{"negative-start", -time.Duration(1+rng.Intn(1440)) * time.Minute, time.Duration(1+rng.Intn(1440)) * time.Minute}
		case 1:
			b = bad{"negative-end", time.Duration(rng.Intn(1440)) * time.Minute, -time.Duration(1+rng.Intn(1440)) * time.Minute}
		case 2:
			a := 1 + rng.Intn(1439)
			b = bad{"inverted", time.Duration(a) * time.Minute, time.Duration(rng.Intn(a)) * time.Minute}
		case 3:
			a := 1 + rng.Intn(1439)
			b = bad{"equal-nonzero", time.Duration(a) * time.Minute, time.Duration(a) * time.Minute}
		case 4:
			b = bad{"end-over-24h", time.Duration(rng.Intn(1440)) * time.Minute, 24*time.Hour + time.Duration(1+rng.Intn(600))*time.Minute}
		case 5:
			b = bad{"start-at-or-over-24h", 24*time.Hour + time.Duration(rng.Intn(60))*time.Minute, 25*time.Hour + time.Duration(rng.Intn(60))*time.Minute}
		case 6:
			a := rng.Intn(1400)
			b = bad{"start-not-whole-minute", time.Duration(a)*time.Minute + time.Duration(1+rng.Intn(59))*time.Second, time.Duration(a+20) * time.Minute}
		default:
			a := rng.Intn(1400)
			b = bad{"end-not-whole-minute", time.Duration(a) * time.Minute, time.Duration(a+20)*time.Minute + time.Duration(1+rng.Intn(59999))*time.Millisecond}
		}
		viaYAML := rng.Intn(2) == 0
		doc := func(start, end time.Duration) []byte {
			if viaYAML {
				return []byte(fmt.Sprintf("time_zone: UTC\n%s:\n  start: %s\n  end: %s\n", day, start, end))
			}
			return []byte(fmt.Sprintf(`{"time_zone":"UTC","%s":{"start":%d,"end":%d}}`, day, start.Milliseconds(), end.Milliseconds()))
		}
		dec := func(data []byte) error {
			var w Weekly
			if viaYAML {
				return yaml.Unmarshal(data, &w)
			}
			return json.Unmarshal(data, &w)
		}
		rep.Eval(true, fmt.Sprintf("invalid|%s|%s|%v|%v|%v", b.name, day, b.start, b.end, viaYAML))
		rep.Class("invalid:" + b.name)
		if err := dec(doc(b.start, b.end)); err == nil {
			rep.Violate("invalid-accepted:"+b.name, "an invalid day range was accepted",
				map[string]any{"document": string(doc(b.start, b.end)), "via_yaml": viaYAML})
		}
		// Positive control.
		if err := dec(doc(60*time.Minute, 120*time.Minute)); err != nil {
			rep.Violate("valid-schedule-rejected", "control document rejected: "+err.Error(),
				map[string]any{"document": string(doc(60*time.Minute, 120*time.Minute))})
		}
	}
	if len(rep.Samples) < 6 {
		rep.Sample(map[string]any{"invalid_document_example": `{"time_zone":"UTC","mon":{"start":3600000,"end":1800000}}`})
	}
}

// c18Huge feeds JSON schedules whose one bad bound is a valid whole-minute
// value plus or minus a multiple of a large power of two (in milliseconds), as
// integer, float and exponent literals, and a few other huge literals: ranges
// longer than 24h or negative must be rejected at every magnitude, also where
// a conversion between units or number types would wrap around or lose the
// high bits.
func c18Huge(rep *verifkit.Report) {
	rng := rep.Rand("huge")
	n := verifkit.Pick(3000, 30000)
	fixed := []string{"9223372036854775807", "-9223372036854775808", "18446744073709551616", "18446744073795951616", "1e15", "1e18", "1e19", "1e30", "-1e18",
		"9223372036854775808", "4294967296", "4294967296000", "4381367296", "18446744073709552", "9007199254740993", "1.8446744073709552e19"}
	for i := 0; i < n; i++ {
		day := c18DayKeys[rng.Intn(7)]
		v := int64(1+rng.Intn(1440)) * 60000
		var lit string
		if i < len(fixed)*4 {
			lit = fixed[i%len(fixed)]
		} else {
			sh := []uint{31, 32, 33, 40, 48, 52, 53, 54, 56, 57, 58, 59, 60, 61, 62, 63, 64, 65}[rng.Intn(18)]
			k := big.NewInt(int64(1 + rng.Intn(31)))
			if rng.Intn(2) == 0 {
				k.Neg(k)
			}
			x := new(big.Int).Lsh(big.NewInt(1), sh)
			x.Mul(x, k)
			x.Add(x, big.NewInt(v))
			if x.Sign() >= 0 && x.Cmp(big.NewInt(86400000)) <= 0 {
				continue
			}
			lit = x.String()
			switch rng.Intn(6) {
			case 0:
				lit += ".0"
			case 1:
				f, _ := new(big.Float).SetInt(x).Float64()
				lit = strconv.FormatFloat(f, 'e', -1, 64)
			}
		}
		boundIsEnd := rng.Intn(3) != 0
		var doc string
		if boundIsEnd {
			doc = fmt.Sprintf(`{"time_zone":"UTC","%s":{"start":0,"end":%s}}`, day, lit)
		} else {
			doc = fmt.Sprintf(`{"time_zone":"UTC","%s":{"start":%s,"end":86400000}}`, day, lit)
		}
		rep.Eval(true, "huge|"+doc)
		rep.Class("invalid:huge-or-hugely-negative-bound")
		var w Weekly
		if err := json.Unmarshal([]byte(doc), &w); err == nil {
			rep.Violate("invalid-accepted:huge-bound", "a day range with a bound far outside a day was accepted",
				map[string]any{"document": doc, "stored_as": fmt.Sprintf("%+v", w.days)})
		}
	}
}
