//go:build verif

package stats

import (
	"context"
	"encoding/json"
	"fmt"
	"log/slog"
	"math/rand"
	"os"
	"path/filepath"
	"runtime"
	"sort"
	"strings"
	"sync"
	"sync/atomic"
	"testing"
	"time"

	"github.com/AdguardTeam/AdGuardHome/internal/verifkit"
	"github.com/anishathalye/porcupine"
)

const (
	c09Updaters = 8
	c09Readers  = 2
)

// c09COp is one recorded operation of a concurrent history.
type c09COp struct {
	Client int    `json:"client"`
	Kind   string `json:"kind"` // "inc" (a countable Update) or "read" (num_dns_queries)
	Call   int64  `json:"call_ns"`
	Ret    int64  `json:"return_ns"`
	Out    uint64 `json:"read_total,omitempty"`
	// SeqB / SeqA are the rollover sequence numbers read immediately before
	// and after an Update: even 2j = j rollovers completed, odd = a rollover in
	// progress.
	SeqB uint32 `json:"seq_before,omitempty"`
	SeqA uint32 `json:"seq_after,omitempty"`
	Res  Result `json:"result,omitempty"`
	// Lo / Hi bound a read: countable updates that had returned before the
	// read was called / that had been called before the read returned.
	Lo uint64 `json:"completed_before_call,omitempty"`
	Hi uint64 `json:"started_before_return,omitempty"`

	problem string
	resp    *c09Resp
}

type c09PIn struct{ read bool }

// c09CounterModel is the sequential specification: a counter starting at base.
func c09CounterModel(base uint64) porcupine.Model {
	return porcupine.Model{
		Init: func() interface{} { return base },
		Step: func(state, input, output interface{}) (bool, interface{}) {
			st := state.(uint64)
			if input.(c09PIn).read {
				return output.(uint64) == st, st
			}
			return true, st + 1
		},
		Equal: func(a, b interface{}) bool { return a.(uint64) == b.(uint64) },
		DescribeOperation: func(input, output interface{}) string {
			if input.(c09PIn).read {
				return fmt.Sprintf("read() -> %d", output.(uint64))
			}
			return "inc()"
		},
	}
}

// c09Conc is the state of one concurrent history.
type c09Conc struct {
	rep   *verifkit.Report
	in    *c09Inst
	hour  *atomic.Uint32
	seq   atomic.Uint32 // rollover sequence (see c09COp)
	start time.Time

	started, completed atomic.Uint64

	// Written only between rounds (all goroutines joined).
	hoursTable []uint32 // hour after j rollovers
	allIncs    []c09COp
	limitH     uint32
	desc       map[string]any
	bad        bool
}

func (c *c09Conc) now() int64 { return time.Since(c.start).Nanoseconds() }

func (c *c09Conc) violate(key, what string, extra map[string]any) {
	w := map[string]any{"history": c.desc, "hours_after_rollovers": c.hoursTable}
	for k, v := range extra {
		w[k] = v
	}
	c.rep.Violate(key, what, w)
	c.bad = true
}

// c09Plan is the pre-generated work of one round (all randomness is drawn in
// the test goroutine, so a seed replays the same plan).
type c09Plan struct {
	entries  [c09Updaters][]*Entry // nil Result-invalid entries are marked in valid
	valid    [c09Updaters][]bool
	yields   [c09Updaters][]int
	reads    int
	readers  int // number of reader goroutines (default c09Readers)
	advances []c09Advance
	toggles  []uint32
	// paced: updaters and readers keep going (cycling through their entries)
	// until the advancer is done.  With updSleep / readSleep > 0 they sleep
	// between calls (used when the rollover is left to the real hourly loop,
	// which polls once per second); with zero sleeps they hammer (storm shape:
	// the advancer rolls over many times back to back).
	paced               bool
	updSleep, readSleep time.Duration
}

// c09Advance is one rollover of a round.
type c09Advance struct {
	Hours uint32 `json:"advance_hours"`
	// After: the advancer waits until this many countable updates of the
	// round have returned.
	After int `json:"after_updates"`
	// ViaLoop: wait for the real hourly loop instead of calling flush().
	ViaLoop bool `json:"rollover_by_real_loop"`
}

// runRound executes one plan and returns the operations recorded.
func (c *c09Conc) runRound(p *c09Plan) (ops []c09COp) {
	var wg sync.WaitGroup
	gate := make(chan struct{})
	if p.readers == 0 {
		p.readers = c09Readers
	}
	results := make([][]c09COp, c09Updaters+p.readers)
	roundBase := c.completed.Load()
	var updatersDone atomic.Int32
	var advDone atomic.Bool
	const pacedMax = 20000 // safety bound per goroutine

	for g := 0; g < c09Updaters; g++ {
		wg.Add(1)
		go func(g int) {
			defer wg.Done()
			defer updatersDone.Add(1)
			<-gate
			var mine []c09COp
			for n := 0; ; n++ {
				if p.paced {
					if advDone.Load() || n >= pacedMax {
						break
					}
					if p.updSleep > 0 {
						time.Sleep(p.updSleep)
					}
				} else if n >= len(p.entries[g]) {
					break
				}
				i := n % len(p.entries[g])
				e := p.entries[g][i]
				for y := 0; y < p.yields[g][i]; y++ {
					runtime.Gosched()
				}
				ok := p.valid[g][i]
				if ok {
					c.started.Add(1)
				}
				op := c09COp{Client: g, Kind: "inc", Res: e.Result}
				op.SeqB = c.seq.Load()
				op.Call = c.now()
				op.problem = c.in.update(e)
				op.Ret = c.now()
				op.SeqA = c.seq.Load()
				if ok {
					c.completed.Add(1)
					mine = append(mine, op)
				} else if op.problem != "" {
					op.Kind = "ignored-update"
					mine = append(mine, op)
				}
			}
			results[g] = mine
		}(g)
	}
	for rd := 0; rd < p.readers; rd++ {
		wg.Add(1)
		go func(rd int) {
			defer wg.Done()
			<-gate
			var mine []c09COp
			for i := 0; i < p.reads || p.paced; i++ {
				if i > 0 && updatersDone.Load() == c09Updaters && (p.reads > 8 || p.paced) {
					break // free-running / paced mode: stop once the updaters are done
				}
				if p.paced {
					if i >= pacedMax {
						break
					}
					if p.readSleep > 0 {
						time.Sleep(p.readSleep)
					}
				}
				op := c09COp{Client: c09Updaters + rd, Kind: "read"}
				op.Lo = c.completed.Load()
				op.Call = c.now()
				op.resp, op.problem = c.in.read()
				op.Ret = c.now()
				op.Hi = c.started.Load()
				if op.resp != nil {
					op.Out = op.resp.NumDNSQueries
				}
				mine = append(mine, op)
				runtime.Gosched()
			}
			results[c09Updaters+rd] = mine
		}(rd)
	}
	advProblems := make([]string, len(p.advances))
	advHours := make([]uint32, len(p.advances))
	advTimes := make([][2]int64, len(p.advances))
	if len(p.advances) > 0 {
		wg.Add(1)
		go func() {
			defer wg.Done()
			<-gate
			for ai, a := range p.advances {
				for c.completed.Load()-roundBase < uint64(a.After) && updatersDone.Load() < c09Updaters {
					runtime.Gosched()
				}
				c.seq.Add(1) // odd: rollover in progress
				advTimes[ai][0] = c.now()
				want := c.hour.Add(a.Hours)
				advHours[ai] = want
				if a.ViaLoop {
					deadline := time.Now().Add(10 * time.Second) // watchdog only
					for c.in.unitHour() != want && time.Now().Before(deadline) {
						time.Sleep(2 * time.Millisecond)
					}
				} else {
					advProblems[ai] = c.in.flush()
				}
				if advProblems[ai] == "" && c.in.unitHour() != want {
					advProblems[ai] = "no-rollover"
				}
				advTimes[ai][1] = c.now()
				c.seq.Add(1) // even: done
				if advProblems[ai] == "no-rollover" && a.ViaLoop {
					c09RealLoopStuck.Store(true)
					break // do not spend another watchdog on the same loop
				}
				if p.paced && p.updSleep == 0 {
					runtime.Gosched()
				}
			}
			advDone.Store(true)
		}()
	} else {
		advDone.Store(true)
	}
	var togProblem string
	if len(p.toggles) > 0 {
		wg.Add(1)
		go func() {
			defer wg.Done()
			<-gate
			for _, l := range p.toggles {
				runtime.Gosched()
				if pr := c.in.setConfigNew(l, true); pr != "" {
					togProblem = pr
				}
			}
		}()
	}
	close(gate)
	joined := make(chan struct{})
	go func() { wg.Wait(); close(joined) }()
	select {
	case <-joined:
	case <-time.After(c09StallAfter):
		// Update / flush / GET stats block each other for good.  The
		// goroutines cannot be joined any more, so the run ends here.
		buf := make([]byte, 4<<20)
		dump := string(buf[:runtime.Stack(buf, true)])
		fmt.Fprintf(os.Stderr, "C09 watchdog: round did not finish in %s\n%s\n", c09StallAfter, dump)
		what := fmt.Sprintf("a round of concurrent Update / flush / GET /control/stats calls did not finish within %s", c09StallAfter)
		if c09Prop() == "C09" {
			// The C09 statement is about counts: a stall makes it unobservable.
			c.rep.Inconcl(what + " (goroutine dump in the part's log)")
		} else {
			c.rep.Violate("stall:stats-round", what+": the statistics module's callers block each other",
				map[string]any{"history": c.desc, "round": map[string]any{"rollovers": p.advances, "readers": p.readers, "paced": p.paced},
					"updates_returned": c.completed.Load(), "updates_called": c.started.Load(),
					"blocked_goroutines": c09DumpSummary(dump)})
		}
		_ = c.rep.Write()
		os.Exit(3)
	}

	for ai, a := range p.advances {
		if advHours[ai] == 0 {
			break // not reached (the real loop did not respond before)
		}
		c.hoursTable = append(c.hoursTable, advHours[ai])
		switch advProblem := advProblems[ai]; {
		case advProblem == "no-rollover" && a.ViaLoop:
			c.rep.Inconcl("the real hourly loop did not roll the unit over within the 10 s watchdog")
			c.bad = true
		case advProblem == "no-rollover":
			c.violate("conc:flush-left-old-unit", "flush() returned in a new hour without installing a unit for it", nil)
		case advProblem != "":
			c.violate("conc:flush-panic", "flush crashed: "+advProblem, nil)
		}
		c.rep.Event("rollovers")
		if a.ViaLoop {
			c.rep.Event("rollovers_done_by_the_real_loop")
		}
	}
	if togProblem != "" {
		c.violate("conc:config-rejected", "a valid retention change was not accepted during traffic: "+togProblem, nil)
	}
	if len(p.toggles) > 0 {
		c.limitH = p.toggles[len(p.toggles)-1]
		c.rep.EventN("retention_changes_during_traffic", len(p.toggles))
	}
	for _, r := range results {
		ops = append(ops, r...)
	}
	sort.SliceStable(ops, func(i, j int) bool { return ops[i].Call < ops[j].Call })
	// Evidence only: how many rollovers ran while reads / updates were in flight.
	for _, at := range advTimes {
		reads, incs := 0, 0
		for _, op := range ops {
			if op.Call <= at[1] && op.Ret >= at[0] {
				if op.Kind == "read" {
					reads++
				} else {
					incs++
				}
			}
		}
		if reads >= 1 {
			c.rep.Event("rollovers_overlapping_a_read")
		}
		if reads >= 2 {
			c.rep.Event("rollovers_overlapping_2_or_more_reads")
		}
		if reads >= 2 && incs >= 1 {
			c.rep.Event("rollovers_overlapping_2_or_more_reads_and_an_update")
		}
	}
	return ops
}

// c09RealLoopStuck is set once the real loop has not rotated the unit within
// a real-time watchdog; the remaining real-loop histories are then skipped
// (the run is inconclusive as far as they are concerned; the "loop" part
// decides the loop's responsiveness on virtual time).
var c09RealLoopStuck atomic.Bool

// c09StallAfter is the watchdog of one round (rounds take milliseconds, the
// real-loop rounds two to three seconds).
const c09StallAfter = 60 * time.Second

// c09Prop is the property the concurrent monitor reports under.  The same
// monitor is registered as a part of C05 (no stall while serving) with
// VERIF_STATS_PROP=C05.
func c09Prop() string {
	if p := os.Getenv("VERIF_STATS_PROP"); p != "" {
		return p
	}
	return "C09"
}

// c09Part is the part name (VERIF_STATS_PART; default "concurrent" under
// C09, "stats" under any other property).
func c09Part() string {
	if p := os.Getenv("VERIF_STATS_PART"); p != "" {
		return p
	}
	if c09Prop() == "C09" {
		return "concurrent"
	}
	return "stats"
}

// c09DumpRow is one line of a condensed goroutine dump.
type c09DumpRow struct {
	N     int    `json:"goroutines"`
	Stack string `json:"state_and_frames_innermost_first"`
}

// c09DumpSummary condenses a goroutine dump: per goroutine that is inside the
// stats package (or bbolt on its behalf), its state and its product frames.
func c09DumpSummary(dump string) []c09DumpRow {
	count := map[string]int{}
	for _, block := range strings.Split(dump, "\n\n") {
		lines := strings.Split(block, "\n")
		if len(lines) == 0 || !strings.HasPrefix(lines[0], "goroutine ") {
			continue
		}
		state := lines[0]
		if i := strings.Index(state, "["); i >= 0 {
			state = strings.TrimSuffix(state[i:], ":")
			if j := strings.Index(state, ","); j >= 0 {
				state = state[:j] + "]"
			}
		}
		var frames []string
		for _, l := range lines[1:] {
			if strings.HasPrefix(l, "\t") || strings.HasPrefix(l, "created by") {
				continue
			}
			fn := l
			if i := strings.LastIndex(fn, "("); i > 0 {
				fn = fn[:i]
			}
			switch {
			case strings.Contains(fn, "internal/stats.") && !strings.Contains(fn, "c09") && !strings.Contains(fn, "TestVerif"):
				frames = append(frames, fn[strings.Index(fn, "internal/stats.")+len("internal/"):])
			case strings.Contains(fn, "bbolt.(*DB).beginRWTx") || strings.Contains(fn, "bbolt.(*DB).Begin"):
				frames = append(frames, "bbolt.(*DB).Begin")
			case strings.Contains(fn, "sync.(*RWMutex)."):
				frames = append(frames, fn[strings.Index(fn, "sync."):])
			}
		}
		if len(frames) == 0 {
			continue
		}
		hasStats := false
		for _, f := range frames {
			if strings.HasPrefix(f, "stats.") {
				hasStats = true
			}
		}
		if !hasStats {
			continue
		}
		count[state+" "+strings.Join(frames, " <- ")]++
	}
	var rows []c09DumpRow
	for k, n := range count {
		rows = append(rows, c09DumpRow{n, k})
	}
	sort.Slice(rows, func(i, j int) bool { return rows[i].Stack < rows[j].Stack })
	return rows
}

// checkReads applies the per-read checks that need no search: the read must
// succeed, be internally consistent, and lie between the updates completed
// before it was called and those started before it returned.
func (c *c09Conc) checkReads(ops []c09COp) {
	for _, op := range ops {
		switch op.Kind {
		case "ignored-update":
			c.violate("conc:update-panic:not-countable", "Update crashed: "+op.problem, map[string]any{"op": op})
			continue
		case "inc":
			if op.problem != "" {
				c.violate("conc:update-panic:valid", "Update crashed: "+op.problem, map[string]any{"op": op})
			}
			continue
		}
		c.rep.Event("reads_during_traffic")
		if op.problem != "" {
			c.violate("conc:read-failed", "GET /control/stats failed during traffic: "+op.problem, map[string]any{"op": op})
			continue
		}
		if op.Hi > op.Lo {
			c.rep.Event("reads_overlapping_updates")
		}
		r := op.resp
		if r.TimeUnits == "hours" {
			if s := c09Sum(r.DNSQueries); s != r.NumDNSQueries {
				c.violate("conc:hourly-sum-differs-from-total:dns_queries",
					fmt.Sprintf("a report taken during traffic has sum(dns_queries[])=%d but num_dns_queries=%d", s, r.NumDNSQueries),
					map[string]any{"op": op, "report": c09Brief(r, 0)})
			}
		}
		if cs := r.NumBlockedFiltering + r.NumReplacedSafebrowsing + r.NumReplacedSafesearch + r.NumReplacedParental; cs > r.NumDNSQueries {
			c.violate("conc:categories-exceed-total", fmt.Sprintf("category totals %d > num_dns_queries %d", cs, r.NumDNSQueries),
				map[string]any{"op": op, "report": c09Brief(r, 0)})
		}
		if op.Out < op.Lo {
			c.violate("conc:read-misses-completed-updates",
				fmt.Sprintf("num_dns_queries=%d although %d countable updates had returned before the read was called", op.Out, op.Lo),
				map[string]any{"op": op, "report": c09Brief(r, 0)})
		} else if op.Out > op.Hi {
			c.violate("conc:read-exceeds-started-updates",
				fmt.Sprintf("num_dns_queries=%d although only %d countable updates had been called when the read returned", op.Out, op.Hi),
				map[string]any{"op": op, "report": c09Brief(r, 0)})
		}
	}
}

// porcupine checks one round's inc/read history against the counter model.
func (c *c09Conc) porcupine(ops []c09COp, base uint64) {
	var hist []porcupine.Operation
	for _, op := range ops {
		switch op.Kind {
		case "inc":
			hist = append(hist, porcupine.Operation{ClientId: op.Client, Input: c09PIn{}, Call: op.Call, Output: uint64(0), Return: op.Ret})
		case "read":
			if op.problem != "" {
				continue
			}
			hist = append(hist, porcupine.Operation{ClientId: op.Client, Input: c09PIn{read: true}, Call: op.Call, Output: op.Out, Return: op.Ret})
		}
	}
	if len(hist) == 0 {
		return
	}
	res, info := porcupine.CheckOperationsVerbose(c09CounterModel(base), hist, 2*time.Minute)
	c.rep.Event("porcupine_histories")
	c.rep.EventN("porcupine_operations", len(hist))
	switch res {
	case porcupine.Ok:
		c.rep.Event("porcupine_linearizable")
	case porcupine.Unknown:
		c.rep.Inconcl("porcupine timed out on a history")
	case porcupine.Illegal:
		longest := 0
		for _, part := range info.PartialLinearizations() {
			for _, l := range part {
				if len(l) > longest {
					longest = len(l)
				}
			}
		}
		c.violate("conc:not-linearizable:counter",
			fmt.Sprintf("the inc/read(total) history of one round is not linearizable as a counter starting at %d (longest partial linearization %d of %d operations)", base, longest, len(hist)),
			map[string]any{"counter_before_round": base, "operations_by_call_time": ops})
	}
}

// quiescent checks a report taken while nothing else runs.
func (c *c09Conc) quiescent(where string) *c09Resp {
	r, problem := c.in.read()
	if problem != "" {
		c.violate("conc:read-failed", "GET /control/stats failed at quiescence: "+problem, nil)
		return nil
	}
	c.rep.Event("quiescent_reports_checked")
	var want c09Counts
	for _, op := range c.allIncs {
		want.Total++
		want.Cat[op.Res]++
	}
	got := []struct {
		name string
		got  uint64
		want uint64
	}{
		{"num_dns_queries", r.NumDNSQueries, want.Total},
		{"num_blocked_filtering", r.NumBlockedFiltering, want.Cat[RFiltered]},
		{"num_replaced_safebrowsing", r.NumReplacedSafebrowsing, want.Cat[RSafeBrowsing]},
		{"num_replaced_safesearch", r.NumReplacedSafesearch, want.Cat[RSafeSearch]},
		{"num_replaced_parental", r.NumReplacedParental, want.Cat[RParental]},
	}
	for _, g := range got {
		if g.got != g.want {
			kind := "too-low"
			if g.got > g.want {
				kind = "too-high"
			}
			c.violate("conc:quiescent-total-"+kind+":"+g.name,
				fmt.Sprintf("%s: %s=%d, countable updates issued (all hours inside the window): %d", where, g.name, g.got, g.want),
				map[string]any{"report": c09Brief(r, c.hour.Load()-c.limitH+1)})
			return r
		}
	}
	if r.TimeUnits != "hours" || len(r.DNSQueries) != int(c.limitH) {
		c.violate("conc:series-length", fmt.Sprintf("%s: time_units=%q with %d entries, window is %d hours", where, r.TimeUnits, len(r.DNSQueries), c.limitH), nil)
		return r
	}
	// Per hour: lo = updates certainly counted in it, hi = lo + updates that
	// overlapped a rollover next to it.
	lo, hi := map[uint32]uint64{}, map[uint32]uint64{}
	for _, op := range c.allIncs {
		jb, ja := int(op.SeqB/2), int((op.SeqA+1)/2)
		if op.SeqB == op.SeqA && op.SeqB%2 == 0 {
			lo[c.hoursTable[jb]]++
		}
		for j := jb; j <= ja && j < len(c.hoursTable); j++ {
			hi[c.hoursTable[j]]++
		}
	}
	first := c.hour.Load() - c.limitH + 1
	for i, v := range r.DNSQueries {
		h := first + uint32(i)
		if v < lo[h] || v > hi[h] {
			c.violate("conc:hour-count-out-of-bounds",
				fmt.Sprintf("%s: dns_queries for hour %d is %d; %d updates ran entirely inside that hour and at most %d could belong to it", where, h, v, lo[h], hi[h]),
				map[string]any{"report": c09Brief(r, first)})
			return r
		}
	}
	if s := c09Sum(r.DNSQueries); s != r.NumDNSQueries {
		c.violate("conc:hourly-sum-differs-from-total:dns_queries", fmt.Sprintf("%s: sum=%d total=%d", where, s, r.NumDNSQueries), nil)
	}
	return r
}

// c09ConcHistory runs one concurrent history.  Shapes: "rounds" (several
// short rounds, each checked with porcupine; the advancer calls flush()),
// "free" (one long round, several rollovers through flush()), "loop" (the
// real Start() loop is the only flusher; traffic is paced until it has done
// the rollovers), "storm" (one round, 168 h window: the advancer calls
// flush() for 24-60 consecutive hours back to back while 4 readers and the
// updaters hammer without pauses).  flush() has exactly one caller in every
// shape, as in the product.
func c09ConcHistory(rep *verifkit.Report, rng *rand.Rand, dir string, idx int, shape string) {
	free := shape != "rounds"
	loopHistory := shape == "loop"
	storm := shape == "storm"
	file := filepath.Join(dir, fmt.Sprintf("conc-%d.db", idx))
	defer os.Remove(file)
	hour := &atomic.Uint32{}
	hour.Store(400000 + uint32(rng.Intn(100000)))
	c := &c09Conc{rep: rep, hour: hour, start: time.Now(), limitH: []uint32{24, 24, 168}[rng.Intn(3)]}
	c.hoursTable = []uint32{hour.Load()}
	withToggles := rng.Intn(3) == 0
	if storm {
		c.limitH, withToggles = 168, false
	}
	c.desc = map[string]any{"index": idx, "first_hour": hour.Load(), "limit_hours": c.limitH, "shape": shape,
		"updaters": c09Updaters, "readers": c09Readers, "retention_toggled_during_traffic": withToggles}
	in, err := c09Open(file, hour, c.limitH, true, loopHistory)
	if err != nil {
		rep.Violate("conc:new-failed", "stats.New failed on a fresh file: "+err.Error(), c.desc)
		return
	}
	c.in = in
	closed := false
	defer func() {
		if !closed {
			c.in.close()
		}
	}()

	rounds := verifkit.Pick(6, 8)
	if free {
		rounds = 1
	}
	var roundDescs []any
	for rd := 0; rd < rounds && !c.bad; rd++ {
		p := &c09Plan{reads: 4}
		per := 4 + rng.Intn(3)
		if free {
			per = 120 + rng.Intn(80)
			p.reads = 400
		}
		nValid := 0
		for g := 0; g < c09Updaters; g++ {
			for i := 0; i < per; i++ {
				if rng.Intn(12) == 0 {
					e, _ := c09InvalidEntry(rng)
					if e.Result >= resultLast {
						e.Result = 0 // keep Res usable as an index in witnesses
					}
					p.entries[g] = append(p.entries[g], e)
					p.valid[g] = append(p.valid[g], false)
				} else {
					nc, nd := 40, 60
					if storm {
						nc, nd = 3, 5 // small units: the readers decode every stored hour
					}
					p.entries[g] = append(p.entries[g], c09ValidEntry(rng, nc, nd))
					p.valid[g] = append(p.valid[g], true)
					nValid++
				}
				y := 0
				if rng.Intn(3) == 0 {
					y = rng.Intn(4)
				}
				p.yields[g] = append(p.yields[g], y)
			}
		}
		switch {
		case storm:
			p.paced, p.readers = true, 4
			for i, k := 0, verifkit.Pick(24, 60); i < k; i++ {
				a := c09Advance{Hours: 1}
				if i == 0 {
					a.After = 40
				}
				p.advances = append(p.advances, a)
			}
		case loopHistory:
			p.paced, p.updSleep, p.readSleep = true, 400*time.Microsecond, 2*time.Millisecond
			for i := 0; i < 2; i++ {
				p.advances = append(p.advances, c09Advance{Hours: 1 + uint32(rng.Intn(2)), After: 150 * (i + 1), ViaLoop: true})
			}
		case free:
			k := 3 + rng.Intn(3)
			for i := 0; i < k; i++ {
				p.advances = append(p.advances, c09Advance{Hours: 1 + uint32(rng.Intn(2)), After: nValid * (i + 1) / (k + 1)})
			}
		case rng.Intn(100) < 70:
			p.advances = append(p.advances, c09Advance{Hours: 1 + uint32(rng.Intn(2)), After: rng.Intn(nValid*3/4 + 1)})
		}
		if withToggles {
			other := uint32(24)
			if c.limitH == 24 {
				other = 168
			}
			for i, n := 0, 1+rng.Intn(3); i < n; i++ {
				if i%2 == 0 {
					p.toggles = append(p.toggles, other)
				} else {
					p.toggles = append(p.toggles, c.limitH)
				}
			}
		}
		base := c.completed.Load()
		ops := c.runRound(p)
		overl := 0
		for _, op := range ops {
			if op.Kind == "inc" {
				c.allIncs = append(c.allIncs, op)
				if op.SeqB != op.SeqA || op.SeqB%2 == 1 {
					overl++
				}
			}
		}
		nValid = 0
		for _, op := range ops {
			if op.Kind == "inc" {
				nValid++
			}
		}
		rep.EventN("updates_counted", nValid)
		if loopHistory {
			// The sequence number is odd for the whole wait (up to a second).
			rep.EventN("updates_while_waiting_for_the_real_loop", overl)
		} else {
			rep.EventN("updates_overlapping_a_rollover", overl)
		}
		rd0 := map[string]any{"round": rd, "countable_updates": nValid, "rollovers": p.advances, "retention_toggles": p.toggles}
		if storm {
			rd0["rollovers"] = fmt.Sprintf("%d rollovers of 1 h back to back through flush()", len(p.advances))
			rd0["readers"] = p.readers
		}
		roundDescs = append(roundDescs, rd0)
		c.desc["rounds"] = roundDescs
		c.checkReads(ops)
		if !free {
			c.porcupine(ops, base)
		}
		if !c.bad {
			c.quiescent(fmt.Sprintf("after round %d", rd))
		}
		var canon strings.Builder
		fmt.Fprintf(&canon, "%d/%d:", idx, rd)
		for _, op := range ops {
			fmt.Fprintf(&canon, "%s%d>%d;", op.Kind[:1], op.Client, op.Out)
		}
		rep.Eval(len(p.advances) > 0 && overl > 0, canon.String())
		rep.Class("shape:" + shape)
	}
	if c.bad {
		return
	}
	// Clean restart in the same hour: every hour is inside the window, so
	// the report must not change.
	before := c.quiescent("before Close")
	if c.bad || before == nil {
		return
	}
	if p := c.in.close(); p != "" {
		closed = true
		c.violate("conc:close-failed", "Close failed: "+p, nil)
		return
	}
	closed = true
	in2, err := c09Open(file, hour, c.limitH, true, false)
	if err != nil {
		c.violate("conc:new-failed:restart", "stats.New failed on the file a clean Close left: "+err.Error(), nil)
		return
	}
	c.in = in2
	closed = false
	after := c.quiescent("after Close + New in the same hour")
	if !c.bad && after != nil {
		for i := range before.DNSQueries {
			if before.DNSQueries[i] != after.DNSQueries[i] {
				c.violate("conc:restart-changed-hour-count", fmt.Sprintf("hourly entry %d changed from %d to %d across a clean restart", i, before.DNSQueries[i], after.DNSQueries[i]), nil)
				break
			}
		}
		rep.Event("restarts_after_traffic")
	}
	if idx < 2 {
		rep.Sample(c.desc)
	}
}

func TestVerifC09Concurrent(t *testing.T) {
	rep := verifkit.New(c09Prop(), c09Part(),
		"case = one round of a concurrent history on a running module: 8 updater goroutines + 2 readers of GET /control/stats (+ hour advancer that either calls flush() as the only flusher or, with the real Start() loop alive, waits for it; + optional retention toggler); checked per read (between completed and started updates), per round with porcupine against a counter model, at quiescence exactly (totals, categories, per-hour bounds from the hour tags), and across a final clean restart; -race is on; non-trivial = the round had a rollover that overlapped at least one update; distinct by the observed operation order and read values; storm rounds: 24-60 back-to-back rollovers under 4 hammering readers; reset rounds (C09 only): POST /control/stats_reset hammered against the real loop and readers while every tick is a rollover, then reset, count, advance, wait for the real loop, count, compare; shutdown rounds (C09 only): counts in hour H, a writer transaction (as a dashboard read holds) delays Close between detaching the database and serialising the unit, the hour id changes and flush runs in that gap, then New on the same file and the model comparison; in-flight-reset rounds (C09 only): 1-4 reads (GET /control/stats, TopClientsIP) are inside loadUnits when POST /control/stats_reset starts, after everything has returned k updates are counted and every later report must show exactly those k; reset-polling rounds (every property): 4-6 readers poll GET /control/stats / TopClientsIP in tight loops while resets are issued back to back, updaters count and the hour rolls over now and then - no progress of any of them for 20 s with goroutines blocked inside the module is a deadlock (violation under C05, inconclusive under C09); pending-rollover rounds (C09 only): a GET is kept in flight holding the configuration lock, the hour id changes, the hourly check starts and waits behind the read, a reset completes, the read ends; after quiescence exactly the queries counted after the reset must be reported, also after a restart")
	defer func() {
		if err := rep.Write(); err != nil {
			t.Fatal(err)
		}
	}()
	rep.Assume("entry i of an hourly series stands for hour current-limit+1+i (last entry = current hour)")
	dir, err := c09ScratchDir("conc")
	if err != nil {
		rep.Inconcl("no scratch directory: " + err.Error())
		return
	}
	defer os.RemoveAll(dir)

	rng := rep.Rand("histories")
	n := verifkit.Pick(40, 300)
	for i := 0; i < n; i++ {
		shape := "rounds"
		switch {
		case i%10 == 3:
			shape = "loop"
		case i%10 == 7:
			shape = "storm"
		case i%5 == 4:
			shape = "free"
		}
		if shape == "loop" && c09RealLoopStuck.Load() {
			continue
		}
		t0 := time.Now()
		c09ConcHistory(rep, rng, dir, i, shape)
		fmt.Fprintf(os.Stderr, "c09: history %d shape %s took %s\n", i, shape, time.Since(t0).Round(time.Millisecond))
	}
	need := []string{"rollovers", "rollovers_done_by_the_real_loop", "updates_overlapping_a_rollover",
		"reads_overlapping_updates", "porcupine_linearizable", "restarts_after_traffic",
		"rollovers_overlapping_2_or_more_reads_and_an_update"}
	// Reset rounds with polling readers: under every property.
	for i, k := 0, verifkit.Pick(4, 40); i < k && !rep.Violated(); i++ {
		c09ResetPollingRound(rep, rng, dir, i)
	}
	need = append(need, "reset_polling_rounds_finished", "resets_while_readers_poll")
	if c09Prop() == "C09" {
		for i, k := 0, verifkit.Pick(3, 20); i < k && !rep.Violated() && !c09RealLoopStuck.Load(); i++ {
			c09ResetLoopHistory(rep, rng, dir, i)
		}
		need = append(need, "reset_rounds_checked_after_real_loop_rotation", "resets_during_traffic")
		nDirect, nLoop := verifkit.Pick(16, 150), verifkit.Pick(2, 12)
		for i := 0; i < nDirect+nLoop && !rep.Violated(); i++ {
			c09ShutdownOverlapHistory(rep, rng, dir, i, i < nLoop)
		}
		need = append(need, "flush_calls_between_detach_and_serialisation_of_a_close")
		for i, k := 0, verifkit.Pick(14, 120); i < k && !rep.Violated(); i++ {
			c09ResetInFlightHistory(rep, rng, dir, i)
		}
		need = append(need, "reset_rounds_with_a_read_spanning_the_reset")
		pLoop, pDirect := verifkit.Pick(1, 10), verifkit.Pick(24, 300)
		for i := 0; i < pLoop+pDirect; i++ {
			c09ResetWhileRolloverPendingHistory(rep, rng, dir, i, i < pLoop && !c09RealLoopStuck.Load())
		}
		need = append(need, "resets_completed_while_a_rollover_flush_was_pending")
	}
	if rep.Violated() {
		return
	}
	for _, ev := range need {
		if rep.EventCount(ev) == 0 {
			rep.Inconcl("event never observed: " + ev)
		}
	}
}

// c09LoopGoroutine reports whether a goroutine of this process is inside
// s.periodicFlush (matched by the receiver pointer in the traceback).
func c09LoopGoroutine(s *StatsCtx) (found bool, frame string) {
	buf := make([]byte, 8<<20)
	dump := string(buf[:runtime.Stack(buf, true)])
	needle := fmt.Sprintf("periodicFlush(%p", s)
	i := strings.Index(dump, needle)
	if i < 0 {
		return false, ""
	}
	j := strings.LastIndex(dump[:i], "\n")
	k := strings.Index(dump[i:], "\n")
	if k < 0 {
		k = len(dump) - i
	}
	return true, strings.TrimSpace(dump[j+1 : i+k])
}

// c09ResetLoopHistory: the real Start() loop is alive and its ticks are
// rollovers (the hour moves every 0.5 ms, so the loop rotates continuously) while POST
// /control/stats_reset is hammered and readers keep bbolt write transactions
// open.  Nothing is asserted during that phase (reset concurrent with traffic
// is not specified).  Then, at quiescence: reset, n1 updates, advance the
// hour, wait for the real loop to rotate the unit, n2 updates; the report must
// show n2 in the new hour and n1 in the old one.  If the loop does not rotate
// within the wait, the case is skipped (a miss) unless a goroutine dump shows
// that the loop's goroutine has ended: then waiting longer cannot help, and
// the report is checked as it is.
func c09ResetLoopHistory(rep *verifkit.Report, rng *rand.Rand, dir string, idx int) {
	file := filepath.Join(dir, fmt.Sprintf("reset-%d.db", idx))
	defer os.Remove(file)
	hour := &atomic.Uint32{}
	hour.Store(400000 + uint32(rng.Intn(100000)))
	const limitH = 24
	steps := []any{fmt.Sprintf("New(limit 24 h) at hour %d + Start()", hour.Load())}
	in, err := c09Open(file, hour, limitH, true, true)
	if err != nil {
		rep.Violate("conc:new-failed", "stats.New failed on a fresh file: "+err.Error(), steps)
		return
	}
	defer in.close()
	violate := func(key, what string, extra map[string]any) {
		w := map[string]any{"steps": steps}
		for k, v := range extra {
			w[k] = v
		}
		rep.Violate(key, what, w)
	}

	censusOK := false
	for i := 0; i < 200 && !censusOK; i++ {
		if censusOK, _ = c09LoopGoroutine(in.s); !censusOK {
			time.Sleep(5 * time.Millisecond)
		}
	}
	if !censusOK {
		rep.Event("loop_goroutine_not_identifiable_in_dumps")
	}

	// Phase 1: reset storm.
	entries := make([][]*Entry, 4)
	for g := range entries {
		for i := 0; i < 50; i++ {
			entries[g] = append(entries[g], c09ValidEntry(rng, 40, 60))
		}
	}
	n1, n2 := 20+rng.Intn(40), 20+rng.Intn(40)
	adv := 1 + uint32(rng.Intn(2))
	var after1, after2 []*Entry
	for i := 0; i < n1; i++ {
		after1 = append(after1, c09ValidEntry(rng, 40, 60))
	}
	for i := 0; i < n2; i++ {
		after2 = append(after2, c09ValidEntry(rng, 40, 60))
	}

	var stop atomic.Bool
	var wg sync.WaitGroup
	var resets, resetFailed, readsOK, readsFailed, updates atomic.Int64
	var panics sync.Map
	wg.Add(1)
	go func() { // resetter
		defer wg.Done()
		for !stop.Load() {
			code, _, p := in.call("POST", "/control/stats_reset", "")
			switch {
			case p != nil:
				panics.Store("POST /control/stats_reset", fmt.Sprint(p))
			case code != 200:
				resetFailed.Add(1)
			default:
				resets.Add(1)
			}
			runtime.Gosched()
		}
	}()
	for rd := 0; rd < 3; rd++ {
		wg.Add(1)
		go func() {
			defer wg.Done()
			for !stop.Load() {
				code, _, p := in.call("GET", "/control/stats", "")
				switch {
				case p != nil:
					panics.Store("GET /control/stats", fmt.Sprint(p))
				case code != 200:
					readsFailed.Add(1) // the database is detached during a reset
				default:
					readsOK.Add(1)
				}
			}
		}()
	}
	for g := range entries {
		wg.Add(1)
		go func(g int) {
			defer wg.Done()
			for i := 0; !stop.Load(); i++ {
				if p := in.update(entries[g][i%len(entries[g])]); p != "" {
					panics.Store("Update", p)
				}
				updates.Add(1)
				time.Sleep(200 * time.Microsecond)
			}
		}(g)
	}
	wg.Add(1)
	go func() {
		// The clock moves about as often as a reset completes: each reset
		// re-creates the current unit for the hour it sees, so only a clock
		// that has moved since makes the loop's tick a real rollover.
		defer wg.Done()
		for !stop.Load() {
			time.Sleep(500 * time.Microsecond)
			hour.Add(1)
		}
	}()
	time.Sleep(2300 * time.Millisecond) // workload length only: two ticks of the 1 s loop
	stop.Store(true)
	joined := make(chan struct{})
	go func() { wg.Wait(); close(joined) }()
	select {
	case <-joined:
	case <-time.After(c09StallAfter):
		buf := make([]byte, 4<<20)
		dump := string(buf[:runtime.Stack(buf, true)])
		fmt.Fprintf(os.Stderr, "C09 watchdog: reset round did not finish in %s\n%s\n", c09StallAfter, dump)
		rep.Inconcl(fmt.Sprintf("a round of concurrent stats_reset / GET stats / Update calls against the real loop did not finish within %s (goroutine dump in the part's log)", c09StallAfter))
		_ = rep.Write()
		os.Exit(3)
	}
	rep.EventN("resets_during_traffic", int(resets.Load()))
	rep.EventN("reads_during_resets_ok", int(readsOK.Load()))
	rep.EventN("updates_during_resets", int(updates.Load()))
	for i := int64(0); i < readsFailed.Load(); i++ {
		rep.Unspec("read-failed-while-reset-in-progress")
	}
	for i := int64(0); i < resetFailed.Load(); i++ {
		rep.Unspec("reset-failed-during-traffic")
	}
	steps = append(steps, fmt.Sprintf("2.3 s of traffic: %d resets, %d+%d reads (ok+failed), %d updates, hour advanced every 0.5 ms to %d",
		resets.Load(), readsOK.Load(), readsFailed.Load(), updates.Load(), hour.Load()))
	crashed := false
	panics.Range(func(k, v any) bool {
		violate("conc:reset-round:panic:"+k.(string), "a call panicked during the reset round: "+v.(string), nil)
		crashed = true
		return true
	})
	if crashed {
		rep.Eval(false, "")
		return
	}

	// Phase 2: quiescent.  Let a straggling tick finish, then start from a
	// reset state.
	for i := 0; i < 400 && in.unitHour() != hour.Load(); i++ {
		time.Sleep(5 * time.Millisecond)
	}
	if p := in.reset(); p != "" {
		violate("conc:reset-round:reset-failed", "POST /control/stats_reset failed at quiescence: "+p, nil)
		return
	}
	h1 := hour.Load()
	m := &c09Model{Hours: map[uint32]*c09Hour{}, Cur: h1, LimitH: limitH, Enabled: true}
	steps = append(steps, fmt.Sprintf("quiescent: reset at hour %d", h1))
	check := func(where string, loopGone bool, frame string) bool {
		r, problem := in.read()
		if problem != "" {
			violate("conc:reset-round:read-failed", "GET /control/stats failed at quiescence: "+problem, nil)
			return false
		}
		mm, _ := m.check(r)
		if len(mm) == 0 {
			return true
		}
		key := "conc:reset-round:" + mm[0].Kind
		what := where + ": " + mm[0].Detail
		if loopGone {
			key += ":real-loop-ended"
			what += fmt.Sprintf("; the goroutine of the hourly loop (seen after Start as %q) no longer exists, the unit of hour %d was never rotated", frame, in.unitHour())
		}
		violate(key, what, map[string]any{"mismatches": mm, "report": c09Brief(r, m.first()), "model": m.snapshot(),
			"current_unit_hour": in.unitHour(), "clock_hour": hour.Load()})
		return false
	}
	if !check("after reset", false, "") {
		return
	}
	for _, e := range after1 {
		in.update(e)
		m.count(h1, e.Result)
	}
	steps = append(steps, fmt.Sprintf("%d countable updates in hour %d", n1, h1))
	if !check("after the first batch", false, "") {
		return
	}
	h2 := hour.Add(adv)
	steps = append(steps, fmt.Sprintf("clock advanced to hour %d; waiting up to 5 s for the real loop (1 s period)", h2))
	rotated := false
	for i := 0; i < 1000 && !rotated; i++ {
		if rotated = in.unitHour() == h2; !rotated {
			time.Sleep(5 * time.Millisecond)
		}
	}
	loopGone, frame := false, ""
	if !rotated {
		alive, _ := c09LoopGoroutine(in.s)
		if !censusOK || alive {
			// Slow, not dead (or cannot tell): nothing can be concluded.
			rep.Unspec("real-loop-did-not-rotate-within-5s-but-is-alive")
			rep.Eval(false, "")
			c09RealLoopStuck.Store(true)
			return
		}
		loopGone = true
		frame = fmt.Sprintf("periodicFlush(%p)", in.s)
		steps = append(steps, "no rotation within 5 s; no goroutine is inside periodicFlush of this module any more")
		rep.Event("reset_rounds_with_real_loop_gone")
	} else {
		steps = append(steps, "the real loop rotated the unit")
	}
	m.Cur = h2
	m.expire()
	for _, e := range after2 {
		in.update(e)
		m.count(h2, e.Result)
	}
	steps = append(steps, fmt.Sprintf("%d countable updates in hour %d", n2, h2))
	ok := check("after advancing the clock and counting again", loopGone, frame)
	if rotated {
		rep.Event("reset_rounds_checked_after_real_loop_rotation")
	}
	rep.Eval(ok && rotated && resets.Load() > 0, fmt.Sprintf("reset-round|%d|%d|%d|%d|%d", idx, h1, n1, adv, n2))
	rep.Class("shape:reset-vs-real-loop")
	if idx == 0 {
		rep.Sample(map[string]any{"reset_round": steps})
	}
}

// c09ShutdownOverlapHistory: a clean shutdown that overlaps the hourly check.
//
// Close detaches the database (s.db.Swap(nil)), then waits for bbolt's writer
// lock (db.Begin(true)), and only then serialises the current unit.  Every
// GET /control/stats and TopClientsIP holds that writer lock while it loads
// the units, so the gap lasts as long as a dashboard read.  The history holds
// the gap open the way such a read does (a writable transaction on the
// module's database), lets the hour id change and the once-a-second check
// run inside the gap (flush() called as the only flusher, or the real Start()
// loop given 1.3 s), releases the transaction, and after Close has returned
// opens the file again.  Every update had returned before Close was called,
// so all of them must be reported in their hours.
//
// The hour changes only after the database has been seen detached: a flush
// that had already loaded the database pointer could otherwise block in
// db.Begin while holding currMu, which Close needs after it got the writer
// lock (lock-order inversion of the unchanged product, see the notes); that
// would be a stall, not a statement about counts.
func c09ShutdownOverlapHistory(rep *verifkit.Report, rng *rand.Rand, dir string, idx int, realLoop bool) {
	file := filepath.Join(dir, fmt.Sprintf("shutdown-%d.db", idx))
	defer os.Remove(file)
	hour := &atomic.Uint32{}
	hour.Store(400000 + uint32(rng.Intn(100000)))
	limitH := []uint32{24, 24, 168}[rng.Intn(3)]
	m := &c09Model{Hours: map[uint32]*c09Hour{}, Cur: hour.Load(), LimitH: limitH, Enabled: true}
	steps := []any{fmt.Sprintf("New(limit %d h) at hour %d, real loop: %v", limitH, hour.Load(), realLoop)}
	in, err := c09Open(file, hour, limitH, true, realLoop)
	if err != nil {
		rep.Violate("conc:new-failed", "stats.New failed on a fresh file: "+err.Error(), steps)
		return
	}
	stopped := false
	defer func() {
		if !stopped {
			in.close()
			c09StopLoop(in)
		}
	}()
	violate := func(key, what string, extra map[string]any) {
		w := map[string]any{"steps": steps, "model": m.snapshot()}
		for k, v := range extra {
			w[k] = v
		}
		rep.Violate(key, what, w)
	}
	burst := func() {
		n := 1 + rng.Intn(40)
		for i := 0; i < n; i++ {
			e := c09ValidEntry(rng, 20, 30)
			in.update(e)
			m.count(m.Cur, e.Result)
		}
		steps = append(steps, fmt.Sprintf("%d countable updates in hour %d (all returned)", n, m.Cur))
	}
	// Earlier hours, rolled over the ordinary way (single flusher).
	if !realLoop {
		for i, n := 0, rng.Intn(3); i < n; i++ {
			burst()
			k := 1 + uint32(rng.Intn(2))
			hour.Add(k)
			if p := in.flush(); p != "" {
				violate("conc:flush-panic", "flush crashed: "+p, nil)
				return
			}
			m.Cur = hour.Load()
			m.expire()
			steps = append(steps, fmt.Sprintf("hour +%d, flush()", k))
		}
	}
	burst()
	hourH := m.Cur

	db := in.s.db.Load()
	if db == nil {
		rep.Inconcl("shutdown round: the module has no database before Close")
		return
	}
	tx, err := db.Begin(true)
	if err != nil {
		rep.Inconcl("shutdown round: cannot open the writer transaction that stands for a dashboard read: " + err.Error())
		return
	}
	steps = append(steps, "a writable transaction is open on the database (as loadUnits holds during GET /control/stats)")
	closed := make(chan string, 1)
	go func() { closed <- in.close() }()
	detached := false
	for deadline := time.Now().Add(10 * time.Second); time.Now().Before(deadline); {
		if detached = in.s.db.Load() == nil; detached {
			break
		}
		time.Sleep(200 * time.Microsecond)
	}
	if !detached {
		_ = tx.Rollback()
		<-closed
		stopped = true
		c09StopLoop(in)
		rep.Unspec("shutdown-round:close-did-not-detach-the-database-first")
		rep.Eval(false, "")
		return
	}
	for y := rng.Intn(4); y > 0; y-- {
		runtime.Gosched()
	}
	k := 1 + uint32(rng.Intn(4))
	hour.Add(k)
	steps = append(steps, fmt.Sprintf("Close called in another goroutine; database seen detached; hour id +%d = %d", k, hour.Load()))
	if realLoop {
		time.Sleep(1300 * time.Millisecond) // one period of the real loop plus slack; workload shaping only
		steps = append(steps, "1.3 s for the real loop's once-a-second check")
		rep.Event("shutdown_gaps_held_over_a_real_loop_tick")
	} else {
		for i, n := 0, 1+rng.Intn(2); i < n; i++ {
			if p := in.flush(); p != "" {
				_ = tx.Rollback()
				violate("conc:flush-panic:during-close", "flush crashed while Close was in progress: "+p, nil)
				return
			}
			rep.Event("flush_calls_between_detach_and_serialisation_of_a_close")
		}
		steps = append(steps, "flush() (the hourly check) ran while Close was waiting for the writer lock")
	}
	if err = tx.Rollback(); err != nil {
		rep.Inconcl("shutdown round: rollback of the harness transaction failed: " + err.Error())
		return
	}
	select {
	case p := <-closed:
		stopped = true
		c09StopLoop(in)
		if p != "" {
			violate("conc:close-failed:close-overlapping-rollover", "Close failed: "+p, nil)
			return
		}
	case <-time.After(c09StallAfter):
		buf := make([]byte, 4<<20)
		fmt.Fprintf(os.Stderr, "C09 watchdog: Close did not return in %s\n%s\n", c09StallAfter, buf[:runtime.Stack(buf, true)])
		rep.Inconcl(fmt.Sprintf("Close overlapping the hourly check did not return within %s (goroutine dump in the part's log)", c09StallAfter))
		_ = rep.Write()
		os.Exit(3)
	}
	steps = append(steps, "transaction rolled back; Close returned")
	rep.Event("shutdown_overlap_rounds")

	in2, err := c09Open(file, hour, limitH, true, false)
	if err != nil {
		violate("conc:new-failed:close-overlapping-rollover", "stats.New failed on the file a clean Close left: "+err.Error(), nil)
		return
	}
	defer in2.close()
	m.Cur = hour.Load()
	m.expire()
	steps = append(steps, fmt.Sprintf("New on the same file at hour %d", m.Cur))
	r, problem := in2.read()
	if problem != "" {
		violate("conc:read-failed:close-overlapping-rollover", "GET /control/stats failed after the restart: "+problem, nil)
		return
	}
	mm, _ := m.check(r)
	if len(mm) > 0 {
		violate("conc:"+mm[0].Kind+":close-overlapping-rollover",
			fmt.Sprintf("queries counted before a clean Close (hour %d) are not reported after the restart: %s", hourH, mm[0].Detail),
			map[string]any{"mismatches": mm, "report": c09Brief(r, m.first())})
	}
	rep.Eval(len(mm) == 0, fmt.Sprintf("shutdown|%d|%v|%s", idx, realLoop, verifkit.JSON(steps)))
	rep.Class("shape:close-overlapping-rollover")
	if idx == 0 {
		rep.Sample(map[string]any{"shutdown_round": steps})
	}
}

// c09Trap is a slog.Handler owned by the harness.  It discards everything.
// While armed, the first "loading unit" debug record (loadUnitFromDB logs one
// per stored unit) signals seen and, when hold is set, keeps the logging
// goroutine there until release is closed: a GET /control/stats stopped in
// the middle of loading the stored units, holding bbolt's writer transaction,
// exactly where a slow disk would keep it.
type c09Trap struct {
	cur atomic.Pointer[c09TrapRound]
}

type c09TrapRound struct {
	armed   atomic.Bool
	hold    bool
	seen    chan struct{}
	release chan struct{}
}

func (h *c09Trap) Enabled(context.Context, slog.Level) bool { return true }

func (h *c09Trap) Handle(_ context.Context, r slog.Record) error {
	if r.Message != "loading unit" {
		return nil
	}
	if tr := h.cur.Load(); tr != nil && tr.armed.CompareAndSwap(true, false) {
		close(tr.seen)
		if tr.hold {
			<-tr.release
		}
	}
	return nil
}

func (h *c09Trap) WithAttrs([]slog.Attr) slog.Handler { return h }
func (h *c09Trap) WithGroup(string) slog.Handler      { return h }

// c09ResetInFlightHistory: reads that are in flight when a reset starts.
// GET /control/stats and TopClientsIP are not serialised with POST
// /control/stats_reset.  Hours before the current one hold counts, so a read
// has stored units to load; the first read is caught inside loadUnits (held
// there until the reset has detached the database, or - "natural" rounds, 720 h
// window with 30-50 stored hours - just observed there), 0-3 more reads are
// started, then the reset.  What the overlapping reads return is not specified
// (old data, nothing, or an error; counted).  After the reset and every read
// have returned, k updates are counted: every later report must show exactly
// those k (the model is empty after a reset).
func c09ResetInFlightHistory(rep *verifkit.Report, rng *rand.Rand, dir string, idx int) {
	file := filepath.Join(dir, fmt.Sprintf("inflight-%d.db", idx))
	defer os.Remove(file)
	hour := &atomic.Uint32{}
	hour.Store(400000 + uint32(rng.Intn(100000)))
	natural := idx%4 == 3
	limitH := []uint32{24, 24, 168}[rng.Intn(3)]
	stored := 1 + rng.Intn(5)
	if natural {
		limitH, stored = 720, 30+rng.Intn(21)
	}
	trap := &c09Trap{}
	steps := []any{fmt.Sprintf("New(limit %d h) at hour %d", limitH, hour.Load())}
	in, err := c09OpenLog(file, hour, limitH, true, false, slog.New(trap))
	if err != nil {
		rep.Violate("conc:new-failed", "stats.New failed on a fresh file: "+err.Error(), steps)
		return
	}
	defer in.close()
	m := &c09Model{Hours: map[uint32]*c09Hour{}, Cur: hour.Load(), LimitH: limitH, Enabled: true}
	violate := func(key, what string, extra map[string]any) {
		w := map[string]any{"steps": steps, "model": m.snapshot()}
		for k, v := range extra {
			w[k] = v
		}
		rep.Violate(key, what, w)
	}
	burst := func(lo, hi int) int {
		n := lo + rng.Intn(hi-lo+1)
		for i := 0; i < n; i++ {
			e := c09ValidEntry(rng, 20, 30)
			in.update(e)
			m.count(m.Cur, e.Result)
		}
		return n
	}
	before := 0
	for i := 0; i < stored; i++ {
		before += burst(1, 25)
		hour.Add(1)
		if p := in.flush(); p != "" {
			violate("conc:flush-panic", "flush crashed: "+p, nil)
			return
		}
		m.Cur = hour.Load()
		m.expire()
	}
	before += burst(0, 10)
	steps = append(steps, fmt.Sprintf("%d countable updates spread over %d stored hours and the current hour %d", before, stored, m.Cur))
	// Sanity: the report before the reset (also fills whatever a read may keep).
	if rng.Intn(2) == 0 {
		if r, problem := in.read(); problem == "" {
			if mm, _ := m.check(r); len(mm) > 0 {
				violate("conc:"+mm[0].Kind+":before-reset", "report before the reset: "+mm[0].Detail, map[string]any{"report": c09Brief(r, m.first())})
				return
			}
			steps = append(steps, "GET /control/stats (checked)")
		}
	}

	nReaders := 1 + rng.Intn(4)
	tr := &c09TrapRound{hold: !natural, seen: make(chan struct{}), release: make(chan struct{})}
	tr.armed.Store(true)
	trap.cur.Store(tr)
	type readRes struct {
		kind            string
		call, ret       time.Time
		code            int
		total           uint64
		failed, paniced string
	}
	results := make([]readRes, nReaders)
	var wg sync.WaitGroup
	reader := func(i int) {
		defer wg.Done()
		res := &results[i]
		res.call = time.Now()
		defer func() {
			if p := recover(); p != nil {
				res.paniced = fmt.Sprint(p)
			}
			res.ret = time.Now()
		}()
		if res.kind == "TopClientsIP" {
			in.s.TopClientsIP(10)
			return
		}
		code, body, p := in.call("GET", "/control/stats", "")
		res.code = code
		if p != nil {
			res.paniced = fmt.Sprint(p)
			return
		}
		if code != 200 {
			res.failed = fmt.Sprintf("status %d", code)
			return
		}
		r := &c09Resp{}
		if jerr := json.Unmarshal(body, r); jerr != nil {
			res.failed = "undecodable"
			return
		}
		res.total = r.NumDNSQueries
	}
	for i := range results {
		results[i].kind = "GET /control/stats"
		if rng.Intn(3) == 0 {
			results[i].kind = "TopClientsIP"
		}
	}
	wg.Add(1)
	go reader(0)
	trapped := false
	select {
	case <-tr.seen:
		trapped = true
	case <-time.After(5 * time.Second):
		// The debug record did not come (message changed?): natural timing only.
		tr.armed.Store(false)
	}
	for i := 1; i < nReaders; i++ {
		wg.Add(1)
		go reader(i)
	}
	for y := rng.Intn(6); y > 0; y-- {
		runtime.Gosched()
	}
	var resetCall, resetRet time.Time
	var resetProblem string
	wg.Add(1)
	go func() {
		defer wg.Done()
		resetCall = time.Now()
		resetProblem = in.reset()
		resetRet = time.Now()
	}()
	detached := false
	if trapped && tr.hold {
		for deadline := time.Now().Add(10 * time.Second); time.Now().Before(deadline); {
			if detached = in.s.db.Load() == nil; detached {
				break
			}
			time.Sleep(100 * time.Microsecond)
		}
	}
	close(tr.release)
	joined := make(chan struct{})
	go func() { wg.Wait(); close(joined) }()
	select {
	case <-joined:
	case <-time.After(c09StallAfter):
		buf := make([]byte, 4<<20)
		fmt.Fprintf(os.Stderr, "C09 watchdog: reset with reads in flight did not finish in %s\n%s\n", c09StallAfter, buf[:runtime.Stack(buf, true)])
		rep.Inconcl(fmt.Sprintf("a reset with reads in flight did not finish within %s (goroutine dump in the part's log)", c09StallAfter))
		_ = rep.Write()
		os.Exit(3)
	}
	trap.cur.Store(nil)
	steps = append(steps, fmt.Sprintf("%d reads started (first one caught inside loadUnits: %v, held there until the reset had detached the database: %v), then POST /control/stats_reset; all returned",
		nReaders, trapped, trapped && tr.hold && detached))
	if resetProblem != "" {
		violate("conc:reset-failed:read-in-flight-during-reset", "POST /control/stats_reset failed: "+resetProblem, nil)
		return
	}
	spanned := 0
	for i, res := range results {
		if res.paniced != "" {
			violate("conc:read-panic:read-in-flight-during-reset", res.kind+" panicked while a reset was in progress: "+res.paniced, nil)
			return
		}
		if res.call.Before(resetCall) && res.ret.After(resetCall) {
			spanned++
		}
		if !(res.ret.Before(resetCall) || res.call.After(resetRet)) && res.kind != "TopClientsIP" {
			switch {
			case res.failed != "":
				rep.Unspec("read-overlapping-reset:failed")
			case res.total == 0:
				rep.Unspec("read-overlapping-reset:reported-nothing")
			case res.total == uint64(before):
				rep.Unspec("read-overlapping-reset:reported-the-old-data")
			default:
				rep.Unspec("read-overlapping-reset:reported-something-else")
			}
		}
		steps = append(steps, fmt.Sprintf("read %d: %s -> status %d total %d %s", i, res.kind, res.code, res.total, res.failed))
	}
	rep.Event("reset_rounds_with_reads_in_flight")
	if spanned > 0 {
		rep.Event("reset_rounds_with_a_read_spanning_the_reset")
	}
	if trapped && tr.hold && detached {
		rep.Event("reset_rounds_with_a_read_held_in_loadUnits_until_the_database_was_detached")
	}
	rep.EventN("reads_spanning_a_reset", spanned)

	// Quiescence: the model is empty.
	m.clear()
	m.Cur = hour.Load()
	ok := true
	for pass := 0; pass < 2 && ok; pass++ {
		k := burst(1, 12)
		steps = append(steps, fmt.Sprintf("%d countable updates after the reset had returned", k))
		for rd := 0; rd < 2 && ok; rd++ {
			r, problem := in.read()
			if problem != "" {
				violate("conc:read-failed:after-reset", "GET /control/stats failed after the reset: "+problem, nil)
				return
			}
			mm, _ := m.check(r)
			if len(mm) == 0 {
				continue
			}
			ok = false
			key := "conc:" + mm[0].Kind + ":read-in-flight-during-reset"
			var want uint64
			for _, mh := range m.Hours {
				want += mh.all().Total
			}
			if r.NumDNSQueries > want {
				key = "conc:cleared-queries-reported-after-reset:read-in-flight-during-reset"
			}
			violate(key, fmt.Sprintf("after POST /control/stats_reset and every read in flight had returned, %d queries were counted, but the report shows num_dns_queries=%d (%d queries had been counted before the reset): %s",
				want, r.NumDNSQueries, before, mm[0].Detail),
				map[string]any{"mismatches": mm, "report": c09Brief(r, m.first()), "reads_spanning_the_reset_start": spanned})
		}
	}
	rep.Eval(ok && spanned > 0, fmt.Sprintf("inflight|%d|%s", idx, verifkit.JSON(steps)))
	rep.Class("shape:reset-with-reads-in-flight")
	if idx == 0 {
		rep.Sample(map[string]any{"reset_with_reads_in_flight": steps})
	}
}

// c09ResetWhileRolloverPendingHistory: a reset that lands between the hourly
// check's look at the clock and its rotation of the unit.
//
// GET /control/stats holds the configuration lock for reading for its whole
// duration; the hourly check needs it exclusively and waits behind a read in
// flight; POST /control/stats_reset does not take it at all.  So at an hour
// boundary a reset can complete while a rollover is pending.  The read is kept
// in flight at a harness-owned point (Config.ShouldCountClient, called while
// the top clients are built, after the database transaction is over), the hour
// id advances, the hourly check is started (flush() in its own goroutine as
// the only flusher, or the real Start() loop) and given a moment to reach the
// lock, the reset runs to completion, 0-2 further reads pile up, the read is
// released and the pending check finishes.  Then k queries are counted: every
// later report - also after a clean restart - must show exactly those k in
// the current hour (a reset removes everything counted before it).
func c09ResetWhileRolloverPendingHistory(rep *verifkit.Report, rng *rand.Rand, dir string, idx int, realLoop bool) {
	file := filepath.Join(dir, fmt.Sprintf("pending-%d.db", idx))
	defer os.Remove(file)
	hour := &atomic.Uint32{}
	hour.Store(400000 + uint32(rng.Intn(100000)))
	limitH := []uint32{24, 24, 168}[rng.Intn(3)]
	steps := []any{fmt.Sprintf("New(limit %d h) at hour %d, real loop: %v", limitH, hour.Load(), realLoop)}
	in, err := c09Open(file, hour, limitH, true, realLoop)
	if err != nil {
		rep.Violate("conc:new-failed", "stats.New failed on a fresh file: "+err.Error(), steps)
		return
	}
	cur := in
	defer func() {
		cur.close()
		c09StopLoop(in)
	}()
	m := &c09Model{Hours: map[uint32]*c09Hour{}, Cur: hour.Load(), LimitH: limitH, Enabled: true}
	violate := func(key, what string, extra map[string]any) {
		w := map[string]any{"steps": steps, "model": m.snapshot()}
		for k, v := range extra {
			w[k] = v
		}
		rep.Violate(key, what, w)
	}
	burst := func(on *c09Inst, lo, hi int) int {
		n := lo + rng.Intn(hi-lo+1)
		for i := 0; i < n; i++ {
			e := c09ValidEntry(rng, 20, 30)
			on.update(e)
			m.count(m.Cur, e.Result)
		}
		return n
	}
	before := 0
	if !realLoop {
		for i, n := 0, rng.Intn(3); i < n; i++ {
			before += burst(in, 1, 20)
			hour.Add(1)
			if p := in.flush(); p != "" {
				violate("conc:flush-panic", "flush crashed: "+p, nil)
				return
			}
			m.Cur = hour.Load()
			m.expire()
		}
	}
	before += burst(in, 1, 30)
	hourH := m.Cur
	steps = append(steps, fmt.Sprintf("%d countable updates, the last ones in the current hour %d", before, hourH))

	// 1. One read in flight, holding the configuration lock for reading.
	gate := c09NewGate()
	in.gate.Store(gate)
	var wg sync.WaitGroup
	wg.Add(1)
	go func() {
		defer wg.Done()
		in.call("GET", "/control/stats", "")
	}()
	select {
	case <-gate.entered:
	case <-time.After(10 * time.Second):
		close(gate.release)
		wg.Wait()
		rep.Unspec("pending-rollover-round:read-did-not-reach-the-client-filter")
		rep.Eval(false, "")
		return
	}
	// 2. The hour changes; the hourly check looks at the clock and waits.
	calls := in.idCalls.Load()
	k := 1 + uint32(rng.Intn(3))
	hour.Add(k)
	flushDone := make(chan string, 1)
	if !realLoop {
		go func() { flushDone <- in.flush() }()
	}
	looked := false
	for deadline := time.Now().Add(5 * time.Second); time.Now().Before(deadline); {
		if looked = in.idCalls.Load() > calls; looked {
			break
		}
		time.Sleep(200 * time.Microsecond)
	}
	// Let it get from the clock to the lock (workload shaping only).
	time.Sleep(time.Duration(2+rng.Intn(4)) * time.Millisecond)
	steps = append(steps, fmt.Sprintf("GET /control/stats in flight (held while the top clients are built); hour id +%d = %d; hourly check has read the clock: %v", k, hour.Load(), looked))
	// 3. The reset completes while the read is in flight.
	if p := in.reset(); p != "" {
		close(gate.release)
		wg.Wait()
		violate("conc:reset-failed:reset-while-rollover-pending", "POST /control/stats_reset failed: "+p, nil)
		return
	}
	pending := looked
	if !realLoop {
		select {
		case p := <-flushDone:
			// The check did not wait for the read (nothing to assert about that).
			pending = false
			flushDone <- p
		default:
		}
	}
	for i, n := 0, rng.Intn(3); i < n; i++ {
		wg.Add(1)
		go func() {
			defer wg.Done()
			in.call("GET", "/control/stats", "")
		}()
	}
	callsAtRelease := in.idCalls.Load()
	close(gate.release)
	// 4. Quiescence: reads returned, the pending check is over.
	joined := make(chan struct{})
	go func() { wg.Wait(); close(joined) }()
	stall := func(what string) {
		buf := make([]byte, 4<<20)
		fmt.Fprintf(os.Stderr, "C09 watchdog: %s did not finish in %s\n%s\n", what, c09StallAfter, buf[:runtime.Stack(buf, true)])
		rep.Inconcl(fmt.Sprintf("%s did not finish within %s (goroutine dump in the part's log)", what, c09StallAfter))
		_ = rep.Write()
		os.Exit(3)
	}
	select {
	case <-joined:
	case <-time.After(c09StallAfter):
		stall("reads around a reset with a pending rollover")
	}
	if realLoop {
		// The pending check is over once the loop has looked at the clock
		// again (it sleeps a second after a check that had nothing to do).
		over := false
		for deadline := time.Now().Add(5 * time.Second); time.Now().Before(deadline); {
			if over = in.idCalls.Load() > callsAtRelease; over {
				break
			}
			time.Sleep(2 * time.Millisecond)
		}
		if !over {
			rep.Unspec("pending-rollover-round:real-loop-check-not-seen-finishing-within-5s")
			rep.Eval(false, "")
			c09RealLoopStuck.Store(true)
			return
		}
		time.Sleep(20 * time.Millisecond)
	} else {
		select {
		case p := <-flushDone:
			if p != "" {
				violate("conc:flush-panic:reset-while-rollover-pending", "flush crashed: "+p, nil)
				return
			}
		case <-time.After(c09StallAfter):
			stall("the hourly check pending behind a read")
		}
	}
	in.gate.Store(nil)
	steps = append(steps, fmt.Sprintf("POST /control/stats_reset returned while the check was still pending: %v; read released; reads and the check have finished", pending))
	rep.Event("pending_rollover_rounds")
	if pending {
		rep.Event("resets_completed_while_a_rollover_flush_was_pending")
	}

	// 5. The model is empty; count and compare.
	m.clear()
	m.Cur = hour.Load()
	report := func(on *c09Inst, where string) bool {
		r, problem := on.read()
		if problem != "" {
			violate("conc:read-failed:reset-while-rollover-pending", "GET /control/stats failed "+where+": "+problem, nil)
			return false
		}
		mm, _ := m.check(r)
		if len(mm) == 0 {
			return true
		}
		var want uint64
		for _, mh := range m.Hours {
			want += mh.all().Total
		}
		key := "conc:" + mm[0].Kind + ":reset-while-rollover-pending"
		if r.NumDNSQueries > want {
			key = "conc:cleared-queries-reported-after-reset:reset-while-rollover-pending"
		}
		violate(key, fmt.Sprintf("%s: %d queries were counted after POST /control/stats_reset had returned, the report shows num_dns_queries=%d (%d had been counted before the reset, the last ones in hour %d): %s",
			where, want, r.NumDNSQueries, before, hourH, mm[0].Detail),
			map[string]any{"mismatches": mm, "report": c09Brief(r, m.first()), "current_unit_hour": on.unitHour(), "clock_hour": hour.Load()})
		return false
	}
	ok := report(in, "right after the reset and the pending check")
	for pass := 0; pass < 2 && ok; pass++ {
		n := burst(in, 1, 12)
		steps = append(steps, fmt.Sprintf("%d countable updates in hour %d", n, m.Cur))
		ok = report(in, "after counting again")
	}
	if ok {
		if p := in.close(); p != "" {
			violate("conc:close-failed:reset-while-rollover-pending", "Close failed: "+p, nil)
			ok = false
		} else if in2, oerr := c09Open(file, hour, limitH, true, false); oerr != nil {
			violate("conc:new-failed:reset-while-rollover-pending", "stats.New failed on the file a clean Close left: "+oerr.Error(), nil)
			ok = false
		} else {
			cur = in2
			steps = append(steps, "Close + New on the same file")
			ok = report(in2, "after a clean restart")
		}
	}
	rep.Eval(ok && pending, fmt.Sprintf("pending|%d|%v|%s", idx, realLoop, verifkit.JSON(steps)))
	rep.Class("shape:reset-while-rollover-pending")
	if idx == 0 {
		rep.Sample(map[string]any{"reset_while_rollover_pending": steps})
	}
}

// c09NoProgressAfter: a round in which no reader, updater, reset or rollover
// completes a single call for this long is stuck (calls take micro- to
// milliseconds); decided on progress, not on throughput.
const c09NoProgressAfter = 20 * time.Second

// c09ResetPollingRound: dashboards polling while the statistics are reset.
// 4-6 readers call the real GET /control/stats handler (which takes the
// configuration lock as in production) or TopClientsIP in tight loops, 4
// updaters count queries, one goroutine issues POST /control/stats_reset back
// to back (a fixed number, then everybody stops), and one goroutine advances
// the hour and calls flush() (the only flusher) now and then.  What the calls
// return while resets are in progress is not specified (reads may fail while
// the database is detached; counted).  What must hold: every goroutine
// finishes.  If none of them completes a call for c09NoProgressAfter and the
// goroutine dump shows goroutines blocked inside the stats package, the round
// is deadlocked: violation deadlock:stats:reset-polling-round under C05,
// inconclusive under C09 (whose statement is about counts).  Under C09 the
// round ends with a quiescent reset, k updates and a report that must show
// exactly those k.
func c09ResetPollingRound(rep *verifkit.Report, rng *rand.Rand, dir string, idx int) {
	file := filepath.Join(dir, fmt.Sprintf("polling-%d.db", idx))
	defer os.Remove(file)
	hour := &atomic.Uint32{}
	hour.Store(400000 + uint32(rng.Intn(100000)))
	limitH := []uint32{24, 168, 720}[rng.Intn(3)]
	nReaders := 4 + rng.Intn(3)
	nResets := verifkit.Pick(120, 300)
	desc := map[string]any{"limit_hours": limitH, "readers": nReaders, "updaters": 4, "resets": nResets, "first_hour": hour.Load()}
	in, err := c09Open(file, hour, limitH, true, false)
	if err != nil {
		rep.Violate("conc:new-failed", "stats.New failed on a fresh file: "+err.Error(), desc)
		return
	}
	closeIt := true
	defer func() {
		if closeIt {
			in.close()
		}
	}()
	// Some stored hours, so that reads hold their transaction for a while.
	for i, n := 0, 2+rng.Intn(6); i < n; i++ {
		for j, k := 0, 1+rng.Intn(15); j < k; j++ {
			in.update(c09ValidEntry(rng, 20, 30))
		}
		hour.Add(1)
		in.flush()
	}
	entries := make([][]*Entry, 4)
	for g := range entries {
		for i := 0; i < 40; i++ {
			entries[g] = append(entries[g], c09ValidEntry(rng, 20, 30))
		}
	}
	readerKinds := make([]bool, nReaders) // true: TopClientsIP
	for i := range readerKinds {
		readerKinds[i] = rng.Intn(4) == 0
	}

	var stop atomic.Bool
	var progress, resets, readsOK, readsFailed, updates, rollovers atomic.Int64
	var panics sync.Map
	var wg sync.WaitGroup
	guard := func(name string, f func()) {
		defer func() {
			if p := recover(); p != nil {
				panics.Store(name, fmt.Sprint(p))
			}
		}()
		f()
	}
	for i := 0; i < nReaders; i++ {
		wg.Add(1)
		go func(top bool) {
			defer wg.Done()
			for !stop.Load() {
				if top {
					guard("TopClientsIP", func() { in.s.TopClientsIP(10) })
					readsOK.Add(1)
				} else {
					code, _, p := in.call("GET", "/control/stats", "")
					switch {
					case p != nil:
						panics.Store("GET /control/stats", fmt.Sprint(p))
					case code != 200:
						readsFailed.Add(1)
					default:
						readsOK.Add(1)
					}
				}
				progress.Add(1)
			}
		}(readerKinds[i])
	}
	for g := range entries {
		wg.Add(1)
		go func(g int) {
			defer wg.Done()
			for i := 0; !stop.Load(); i++ {
				if p := in.update(entries[g][i%len(entries[g])]); p != "" {
					panics.Store("Update", p)
				}
				updates.Add(1)
				progress.Add(1)
				if i%8 == 7 {
					runtime.Gosched()
				}
			}
		}(g)
	}
	wg.Add(1)
	go func() { // rollovers now and then
		defer wg.Done()
		for !stop.Load() {
			time.Sleep(3 * time.Millisecond)
			hour.Add(1)
			if p := in.flush(); p != "" {
				panics.Store("flush", p)
			}
			rollovers.Add(1)
			progress.Add(1)
		}
	}()
	wg.Add(1)
	go func() { // the resets
		defer wg.Done()
		defer stop.Store(true)
		for i := 0; i < nResets; i++ {
			code, _, p := in.call("POST", "/control/stats_reset", "")
			if p != nil {
				panics.Store("POST /control/stats_reset", fmt.Sprint(p))
				return
			}
			if code == 200 {
				resets.Add(1)
			}
			progress.Add(1)
			runtime.Gosched()
		}
	}()

	joined := make(chan struct{})
	go func() { wg.Wait(); close(joined) }()
	last, lastChange := progress.Load(), time.Now()
	tick := time.NewTicker(500 * time.Millisecond)
	defer tick.Stop()
wait:
	for {
		select {
		case <-joined:
			break wait
		case <-tick.C:
			if p := progress.Load(); p != last {
				last, lastChange = p, time.Now()
				continue
			}
			if time.Since(lastChange) < c09NoProgressAfter {
				continue
			}
			buf := make([]byte, 4<<20)
			dump := string(buf[:runtime.Stack(buf, true)])
			summary := c09DumpSummary(dump)
			fmt.Fprintf(os.Stderr, "C09 watchdog: reset-polling round made no progress for %s\n%s\n", c09NoProgressAfter, dump)
			desc["calls_completed"] = map[string]int64{"resets": resets.Load(), "reads_ok": readsOK.Load(), "reads_failed": readsFailed.Load(),
				"updates": updates.Load(), "rollovers": rollovers.Load()}
			what := fmt.Sprintf("readers polling GET /control/stats / TopClientsIP, updaters and POST /control/stats_reset: no call of any of them completed for %s", c09NoProgressAfter)
			blocked := false
			for _, row := range summary {
				if !strings.HasPrefix(row.Stack, "[sleep]") {
					blocked = true // waiting for a lock / semaphore inside the module
				}
			}
			switch {
			case !blocked:
				rep.Inconcl(what + ", but no goroutine is inside the stats package (goroutine dump in the part's log)")
			case c09Prop() == "C09":
				rep.Inconcl(what + " (goroutines blocked inside the stats package; dump in the part's log)")
			default:
				rep.Violate("deadlock:stats:reset-polling-round", what+" and goroutines are blocked inside the statistics module: its callers wait for each other for good",
					map[string]any{"round": desc, "blocked_goroutines": summary})
			}
			closeIt = false
			_ = rep.Write()
			os.Exit(3)
		}
	}
	rep.Event("reset_polling_rounds_finished")
	rep.EventN("resets_while_readers_poll", int(resets.Load()))
	rep.EventN("reads_while_resets_run", int(readsOK.Load()))
	rep.EventN("updates_while_resets_run", int(updates.Load()))
	rep.EventN("rollovers_while_resets_run", int(rollovers.Load()))
	for i := int64(0); i < readsFailed.Load(); i++ {
		rep.Unspec("read-failed-while-reset-in-progress")
	}
	crashed := false
	panics.Range(func(k, v any) bool {
		rep.Violate("conc:reset-polling-round:panic:"+k.(string), "a call panicked during the reset-polling round: "+v.(string), map[string]any{"round": desc})
		crashed = true
		return true
	})
	ok := !crashed
	if ok && c09Prop() == "C09" {
		// Quiescent: reset, count, compare.
		if p := in.reset(); p != "" {
			rep.Violate("conc:reset-polling-round:reset-failed", "POST /control/stats_reset failed at quiescence: "+p, map[string]any{"round": desc})
			ok = false
		} else {
			m := &c09Model{Hours: map[uint32]*c09Hour{}, Cur: hour.Load(), LimitH: limitH, Enabled: true}
			for i, k := 0, 1+rng.Intn(15); i < k; i++ {
				e := c09ValidEntry(rng, 20, 30)
				in.update(e)
				m.count(m.Cur, e.Result)
			}
			if r, problem := in.read(); problem != "" {
				rep.Violate("conc:reset-polling-round:read-failed", "GET /control/stats failed at quiescence: "+problem, map[string]any{"round": desc})
				ok = false
			} else if mm, _ := m.check(r); len(mm) > 0 {
				rep.Violate("conc:reset-polling-round:"+mm[0].Kind, "after the round, a reset and a few updates: "+mm[0].Detail,
					map[string]any{"round": desc, "mismatches": mm, "report": c09Brief(r, m.first()), "model": m.snapshot()})
				ok = false
			}
		}
	}
	rep.Eval(ok && resets.Load() > 0 && readsOK.Load() > 0, fmt.Sprintf("polling|%d|%d|%d|%d", idx, limitH, nReaders, hour.Load()))
	rep.Class("shape:reset-polling")
}
