//go:build verif

package stats

// Part "loop" of C09: the real Start() loop on VIRTUAL time (testing/synctest).
//
// The hourly loop (periodicFlush) is the only thing that notices a new hour.
// How soon it does so cannot be decided with a wall-clock wait without either
// false alarms or misses; inside a synctest bubble it is deterministic: the
// unchanged loop polls once per virtual second, so a few virtual seconds after
// the hour id changed (at an instant that is not a wall-clock hour boundary of
// the bubble's clock) and synctest.Wait, the rollover must have happened.

import (
	"fmt"
	"math/rand"
	"os"
	"path/filepath"
	"sync/atomic"
	"testing"
	"testing/synctest"
	"time"

	"github.com/AdguardTeam/AdGuardHome/internal/verifkit"
)

// c09LoopPolls is the number of virtual seconds the loop is given to notice a
// new hour (its period is one second).
const c09LoopPolls = 3

type c09LoopStep struct {
	At      string         `json:"virtual_time"`
	Op      string         `json:"op"`
	Advance uint32         `json:"advance_hours,omitempty"`
	Counted map[string]int `json:"counted,omitempty"`
	Slack   string         `json:"update_within_one_poll_after_the_advance,omitempty"`
	Hour    uint32         `json:"clock_hour_after"`
	Unit    uint32         `json:"current_unit_hour_after,omitempty"`
}

// c09LoopHistory runs one history; it must be called inside a bubble.
func c09LoopHistory(rep *verifkit.Report, rng *rand.Rand, dir string, idx int) {
	file := filepath.Join(dir, fmt.Sprintf("loop-%d.db", idx))
	defer os.Remove(file)

	// Leave the bubble's 00:00:00 so that nothing below happens on, or sleeps
	// across, a wall-clock hour boundary (a history lasts < 3 virtual minutes).
	time.Sleep(5*time.Second + time.Duration(rng.Int63n(int64(3300*time.Second))))

	hour := &atomic.Uint32{}
	hour.Store(400000 + uint32(rng.Intn(100000)))
	limitH := []uint32{24, 24, 24, 168, 168, 720}[rng.Intn(6)]
	m := &c09Model{Hours: map[uint32]*c09Hour{}, Cur: hour.Load(), LimitH: limitH, Enabled: true}
	var steps []c09LoopStep
	now := func() string { return time.Now().UTC().Format("15:04:05.000") }
	steps = append(steps, c09LoopStep{At: now(), Op: fmt.Sprintf("New(limit %d h) + Start()", limitH), Hour: hour.Load()})

	in, err := c09Open(file, hour, limitH, true, true)
	if err != nil {
		rep.Violate("loop:new-failed:initial", "stats.New failed on a fresh file: "+err.Error(), map[string]any{"history": steps})
		rep.Eval(false, "")
		return
	}
	var live []*c09Inst // modules whose loop goroutine has to be stopped
	live = append(live, in)
	closed := false
	defer func() {
		if !closed {
			in.close()
		}
		for _, l := range live {
			c09StopLoop(l)
		}
	}()

	violated := false
	violate := func(key, what string, extra map[string]any) {
		w := map[string]any{"history": steps, "model": m.snapshot(), "poll_period": "1 virtual second",
			"virtual_time": now()}
		for k, v := range extra {
			w[k] = v
		}
		rep.Violate(key, what, w)
		violated = true
	}
	last := "new"
	readCheck := func() {
		r, problem := in.read()
		if problem != "" {
			violate("loop:read-failed:after-"+last, "GET /control/stats failed: "+problem, nil)
			return
		}
		rep.Event("reads_checked")
		mm, st := m.check(r)
		for i := 0; i < st.MaybePresent; i++ {
			rep.Unspec("possibly-expired-hour-still-reported")
		}
		for i := 0; i < st.MaybeAbsent; i++ {
			rep.Unspec("possibly-expired-hour-dropped")
		}
		rep.EventN("sure_nonzero_hours_compared", st.SureNonZeroHours)
		if len(mm) > 0 {
			violate("loop:"+mm[0].Kind+":after-"+last,
				fmt.Sprintf("report disagrees with the counted queries after %q: %s", last, mm[0].Detail),
				map[string]any{"mismatches": mm, "report": c09Brief(r, m.first()), "current_unit_hour": in.unitHour(), "clock_hour": hour.Load()})
		}
	}
	burst := func(st *c09LoopStep) {
		st.Counted = map[string]int{}
		for i, n := 0, 1+rng.Intn(30); i < n; i++ {
			e := c09ValidEntry(rng, 20, 30)
			in.update(e)
			m.count(m.Cur, e.Result)
			st.Counted[c09CatNames[e.Result]]++
			rep.Event("updates_counted")
		}
	}

	noticed, noticedNonEmpty, restarts := 0, 0, 0
	nSteps := 15 + rng.Intn(20)
	for si := 0; si < nSteps && !violated; si++ {
		st := c09LoopStep{}
		switch x := rng.Intn(100); {
		case x < 38:
			st.Op = "update"
			burst(&st)
		case x < 72:
			st.Op = "advance, then sleep 3 virtual seconds"
			switch y := rng.Intn(100); {
			case y < 40:
				st.Advance = 1
			case y < 60:
				st.Advance = 2 + uint32(rng.Intn(4))
			case y < 85:
				st.Advance = 6 + uint32(rng.Intn(45))
			default:
				st.Advance = limitH - 1 + uint32(rng.Intn(3))
				if st.Advance > 50 {
					st.Advance = 23 + uint32(rng.Intn(3))
				}
			}
			oldH := m.Cur
			hadData := m.Hours[oldH] != nil && m.Hours[oldH].all().Total > 0
			newH := hour.Add(st.Advance)
			// One update inside the poll period after the advance: the
			// statement leaves open whether it belongs to the old or the new
			// hour (the loop may or may not have looked yet).
			var slack *Entry
			if limitH/24 <= 7 && rng.Intn(100) < 35 {
				slack = c09ValidEntry(rng, 20, 30)
				in.update(slack)
				rep.Event("updates_within_one_poll_after_an_advance")
			}
			time.Sleep(c09LoopPolls * time.Second)
			synctest.Wait()
			st.Hour, st.Unit, st.At = newH, in.unitHour(), now()
			if st.Unit != newH {
				steps = append(steps, st)
				// Show the consequence through the API: a query counted now.
				probe := c09ValidEntry(rng, 20, 30)
				in.update(probe)
				r, _ := in.read()
				violate("loop:rollover-not-noticed-within-3-polls",
					fmt.Sprintf("the hour id changed from %d to %d at a moment that is not a wall-clock hour boundary; %d virtual seconds (poll period: 1 s) later the current unit is still hour %d, so queries keep being counted in the old hour", oldH, newH, c09LoopPolls, st.Unit),
					map[string]any{"report_after_one_more_update": c09Brief(r, newH-limitH+1), "clock_hour": newH, "current_unit_hour": st.Unit})
				continue
			}
			noticed++
			if hadData {
				noticedNonEmpty++
			}
			rep.Event("rollovers_noticed_by_the_real_loop")
			if slack != nil {
				inNew := false
				if r, problem := in.read(); problem == "" && r.TimeUnits == "hours" && len(r.DNSQueries) == int(limitH) {
					inNew = r.DNSQueries[limitH-1] == 1
				}
				if inNew {
					st.Slack = "credited to the new hour"
					rep.Unspec("update-within-one-poll-credited-to-new-hour")
				} else {
					st.Slack = "credited to the old hour"
					rep.Unspec("update-within-one-poll-credited-to-old-hour")
					m.count(oldH, slack.Result)
				}
				m.Cur = newH
				m.expire()
				if inNew {
					m.count(newH, slack.Result)
				}
			} else {
				m.Cur = newH
				m.expire()
			}
			if st.Advance > 1 {
				rep.Class("advance:gap")
			} else {
				rep.Class("advance:1h")
			}
		case x < 80:
			st.Op = "sleep"
			time.Sleep(time.Duration(50+rng.Intn(1900)) * time.Millisecond)
		case x < 92:
			st.Op = "restart-same-hour"
			if rng.Intn(2) == 0 {
				st.Op = "restart-later-hour"
				st.Advance = 1 + uint32(rng.Intn(30))
				hour.Add(st.Advance)
			}
			if p := in.close(); p != "" {
				closed = true
				steps = append(steps, st)
				violate("loop:close-failed", "Close failed: "+p, nil)
				continue
			}
			c09StopLoop(in)
			in, err = c09Open(file, hour, limitH, true, true)
			if err != nil {
				closed = true
				steps = append(steps, st)
				violate("loop:new-failed:"+st.Op, "stats.New failed on the file a clean Close left: "+err.Error(), nil)
				continue
			}
			live = append(live, in)
			m.Cur = hour.Load()
			m.expire()
			restarts++
			rep.Class(st.Op)
		default:
			st.Op = "read"
		}
		if violated {
			break
		}
		if st.At == "" {
			st.At, st.Hour, st.Unit = now(), hour.Load(), in.unitHour()
		}
		steps = append(steps, st)
		last = st.Op
		if st.Advance > 0 && st.Op[0] == 'a' {
			last = "advance"
		}
		readCheck()
	}

	// Final clean restart without a loop.
	if !violated {
		if p := in.close(); p != "" {
			closed = true
			violate("loop:close-failed", "Close failed: "+p, nil)
		} else {
			c09StopLoop(in)
			in2, oerr := c09Open(file, hour, limitH, true, false)
			if oerr != nil {
				closed = true
				violate("loop:new-failed:final-restart", "stats.New failed on the file a clean Close left: "+oerr.Error(), nil)
			} else {
				in = in2
				steps = append(steps, c09LoopStep{At: now(), Op: "final Close + New", Hour: hour.Load(), Unit: in.unitHour()})
				last = "final-restart"
				readCheck()
			}
		}
	}

	rep.Eval(!violated && noticedNonEmpty > 0, verifkit.JSON(steps))
	rep.EventN("rollovers_persisting_a_nonempty_unit", noticedNonEmpty)
	rep.EventN("restarts", restarts)
	if idx < 2 {
		rep.Sample(map[string]any{"history": steps})
	}
}

func TestVerifC09Loop(t *testing.T) {
	rep := verifkit.New("C09", "loop",
		"case = one history on virtual time (testing/synctest) with the real Start() loop as the only flusher: update bursts, advances of the hour id by 1..50 h at instants that are not wall-clock hour boundaries followed by 3 virtual seconds (the loop polls once per virtual second) after which the rollover must have happened, single updates inside the poll period after an advance (either hour accepted), clean Close+New in the same / a later hour; every report is compared with the shadow map hour->category counts; non-trivial = at least one rollover noticed by the loop persisted a non-empty unit; distinct by the step list")
	defer func() {
		if err := rep.Write(); err != nil {
			t.Fatal(err)
		}
	}()
	rep.Assume("entry i of an hourly series stands for hour current-limit+1+i (last entry = current hour)")
	rep.Assume("testing/synctest virtual clock (Go 1.24 experiment); one bubble at a time")
	dir, err := c09ScratchDir("loop")
	if err != nil {
		rep.Inconcl("no scratch directory: " + err.Error())
		return
	}
	defer os.RemoveAll(dir)

	rng := rep.Rand("histories")
	n := verifkit.Pick(400, 6000)
	for i := 0; i < n; i++ {
		synctest.Run(func() { c09LoopHistory(rep, rng, dir, i) })
	}
	if rep.Violated() {
		return
	}
	for _, ev := range []string{"rollovers_noticed_by_the_real_loop", "rollovers_persisting_a_nonempty_unit", "restarts",
		"updates_within_one_poll_after_an_advance", "sure_nonzero_hours_compared"} {
		if rep.EventCount(ev) == 0 {
			rep.Inconcl("event never observed: " + ev)
		}
	}
}
