//go:build verif

package stats

// Shared pieces of the C09 monitors: construction of a real StatsCtx on a
// harness-owned logical hour, access to its HTTP handlers, the entry
// generator and the reference model (DESIGN.md A.4) with its report oracle.

import (
	"encoding/json"
	"fmt"
	"log/slog"
	"math/rand"
	"net/http"
	"net/http/httptest"
	"os"
	"sort"
	"strings"
	"sync/atomic"
	"time"

	"github.com/AdguardTeam/AdGuardHome/internal/aghnet"
	"github.com/AdguardTeam/AdGuardHome/internal/verifkit"
	"github.com/AdguardTeam/dnsproxy/proxy"
	"github.com/AdguardTeam/golibs/logutil/slogutil"
)

// c09Resp is the monitor's own view of the GET /control/stats JSON document
// (decoded from the bytes the handler wrote, independent of the product's
// response type).
type c09Resp struct {
	TimeUnits string `json:"time_units"`

	DNSQueries           []uint64 `json:"dns_queries"`
	BlockedFiltering     []uint64 `json:"blocked_filtering"`
	ReplacedSafebrowsing []uint64 `json:"replaced_safebrowsing"`
	ReplacedParental     []uint64 `json:"replaced_parental"`

	NumDNSQueries           uint64 `json:"num_dns_queries"`
	NumBlockedFiltering     uint64 `json:"num_blocked_filtering"`
	NumReplacedSafebrowsing uint64 `json:"num_replaced_safebrowsing"`
	NumReplacedSafesearch   uint64 `json:"num_replaced_safesearch"`
	NumReplacedParental     uint64 `json:"num_replaced_parental"`

	TopQueried []map[string]uint64 `json:"top_queried_domains"`
	TopClients []map[string]uint64 `json:"top_clients"`
	TopBlocked []map[string]uint64 `json:"top_blocked_domains"`
}

// c09Inst is one running statistics module on a database file.
type c09Inst struct {
	s        *StatsCtx
	handlers map[string]http.HandlerFunc
	hour     *atomic.Uint32
	file     string

	// idCalls counts the calls of Config.UnitID: it tells the harness that
	// the hourly check has looked at the clock.
	idCalls atomic.Int64
	// gate, when set, is consulted by Config.ShouldCountClient, which GET
	// /control/stats calls for every client while it builds the top clients
	// (after it has released the database, still holding the configuration
	// lock for reading): a harness-owned point to keep one read in flight.
	gate atomic.Pointer[c09Gate]
}

// c09Gate keeps the first caller (while armed) until release is closed.
type c09Gate struct {
	armed   atomic.Bool
	entered chan struct{}
	release chan struct{}
}

func c09NewGate() *c09Gate {
	g := &c09Gate{entered: make(chan struct{}), release: make(chan struct{})}
	g.armed.Store(true)
	return g
}

// c09Open creates the module through the exported constructor.  The logical
// hour comes from hour through Config.UnitID.  When startLoop is true the
// real Start() (handlers + hourly loop) is used, otherwise only the handlers
// are registered so that the history stays sequential.
func c09Open(file string, hour *atomic.Uint32, limitH uint32, enabled, startLoop bool) (in *c09Inst, err error) {
	return c09OpenLog(file, hour, limitH, enabled, startLoop, slogutil.NewDiscardLogger())
}

// c09OpenLog is c09Open with a logger owned by the harness.
func c09OpenLog(file string, hour *atomic.Uint32, limitH uint32, enabled, startLoop bool, logger *slog.Logger) (in *c09Inst, err error) {
	defer func() {
		if p := recover(); p != nil {
			in, err = nil, fmt.Errorf("panic in New: %v", p)
		}
	}()
	ign, err := aghnet.NewIgnoreEngine(nil)
	if err != nil {
		return nil, err
	}
	in = &c09Inst{handlers: map[string]http.HandlerFunc{}, hour: hour, file: file}
	conf := Config{
		Logger: logger,
		UnitID: func() uint32 {
			in.idCalls.Add(1)
			return hour.Load()
		},
		ConfigModified: func() {},
		ShouldCountClient: func([]string) bool {
			if g := in.gate.Load(); g != nil && g.armed.CompareAndSwap(true, false) {
				close(g.entered)
				<-g.release
			}
			return true
		},
		HTTPRegister: func(method, url string, h http.HandlerFunc) {
			in.handlers[method+" "+url] = h
		},
		Ignored:  ign,
		Filename: file,
		Limit:    time.Duration(limitH) * time.Hour,
		Enabled:  enabled,
	}
	in.s, err = New(conf)
	if err != nil {
		return nil, err
	}
	if startLoop {
		in.s.Start()
	} else {
		in.s.initWeb()
	}
	return in, nil
}

// call runs one registered handler.  A panic of the handler is returned.
func (in *c09Inst) call(method, url, body string) (code int, out []byte, panicked any) {
	h := in.handlers[method+" "+url]
	if h == nil {
		return 0, nil, "no handler registered for " + method + " " + url
	}
	defer func() {
		if p := recover(); p != nil {
			panicked = p
		}
	}()
	var rd *strings.Reader
	if body != "" {
		rd = strings.NewReader(body)
	}
	var req *http.Request
	if rd != nil {
		req = httptest.NewRequest(method, url, rd)
		req.Header.Set("Content-Type", "application/json")
	} else {
		req = httptest.NewRequest(method, url, nil)
	}
	rw := httptest.NewRecorder()
	h(rw, req)
	return rw.Code, rw.Body.Bytes(), nil
}

// read fetches GET /control/stats.
func (in *c09Inst) read() (r *c09Resp, problem string) {
	code, body, p := in.call(http.MethodGet, "/control/stats", "")
	if p != nil {
		return nil, fmt.Sprintf("panic: %v", p)
	}
	if code != http.StatusOK {
		return nil, fmt.Sprintf("status %d: %.200s", code, body)
	}
	r = &c09Resp{}
	if err := json.Unmarshal(body, r); err != nil {
		return nil, "undecodable body: " + err.Error()
	}
	return r, ""
}

// setConfigNew changes the configuration through PUT /control/stats/config/update.
func (in *c09Inst) setConfigNew(limitH uint32, enabled bool) (problem string) {
	body := fmt.Sprintf(`{"enabled":%v,"interval":%d,"ignored":[]}`, enabled, uint64(limitH)*3600*1000)
	code, out, p := in.call(http.MethodPut, "/control/stats/config/update", body)
	if p != nil {
		return fmt.Sprintf("panic: %v", p)
	}
	if code != http.StatusOK {
		return fmt.Sprintf("status %d: %.200s", code, out)
	}
	return ""
}

// setConfigOld changes the retention through the deprecated POST
// /control/stats_config (interval in days; 0 disables and clears).
func (in *c09Inst) setConfigOld(days uint32) (problem string) {
	code, out, p := in.call(http.MethodPost, "/control/stats_config", fmt.Sprintf(`{"interval":%d}`, days))
	if p != nil {
		return fmt.Sprintf("panic: %v", p)
	}
	if code != http.StatusOK {
		return fmt.Sprintf("status %d: %.200s", code, out)
	}
	return ""
}

func (in *c09Inst) reset() (problem string) {
	code, out, p := in.call(http.MethodPost, "/control/stats_reset", "")
	if p != nil {
		return fmt.Sprintf("panic: %v", p)
	}
	if code != http.StatusOK {
		return fmt.Sprintf("status %d: %.200s", code, out)
	}
	return ""
}

// flush runs the body of the hourly loop once.
func (in *c09Inst) flush() (problem string) {
	defer func() {
		if p := recover(); p != nil {
			problem = fmt.Sprintf("panic: %v", p)
		}
	}()
	in.s.flush()
	return ""
}

// update calls Update, reporting a panic.
func (in *c09Inst) update(e *Entry) (problem string) {
	defer func() {
		if p := recover(); p != nil {
			problem = fmt.Sprintf("panic: %v", p)
		}
	}()
	in.s.Update(e)
	return ""
}

func (in *c09Inst) close() (problem string) {
	defer func() {
		if p := recover(); p != nil {
			problem = fmt.Sprintf("panic: %v", p)
		}
	}()
	if err := in.s.Close(); err != nil {
		return err.Error()
	}
	return ""
}

// unitHour peeks at the hour of the current in-memory unit (unexported: the
// only place where "the rollover has happened" is visible).
func (in *c09Inst) unitHour() uint32 {
	in.s.currMu.RLock()
	defer in.s.currMu.RUnlock()
	return in.s.curr.id
}

// c09StopLoop makes the hourly loop of a (closed) module exit at its next
// wake-up through the product's own stop condition (flush returns cont=false
// when there is no current unit).  A bubble cannot be left while a goroutine
// of it lives, and after Close the unchanged loop would spin without sleeping
// as soon as the hour changes, which would freeze the virtual clock.
func c09StopLoop(in *c09Inst) {
	in.s.currMu.Lock()
	in.s.curr = nil
	in.s.currMu.Unlock()
}

// c09ScratchDir returns a fresh directory for database files.
func c09ScratchDir(tag string) (string, error) {
	base := os.Getenv("VERIF_SCRATCH")
	if base == "" {
		base = os.TempDir()
	}
	return os.MkdirTemp(base, "c09-"+tag+"-")
}

var c09CatNames = map[Result]string{
	RNotFiltered: "not_filtered", RFiltered: "filtered", RSafeBrowsing: "safebrowsing",
	RSafeSearch: "safesearch", RParental: "parental",
}

var c09Upstreams = []string{"1.1.1.1:53", "tls://dns.example:853", "https://doh.example/dns-query", "[2001:db8::1]:53"}

// c09ValidEntry builds an entry the module documents as countable.
func c09ValidEntry(rng *rand.Rand, nClients, nDomains int) *Entry {
	var res Result
	switch x := rng.Intn(100); {
	case x < 45:
		res = RNotFiltered
	case x < 70:
		res = RFiltered
	case x < 80:
		res = RSafeBrowsing
	case x < 90:
		res = RSafeSearch
	default:
		res = RParental
	}
	e := &Entry{
		Result:         res,
		Domain:         fmt.Sprintf("d%d.example.org", rng.Intn(nDomains)),
		ProcessingTime: time.Duration(rng.Intn(2_000_000)) * time.Microsecond,
	}
	if c := rng.Intn(nClients); c%7 == 3 {
		e.Client = fmt.Sprintf("client-id-%d", c)
	} else {
		e.Client = fmt.Sprintf("10.%d.%d.%d", c>>16&255, c>>8&255, c&255)
	}
	for i, n := 0, rng.Intn(3); i < n; i++ {
		us := &proxy.UpstreamStatistics{
			Address:       c09Upstreams[rng.Intn(len(c09Upstreams))],
			QueryDuration: time.Duration(rng.Intn(900_000)) * time.Microsecond,
			IsCached:      rng.Intn(6) == 0,
		}
		if rng.Intn(8) == 0 {
			us.Error = fmt.Errorf("upstream failed")
		}
		e.UpstreamStats = append(e.UpstreamStats, us)
	}
	return e
}

// c09InvalidEntry builds an entry that Update documents as not counted
// (Entry.validate).  kind names the reason.
func c09InvalidEntry(rng *rand.Rand) (e *Entry, kind string) {
	e = c09ValidEntry(rng, 50, 50)
	switch rng.Intn(4) {
	case 0:
		e.Result = 0
		return e, "result-unset"
	case 1:
		e.Result = resultLast + Result(rng.Intn(3))
		return e, "result-unknown"
	case 2:
		e.Domain = ""
		return e, "empty-domain"
	default:
		e.Client = ""
		return e, "empty-client"
	}
}

// c09Counts are the counters of one hour.  Cat is indexed by Result.
type c09Counts struct {
	Total uint64    `json:"total"`
	Cat   [6]uint64 `json:"by_result"`
}

func (c *c09Counts) add(o c09Counts) {
	c.Total += o.Total
	for i := range c.Cat {
		c.Cat[i] += o.Cat[i]
	}
}

// c09Hour is what the model knows about one hour.  Sure are the queries that
// must be reported while the hour is inside the window.  Maybe are batches of
// queries counted in this hour before a moment at which the module was
// allowed to drop what it had (the hour was outside the retention window, or
// statistics were disabled): each batch is reported entirely or not at all.
type c09Hour struct {
	Sure  c09Counts   `json:"counted"`
	Maybe []c09Counts `json:"possibly_dropped_batches,omitempty"`
}

func (h *c09Hour) all() c09Counts {
	c := h.Sure
	for _, b := range h.Maybe {
		c.add(b)
	}
	return c
}

func (h *c09Hour) demote() {
	if h.Sure.Total > 0 {
		h.Maybe = append(h.Maybe, h.Sure)
	}
	h.Sure = c09Counts{}
}

// c09Model is the reference model A.4.
type c09Model struct {
	Hours   map[uint32]*c09Hour
	Cur     uint32 // hour of the current unit
	LimitH  uint32
	Enabled bool
}

func (m *c09Model) first() uint32 { return m.Cur - m.LimitH + 1 }

// count records one counted query in hour h.
func (m *c09Model) count(h uint32, res Result) {
	mh := m.Hours[h]
	if mh == nil {
		mh = &c09Hour{}
		m.Hours[h] = mh
	}
	mh.Sure.Total++
	mh.Sure.Cat[res]++
}

// expire marks every hour that is outside the window now.
func (m *c09Model) expire() {
	f := m.first()
	for h, mh := range m.Hours {
		if h < f || h > m.Cur {
			mh.demote()
		}
	}
}

func (m *c09Model) markAllMaybe() {
	for _, mh := range m.Hours {
		mh.demote()
	}
}

func (m *c09Model) clear() { m.Hours = map[uint32]*c09Hour{} }

// snapshot renders the non-empty hours for a witness.
func (m *c09Model) snapshot() any {
	type row struct {
		Hour     uint32 `json:"hour"`
		InWindow bool   `json:"in_window"`
		c09Hour
	}
	var rows []row
	for h, mh := range m.Hours {
		if mh.all().Total == 0 {
			continue
		}
		rows = append(rows, row{Hour: h, InWindow: h >= m.first() && h <= m.Cur, c09Hour: *mh})
	}
	sort.Slice(rows, func(i, j int) bool { return rows[i].Hour < rows[j].Hour })
	if len(rows) > 80 {
		rows = rows[len(rows)-80:]
	}
	return map[string]any{"current_hour": m.Cur, "limit_hours": m.LimitH, "window_first_hour": m.first(),
		"enabled": m.Enabled, "counted_hours": rows}
}

// c09Mismatch is one disagreement between a report and the model.
type c09Mismatch struct {
	Kind   string `json:"kind"`
	Detail string `json:"detail"`
}

// c09CheckStats are event counts of one oracle evaluation.
type c09CheckStats struct {
	Hourly, Daily             bool
	SureNonZeroHours          int
	MaybePresent, MaybeAbsent int
	WindowTotal               uint64
	TooManyBatches            int
}

func c09Sum(a []uint64) (s uint64) {
	for _, v := range a {
		s += v
	}
	return s
}

func c09SumTop(a []map[string]uint64) (s uint64) {
	for _, m := range a {
		for _, v := range m {
			s += v
		}
	}
	return s
}

// check compares one report with the model.  It asserts what the statement
// says: totals = counted queries of the hours inside [cur-limit+1, cur]; every
// hour of the hourly series shows exactly the queries counted in that hour;
// hourly series sum to the totals; daily series do not exceed them; category
// totals are disjoint parts of the total.  For a possibly-expired hour both
// "all of it" and "none of it" are accepted.
func (m *c09Model) check(r *c09Resp) (mm []c09Mismatch, st c09CheckStats) {
	add := func(kind, format string, a ...any) {
		mm = append(mm, c09Mismatch{Kind: kind, Detail: fmt.Sprintf(format, a...)})
	}
	first := m.first()
	type tot struct {
		name string
		got  uint64
		res  Result // 0: all queries
	}
	totals := []tot{
		{"num_dns_queries", r.NumDNSQueries, 0},
		{"num_blocked_filtering", r.NumBlockedFiltering, RFiltered},
		{"num_replaced_safebrowsing", r.NumReplacedSafebrowsing, RSafeBrowsing},
		{"num_replaced_safesearch", r.NumReplacedSafesearch, RSafeSearch},
		{"num_replaced_parental", r.NumReplacedParental, RParental},
	}
	pick := func(c c09Counts, res Result) uint64 {
		if res == 0 {
			return c.Total
		}
		return c.Cat[res]
	}
	type ser struct {
		name  string
		vals  []uint64
		total uint64
		res   Result
	}
	series := []ser{
		{"dns_queries", r.DNSQueries, r.NumDNSQueries, 0},
		{"blocked_filtering", r.BlockedFiltering, r.NumBlockedFiltering, RFiltered},
		{"replaced_safebrowsing", r.ReplacedSafebrowsing, r.NumReplacedSafebrowsing, RSafeBrowsing},
		{"replaced_parental", r.ReplacedParental, r.NumReplacedParental, RParental},
	}

	switch r.TimeUnits {
	case "hours":
		st.Hourly = true
		okLen := true
		for _, s := range series {
			if len(s.vals) != int(m.LimitH) {
				add("series-length", "%s has %d entries, retention window is %d hours", s.name, len(s.vals), m.LimitH)
				okLen = false
			}
		}
		if !okLen {
			break
		}
		var exp c09Counts
		safesearchOpen := false
		for i := 0; i < int(m.LimitH); i++ {
			h := first + uint32(i)
			var want c09Counts
			var batches []c09Counts
			if mh := m.Hours[h]; mh != nil {
				want, batches = mh.Sure, mh.Maybe
			}
			matches := func(c c09Counts) bool {
				for _, s := range series {
					if s.vals[i] != pick(c, s.res) {
						return false
					}
				}
				return true
			}
			describe := func() string {
				d := fmt.Sprintf("hour %d (series index %d of %d): reported dns=%d filtered=%d safebrowsing=%d parental=%d; counted in that hour dns=%d filtered=%d safebrowsing=%d parental=%d",
					h, i, m.LimitH, r.DNSQueries[i], r.BlockedFiltering[i], r.ReplacedSafebrowsing[i], r.ReplacedParental[i],
					want.Total, want.Cat[RFiltered], want.Cat[RSafeBrowsing], want.Cat[RParental])
				if len(batches) > 0 {
					d += fmt.Sprintf(" plus any of the possibly dropped batches %s", verifkit.JSON(batches))
				}
				return d
			}
			if want.Total > 0 {
				st.SureNonZeroHours++
			}
			if len(batches) > 12 {
				st.TooManyBatches++
				exp.Total += r.DNSQueries[i]
				exp.Cat[RFiltered] += r.BlockedFiltering[i]
				exp.Cat[RSafeBrowsing] += r.ReplacedSafebrowsing[i]
				exp.Cat[RParental] += r.ReplacedParental[i]
				safesearchOpen = true
				continue
			}
			found := false
			for mask := 0; mask < 1<<len(batches) && !found; mask++ {
				cand := want
				for b := range batches {
					if mask&(1<<b) != 0 {
						cand.add(batches[b])
					}
				}
				if !matches(cand) {
					continue
				}
				found = true
				exp.add(cand)
				switch {
				case len(batches) == 0:
				case mask == 0:
					st.MaybeAbsent++
				default:
					st.MaybePresent++
				}
			}
			if !found {
				exp.add(want)
				switch {
				case len(batches) > 0:
					add("possibly-dropped-part-partly-reported", "%s", describe())
				case want.Total > 0 && r.DNSQueries[i] == 0:
					add("hour-count-lost", "%s", describe())
				case want.Total == 0:
					add("hour-count-spurious", "%s", describe())
				default:
					add("hour-count-wrong", "%s", describe())
				}
			}
		}
		st.WindowTotal = exp.Total
		for _, t := range totals {
			if safesearchOpen && t.res == RSafeSearch {
				continue
			}
			if w := pick(exp, t.res); t.got != w {
				add("total-mismatch:"+t.name, "%s=%d, queries counted inside the window: %d", t.name, t.got, w)
			}
		}
		for _, s := range series {
			if sum := c09Sum(s.vals); sum != s.total {
				add("hourly-sum-differs-from-total:"+s.name, "sum(%s[])=%d, total=%d", s.name, sum, s.total)
			}
		}
	case "days":
		st.Daily = true
		var lo, hi c09Counts
		for h, mh := range m.Hours {
			if h < first || h > m.Cur {
				continue
			}
			hi.add(mh.all())
			lo.add(mh.Sure)
			if mh.Sure.Total > 0 {
				st.SureNonZeroHours++
			}
			if len(mh.Maybe) > 0 {
				st.MaybePresent++ // cannot tell which in daily mode
			}
		}
		st.WindowTotal = lo.Total
		for _, t := range totals {
			l, u := pick(lo, t.res), pick(hi, t.res)
			if t.got < l || t.got > u {
				add("total-mismatch:"+t.name, "%s=%d, queries counted inside the window: %d (plus at most %d in possibly expired hours)", t.name, t.got, l, u-l)
			}
		}
		for _, s := range series {
			if sum := c09Sum(s.vals); sum > s.total {
				add("daily-exceeds-total:"+s.name, "sum(%s[])=%d > total=%d", s.name, sum, s.total)
			}
		}
	default:
		add("time-units-unknown", "time_units=%q", r.TimeUnits)
	}

	if cs := r.NumBlockedFiltering + r.NumReplacedSafebrowsing + r.NumReplacedSafesearch + r.NumReplacedParental; cs > r.NumDNSQueries {
		add("categories-exceed-total", "blocked+safebrowsing+safesearch+parental=%d > num_dns_queries=%d", cs, r.NumDNSQueries)
	}
	if ts := c09SumTop(r.TopQueried) + c09SumTop(r.TopBlocked); ts > r.NumDNSQueries {
		add("top-domains-exceed-total", "sum(top_queried_domains)+sum(top_blocked_domains)=%d > num_dns_queries=%d", ts, r.NumDNSQueries)
	}
	if ts := c09SumTop(r.TopClients); ts > r.NumDNSQueries {
		add("top-clients-exceed-total", "sum(top_clients)=%d > num_dns_queries=%d", ts, r.NumDNSQueries)
	}
	return mm, st
}

// c09Brief renders the interesting part of a report for a witness.
func c09Brief(r *c09Resp, firstHour uint32) any {
	if r == nil {
		return nil
	}
	nz := map[string]any{}
	for i, v := range r.DNSQueries {
		if v == 0 {
			continue
		}
		key := fmt.Sprintf("index %d", i)
		if r.TimeUnits == "hours" {
			key = fmt.Sprintf("hour %d (index %d)", firstHour+uint32(i), i)
		}
		row := map[string]uint64{"dns": v}
		if i < len(r.BlockedFiltering) {
			row["filtered"] = r.BlockedFiltering[i]
		}
		if i < len(r.ReplacedSafebrowsing) {
			row["safebrowsing"] = r.ReplacedSafebrowsing[i]
		}
		if i < len(r.ReplacedParental) {
			row["parental"] = r.ReplacedParental[i]
		}
		nz[key] = row
	}
	return map[string]any{
		"time_units": r.TimeUnits, "series_length": len(r.DNSQueries), "nonzero_series_entries": nz,
		"num_dns_queries": r.NumDNSQueries, "num_blocked_filtering": r.NumBlockedFiltering,
		"num_replaced_safebrowsing": r.NumReplacedSafebrowsing, "num_replaced_safesearch": r.NumReplacedSafesearch,
		"num_replaced_parental": r.NumReplacedParental,
	}
}
