//go:build verif

package stats

import (
	"fmt"
	"math/rand"
	"os"
	"path/filepath"
	"sync/atomic"
	"testing"

	"github.com/AdguardTeam/AdGuardHome/internal/verifkit"
)

// c09Step is one step of a sequential history, in a form that lets a reader
// replay it without the PRNG.
type c09Step struct {
	Op string `json:"op"`
	// Advance is the number of hours the logical clock moves in this step
	// (advance: before flush(); restart: before Close).
	Advance uint32 `json:"advance_hours,omitempty"`
	LimitH  uint32 `json:"limit_hours,omitempty"`
	API     string `json:"api,omitempty"`
	// Counted are the valid entries passed to Update, by result category.
	Counted map[string]int `json:"counted,omitempty"`
	// Ignored are the entries passed to Update that it documents as not
	// counted, by reason.
	Ignored   map[string]int `json:"not_countable,omitempty"`
	HourAfter uint32         `json:"hour_after"`
}

var c09Limits = []uint32{24, 24, 24, 168, 168, 720, 720, 2160, 1, 2, 3, 25, 36, 48, 191, 192, 200, 240}

func c09PickLimit(rng *rand.Rand, not uint32) uint32 {
	for {
		l := c09Limits[rng.Intn(len(c09Limits))]
		if l != not {
			return l
		}
	}
}

func c09DaysOf(limitH uint32) (days uint32, ok bool) {
	switch limitH {
	case 24:
		return 1, true
	case 168:
		return 7, true
	case 720:
		return 30, true
	case 2160:
		return 90, true
	}
	return 0, false
}

// c09SeqHistory runs one sequential history.  It returns false when the
// history was cut short by a violation.
func c09SeqHistory(rep *verifkit.Report, rng *rand.Rand, dir string, idx int) {
	file := filepath.Join(dir, fmt.Sprintf("seq-%d.db", idx))
	defer os.Remove(file)

	hour := &atomic.Uint32{}
	hour.Store(400000 + uint32(rng.Intn(100000)))
	m := &c09Model{Hours: map[uint32]*c09Hour{}, Cur: hour.Load(), LimitH: c09PickLimit(rng, 0), Enabled: true}
	allowDisable := rng.Intn(100) < 25
	nClients := []int{3, 40, 300}[rng.Intn(3)]
	nDomains := []int{5, 60, 250}[rng.Intn(3)]
	nSteps := 25 + rng.Intn(36)

	var steps []c09Step
	steps = append(steps, c09Step{Op: "new", LimitH: m.LimitH, HourAfter: m.Cur})
	in, err := c09Open(file, hour, m.LimitH, true, false)
	if err != nil {
		rep.Violate("seq:new-failed:initial", "stats.New failed on a fresh file: "+err.Error(), map[string]any{"history": steps})
		rep.Eval(false, "")
		return
	}
	defer func() {
		if in != nil {
			in.close()
		}
	}()

	var (
		rollovers, rolloversWithData, restarts, limitChanges, resets, nonzeroReads int
		restartsWhileDisabled                                                      int
		hourlyReads, dailyReads, crossings                                         int
		violated                                                                   bool
	)
	violate := func(key, what string, extra map[string]any) {
		w := map[string]any{"history": steps, "model": m.snapshot()}
		for k, v := range extra {
			w[k] = v
		}
		rep.Violate(key, what, w)
		violated = true
	}
	last := "new"
	// readCheck fetches the report and runs the oracle.
	readCheck := func() {
		r, problem := in.read()
		if problem != "" {
			violate("seq:read-failed:after-"+last, "GET /control/stats failed: "+problem, nil)
			return
		}
		rep.Event("reads_checked")
		if !m.Enabled {
			// The statement does not say what a disabled module reports.
			rep.Unspec("read-while-disabled")
			return
		}
		mm, st := m.check(r)
		if st.Hourly {
			hourlyReads++
		}
		if st.Daily {
			dailyReads++
		}
		if st.WindowTotal > 0 {
			nonzeroReads++
		}
		for i := 0; i < st.MaybePresent; i++ {
			rep.Unspec("possibly-expired-hour-still-reported")
		}
		for i := 0; i < st.MaybeAbsent; i++ {
			rep.Unspec("possibly-expired-hour-dropped")
		}
		rep.EventN("sure_nonzero_hours_compared", st.SureNonZeroHours)
		for i := 0; i < st.TooManyBatches; i++ {
			rep.Unspec("hour-with-more-than-12-possibly-dropped-batches")
		}
		if len(mm) > 0 {
			violate("seq:"+mm[0].Kind+":after-"+last,
				fmt.Sprintf("report disagrees with the counted queries after %q: %s", last, mm[0].Detail),
				map[string]any{"mismatches": mm, "report": c09Brief(r, m.first())})
		}
	}

	for si := 0; si < nSteps && !violated; si++ {
		st := c09Step{}
		x := rng.Intn(100)
		switch {
		case x < 36: // update burst
			st.Op = "update"
			n := 1 + rng.Intn(40)
			if rng.Intn(12) == 0 {
				n = 150 + rng.Intn(200)
			}
			st.Counted, st.Ignored = map[string]int{}, map[string]int{}
			for i := 0; i < n && !violated; i++ {
				if rng.Intn(10) == 0 {
					e, kind := c09InvalidEntry(rng)
					st.Ignored[kind]++
					rep.Event("updates_not_countable")
					if p := in.update(e); p != "" {
						steps = append(steps, st)
						violate("seq:update-panic:"+kind, "Update crashed on an entry it documents as ignored: "+p, nil)
					}
					continue
				}
				e := c09ValidEntry(rng, nClients, nDomains)
				st.Counted[c09CatNames[e.Result]]++
				if p := in.update(e); p != "" {
					steps = append(steps, st)
					violate("seq:update-panic:valid", "Update crashed: "+p, nil)
					continue
				}
				if m.Enabled {
					m.count(m.Cur, e.Result)
					rep.Event("updates_counted")
					rep.Class("result:" + c09CatNames[e.Result])
				} else {
					rep.Event("updates_while_disabled")
				}
			}
			if violated {
				continue
			}
		case x < 64: // hour advance + flush
			st.Op = "advance"
			switch y := rng.Intn(100); {
			case y < 45:
				st.Advance = 1
			case y < 65:
				st.Advance = 2 + uint32(rng.Intn(4))
			case y < 82:
				st.Advance = 6 + uint32(rng.Intn(43))
			case y < 90 && m.LimitH > 2:
				st.Advance = m.LimitH - 1 + uint32(rng.Intn(3)) // around one whole window
			default:
				// Jump so that the oldest hour that is certainly inside the
				// window lands on the window's first position.
				var oldest uint32
				for h, mh := range m.Hours {
					if mh.Sure.Total > 0 && h >= m.first() && (oldest == 0 || h < oldest) {
						oldest = h
					}
				}
				if oldest != 0 && oldest+m.LimitH-1 > m.Cur {
					st.Advance = oldest + m.LimitH - 1 - m.Cur
					st.Op = "advance-to-window-edge"
				} else {
					st.Advance = 1
				}
			}
			hour.Add(st.Advance)
			hadData := m.Hours[m.Cur] != nil && m.Hours[m.Cur].all().Total > 0
			if p := in.flush(); p != "" {
				steps = append(steps, st)
				violate("seq:flush-panic", "flush crashed: "+p, nil)
				continue
			}
			before := 0
			for h, mh := range m.Hours {
				if mh.Sure.Total > 0 && h >= m.first() {
					before++
				}
			}
			m.Cur = hour.Load()
			m.expire()
			after := 0
			for h, mh := range m.Hours {
				if mh.Sure.Total > 0 && h >= m.first() {
					after++
				}
			}
			crossings += before - after
			rollovers++
			if hadData {
				rolloversWithData++
			}
			if st.Advance > 1 {
				rep.Class("advance:gap")
			} else {
				rep.Class("advance:1h")
			}
		case x < 66: // flush without a new hour
			st.Op = "flush-same-hour"
			if p := in.flush(); p != "" {
				steps = append(steps, st)
				violate("seq:flush-panic", "flush crashed: "+p, nil)
				continue
			}
		case x < 77: // clean restart
			st.Op = "restart-same-hour"
			if rng.Intn(2) == 0 {
				st.Op = "restart-later-hour"
				st.Advance = 1 + uint32(rng.Intn(5))
				if rng.Intn(4) == 0 {
					st.Advance = 6 + uint32(rng.Intn(40))
				}
				hour.Add(st.Advance)
			}
			if p := in.close(); p != "" {
				steps = append(steps, st)
				in = nil
				violate("seq:close-failed", "Close failed: "+p, nil)
				continue
			}
			in, err = c09Open(file, hour, m.LimitH, m.Enabled, false)
			if err != nil {
				steps = append(steps, st)
				in = nil
				violate("seq:new-failed:"+st.Op, "stats.New failed on the file a clean Close left: "+err.Error(), nil)
				continue
			}
			m.Cur = hour.Load()
			m.expire()
			restarts++
			rep.Class(st.Op)
		case x < 86: // retention change
			st.Op = "set-limit"
			st.LimitH = c09PickLimit(rng, m.LimitH)
			days, old := c09DaysOf(st.LimitH)
			var p string
			if old && rng.Intn(3) == 0 {
				st.API = "POST /control/stats_config"
				p = in.setConfigOld(days)
				if p == "" && !m.Enabled {
					m.Enabled = true // the old API enables on a non-zero interval
				}
			} else {
				st.API = "PUT /control/stats/config/update"
				p = in.setConfigNew(st.LimitH, m.Enabled)
			}
			if p != "" {
				steps = append(steps, st)
				violate("seq:config-rejected", "a valid retention change was not accepted: "+p, nil)
				continue
			}
			if (st.LimitH/24 > 7) != (m.LimitH/24 > 7) {
				rep.Class("limit-change:crosses-hours-days-switch")
			} else {
				rep.Class("limit-change:same-units")
			}
			m.LimitH = st.LimitH
			m.expire()
			limitChanges++
		case x < 88: // reset
			st.Op = "reset"
			if p := in.reset(); p != "" {
				steps = append(steps, st)
				violate("seq:reset-failed", "POST /control/stats_reset failed: "+p, nil)
				continue
			}
			m.clear()
			resets++
			rep.Class("reset")
		case x < 94 && allowDisable:
			var p string
			if m.Enabled && rng.Intn(100) < 45 {
				// Switch off, restart cleanly while off, switch on again.
				// Switching statistics off stops counting; the counts
				// collected while they were on stay inside the retention
				// window and "survive clean restarts", so they must be
				// reported once statistics are on again.
				st.Op = "disable-restart-enable"
				desc := "PUT enabled=false"
				p = in.setConfigNew(m.LimitH, false)
				if p == "" {
					for i, n := 0, rng.Intn(6); i < n; i++ {
						in.update(c09ValidEntry(rng, nClients, nDomains))
						rep.Event("updates_while_disabled")
					}
					variant := rng.Intn(4)
					if variant == 1 { // hour boundary before the restart, noticed
						st.Advance = 1 + uint32(rng.Intn(3))
						hour.Add(st.Advance)
						in.flush()
						desc += fmt.Sprintf("; hour +%d, flush()", st.Advance)
					} else if variant == 2 { // hour boundary before the restart, not noticed
						st.Advance = 1 + uint32(rng.Intn(3))
						hour.Add(st.Advance)
						desc += fmt.Sprintf("; hour +%d", st.Advance)
					}
					desc += "; Close + New(Enabled=false)"
					if cp := in.close(); cp != "" {
						steps = append(steps, st)
						in = nil
						violate("seq:close-failed", "Close failed: "+cp, nil)
						continue
					}
					in, err = c09Open(file, hour, m.LimitH, false, false)
					if err != nil {
						steps = append(steps, st)
						in = nil
						violate("seq:new-failed:restart-while-disabled", "stats.New failed on the file a clean Close left: "+err.Error(), nil)
						continue
					}
					if variant == 3 { // hour boundary after the restart, while still off
						k := 1 + uint32(rng.Intn(3))
						st.Advance += k
						hour.Add(k)
						in.flush()
						desc += fmt.Sprintf("; hour +%d, flush()", k)
					}
					m.Cur = hour.Load()
					m.expire()
					restarts++
					restartsWhileDisabled++
					rep.Class(fmt.Sprintf("disable-restart-enable:variant-%d", variant))
					desc += "; PUT enabled=true"
					p = in.setConfigNew(m.LimitH, true)
				}
				st.API = desc
			} else if m.Enabled {
				st.Op = "disable"
				if rng.Intn(2) == 0 {
					// Nothing says that switching statistics off through
					// the configuration removes what has been collected.
					st.API = "PUT /control/stats/config/update"
					p = in.setConfigNew(m.LimitH, false)
				} else {
					// The deprecated API documents interval 0 as "disable
					// and clear": kept or cleared, both accepted.
					st.API = "POST /control/stats_config interval=0"
					p = in.setConfigOld(0)
					m.markAllMaybe()
				}
				m.Enabled = false
				rep.Class("disable")
			} else {
				st.Op = "enable"
				st.API = "PUT /control/stats/config/update"
				p = in.setConfigNew(m.LimitH, true)
				m.Enabled = true
				rep.Class("enable")
			}
			if p != "" {
				steps = append(steps, st)
				violate("seq:config-rejected", "enable/disable was not accepted: "+p, nil)
				continue
			}
		default:
			st.Op = "read"
		}
		st.HourAfter = hour.Load()
		steps = append(steps, st)
		last = st.Op
		readCheck()
	}

	nontrivial := !violated && rolloversWithData > 0 && nonzeroReads > 0
	rep.Eval(nontrivial, verifkit.JSON(steps))
	rep.EventN("rollovers", rollovers)
	rep.EventN("rollovers_persisting_a_nonempty_unit", rolloversWithData)
	rep.EventN("restarts", restarts)
	rep.EventN("restarts_while_disabled_then_enabled", restartsWhileDisabled)
	rep.EventN("limit_changes", limitChanges)
	rep.EventN("resets", resets)
	rep.EventN("reads_hourly_units", hourlyReads)
	rep.EventN("reads_daily_units", dailyReads)
	rep.EventN("reads_with_nonzero_window", nonzeroReads)
	rep.EventN("counted_hours_leaving_window", crossings)
	if idx < 2 {
		rep.Sample(map[string]any{"history": steps})
	}
}

func TestVerifC09Sequential(t *testing.T) {
	rep := verifkit.New("C09", "sequential",
		"case = one sequential history on one database file (update bursts of all result categories incl. entries documented as not countable, hour advances 1..48 and window-sized jumps followed by flush(), clean Close+New in the same / a later hour, retention changes through both config handlers, reset, disable/enable), the report of GET /control/stats is compared with a shadow map hour->category counts after every step; non-trivial = at least one rollover persisted a non-empty unit and at least one compared report had a non-zero window; distinct by the step list")
	defer func() {
		if err := rep.Write(); err != nil {
			t.Fatal(err)
		}
	}()
	rep.Assume("entry i of an hourly series stands for hour current-limit+1+i (last entry = current hour)")
	rep.Assume("a limit of N hours makes the retention window the N hours ending with the current one")
	dir, err := c09ScratchDir("seq")
	if err != nil {
		rep.Inconcl("no scratch directory: " + err.Error())
		return
	}
	defer os.RemoveAll(dir)

	rng := rep.Rand("histories")
	n := verifkit.Pick(600, 8000)
	for i := 0; i < n; i++ {
		c09SeqHistory(rep, rng, dir, i)
	}
	for _, ev := range []string{"rollovers_persisting_a_nonempty_unit", "restarts", "limit_changes", "resets",
		"reads_hourly_units", "reads_daily_units", "counted_hours_leaving_window", "updates_not_countable",
		"restarts_while_disabled_then_enabled",
		"sure_nonzero_hours_compared"} {
		if rep.EventCount(ev) == 0 && !rep.Violated() {
			rep.Inconcl("event never observed: " + ev)
		}
	}
}
