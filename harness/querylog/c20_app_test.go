//go:build verif

package querylog

import (
	"context"
	"fmt"
	"os"
	"runtime"
	"strings"
	"sync"
	"sync/atomic"
	"testing"
	"time"

	"github.com/AdguardTeam/AdGuardHome/internal/verifkit"
	"github.com/AdguardTeam/golibs/logutil/slogutil"
)

// Seeks and reads while the current file GROWS.
//
// flushToFile appends whole encoded records to <log> (O_APPEND, one Write per
// flush) and is not serialised with searches.  What the unchanged code
// guarantees then, independently of the interleaving, and what this part
// asserts:
//
//   - qLogFile.seekTS takes the file size once, at its start, and never looks
//     at anything behind it (a probe that lands on the old end is recognised by
//     lineIdx == that size).  All appended records are newer than every record
//     present at that moment.  So for any timestamp older than the first
//     appended record the outcome of a seek is the same as on the file without
//     the appends: a stored timestamp is found and the reads after it return
//     it and its predecessors; an absent one gets the same outcome class
//     (success / not-found / too-early / too-late) as it got on the quiescent
//     file just before the appender was started.  The class itself is not
//     prescribed (as in the static part), only that growth does not change it.
//   - qLogReader.seekTS to a timestamp later than everything present reports
//     success as on the quiescent file (zone (a) of the notes) and SeekStarts
//     the file, which sizes it again: the next line read is the newest
//     snapshot line or one of the appended lines.
//   - A sweep (SeekStart + ReadNext to io.EOF) returns a prefix of the appended
//     lines, newest first, followed by the whole snapshot, each line once.

// c20Appender appends newer records to a file as flushToFile does.
type c20Appender struct {
	mu      sync.Mutex
	lines   []string // recorded before the write that makes them visible
	appends atomic.Int64
	stop    atomic.Bool
	done    chan struct{}
	err     error
}

// Every Write stays inside one 4 KiB page of the file or ends exactly on a
// page boundary: the kernel publishes the new size page by page, and a size
// taken in the middle of a Write that spans two pages would show a torn line,
// which is a different matter from the one monitored here.
func c20StartAppender(path string, size0, lastTS int64, seed int64, maxLines int) *c20Appender {
	a := &c20Appender{done: make(chan struct{})}
	go func() {
		defer close(a.done)
		f, err := os.OpenFile(path, os.O_WRONLY|os.O_CREATE|os.O_APPEND, 0o644)
		if err != nil {
			a.err = err
			return
		}
		defer f.Close()
		x := uint64(seed)*2862933555777941757 + 3037000493
		next := func(n int) int {
			x ^= x << 13
			x ^= x >> 7
			x ^= x << 17
			return int(x % uint64(n))
		}
		ts := lastTS + 1_000_000 // leaves room for absent "after the last" targets
		total := 0
		off := size0
		for !a.stop.Load() && total < maxLines {
			burst := 1 + next(5)
			var sb strings.Builder
			var batch []string
			room := int(4096 - off%4096)
			if total == 0 {
				// The first Write brings the file to a page boundary; it is
				// finished before the monitored operations start.
				burst = 1
			}
			for i := 0; i < burst; i++ {
				avail := room - sb.Len()
				if avail == 0 {
					break
				}
				l := c20MinLen + next(300)
				if total == 0 {
					l = avail - 1
					if l < c20MinLen {
						l += 4096
					}
				} else if left := avail - (l + 1); left < 0 || (left > 0 && left < c20MinLen+1) {
					l = avail - 1 // fill the page exactly
				}
				ts += 1 + int64(next(5_000_000))
				line := c20MakeLine(time.Unix(0, ts).UTC().Format(time.RFC3339Nano), 700000+total+i, l)
				batch = append(batch, line)
				sb.WriteString(line)
				sb.WriteByte('\n')
			}
			burst = len(batch)
			off += int64(sb.Len())
			a.mu.Lock()
			a.lines = append(a.lines, batch...)
			a.mu.Unlock()
			if _, err = f.Write([]byte(sb.String())); err != nil {
				a.err = err
				return
			}
			total += burst
			a.appends.Add(1)
			if next(4) == 0 {
				time.Sleep(time.Duration(20+next(200)) * time.Microsecond)
			} else {
				runtime.Gosched()
			}
		}
	}()
	return a
}

func (a *c20Appender) snapshot() []string {
	a.mu.Lock()
	defer a.mu.Unlock()
	return append([]string(nil), a.lines...)
}

type c20AppOutcome struct {
	class string
	next  string // first line read after a successful seek ("" if none)
}

// c20MergeRec adds one case record to the report.
func c20MergeRec(rep *verifkit.Report, rec *c20Rec) {
	for i := 0; i < rec.evalsTrivial; i++ {
		rep.Eval(false, "")
	}
	for _, e := range rec.evals {
		rep.Eval(true, e)
	}
	for k, v := range rec.classes {
		rep.ClassN(k, v)
	}
	for k, v := range rec.events {
		rep.EventN(k, v)
	}
	for k, v := range rec.unspec {
		for i := 0; i < v; i++ {
			rep.Unspec(k)
		}
	}
	for _, v := range rec.viols {
		rep.Violate(v.Key, v.What, v.Witness)
	}
	for _, s := range rec.inconcl {
		rep.Inconcl(s)
	}
}

func c20AppCase(rep *verifkit.Report, id int, dir string, nops int) *c20Rec {
	rec := c20NewRec()
	rng := rep.Rand(fmt.Sprintf("appender/%d", id))
	c, err := c20Build(rng, id, "app", dir, 2<<20)
	if err != nil {
		rec.inconcl = append(rec.inconcl, "generator failed: "+err.Error())
		return rec
	}
	defer c.remove()
	cur := c.files[len(c.files)-1]
	if len(cur.lines) == 0 {
		rec.events["appender:cases_skipped(empty current file)"]++
		return rec
	}
	m := &c20Mon{c: c, rec: rec, rng: rng, ctx: context.Background(), canon: c.digest(), nt: true}
	logger := slogutil.NewDiscardLogger()
	q, err := newQLogFile(cur.path)
	if err != nil {
		rec.violate("open-file-error", err.Error(), nil)
		return rec
	}
	r, err := newQLogReader(m.ctx, logger, []string{c.curPath + ".1", c.curPath})
	if err != nil {
		rec.violate("open-reader-error", err.Error(), nil)
		return rec
	}
	defer func() {
		if !rec.hung {
			_ = q.Close()
			_ = r.Close()
		}
	}()
	nAll := len(c.all)
	last := c.all[nAll-1].ts

	// Targets: absent ones with their quiescent outcome, taken now.
	type target struct {
		name  string
		ts    int64
		fileQ c20AppOutcome // qLogFile on the current file
		readQ c20AppOutcome // qLogReader
	}
	targets := []*target{
		// Later than every record the appender will ever write (it advances by
		// at most 5 ms per line), so "after the last record" whenever the seek
		// starts.  A timestamp between the snapshot and the first append would
		// legitimately be too-late or not-found depending on when the seek sizes
		// the file.
		{name: "after-last", ts: last + int64(24*time.Hour) + rng.Int63n(int64(30*24*time.Hour))},
		{name: "after-last", ts: last + 20*c20Year + rng.Int63n(c20Year)},
		{name: "before-first(of the current file)", ts: cur.lines[0].ts - 1},
	}
	for try := 0; try < 40 && len(targets) < 7; try++ {
		i := 1 + rng.Intn(nAll)
		if i >= nAll {
			continue
		}
		lo, hi := c.all[i-1].ts, c.all[i].ts
		if hi-lo >= 2 {
			targets = append(targets, &target{name: "between-neighbours", ts: lo + 1 + rng.Int63n(hi-lo-1)})
		}
	}
	fileSeek := func(ts int64) (o c20AppOutcome, ok bool) {
		var err error
		var got []string
		ok = m.guard("appender: qLogFile.seekTS", map[string]any{"target_unix_nano": ts}, func() {
			_, _, err = q.seekTS(m.ctx, logger, ts)
			if err == nil {
				got, _ = c20ReadN(q, 1, 2, nil)
			}
		})
		o.class = c20ErrClass(err)
		if len(got) > 0 {
			o.next = got[0]
		}
		return o, ok
	}
	readerSeek := func(ts int64) (o c20AppOutcome, ok bool) {
		var err error
		var got []string
		ok = m.guard("appender: qLogReader.seekTS", map[string]any{"target_unix_nano": ts}, func() {
			err = r.seekTS(m.ctx, ts)
			if err == nil {
				got, _ = c20ReadN(r, 1, 2, nil)
			}
		})
		o.class = c20ErrClass(err)
		if len(got) > 0 {
			o.next = got[0]
		}
		return o, ok
	}
	for _, t := range targets {
		var ok bool
		if t.fileQ, ok = fileSeek(t.ts); !ok {
			return rec
		}
		if t.readQ, ok = readerSeek(t.ts); !ok {
			return rec
		}
	}

	app := c20StartAppender(cur.path, cur.size, last, int64(id)+rep.Seed*1000003, 30000)
	stopped := false
	stop := func() {
		if !stopped {
			stopped = true
			app.stop.Store(true)
			<-app.done
		}
	}
	defer stop()
	// Let the first burst land.
	for i := 0; i < 2000 && app.appends.Load() == 0; i++ {
		time.Sleep(50 * time.Microsecond)
	}

	isAppended := func(line string, lines []string) bool {
		for i := len(lines) - 1; i >= 0; i-- {
			if lines[i] == line {
				return true
			}
		}
		return false
	}
	wit := func(extra map[string]any) map[string]any {
		w := map[string]any{"case": c.describe(), "appender": "appends bursts of 1-5 whole lines per Write (O_APPEND) with timestamps from last+1ms on, concurrently with the operation",
			"appends_completed_so_far": app.appends.Load()}
		for k, v := range extra {
			w[k] = v
		}
		return w
	}

	for op := 0; op < nops && !m.dead; op++ {
		a0 := app.appends.Load()
		kind := rng.Intn(10)
		overl := func(name string) {
			rec.events["appender:ops:"+name]++
			if app.appends.Load() > a0 {
				rec.events["appender:ops_overlapped_by_an_append:"+name]++
			}
		}
		switch {
		case kind < 4: // absent target at file level
			t := targets[rng.Intn(len(targets))]
			if kind < 3 {
				t = targets[rng.Intn(2)] // mostly after-last
			}
			o, ok := fileSeek(t.ts)
			if !ok {
				return rec
			}
			m.eval(fmt.Sprintf("app|f|%d|%d", op, t.ts))
			overl("file-seek-absent:" + t.name)
			if o.class != t.fileQ.class {
				key := "appender:seek-" + strings.SplitN(t.name, "(", 2)[0] + ":" + o.class + "-while-file-grows"
				rec.violate(key, fmt.Sprintf("qLogFile.seekTS to an absent timestamp older than every appended record reported %s while the file was growing, %s on the same file before the appends", o.class, t.fileQ.class),
					wit(map[string]any{"target_unix_nano": t.ts, "target_class": t.name, "outcome_on_quiescent_file": t.fileQ.class, "outcome_while_growing": o.class}))
			}
		case kind < 6: // absent target at reader level
			t := targets[rng.Intn(len(targets))]
			if kind == 4 {
				t = targets[rng.Intn(2)]
			}
			o, ok := readerSeek(t.ts)
			if !ok {
				return rec
			}
			m.eval(fmt.Sprintf("app|r|%d|%d", op, t.ts))
			overl("reader-seek-absent:" + t.name)
			w := wit(map[string]any{"target_unix_nano": t.ts, "target_class": t.name, "outcome_on_quiescent_files": t.readQ.class,
				"outcome_while_growing": o.class, "next_line_quiescent": c20Clip(t.readQ.next), "next_line_while_growing": c20Clip(o.next)})
			switch {
			case o.class != t.readQ.class:
				rec.violate("appender:reader-seek-"+strings.SplitN(t.name, "(", 2)[0]+":"+o.class+"-while-file-grows",
					fmt.Sprintf("qLogReader.seekTS to an absent timestamp older than every appended record reported %s while the current file was growing, %s before the appends", o.class, t.readQ.class), w)
			case o.class == "success" && o.next != t.readQ.next && !(t.name == "after-last" && isAppended(o.next, app.snapshot())):
				rec.violate("appender:reader-seek-"+strings.SplitN(t.name, "(", 2)[0]+":positioned-elsewhere-while-file-grows",
					"after a successful qLogReader.seekTS the next line is neither the one returned on the quiescent files nor an appended line", w)
			}
		case kind < 8: // present target at file level, then predecessor
			i := rng.Intn(len(cur.lines))
			var err error
			var got []string
			if !m.guard("appender: qLogFile.seekTS(present)", map[string]any{}, func() {
				_, _, err = q.seekTS(m.ctx, logger, cur.lines[i].ts)
				if err == nil {
					got, _ = c20ReadN(q, 2, 3, nil)
				}
			}) {
				return rec
			}
			m.eval(fmt.Sprintf("app|fp|%d|%d", op, i))
			overl("file-seek-present")
			lo := i - 1
			if lo < 0 {
				lo = 0
			}
			exp := c20Reversed(cur.lines[lo : i+1])
			if err != nil {
				rec.violate("appender:seek-present:"+c20ErrClass(err)+"-while-file-grows", "qLogFile.seekTS to a stored timestamp failed while the file was growing: "+err.Error(),
					wit(map[string]any{"target": c20LineInfo(cur.lines[i])}))
			} else if len(got) != len(exp) || got[0] != exp[0].text || (len(exp) > 1 && got[1] != exp[1].text) {
				rec.violate("appender:seek-present:wrong-lines-while-file-grows", "reads after a seek to a stored timestamp differ from the snapshot",
					wit(map[string]any{"target": c20LineInfo(cur.lines[i]), "lines_read": len(got)}))
			}
		case kind < 9: // present target through the reader
			gi := rng.Intn(nAll)
			var err error
			var got []string
			if !m.guard("appender: qLogReader.seekTS(present)", map[string]any{}, func() {
				err = r.seekTS(m.ctx, c.all[gi].ts)
				if err == nil {
					got, _ = c20ReadN(r, 3, 4, nil)
				}
			}) {
				return rec
			}
			m.eval(fmt.Sprintf("app|rp|%d|%d", op, gi))
			overl("reader-seek-present")
			lo := gi - 2
			if lo < 0 {
				lo = 0
			}
			exp := c20Reversed(c.all[lo : gi+1])
			bad := err == nil && len(got) != len(exp)
			for k := 0; !bad && err == nil && k < len(exp); k++ {
				bad = got[k] != exp[k].text
			}
			if err != nil {
				rec.violate("appender:reader-seek-present:"+c20ErrClass(err)+"-while-file-grows", "qLogReader.seekTS to a stored timestamp failed while the current file was growing: "+err.Error(),
					wit(map[string]any{"target": c20LineInfo(c.all[gi])}))
			} else if bad {
				rec.violate("appender:reader-seek-present:wrong-lines-while-file-grows", "reads after a seek to a stored timestamp differ from the snapshot",
					wit(map[string]any{"target": c20LineInfo(c.all[gi]), "lines_read": len(got)}))
			}
		default: // sweep while growing (small sets only: it reads everything)
			if nAll > 1500 || rng.Intn(4) != 0 {
				continue
			}
			var got []string
			var serr, rerr error
			if !m.guard("sweep(reader) while the file grows", map[string]any{}, func() {
				if serr = r.SeekStart(); serr == nil {
					got, rerr = c20ReadN(r, -1, nAll+40000, nil)
				}
			}) {
				return rec
			}
			m.eval(fmt.Sprintf("app|sw|%d", op))
			overl("reader-sweep")
			appd := app.snapshot()
			k := 0
			for k < len(got) && got[k] != c.all[nAll-1].text {
				k++
			}
			ok := serr == nil && k <= len(appd) && len(got) == k+nAll && c20ErrClass(rerr) == "eof"
			for i := 0; ok && i < k; i++ {
				ok = got[i] == appd[k-1-i]
			}
			for i := 0; ok && i < nAll; i++ {
				ok = got[k+i] == c.all[nAll-1-i].text
			}
			if !ok {
				rec.violate("appender:sweep:not-a-prefix-of-the-appends-plus-the-snapshot",
					"a sweep while the current file grows did not return a prefix of the appended lines followed by the snapshot, each once",
					wit(map[string]any{"lines_read": len(got), "appended_lines_before_the_snapshot_part": k, "snapshot_lines": nAll, "last_error": c20ErrStr(rerr)}))
			}
			rec.events["appender:lines_read_in_sweeps_while_growing"] += len(got)
		}
	}
	stop()
	if app.err != nil {
		rec.inconcl = append(rec.inconcl, "appender failed: "+app.err.Error())
	}
	rec.events["appender:cases"]++
	rec.events["appender:appends(completed writes)"] += int(app.appends.Load())
	rec.events["appender:lines_appended"] += len(app.snapshot())
	return rec
}

func TestVerifC20Appender(t *testing.T) {
	rep := verifkit.New("C20", "appender",
		"case = (generated file set, operation on one qLogFile / one qLogReader while another goroutine appends newer whole records to the current file); "+
			"a seek to a timestamp older than every appended record must have the outcome it has on the same files without the appends, a sweep must return a prefix of the appends plus the snapshot; "+
			"non-trivial = every case (the file changes during the operation); distinct by (file set, operation index, target)")
	defer func() {
		if err := rep.Write(); err != nil {
			t.Fatal(err)
		}
	}()
	rep.Assume("appends are whole lines written by one O_APPEND Write each, with timestamps later than every record already in the file, as flushToFile writes them")
	dir := os.Getenv("VERIF_SCRATCH")
	if dir != "" {
		d, err := os.MkdirTemp(dir, "c20app-")
		if err != nil {
			dir = ""
		} else {
			dir = d
			defer os.RemoveAll(d)
		}
	}
	if dir == "" {
		dir = t.TempDir()
	}
	ncases := verifkit.Pick(20, 300)
	nops := verifkit.Pick(120, 200)
	for i := 0; i < ncases; i++ {
		rec := c20AppCase(rep, i, dir, nops)
		c20MergeRec(rep, rec)
		if rec.hung {
			break
		}
	}
	if rep.Violated() {
		return
	}
	ov := 0
	for k, v := range rep.Events {
		if strings.HasPrefix(k, "appender:ops_overlapped_by_an_append:file-seek-absent:after-last") ||
			strings.HasPrefix(k, "appender:ops_overlapped_by_an_append:reader-seek-absent:after-last") {
			ov += v
		}
	}
	if ov < 200 {
		rep.Inconcl(fmt.Sprintf("only %d seeks after the last record overlapped an append", ov))
	}
	if rep.Events["appender:ops_overlapped_by_an_append:file-seek-present"] < 100 {
		rep.Inconcl("too few seeks to stored records overlapped an append")
	}
}
