//go:build verif

package querylog

import (
	"bytes"
	"context"
	"encoding/json"
	"fmt"
	"io"
	"math/rand"
	"net"
	"net/http"
	"net/http/httptest"
	"net/url"
	"os"
	"path/filepath"
	"runtime/debug"
	"strconv"
	"strings"
	"sync"
	"sync/atomic"
	"testing"
	"time"

	"github.com/AdguardTeam/AdGuardHome/internal/aghnet"
	"github.com/AdguardTeam/AdGuardHome/internal/verifkit"
	"github.com/AdguardTeam/golibs/log"
	"github.com/AdguardTeam/golibs/logutil/slogutil"
	"github.com/miekg/dns"
)

// This file is the concurrent part of C07.  It runs on real time, outside any
// bubble, under the race detector: goroutines record bursts of queries, clear
// the log, change the configuration and search at the same time.  What happens
// to the records of that phase is outside the statement (records submitted
// while a flush is pending are excluded, and a clear removes entries).  The
// oracle only looks at what happens AFTER quiescence: records then submitted
// one at a time, each automatic flush given time to finish, must all be
// listed, exactly once, newest first, before and after a restart.

// c07cFlushWait bounds the wait for one automatic flush.  It is far above what
// a flush needs (a few hundred microseconds); if it expires although the flush
// comes later, the round is discarded, not judged.
const c07cFlushWait = 3 * time.Second

// c07cSess is one query log instance of the concurrent part.
type c07cSess struct {
	rep     *verifkit.Report
	id      int
	dir     string
	memSize uint
	l       *queryLog
	h       map[string]http.HandlerFunc
	ops     []string
	opsMu   sync.Mutex
	failed  atomic.Bool

	// lineCache avoids re-reading a file that has not changed.
	cacheSize  int64
	cacheLines int
}

func (s *c07cSess) logf(format string, args ...any) {
	s.opsMu.Lock()
	s.ops = append(s.ops, fmt.Sprintf(format, args...))
	if len(s.ops) > 400 {
		s.ops = append(s.ops[:1:1], s.ops[len(s.ops)-300:]...)
	}
	s.opsMu.Unlock()
}

func (s *c07cSess) witness(extra map[string]any) map[string]any {
	s.opsMu.Lock()
	ops := append([]string(nil), s.ops...)
	s.opsMu.Unlock()
	w := map[string]any{"seed": verifkit.Seed(), "session": s.id, "mem_size": s.memSize, "log": ops}
	for k, v := range extra {
		w[k] = v
	}

	return w
}

func (s *c07cSess) start(enabled bool) (err error) {
	s.h = map[string]http.HandlerFunc{}
	ign, err := aghnet.NewIgnoreEngine(nil)
	if err != nil {
		return err
	}
	ql, err := New(Config{
		Logger:         slogutil.NewDiscardLogger(),
		Ignored:        ign,
		Anonymizer:     aghnet.NewIPMut(nil),
		ConfigModified: func() {},
		HTTPRegister: func(method, url string, handler http.HandlerFunc) {
			s.h[method+" "+url] = handler
		},
		BaseDir:     s.dir,
		RotationIvl: 24 * time.Hour,
		MemSize:     s.memSize,
		Enabled:     enabled,
		FileEnabled: true,
	})
	if err != nil {
		return err
	}
	s.l = ql.(*queryLog)
	// As in the sequential part: what Start does, without the rotation loop
	// (one day of real time never passes here anyway).
	s.l.initWeb()

	return nil
}

// call runs a handler; a panic or a 5xx is a violation.
func (s *c07cSess) call(route, rawQuery string, body []byte) (code int, out []byte, ok bool) {
	hf := s.h[route]
	sp := strings.SplitN(route, " ", 2)
	var rd io.Reader = http.NoBody
	if body != nil {
		rd = bytes.NewReader(body)
	}
	req, _ := http.NewRequestWithContext(context.Background(), sp[0], "http://agh.test"+sp[1], rd)
	req.URL.RawQuery = rawQuery
	w := httptest.NewRecorder()
	func() {
		defer func() {
			if v := recover(); v != nil {
				s.rep.Violate("concurrent:crash:"+sp[1], fmt.Sprintf("%s?%s panicked: %v", route, rawQuery, v),
					s.witness(map[string]any{"panic": fmt.Sprint(v), "stack": c07Stack(debug.Stack())}))
				s.failed.Store(true)
				w.Code = 0
			}
		}()
		hf(w, req)
	}()
	if w.Code == 0 {
		return 0, nil, false
	}
	if w.Code >= 500 {
		s.rep.Violate("concurrent:http-5xx:"+sp[1], fmt.Sprintf("%s?%s answered %d", route, rawQuery, w.Code),
			s.witness(map[string]any{"body": c07Trunc(w.Body.String(), 300)}))

		return w.Code, nil, false
	}

	return w.Code, w.Body.Bytes(), true
}

func (s *c07cSess) add(host string, ip net.IP) {
	s.l.Add(&AddParams{
		Question: &dns.Msg{Question: []dns.Question{{Name: host + ".", Qtype: dns.TypeA, Qclass: dns.ClassINET}}},
		ClientIP: ip,
		Elapsed:  time.Millisecond,
	})
}

// fileLines returns the number of lines in the current log file.  Only the
// probe calls it, from one goroutine.
func (s *c07cSess) fileLines() int {
	p := filepath.Join(s.dir, queryLogFileName)
	size := c07Size(p)
	if size <= 0 {
		return 0
	}
	if size == s.cacheSize {
		return s.cacheLines
	}
	b, err := os.ReadFile(p)
	if err != nil {
		return 0
	}
	s.cacheSize, s.cacheLines = int64(len(b)), bytes.Count(b, []byte("\n"))

	return s.cacheLines
}

// settle waits until the log file has stopped changing.
func (s *c07cSess) settle() {
	p := filepath.Join(s.dir, queryLogFileName)
	last, stable := c07Size(p), 0
	for i := 0; i < 400 && stable < 6; i++ {
		time.Sleep(5 * time.Millisecond)
		if now := c07Size(p); now == last {
			stable++
		} else {
			last, stable = now, 0
		}
	}
}

// list returns the question names of the whole log, newest first.
func (s *c07cSess) list() (hosts []string, ok bool) {
	q := url.Values{"limit": {strconv.Itoa(c07BigLimit)}, "offset": {"0"}}
	code, body, ok := s.call("GET /control/querylog", q.Encode(), nil)
	if !ok || code != http.StatusOK {
		return nil, false
	}
	var resp struct {
		Data []struct {
			Question struct {
				Name string `json:"name"`
			} `json:"question"`
		} `json:"data"`
	}
	if err := json.Unmarshal(body, &resp); err != nil {
		s.rep.Violate("concurrent:bad-response", "the listing is not JSON: "+err.Error(), s.witness(nil))

		return nil, false
	}
	for _, d := range resp.Data {
		hosts = append(hosts, d.Question.Name)
	}

	return hosts, true
}

// storm is the concurrent phase of one round.
func (s *c07cSess) storm(rng *rand.Rand, round int) {
	var wg sync.WaitGroup
	jitter := func(r *rand.Rand) {
		switch r.Intn(4) {
		case 0:
			time.Sleep(time.Duration(r.Intn(300)) * time.Microsecond)
		case 1:
			time.Sleep(time.Duration(r.Intn(30)) * time.Microsecond)
		default:
		}
	}
	adders := 2 + rng.Intn(3)
	for a := 0; a < adders; a++ {
		r := rand.New(rand.NewSource(rng.Int63()))
		wg.Add(1)
		go func(a int) {
			defer wg.Done()
			n := 0
			for b := 0; b < 6; b++ {
				for k := r.Intn(int(s.memSize)*2 + 3); k >= 0; k-- {
					s.add(fmt.Sprintf("storm-%d-%d-%d.example", round, a, n), net.IP{10, 1, byte(a), byte(n)})
					n++
				}
				jitter(r)
			}
			s.rep.EventN("concurrent_phase_records_submitted", n)
		}(a)
	}
	{
		r := rand.New(rand.NewSource(rng.Int63()))
		wg.Add(1)
		go func() {
			defer wg.Done()
			for c := 1 + r.Intn(4); c > 0; c-- {
				jitter(r)
				s.call("POST /control/querylog_clear", "", nil)
				s.rep.Event("concurrent_phase_clears")
			}
		}()
	}
	{
		// One goroutine only: the configuration API is serialised by the
		// caller in the product.
		r := rand.New(rand.NewSource(rng.Int63()))
		wg.Add(1)
		go func() {
			defer wg.Done()
			for c := r.Intn(3); c > 0; c-- {
				jitter(r)
				body, _ := json.Marshal(map[string]any{
					"enabled": r.Intn(6) != 0, "anonymize_client_ip": r.Intn(2) == 0,
					"interval": float64((24 * time.Hour).Milliseconds()), "ignored": []string{},
				})
				s.call("PUT /control/querylog/config/update", "", body)
				s.rep.Event("concurrent_phase_config_changes")
			}
		}()
	}
	{
		r := rand.New(rand.NewSource(rng.Int63()))
		wg.Add(1)
		go func() {
			defer wg.Done()
			qs := []string{"", "limit=3", "search=storm", "response_status=filtered", "offset=2&limit=5", "search=%22storm-0-0-0.example%22"}
			for c := 2 + r.Intn(5); c > 0; c-- {
				jitter(r)
				s.call("GET /control/querylog", qs[r.Intn(len(qs))], nil)
				s.rep.Event("concurrent_phase_searches")
			}
		}()
	}
	wg.Wait()
}

// probe is the sequential bounded-progress probe after quiescence.
func (s *c07cSess) probe(round int) {
	// Logging on, nothing hidden.
	body, _ := json.Marshal(map[string]any{"enabled": true, "anonymize_client_ip": false,
		"interval": float64((24 * time.Hour).Milliseconds()), "ignored": []string{}})
	if code, _, ok := s.call("PUT /control/querylog/config/update", "", body); !ok || code != http.StatusOK {
		s.rep.Inconcl(fmt.Sprintf("cannot enable logging before the probe: %d", code))
		s.failed.Store(true)

		return
	}
	// How many records are buffered: what the API lists minus what the file
	// holds.
	listed, ok := s.list()
	if !ok {
		s.failed.Store(true)

		return
	}
	lines := s.fileLines()
	buffered := len(listed) - lines
	if buffered < 0 {
		buffered = 0
	}
	m := int(s.memSize)
	if m == 0 {
		m = 1
	}
	k := 3*m + 2
	s.logf("round %d: quiescent with %d listed, %d lines in the file, so %d buffered; probe with %d records", round, len(listed), lines, buffered, k)
	expired, late := 0, false
	var want []string
	for i := 0; i < k; i++ {
		host := fmt.Sprintf("probe-%d-%d.example", round, i)
		want = append(want, host)
		if now := s.fileLines(); now != lines {
			// The file changed although no flush was due by the count of
			// buffered records (a flush that was waited for in vain has come
			// after all, or the count taken at quiescence was off).
			late = true
		}
		s.add(host, net.IP{10, 2, byte(round), byte(i)})
		buffered++
		if buffered < m {
			continue
		}
		// The buffer has reached the memory size: an automatic flush is due.
		// Let it finish before the next record.
		deadline := time.Now().Add(c07cFlushWait)
		for s.fileLines() < lines+buffered && time.Now().Before(deadline) {
			time.Sleep(200 * time.Microsecond)
		}
		if now := s.fileLines(); now >= lines+buffered {
			s.rep.Event("probe_automatic_flushes_waited_for")
			lines, buffered = now, 0
		} else {
			expired++
			s.logf("round %d: no automatic flush within %s after probe record %d (file has %d lines, %d records buffered)", round, c07cFlushWait, i, now, buffered)
			if buffered > m {
				// The ring has wrapped: the model of the buffer ends here.
				buffered = m
			}
		}
	}
	s.settle()
	if now := s.fileLines(); now != lines {
		late = true
	}
	if late {
		// Slow, not stuck (or the buffered count was off): records may have
		// been submitted while a flush was pending, which the statement
		// excludes.
		s.rep.Unspec("probe discarded: the file changed at a moment when no automatic flush was due (slow flush or wrong buffer count)")

		return
	}
	s.rep.Event("probes")
	s.rep.EventN("probe_records", k)
	check := func(when string) bool {
		got, lok := s.list()
		if !lok {
			return false
		}
		var probes []string
		count := map[string]int{}
		for _, hname := range got {
			if strings.HasPrefix(hname, fmt.Sprintf("probe-%d-", round)) {
				probes = append(probes, hname)
				count[hname]++
			}
		}
		var missing, dup []string
		for _, w := range want {
			switch c := count[w]; {
			case c == 0:
				missing = append(missing, w)
			case c > 1:
				dup = append(dup, w)
			}
		}
		wit := map[string]any{"round": round, "when": when, "probe_records_submitted": k, "probe_records_listed": len(probes),
			"missing": missing, "listed_twice": dup, "listed_probe_records_newest_first": probes,
			"automatic_flush_waits_expired": expired}
		switch {
		case len(missing) > 0:
			s.rep.Violate("concurrent:entries-lost-after-quiescence:"+when,
				fmt.Sprintf("%d of %d records submitted one at a time after quiescence are not listed", len(missing), k), s.witness(wit))
		case len(dup) > 0:
			s.rep.Violate("concurrent:entries-duplicated-after-quiescence:"+when, "a record submitted after quiescence is listed twice", s.witness(wit))
		default:
			for i, hname := range probes {
				if hname != want[len(want)-1-i] {
					s.rep.Violate("concurrent:order-after-quiescence:"+when, "records submitted after quiescence are not listed newest first", s.witness(wit))

					return false
				}
			}

			return true
		}

		return false
	}
	if !check("live") {
		s.failed.Store(true)

		return
	}
	// The same after a clean restart.
	if err := s.l.Shutdown(context.Background()); err != nil && !strings.Contains(err.Error(), "nothing to write") {
		s.logf("shutdown: %v", err)
	}
	if err := s.start(true); err != nil {
		s.rep.Inconcl("restart: " + err.Error())
		s.failed.Store(true)

		return
	}
	s.rep.Event("probe_restarts")
	if !check("after-restart") {
		s.failed.Store(true)
	}
}

func TestVerifC07Concurrent(t *testing.T) {
	rep := verifkit.New("C07", "concurrent",
		"case = one round on a live query log (real time, race detector): 2-4 goroutines record bursts, one clears through the handler, one changes the configuration, one searches, with seeded jitter; after all have joined and the file has stopped changing, 3*size_memory+2 records are submitted one at a time, each automatic flush awaited, and must all be listed exactly once, newest first, live and after a restart; a second kind of round overlaps two flushes (an automatic flush whose write is held back by the harness holding the internal write lock, more records, then Shutdown or the next automatic flush while the write lock is released) and checks at quiescence that the file is in time order and that older_than paging returns every record once; non-trivial = every round (each has a clear racing with records, or two overlapping flushes); distinct by (session, round, memory size)")
	defer func() {
		if err := rep.Write(); err != nil {
			t.Fatal(err)
		}
	}()
	log.SetOutput(io.Discard)
	base := os.Getenv("VERIF_SCRATCH")
	if base == "" {
		base = t.TempDir()
	}
	sessions := verifkit.Pick(8, 60)
	rounds := verifkit.Pick(10, 25)
	memSizes := []uint{1, 2, 3, 5, 10, 1, 2, 20}
	for si := 0; si < sessions; si++ {
		rng := rep.Rand(fmt.Sprintf("session-%d", si))
		dir, err := os.MkdirTemp(base, fmt.Sprintf("c07c-%d-", si))
		if err != nil {
			rep.Inconcl("mkdir: " + err.Error())

			return
		}
		s := &c07cSess{rep: rep, id: si, dir: dir, memSize: memSizes[si%len(memSizes)]}
		if err = s.start(true); err != nil {
			rep.Inconcl("querylog.New: " + err.Error())

			return
		}
		rep.Class(fmt.Sprintf("session_mem_size_%d", s.memSize))
		for r := 0; r < rounds && !s.failed.Load(); r++ {
			s.logf("round %d: concurrent phase", r)
			s.storm(rng, r)
			s.settle()
			rep.Eval(true, fmt.Sprintf("%d/%d/%d", si, r, s.memSize))
			s.probe(r)
		}
		_ = os.RemoveAll(dir)
		if s.failed.Load() {
			// One witness is enough; later rounds of a broken instance only
			// repeat it.
			break
		}
	}
	if !rep.Violated() {
		c07cOverlap(rep, base)
	}
	if !rep.Violated() {
		c07cReaders(rep, base)
	}
	if !rep.Violated() {
		if n := rep.EventCount("probes"); n < sessions*rounds/2 {
			rep.Inconcl(fmt.Sprintf("only %d probes were judged", n))
		}
		if rep.EventCount("concurrent_phase_clears") < sessions*rounds || rep.EventCount("probe_automatic_flushes_waited_for") < sessions*rounds {
			rep.Inconcl("too few clears or automatic flushes")
		}
	}
}
