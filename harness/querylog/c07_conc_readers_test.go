//go:build verif

package querylog

import (
	"bytes"
	"context"
	"fmt"
	"math/rand"
	"net"
	"net/http"
	"net/url"
	"os"
	"strconv"
	"sync"
	"sync/atomic"
	"time"

	"github.com/AdguardTeam/AdGuardHome/internal/verifkit"
)

// Several searches at the same time (concurrent part of C07).
//
// GET /control/querylog only takes the configuration lock for reading, so the
// program serves any number of searches at once.  A log with records in the
// rotated file, in the current file and in memory is built; every request of a
// fixed set (different terms, status filters, pages, cursors) is first run
// alone; then several goroutines run requests of the set at the same time.
// While no writer is active every answer must be byte for byte what the same
// request returned alone.  A second phase repeats the searches while records
// are added and flushed; there only crashes, 5xx answers and data races count
// (a search that overlaps a flush may legitimately see the records of that
// flush in neither place).

// c07rHosts are the question names of the reader sessions.
var c07rHosts = []string{"alpha.example", "beta.example.org", "gamma.test", "www.alpha.example", "xn--bcher-kva.example", "delta.lan"}

// c07rAdd records one query with varying client, ClientID and result.
func c07rAdd(s *c07cSess, w *c07World, i int) (host string) {
	host = c07rHosts[i%len(c07rHosts)]
	cid := []string{"", "laptop", "tv"}[i%3]
	p, _ := c07Simple(w, i, host, fmt.Sprintf("10.4.%d.%d", i%5, 1+i%200), cid, i%4 == 1)
	s.l.Add(p)

	return host
}

func c07cReaders(rep *verifkit.Report, base string) {
	sessions := verifkit.Pick(2, 8)
	rng := rep.Rand("readers")
	w := &c07World{}
	maxSeen := 0
	for si := 0; si < sessions; si++ {
		dir, err := os.MkdirTemp(base, fmt.Sprintf("c07r-%d-", si))
		if err != nil {
			rep.Inconcl("mkdir: " + err.Error())

			return
		}
		defer os.RemoveAll(dir)
		s := &c07cSess{rep: rep, id: 2000 + si, dir: dir, memSize: []uint{25, 60}[si%2]}
		if err = s.start(true); err != nil {
			rep.Inconcl("querylog.New: " + err.Error())

			return
		}
		// Records in the rotated file, in the current file and in memory.  One
		// goroutine records them, at least 2 us apart.
		n := 0
		lines, buffered := 0, 0
		record := func(k int) {
			for ; k > 0; k-- {
				for t0 := time.Now(); time.Since(t0) < 2*time.Microsecond; {
				}
				c07rAdd(s, w, n)
				n++
				buffered++
				if buffered < int(s.memSize) {
					continue
				}
				// An automatic flush is due: nothing is recorded while it
				// is pending.
				for dl := time.Now().Add(3 * time.Second); s.fileLines() < lines+buffered && time.Now().Before(dl); {
					time.Sleep(100 * time.Microsecond)
				}
				lines, buffered = s.fileLines(), 0
			}
		}
		flushAll := func() {
			// Automatic flushes first, then the rest.
			s.settle()
			_ = s.l.flushLogBuffer(context.Background())
			lines, buffered = s.fileLines(), 0
		}
		record(120 + rng.Intn(60))
		flushAll()
		if err = s.l.rotate(context.Background()); err != nil {
			rep.Inconcl("rotate: " + err.Error())

			return
		}
		nRot := n
		lines = 0
		record(120 + rng.Intn(60))
		flushAll()
		nFile := n - nRot
		record(3 + rng.Intn(int(s.memSize)-5))
		s.settle()
		s.logf("log built: %d records in the rotated file, %d in the current file, %d in memory", nRot, nFile, n-nRot-nFile)

		// The requests.
		var reqs []string
		add := func(q url.Values) { reqs = append(reqs, q.Encode()) }
		big := strconv.Itoa(c07BigLimit)
		add(url.Values{"limit": {big}})
		add(url.Values{"limit": {big}, "offset": {"0"}})
		for _, h := range []string{"alpha", `"beta.example.org"`, "gamma", "bücher", "delta.lan", "example"} {
			add(url.Values{"limit": {big}, "search": {h}})
		}
		for _, st := range []string{"blocked", "filtered", "processed", "all"} {
			add(url.Values{"limit": {big}, "response_status": {st}})
		}
		add(url.Values{"limit": {big}, "search": {"laptop"}, "response_status": {"processed"}})
		add(url.Values{"limit": {big}, "search": {"10.4.3."}})
		for _, off := range []int{0, 13, 90, 200} {
			add(url.Values{"limit": {"17"}, "offset": {strconv.Itoa(off)}})
		}
		// Cursors from the listing: the times of entries in both files.
		_, body, ok := s.call("GET /control/querylog", reqs[0], nil)
		if !ok {
			return
		}
		cursors := c07rTimes(body)
		if len(cursors) != n {
			rep.Violate("concurrent:readers-baseline-incomplete", fmt.Sprintf("the listing of the quiescent log holds %d of %d records", len(cursors), n),
				s.witness(nil))

			return
		}
		for _, i := range []int{3, n - nRot - nFile + 1, n - nRot - 2, n - nRot, n - nRot/2, n - 2} {
			if i >= 0 && i < len(cursors) {
				add(url.Values{"limit": {"40"}, "older_than": {cursors[i]}})
				add(url.Values{"limit": {"5"}, "older_than": {cursors[i]}, "search": {"example"}})
			}
		}
		rep.ClassN("readers_distinct_requests", len(reqs))

		// Alone.
		alone := make([][]byte, len(reqs))
		for i, q := range reqs {
			if _, alone[i], ok = s.call("GET /control/querylog", q, nil); !ok {
				return
			}
		}
		// Alone again: the answers must be reproducible at all.
		for i, q := range reqs {
			_, b, ok2 := s.call("GET /control/querylog", q, nil)
			if !ok2 {
				return
			}
			if !bytes.Equal(b, alone[i]) {
				rep.Inconcl("a search run alone twice on a quiescent log gives two answers: " + q)

				return
			}
		}

		searchers := 6
		iters := verifkit.Pick(25, 60)
		var active, maxActive, overlapped atomic.Int32
		run := func(compare bool, stop *atomic.Bool) (diffs int32) {
			var wg sync.WaitGroup
			var nd atomic.Int32
			for g := 0; g < searchers; g++ {
				r := rand.New(rand.NewSource(rng.Int63()))
				wg.Add(1)
				go func(g int) {
					defer wg.Done()
					for k := 0; k < iters && !s.failed.Load(); k++ {
						if stop != nil && stop.Load() {
							return
						}
						// Different requests at the same time.
						i := (g + k*searchers + r.Intn(3)*7) % len(reqs)
						if a := active.Add(1); a > 1 {
							overlapped.Add(1)
							for {
								m := maxActive.Load()
								if a <= m || maxActive.CompareAndSwap(m, a) {
									break
								}
							}
						}
						code, b, cok := s.call("GET /control/querylog", reqs[i], nil)
						active.Add(-1)
						if !cok {
							return
						}
						rep.Event("readers_concurrent_searches")
						if code != http.StatusOK || !bytes.Equal(b, alone[i]) {
							nd.Add(1)
							if compare && !s.failed.Swap(true) {
								a, c := c07rTimes(alone[i]), c07rTimes(b)
								rep.Violate("concurrent:search-differs-from-the-same-search-alone",
									"a search that ran while other searches were running returned something else than the same search alone (no writer active)",
									s.witness(map[string]any{"request": reqs[i], "status": code,
										"entries_alone": len(a), "entries_concurrent": len(c),
										"first_difference": c07rFirstDiff(alone[i], b)}))
							}
						}
					}
				}(g)
			}
			wg.Wait()

			return nd.Load()
		}

		// Phase 1: only searchers.
		s.logf("phase 1: %d searchers, %d requests each, no writer", searchers, iters)
		run(true, nil)
		rep.Eval(true, fmt.Sprintf("readers/%d/quiet", si))
		if s.failed.Load() {
			return
		}
		// Phase 2: searchers while records are added and flushed.
		s.logf("phase 2: the same while records are added and flushed")
		var stop atomic.Bool
		var wgw sync.WaitGroup
		wgw.Add(1)
		go func() {
			defer wgw.Done()
			for k := 0; k < 4*int(s.memSize) && !stop.Load(); k++ {
				c07rAdd(s, w, 100000+k)
				rep.Event("readers_phase2_records_added")
				time.Sleep(time.Duration(50+k%7*30) * time.Microsecond)
			}
		}()
		diffs := run(false, nil)
		stop.Store(true)
		wgw.Wait()
		rep.EventN("readers_phase2_answers_that_differ_from_the_quiescent_ones", int(diffs))
		rep.Eval(true, fmt.Sprintf("readers/%d/writers", si))
		s.settle()
		// Quiescent again: pinned requests (those with older_than) must be
		// what they were.
		for i, q := range reqs {
			if u, _ := url.ParseQuery(q); u.Get("older_than") == "" {
				continue
			}
			_, b, ok2 := s.call("GET /control/querylog", q, nil)
			if !ok2 {
				return
			}
			rep.Event("readers_pinned_requests_rechecked_after_the_writers")
			if !bytes.Equal(b, alone[i]) {
				rep.Unspec("a request pinned by older_than answers differently after more records were flushed")
			}
		}
		// Rotation windows on the same log.
		s.settle()
		_ = s.l.flushLogBuffer(context.Background())
		s.cacheSize = -1
		lines, buffered = s.fileLines(), 0
		c07cRotateRounds(rep, s, rng, func(prefix string, k int) (names []string) {
			for i := 0; i < k; i++ {
				for t0 := time.Now(); time.Since(t0) < 2*time.Microsecond; {
				}
				name := fmt.Sprintf("%s-%d.rot.example", prefix, i)
				names = append(names, name)
				s.add(name, net.IP{10, 5, byte(i >> 8), byte(i)})
				buffered++
				if buffered < int(s.memSize) {
					continue
				}
				for dl := time.Now().Add(3 * time.Second); s.fileLines() < lines+buffered && time.Now().Before(dl); {
					time.Sleep(100 * time.Microsecond)
				}
				lines, buffered = s.fileLines(), 0
			}
			s.settle()

			return names
		}, func() {
			// The current file has become the rotated one.
			s.cacheSize = -1
			lines = s.fileLines()
		})
		if s.failed.Load() {
			return
		}
		rep.EventN("readers_searches_started_while_another_was_running", int(overlapped.Swap(0)))
		if m := int(maxActive.Load()); m > maxSeen {
			maxSeen = m
		}
	}
	rep.EventN("readers_max_searches_at_the_same_time", maxSeen)
	if n := rep.EventCount("rotation_window_searches_that_overlapped_the_rotation"); n < 20 {
		rep.Inconcl(fmt.Sprintf("only %d searches overlapped a rotation", n))
	}
	if n := rep.EventCount("readers_searches_started_while_another_was_running"); n < 50 {
		rep.Inconcl(fmt.Sprintf("only %d searches overlapped another one", n))
	}
}

// c07rTimes extracts the time fields of an answer, in order.
func c07rTimes(body []byte) (ts []string) {
	for _, part := range bytes.Split(body, []byte(`"time":"`))[1:] {
		if i := bytes.IndexByte(part, '"'); i > 0 {
			ts = append(ts, string(part[:i]))
		}
	}

	return ts
}

// c07rFirstDiff shows the surroundings of the first differing byte.
func c07rFirstDiff(a, b []byte) map[string]string {
	i := 0
	for i < len(a) && i < len(b) && a[i] == b[i] {
		i++
	}
	cut := func(x []byte) string {
		lo, hi := max(0, i-200), min(len(x), i+200)
		if lo > hi {
			lo = hi
		}

		return string(x[lo:hi])
	}

	return map[string]string{"at_byte": strconv.Itoa(i), "alone": cut(a), "concurrent": cut(b)}
}
