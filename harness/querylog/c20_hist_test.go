//go:build verif

package querylog

import (
	"errors"
	"fmt"
	"io"
	"os"
	"strings"
	"time"

	"github.com/AdguardTeam/golibs/logutil/slogutil"
)

// Reuse histories: sequences of operations on ONE reader (or one file
// object), with a model of the position carried from operation to operation.
//
// What a failed seek promises.  The documentation of qLogReader.seekTS and of
// qLogFile.seekTS says "if the record is found, it sets the position ... so
// that the next ReadNext call returned this line"; nothing is said about a
// seek that reports an error.  The only caller in the product
// (queryLog.setQLogReader) closes the reader when seekRecord fails, so nobody
// reads after a failed seek.  The statement of the property demands that a
// seek to an absent timestamp does not "mis-position subsequent reads".  The
// monitor therefore asserts no particular position after a failed seek, but
// it asserts that the reader stands at one of the two positions that have a
// documented meaning: where it stood before the seek (the unchanged code does
// exactly this: neither currentFile nor any file position is written on the
// error paths) or at the start of the log (as after SeekStart).  The reads
// that follow must then be the records from that position on, each once, in
// reverse order, down to io.EOF.  Anything else (premature io.EOF, records
// returned twice, records skipped) is a violation.  Which of the two was seen
// is counted.

// c20Hist is the state of one history.
type c20Hist struct {
	m     *c20Mon
	level string // "reader" | "file"
	lines []c20Line
	// starts holds the indices into lines where a newer file starts (reader
	// level, both files non-empty).
	starts []int
	roles  []string // role of file i of the case

	seekStart  func() error
	seekTS     func(ts int64) error
	seekRecord func(t time.Time) error // nil at file level
	rd         c20Reader

	// rot is the phase of a rotation history, rotated whether the rotation has
	// happened.
	rot     string
	rotated bool
	// grown is set once whole lines were appended to the newest file after
	// the reader was created; hot holds the indices of the appended lines.
	grown bool
	hot   []int

	cursor int // index into lines of the next line ReadNext must return; -1: io.EOF
	log    []string
	id     string
	ended  bool
}

func (h *c20Hist) note(format string, a ...any) {
	h.log = append(h.log, fmt.Sprintf(format, a...))
}

func (h *c20Hist) witness(extra map[string]any) map[string]any {
	w := map[string]any{"history": append([]string(nil), h.log...), "history_id": h.id, "level": h.level,
		"note": "indices are 0-based positions in the concatenation of the files, oldest line first"}
	for k, v := range extra {
		w[k] = v
	}
	return w
}

// roleAt names the file in which index i lies.
func (h *c20Hist) roleAt(i int) string {
	if i < 0 {
		return "eof"
	}
	if i >= len(h.lines) {
		i = len(h.lines) - 1
	}
	if i < 0 {
		return "eof"
	}
	if h.level == "file" {
		return "file"
	}
	return h.roles[h.lines[i].file]
}

// expFrom returns the lines a reader standing at cursor returns in n reads
// and whether io.EOF must be reached within them.
func (h *c20Hist) expFrom(cursor, n int) (exp []c20Line, full bool) {
	for i := cursor; i >= 0 && len(exp) < n; i-- {
		exp = append(exp, h.lines[i])
	}
	return exp, len(exp) < n
}

// c20Match reports whether got/lastErr is exactly what exp/full describe.
func c20Match(got []string, lastErr error, exp []c20Line, full bool) bool {
	if len(got) != len(exp) {
		return false
	}
	for i := range got {
		if got[i] != exp[i].text {
			return false
		}
	}
	if full {
		return errors.Is(lastErr, io.EOF)
	}
	return lastErr == nil
}

// readsCount chooses a number of reads; toEOF makes the history read to the
// end (plus one read that must be io.EOF).
func (h *c20Hist) readsCount() int {
	rng := h.m.rng
	switch {
	case len(h.lines) <= 40 && rng.Intn(3) == 0:
		return len(h.lines) + 1
	case rng.Intn(8) == 0:
		return 8 + rng.Intn(40)
	default:
		return 1 + rng.Intn(5)
	}
}

// reads performs n ReadNext calls and compares with the model.
func (h *c20Hist) reads(n int, after string) {
	m := h.m
	var got []string
	var rerr error
	op := fmt.Sprintf("history(%s) ReadNext x%d", h.level, n)
	if !m.guard(op, h.witness(nil), func() { got, rerr = c20ReadN(h.rd, n, n+1, nil) }) {
		h.ended = true
		return
	}
	m.eval(fmt.Sprintf("h|%s|%d|r%d", h.id, len(h.log), n))
	m.rec.events["history("+h.level+"):read_runs"]++
	exp, full := h.expFrom(h.cursor, n)
	h.note("ReadNext x%d from index %d -> %d line(s), last error %s", n, h.cursor, len(got), c20ErrStr(rerr))
	if len(exp) > 1 && exp[0].file != exp[len(exp)-1].file {
		m.rec.events["history(reader):read_runs_crossing_the_file_boundary"]++
	}
	if full {
		m.rec.events["history("+h.level+"):read_runs_reaching_eof"]++
	}
	if h.rotated {
		// After the rotation every difference has the same meaning: the reader
		// does not return the files it was created on.
		m.noLocus = true
		ok := m.compare("reader-history:rotation-during-read", op, got, rerr, exp, full, h.witness(map[string]any{"rotation_phase": h.rot}))
		m.noLocus = false
		if !ok {
			h.ended = true
			return
		}
	} else if h.grown {
		m.noLocus = true
		ok := m.compare(h.level+"-history:append-before-positioning:reads-after-"+after, op, got, rerr, exp, full, h.witness(nil))
		m.noLocus = false
		if !ok {
			h.ended = true
			return
		}
	} else if !m.compare(h.level+"-history:reads-after-"+after, op, got, rerr, exp, full, h.witness(nil)) {
		h.ended = true
		return
	}
	h.cursor -= len(exp)
	if h.cursor < -1 {
		h.cursor = -1
	}
}

// afterFailedSeek checks the reads that directly follow a seek that reported
// an error: they must continue from the position before the seek or from
// the start of the log.
func (h *c20Hist) afterFailedSeek(class, targetRole string, err error) {
	m := h.m
	n := h.readsCount()
	if m.rng.Intn(4) == 0 && len(h.lines) <= 400 {
		n = len(h.lines) + 1 // to the end
	}
	var got []string
	var rerr error
	readerRole := h.roleAt(h.cursor)
	scen := fmt.Sprintf("%s/target-in-%s/reader-in-%s", class, targetRole, readerRole)
	op := fmt.Sprintf("history(%s) ReadNext x%d directly after a failed seek", h.level, n)
	if !m.guard(op, h.witness(nil), func() { got, rerr = c20ReadN(h.rd, n, n+1, nil) }) {
		h.ended = true
		return
	}
	m.eval(fmt.Sprintf("h|%s|%d|f%d", h.id, len(h.log), n))
	m.rec.events["history("+h.level+"):reads_after_failed_seek:"+scen]++
	m.rec.events["history("+h.level+"):reads_after_failed_seek(total)"]++
	expP, fullP := h.expFrom(h.cursor, n)
	expS, fullS := h.expFrom(len(h.lines)-1, n)
	h.note("ReadNext x%d directly after the failed seek (model index before the seek: %d) -> %d line(s), last error %s",
		n, h.cursor, len(got), c20ErrStr(rerr))
	switch {
	case c20Match(got, rerr, expP, fullP):
		m.rec.events["history("+h.level+"):position_after_failed_seek:unchanged"]++
		if fullP {
			m.rec.events["history("+h.level+"):reads_after_failed_seek_reaching_eof"]++
		}
		h.cursor -= len(expP)
	case c20Match(got, rerr, expS, fullS):
		m.rec.unspec["after a failed seek the "+h.level+" stood at the start of the log instead of where it stood before"]++
		h.cursor = len(h.lines) - 1 - len(expS)
	default:
		w := h.witness(map[string]any{"seek_error": c20ErrStr(err), "target_class": class,
			"expected_if_position_unchanged_from_index": h.cursor, "expected_if_at_start_from_index": len(h.lines) - 1})
		w["scenario"] = scen
		m.noLocus = true
		m.compare(h.level+"-history:reads-after-failed-seek:"+class, op, got, rerr, expP, fullP, w)
		m.noLocus = false
		h.ended = true
		return
	}
	if h.cursor < -1 {
		h.cursor = -1
	}
}

// pickPresent picks a line index, with a bias towards file edges.
func (h *c20Hist) pickPresent() int {
	rng := h.m.rng
	n := len(h.lines)
	if len(h.hot) > 0 && rng.Intn(2) == 0 {
		// an appended line, or the line just before the appended ones
		if i := h.hot[0] - 1 + rng.Intn(len(h.hot)+1); i >= 0 {
			return i
		}
	}
	if len(h.starts) > 0 && rng.Intn(3) == 0 {
		s := h.starts[0]
		i := s - 2 + rng.Intn(5)
		if i >= 0 && i < n {
			return i
		}
	}
	switch rng.Intn(8) {
	case 0:
		return 0
	case 1:
		return n - 1
	}
	if len(h.starts) > 0 && rng.Intn(2) == 0 {
		// uniformly in one of the two files, so that a short file is not
		// starved by a long one
		s := h.starts[0]
		if rng.Intn(2) == 0 {
			return rng.Intn(s)
		}
		return s + rng.Intn(n-s)
	}
	return rng.Intn(n)
}

// pickAbsent picks an absent timestamp of the wanted kind; ok is false if
// the lines have no room for one.
func (h *c20Hist) pickAbsent(failing bool) (a c20Absent, role string, ok bool) {
	rng := h.m.rng
	n := len(h.lines)
	if n == 0 {
		return c20Absent{ts: time.Date(2024, 5, 5, 5, 5, 5, 0, time.UTC).UnixNano() + rng.Int63n(1e15), class: "empty"}, "none", failing
	}
	first, last := h.lines[0].ts, h.lines[n-1].ts
	isStart := func(i int) bool {
		for _, s := range h.starts {
			if s == i {
				return true
			}
		}
		return false
	}
	if !failing && h.level == "reader" {
		// classes for which the reader reports success
		if len(h.starts) > 0 && rng.Intn(2) == 0 {
			s := h.starts[0]
			lo, hi := h.lines[s-1].ts, h.lines[s].ts
			if hi-lo >= 2 {
				return c20Absent{ts: lo + 1 + rng.Int63n(hi-lo-1), class: "between-files", older: s}, "between", true
			}
		}
		d := int64(1)
		if rng.Intn(2) == 0 {
			d += rng.Int63n(int64(30 * 24 * time.Hour))
		}
		return c20Absent{ts: last + d, class: "after-last", older: n}, "after", true
	}
	switch k := rng.Intn(10); {
	case k < 3:
		d := int64(1)
		if rng.Intn(2) == 0 {
			d += rng.Int63n(int64(30 * 24 * time.Hour))
		}
		return c20Absent{ts: first - d, class: "before-first", older: 0}, "before-everything", true
	case k == 3 && h.level == "file":
		return c20Absent{ts: last + 1 + rng.Int63n(1e12), class: "after-last", older: n}, "file", true
	}
	if len(h.hot) >= 2 && rng.Intn(2) == 0 {
		// between two appended lines, or between the snapshot and the first
		// appended line
		i := h.hot[rng.Intn(len(h.hot))]
		// (not across the file boundary: that target is "later than a whole
		// file", for which the reader reports success)
		if i > 0 && h.lines[i].file == h.lines[i-1].file && h.lines[i].ts-h.lines[i-1].ts >= 2 {
			lo, hi := h.lines[i-1].ts, h.lines[i].ts
			return c20Absent{ts: lo + 1 + rng.Int63n(hi-lo-1), class: "between-neighbours", older: i}, "appended", true
		}
	}
	for try := 0; try < 30; try++ {
		var i int
		if len(h.starts) > 0 {
			s := h.starts[0]
			if rng.Intn(2) == 0 {
				if s < 2 {
					continue
				}
				i = 1 + rng.Intn(s-1)
			} else {
				if n-s < 2 {
					continue
				}
				i = s + 1 + rng.Intn(n-s-1)
			}
		} else {
			if n < 2 {
				break
			}
			i = 1 + rng.Intn(n-1)
		}
		if isStart(i) {
			continue
		}
		lo, hi := h.lines[i-1].ts, h.lines[i].ts
		if hi-lo < 2 {
			continue
		}
		return c20Absent{ts: lo + 1 + rng.Int63n(hi-lo-1), class: "between-neighbours", older: i}, h.roleAt(i), true
	}
	return c20Absent{ts: first - 1, class: "before-first", older: 0}, "before-everything", true
}

// run performs nops operations.
func (h *c20Hist) run(nops int) {
	m := h.m
	rng := m.rng
	n := len(h.lines)
	// A history starts with an operation that defines the position.
	first := true
	for step := 0; step < nops && !h.ended && !m.dead; step++ {
		k := rng.Intn(100)
		if first {
			k = rng.Intn(30) // SeekStart or a successful seek
			if n == 0 {
				k = 0
			}
		}
		first = false
		switch {
		case k < 12: // SeekStart
			var err error
			if !m.guard("history("+h.level+") SeekStart", h.witness(nil), func() { err = h.seekStart() }) {
				return
			}
			h.note("SeekStart -> %s", c20ErrStr(err))
			m.rec.events["history("+h.level+"):ops:SeekStart"]++
			if err != nil {
				m.rec.violate(h.level+"-history:seek-start-error", "SeekStart failed: "+err.Error(), h.witness(map[string]any{"case": m.c.describe()}))
				return
			}
			h.cursor = n - 1
			if rng.Intn(2) == 0 {
				h.reads(h.readsCount(), "SeekStart")
			}
		case k < 30 && n > 0: // seekTS to a present timestamp
			gi := h.pickPresent()
			var err error
			if !m.guard("history("+h.level+") seekTS(present)", h.witness(nil), func() { err = h.seekTS(h.lines[gi].ts) }) {
				return
			}
			h.note("seekTS(timestamp of index %d = %d) -> %s", gi, h.lines[gi].ts, c20ErrStr(err))
			m.rec.events["history("+h.level+"):ops:seekTS(present)"]++
			if err != nil {
				key := h.level + "-history:seek-present:" + c20ErrClass(err)
				if h.grown {
					key = h.level + "-history:append-before-positioning:seek-present:" + c20ErrClass(err)
				}
				m.rec.violate(key,
					"seekTS to the timestamp of a stored entry failed on a reused "+h.level+": "+err.Error(),
					h.witness(map[string]any{"case": m.c.describe(), "target": c20LineInfo(h.lines[gi])}))
				return
			}
			h.cursor = gi
			if rng.Intn(4) != 0 {
				h.reads(h.readsCount(), "seek-present")
			}
		case k < 60: // seekTS to an absent timestamp that must fail
			a, role, ok := h.pickAbsent(true)
			if !ok {
				continue
			}
			var err error
			if !m.guard("history("+h.level+") seekTS(absent)", h.witness(nil), func() { err = h.seekTS(a.ts) }) {
				return
			}
			h.note("seekTS(absent %d, %s, %d line(s) older) -> %s", a.ts, a.class, a.older, c20ErrStr(err))
			m.rec.events["history("+h.level+"):ops:seekTS(absent,failing)"]++
			if err == nil && h.grown {
				m.rec.violate(h.level+"-history:append-before-positioning:seek-absent:"+a.class+":success",
					"seekTS to a timestamp that no stored entry has reported success after lines had been appended to the file",
					h.witness(map[string]any{"case": m.c.describe(), "target_unix_nano": a.ts, "target_lies_in": role}))
				return
			}
			if err == nil {
				// Asserted by the single-operation part of the monitor.
				m.rec.events["history("+h.level+"):ended_on_an_outcome_judged_elsewhere"]++
				return
			}
			h.afterFailedSeek(a.class, role, err)
		case k < 70 && h.level == "reader": // absent, reader reports success
			a, _, ok := h.pickAbsent(false)
			if !ok || n == 0 {
				continue
			}
			var err error
			if !m.guard("history(reader) seekTS(absent, later than a whole file)", h.witness(nil), func() { err = h.seekTS(a.ts) }) {
				return
			}
			h.note("seekTS(absent %d, %s, %d line(s) older) -> %s", a.ts, a.class, a.older, c20ErrStr(err))
			m.rec.events["history(reader):ops:seekTS(absent,later-than-a-file)"]++
			if err != nil {
				h.afterFailedSeek(a.class, "later-than-a-file", err)
				continue
			}
			h.cursor = a.older - 1
			h.reads(h.readsCount(), "seek-later-than-a-file")
		case k < 85 && h.seekRecord != nil: // seekRecord variants
			var err error
			switch v := rng.Intn(10); {
			case v == 0:
				if !m.guard("history(reader) seekRecord(zero)", h.witness(nil), func() { err = h.seekRecord(time.Time{}) }) {
					return
				}
				h.note("seekRecord(zero time) -> %s", c20ErrStr(err))
				m.rec.events["history(reader):ops:seekRecord(zero)"]++
				if err != nil {
					m.rec.violate("reader-history:seek-record-zero-error", err.Error(), h.witness(map[string]any{"case": m.c.describe()}))
					return
				}
				h.cursor = n - 1
				h.reads(h.readsCount(), "seekRecord(zero)")
			case v < 5 && n > 0:
				gi := h.pickPresent()
				if !m.guard("history(reader) seekRecord(present)", h.witness(nil), func() { err = h.seekRecord(time.Unix(0, h.lines[gi].ts)) }) {
					return
				}
				h.note("seekRecord(time of index %d = %d) -> %s", gi, h.lines[gi].ts, c20ErrStr(err))
				m.rec.events["history(reader):ops:seekRecord(present)"]++
				if err != nil {
					m.rec.violate("reader-history:seek-record-present:"+c20ErrClass(err),
						"seekRecord with the time of a stored entry failed: "+err.Error(),
						h.witness(map[string]any{"case": m.c.describe(), "target": c20LineInfo(h.lines[gi])}))
					return
				}
				h.cursor = gi - 1
				h.reads(h.readsCount(), "seekRecord(present)")
			case v < 7 && n > 0:
				a, _, _ := h.pickAbsent(false)
				if !m.guard("history(reader) seekRecord(absent, later than a whole file)", h.witness(nil), func() { err = h.seekRecord(time.Unix(0, a.ts)) }) {
					return
				}
				h.note("seekRecord(absent %d, %s, %d line(s) older) -> %s", a.ts, a.class, a.older, c20ErrStr(err))
				m.rec.events["history(reader):ops:seekRecord(absent,later-than-a-file)"]++
				if err != nil {
					h.afterFailedSeek("seekRecord:"+a.class, "later-than-a-file", err)
					continue
				}
				h.cursor = a.older - 1
				h.reads(h.readsCount(), "seekRecord(later-than-a-file)")
			default:
				a, role, ok := h.pickAbsent(true)
				if !ok {
					continue
				}
				if !m.guard("history(reader) seekRecord(absent)", h.witness(nil), func() { err = h.seekRecord(time.Unix(0, a.ts)) }) {
					return
				}
				h.note("seekRecord(absent %d, %s, %d line(s) older) -> %s", a.ts, a.class, a.older, c20ErrStr(err))
				m.rec.events["history(reader):ops:seekRecord(absent,failing)"]++
				if err == nil {
					m.rec.events["history(reader):ended_on_an_outcome_judged_elsewhere"]++
					return
				}
				h.afterFailedSeek("seekRecord:"+a.class, role, err)
			}
		default:
			h.reads(h.readsCount(), "reads")
		}
	}
}

// readerHistories runs reuse histories on fresh multi-file readers.
func (m *c20Mon) readerHistories(paths []string, count, nops int) {
	var starts []int
	if len(m.c.files) == 2 && len(m.c.files[0].lines) > 0 && len(m.c.files[1].lines) > 0 {
		starts = []int{m.c.first[1]}
	}
	var roles []string
	for _, f := range m.c.files {
		roles = append(roles, f.role)
	}
	for i := 0; i < count && !m.dead; i++ {
		r, err := newQLogReader(m.ctx, slogutil.NewDiscardLogger(), paths)
		if err != nil {
			return
		}
		h := &c20Hist{m: m, level: "reader", lines: m.c.all, starts: starts, roles: roles,
			seekStart:  r.SeekStart,
			seekTS:     func(ts int64) error { return r.seekTS(m.ctx, ts) },
			seekRecord: func(t time.Time) error { return r.seekRecord(m.ctx, t) },
			rd:         r, cursor: -1, id: fmt.Sprintf("r%d", i)}
		h.note("newQLogReader(%d file(s))", len(paths))
		h.run(nops)
		m.rec.events["history(reader):histories"]++
		if !m.rec.hung {
			_ = r.Close()
		}
	}
}

// fileHistories runs reuse histories on a fresh qLogFile of every file.
func (m *c20Mon) fileHistories(nops int) {
	for fi, f := range m.c.files {
		if m.dead {
			return
		}
		q, err := newQLogFile(f.path)
		if err != nil {
			continue
		}
		h := &c20Hist{m: m, level: "file", lines: f.lines,
			seekStart: func() error { _, e := q.SeekStart(); return e },
			seekTS: func(ts int64) error {
				_, _, e := q.seekTS(m.ctx, slogutil.NewDiscardLogger(), ts)
				return e
			},
			rd: q, cursor: -1, id: fmt.Sprintf("f%d", fi)}
		h.note("newQLogFile(file %d, %s)", fi, f.role)
		h.run(nops)
		m.rec.events["history(file):histories"]++
		if !m.rec.hung {
			_ = q.Close()
		}
	}
}

// ---- rotation during a read ---------------------------------------------
//
// (*queryLog).rotate renames <log> to <log>.1 (replacing the old <log>.1); the
// next flush creates a new <log> with O_CREATE|O_APPEND.  A qLogReader opens
// both files when it is created (newQLogReader) and keeps the descriptors, so
// a rotation that happens while a search is reading cannot change what the
// reader returns: exactly the lines the two files had when the reader was
// created, each once, newest first.  searchFiles relies on this for a
// consistent page (it creates the reader, seeks and reads up to the scan limit
// without any lock against rotate).  The histories below rotate in the middle
// of a read, at every phase, and hold the reader to that.

// c20Rotate does what rotate and the next flush do.
func (m *c20Mon) c20Rotate(newCurrent int) error {
	cur := m.c.curPath
	if err := os.Rename(cur, cur+".1"); err != nil {
		return err
	}
	if newCurrent == 0 {
		return nil
	}
	f, err := os.OpenFile(cur, os.O_WRONLY|os.O_CREATE|os.O_APPEND, 0o644)
	if err != nil {
		return err
	}
	defer f.Close()
	if newCurrent == 1 {
		return nil // created, nothing written yet
	}
	// Lines newer than everything the reader knows.
	base := int64(0)
	if n := len(m.c.all); n > 0 {
		base = m.c.all[n-1].ts
	} else {
		base = time.Date(2031, 1, 1, 0, 0, 0, 0, time.UTC).UnixNano()
	}
	var sb []byte
	nNew := 1 + m.rng.Intn(40)
	for i := 0; i < nNew; i++ {
		base += 1 + m.rng.Int63n(int64(time.Minute))
		line := c20MakeLine(time.Unix(0, base).UTC().Format(time.RFC3339Nano), 900000+i, c20MinLen+m.rng.Intn(400))
		sb = append(sb, line...)
		sb = append(sb, '\n')
	}
	_, err = f.Write(sb)
	return err
}

var c20RotPhases = []string{"before-any-call", "after-SeekStart", "while-in-current-file", "at-the-file-boundary", "while-in-rotated-file", "after-a-seek-into-the-rotated-file"}

// rotationHistories runs count histories with a rotation in the middle.
func (m *c20Mon) rotationHistories(count int) {
	c := m.c
	two := len(c.files) == 2
	nAll := len(c.all)
	nCur := len(c.files[len(c.files)-1].lines)
	for k := 0; k < count && !m.dead; k++ {
		if err := c.rewrite(); err != nil {
			m.rec.inconcl = append(m.rec.inconcl, "cannot restore the files for a rotation history: "+err.Error())
			return
		}
		// The product always names both files; a missing rotated file is
		// skipped by newQLogReader.
		r, err := newQLogReader(m.ctx, slogutil.NewDiscardLogger(), []string{c.curPath + ".1", c.curPath})
		if err != nil {
			m.rec.violate("open-reader-error", err.Error(), map[string]any{"case": c.describe()})
			return
		}
		var starts []int
		if two && len(c.files[0].lines) > 0 && nCur > 0 {
			starts = []int{c.first[1]}
		}
		var roles []string
		for _, f := range c.files {
			roles = append(roles, f.role)
		}
		h := &c20Hist{m: m, level: "reader", lines: c.all, starts: starts, roles: roles,
			seekStart:  r.SeekStart,
			seekTS:     func(ts int64) error { return r.seekTS(m.ctx, ts) },
			seekRecord: func(t time.Time) error { return r.seekRecord(m.ctx, t) },
			rd:         r, cursor: -1, id: fmt.Sprintf("rot%d", k)}
		h.note("newQLogReader([%q, %q]) on files as generated", "<log>.1", "<log>")
		phase := c20RotPhases[m.rng.Intn(len(c20RotPhases))]
		newCurrent := m.rng.Intn(3)
		h.rot = phase
		func() {
			defer func() {
				if !m.rec.hung {
					_ = r.Close()
				}
			}()
			// Bring the reader to the phase.
			positioned := true
			switch phase {
			case "before-any-call":
				positioned = false
			case "after-SeekStart":
				h.position(-1)
			case "while-in-current-file":
				if nCur >= 2 {
					// somewhere in the current file, at least one line of it left
					start := nAll - 1
					if m.rng.Intn(2) == 0 {
						start = nAll - nCur + 1 + m.rng.Intn(nCur-1)
					}
					h.position(start)
					if left := h.cursor - (nAll - nCur); left > 0 && !h.ended {
						h.reads(m.rng.Intn(left+1), "positioning")
					}
				} else {
					h.position(-1)
				}
			case "at-the-file-boundary":
				h.position(-1)
				if nCur > 0 && !h.ended {
					if nCur > 300 { // get there by a seek instead of reading everything
						h.position(nAll - nCur + m.rng.Intn(20))
					}
					if !h.ended {
						h.reads(h.cursor-(nAll-nCur)+1, "positioning") // the oldest line of the current file was the last one read
					}
				}
			case "while-in-rotated-file":
				h.position(-1)
				if !h.ended {
					if nCur > 300 {
						h.position(nAll - nCur + m.rng.Intn(20))
					}
					if !h.ended {
						extra := 1
						if rot := nAll - nCur; rot > 1 {
							extra = 1 + m.rng.Intn(rot)
						}
						h.reads(h.cursor-(nAll-nCur)+1+extra, "positioning")
					}
				}
			case "after-a-seek-into-the-rotated-file":
				if two && nAll-nCur > 0 {
					h.position(m.rng.Intn(nAll - nCur))
				} else {
					h.position(-1)
				}
			}
			if h.ended || m.dead {
				return
			}
			if err := m.c20Rotate(newCurrent); err != nil {
				m.rec.inconcl = append(m.rec.inconcl, "rotation step failed: "+err.Error())
				return
			}
			h.rotated = true
			h.note("ROTATION: rename <log> -> <log>.1 (replacing it); new <log>: %s", []string{"none", "created empty", "created with newer lines"}[newCurrent])
			m.rec.events["history(reader):rotation:"+phase]++
			m.rec.events["history(reader):rotations(total)"]++
			if two && len(c.files[0].lines) > 0 && nCur > 0 {
				m.rec.events["history(reader):rotation_with_two_non-empty_files:"+phase]++
			}
			if !positioned {
				h.position(-1)
			}
			if h.ended || m.dead {
				return
			}
			// Go on reading: everything that is left, then io.EOF.
			h.reads(h.cursor+2, "rotation")
			// The same reader afterwards: sweeps and seeks still see the files
			// it was created on.
			for i := 0; i < 2 && !h.ended && !m.dead && nAll > 0; i++ {
				if m.rng.Intn(2) == 0 {
					h.position(-1)
				} else {
					h.position(h.pickPresent())
				}
				if !h.ended {
					n := h.readsCount()
					if nAll <= 400 {
						n = h.cursor + 2
					}
					h.reads(n, "rotation")
				}
			}
		}()
		m.rec.events["history(reader):histories"]++
	}
}

// position moves the reader to index i with a seek to that line's timestamp,
// or to the start for i < 0.
func (h *c20Hist) position(i int) {
	m := h.m
	var err error
	if i < 0 || len(h.lines) == 0 {
		if !m.guard("history(reader) SeekStart", h.witness(nil), func() { err = h.seekStart() }) {
			h.ended = true
			return
		}
		h.note("SeekStart -> %s", c20ErrStr(err))
		h.cursor = len(h.lines) - 1
	} else {
		if !m.guard("history(reader) seekTS(present)", h.witness(nil), func() { err = h.seekTS(h.lines[i].ts) }) {
			h.ended = true
			return
		}
		h.note("seekTS(timestamp of index %d = %d) -> %s", i, h.lines[i].ts, c20ErrStr(err))
		h.cursor = i
	}
	if err != nil {
		key := h.level + "-history:positioning-error:" + c20ErrClass(err)
		if h.rotated && !c20IsTSClass(c20ErrClass(err)) {
			// Not "this timestamp is not there" but the files themselves could
			// not be used any more.
			key = "reader-history:rotation-during-read:seek-error"
		}
		m.rec.violate(key, "positioning a reader on the files it was created on failed: "+err.Error(),
			h.witness(map[string]any{"case": m.c.describe(), "rotation_phase": h.rot}))
		h.ended = true
	}
}

// ---- lines appended between the creation of a reader and its positioning --
//
// SeekStart and seekTS of the unchanged code take the size of the file when
// they are called, so "every line" and "a stored entry" of the statement mean
// the content of the file at the moment of the positioning call, also for a
// reader that was created earlier.  (Positions already taken are not moved
// by an append: reads that simply continue return the older lines as before.)
// The harness appends whole lines with increasing timestamps between two calls,
// never during one, so the expectation is exact.

// c20AppendLines appends n newer lines to the current file and returns them.
func (m *c20Mon) c20AppendLines(lines []c20Line, n int) (out []c20Line, err error) {
	c := m.c
	fi := len(c.files) - 1
	st, err := os.Stat(c.curPath)
	if err != nil {
		return nil, err
	}
	off := st.Size()
	ts := time.Date(2031, 1, 1, 0, 0, 0, 0, time.UTC).UnixNano()
	idx := 0
	if k := len(lines); k > 0 {
		ts = lines[k-1].ts
		if lines[k-1].file == fi {
			idx = lines[k-1].idx + 1
		}
	}
	var buf []byte
	for i := 0; i < n; i++ {
		switch m.rng.Intn(4) {
		case 0:
			ts += 2
		case 1:
			ts += 2 + m.rng.Int63n(1000)
		default:
			ts += 2 + m.rng.Int63n(int64(time.Minute))
		}
		l := c20MinLen + m.rng.Intn(500)
		if m.rng.Intn(15) == 0 {
			l = c20RandLen(m.rng, c20Weighted(m.rng, c20WMixed))
		}
		text := c20MakeLine(time.Unix(0, ts).UTC().Format(time.RFC3339Nano), 800000+idx, l)
		out = append(out, c20Line{ts: ts, text: text, off: off + int64(len(buf)), file: fi, idx: idx})
		buf = append(buf, text...)
		buf = append(buf, '\n')
		idx++
	}
	f, err := os.OpenFile(c.curPath, os.O_WRONLY|os.O_CREATE|os.O_APPEND, 0o644)
	if err != nil {
		return nil, err
	}
	defer f.Close()
	_, err = f.Write(buf)
	return out, err
}

// growthHistories runs count histories at each level in which lines are
// appended after the object was created and between its positionings.
func (m *c20Mon) growthHistories(count int, big bool) {
	c := m.c
	k0, k1 := 0, 2*count
	if big {
		// every history rewrites the files: one history, levels alternating
		k0 = c.id % 2
		k1 = k0 + 1
	}
	for k := k0; k < k1 && !m.dead; k++ {
		if err := c.rewrite(); err != nil {
			m.rec.inconcl = append(m.rec.inconcl, "cannot restore the files for a growth history: "+err.Error())
			return
		}
		level := []string{"reader", "file"}[k%2]
		var h *c20Hist
		var closer func() error
		if level == "reader" {
			r, err := newQLogReader(m.ctx, slogutil.NewDiscardLogger(), []string{c.curPath + ".1", c.curPath})
			if err != nil {
				return
			}
			var starts []int
			if len(c.files) == 2 && len(c.files[0].lines) > 0 && len(c.files[1].lines) > 0 {
				starts = []int{c.first[1]}
			}
			var roles []string
			for _, f := range c.files {
				roles = append(roles, f.role)
			}
			h = &c20Hist{m: m, level: "reader", lines: c.all, starts: starts, roles: roles,
				seekStart:  r.SeekStart,
				seekTS:     func(ts int64) error { return r.seekTS(m.ctx, ts) },
				seekRecord: func(t time.Time) error { return r.seekRecord(m.ctx, t) },
				rd:         r, cursor: -1, id: fmt.Sprintf("grow-r%d", k)}
			h.note("newQLogReader([<log>.1, <log>]) on files as generated")
			closer = r.Close
		} else {
			q, err := newQLogFile(c.curPath)
			if err != nil {
				return
			}
			cur := c.files[len(c.files)-1]
			h = &c20Hist{m: m, level: "file", lines: cur.lines,
				seekStart: func() error { _, e := q.SeekStart(); return e },
				seekTS: func(ts int64) error {
					_, _, e := q.seekTS(m.ctx, slogutil.NewDiscardLogger(), ts)
					return e
				},
				rd: q, cursor: -1, id: fmt.Sprintf("grow-f%d", k)}
			h.note("newQLogFile(<log>) on the file as generated")
			closer = q.Close
		}
		// Half of the histories position and read before the first append.
		if m.rng.Intn(2) == 0 && len(h.lines) > 0 {
			h.run(1 + m.rng.Intn(3))
		}
		for round := 0; round < 2 && !h.ended && !m.dead; round++ {
			app, err := m.c20AppendLines(h.lines, 1+m.rng.Intn(12))
			if err != nil {
				m.rec.inconcl = append(m.rec.inconcl, "append step failed: "+err.Error())
				break
			}
			grown := make([]c20Line, 0, len(h.lines)+len(app))
			grown = append(grown, h.lines...)
			h.hot = nil
			for _, l := range app {
				h.hot = append(h.hot, len(grown))
				grown = append(grown, l)
			}
			h.lines = grown
			h.grown = true
			if level == "reader" && len(c.files) == 2 && len(c.files[0].lines) > 0 {
				// the current file is not empty any more, if it was
				h.starts = []int{c.first[1]}
			}
			tss := make([]string, len(app))
			for i, l := range app {
				tss[i] = fmt.Sprintf("%d(len %d)", l.ts, len(l.text))
			}
			h.note("APPEND to <log> (one O_APPEND Write, finished before the next call) %d line(s), format as generated with i=800000+k: %s", len(app), strings.Join(tss, " "))
			m.rec.events["history("+level+"):appends_between_calls"]++
			m.rec.events["history("+level+"):lines_appended_between_calls"] += len(app)
			if round == 0 && h.cursor == -1 && len(h.log) == 2 {
				m.rec.events["history("+level+"):append_before_the_first_positioning"]++
			}
			// Sometimes reads simply continue from the position taken before
			// the append: older lines, unaffected.
			if h.cursor >= 0 && m.rng.Intn(3) == 0 {
				h.reads(h.readsCount(), "reads")
			}
			if !h.ended {
				h.run(4 + m.rng.Intn(3))
			}
		}
		m.rec.events["history("+level+"):growth_histories"]++
		if !m.rec.hung {
			_ = closer()
		}
	}
}
