//go:build verif

package querylog

import (
	"errors"
	"fmt"
	"io"
	"time"

	"github.com/AdguardTeam/golibs/logutil/slogutil"
)

// Reuse histories: sequences of operations on ONE reader (or one file
// object), with a model of the position carried from operation to operation.
//
// What a failed seek promises.  The documentation of qLogReader.seekTS and of
// qLogFile.seekTS says "if the record is found, it sets the position ... so
// that the next ReadNext call returned this line"; nothing is said about a
// seek that reports an error.  The only caller in the product
// (queryLog.setQLogReader) closes the reader when seekRecord fails, so nobody
// reads after a failed seek.  The statement of the property demands that a
// seek to an absent timestamp does not "mis-position subsequent reads".  The
// monitor therefore asserts no particular position after a failed seek, but
// it asserts that the reader stands at one of the two positions that have a
// documented meaning: where it stood before the seek (the unchanged code does
// exactly this: neither currentFile nor any file position is written on the
// error paths) or at the start of the log (as after SeekStart).  The reads
// that follow must then be the records from that position on, each once, in
// reverse order, down to io.EOF.  Anything else (premature io.EOF, records
// returned twice, records skipped) is a violation.  Which of the two was seen
// is counted.

// c20Hist is the state of one history.
type c20Hist struct {
	m     *c20Mon
	level string // "reader" | "file"
	lines []c20Line
	// starts holds the indices into lines where a newer file starts (reader
	// level, both files non-empty).
	starts []int
	roles  []string // role of file i of the case

	seekStart  func() error
	seekTS     func(ts int64) error
	seekRecord func(t time.Time) error // nil at file level
	rd         c20Reader

	cursor int // index into lines of the next line ReadNext must return; -1: io.EOF
	log    []string
	id     string
	ended  bool
}

func (h *c20Hist) note(format string, a ...any) {
	h.log = append(h.log, fmt.Sprintf(format, a...))
}

func (h *c20Hist) witness(extra map[string]any) map[string]any {
	w := map[string]any{"history": append([]string(nil), h.log...), "history_id": h.id, "level": h.level,
		"note": "indices are 0-based positions in the concatenation of the files, oldest line first"}
	for k, v := range extra {
		w[k] = v
	}
	return w
}

// roleAt names the file in which index i lies.
func (h *c20Hist) roleAt(i int) string {
	if i < 0 {
		return "eof"
	}
	if i >= len(h.lines) {
		i = len(h.lines) - 1
	}
	if i < 0 {
		return "eof"
	}
	if h.level == "file" {
		return "file"
	}
	return h.roles[h.lines[i].file]
}

// expFrom returns the lines a reader standing at cursor returns in n reads
// and whether io.EOF must be reached within them.
func (h *c20Hist) expFrom(cursor, n int) (exp []c20Line, full bool) {
	for i := cursor; i >= 0 && len(exp) < n; i-- {
		exp = append(exp, h.lines[i])
	}
	return exp, len(exp) < n
}

// c20Match reports whether got/lastErr is exactly what exp/full describe.
func c20Match(got []string, lastErr error, exp []c20Line, full bool) bool {
	if len(got) != len(exp) {
		return false
	}
	for i := range got {
		if got[i] != exp[i].text {
			return false
		}
	}
	if full {
		return errors.Is(lastErr, io.EOF)
	}
	return lastErr == nil
}

// readsCount chooses a number of reads; toEOF makes the history read to the
// end (plus one read that must be io.EOF).
func (h *c20Hist) readsCount() int {
	rng := h.m.rng
	switch {
	case len(h.lines) <= 40 && rng.Intn(3) == 0:
		return len(h.lines) + 1
	case rng.Intn(8) == 0:
		return 8 + rng.Intn(40)
	default:
		return 1 + rng.Intn(5)
	}
}

// reads performs n ReadNext calls and compares with the model.
func (h *c20Hist) reads(n int, after string) {
	m := h.m
	var got []string
	var rerr error
	op := fmt.Sprintf("history(%s) ReadNext x%d", h.level, n)
	if !m.guard(op, h.witness(nil), func() { got, rerr = c20ReadN(h.rd, n, n+1, nil) }) {
		h.ended = true
		return
	}
	m.eval(fmt.Sprintf("h|%s|%d|r%d", h.id, len(h.log), n))
	m.rec.events["history("+h.level+"):read_runs"]++
	exp, full := h.expFrom(h.cursor, n)
	h.note("ReadNext x%d from index %d -> %d line(s), last error %s", n, h.cursor, len(got), c20ErrStr(rerr))
	if len(exp) > 1 && exp[0].file != exp[len(exp)-1].file {
		m.rec.events["history(reader):read_runs_crossing_the_file_boundary"]++
	}
	if full {
		m.rec.events["history("+h.level+"):read_runs_reaching_eof"]++
	}
	if !m.compare(h.level+"-history:reads-after-"+after, op, got, rerr, exp, full, h.witness(nil)) {
		h.ended = true
		return
	}
	h.cursor -= len(exp)
	if h.cursor < -1 {
		h.cursor = -1
	}
}

// afterFailedSeek checks the reads that directly follow a seek that reported
// an error: they must continue from the position before the seek or from
// the start of the log.
func (h *c20Hist) afterFailedSeek(class, targetRole string, err error) {
	m := h.m
	n := h.readsCount()
	if m.rng.Intn(4) == 0 && len(h.lines) <= 400 {
		n = len(h.lines) + 1 // to the end
	}
	var got []string
	var rerr error
	readerRole := h.roleAt(h.cursor)
	scen := fmt.Sprintf("%s/target-in-%s/reader-in-%s", class, targetRole, readerRole)
	op := fmt.Sprintf("history(%s) ReadNext x%d directly after a failed seek", h.level, n)
	if !m.guard(op, h.witness(nil), func() { got, rerr = c20ReadN(h.rd, n, n+1, nil) }) {
		h.ended = true
		return
	}
	m.eval(fmt.Sprintf("h|%s|%d|f%d", h.id, len(h.log), n))
	m.rec.events["history("+h.level+"):reads_after_failed_seek:"+scen]++
	m.rec.events["history("+h.level+"):reads_after_failed_seek(total)"]++
	expP, fullP := h.expFrom(h.cursor, n)
	expS, fullS := h.expFrom(len(h.lines)-1, n)
	h.note("ReadNext x%d directly after the failed seek (model index before the seek: %d) -> %d line(s), last error %s",
		n, h.cursor, len(got), c20ErrStr(rerr))
	switch {
	case c20Match(got, rerr, expP, fullP):
		m.rec.events["history("+h.level+"):position_after_failed_seek:unchanged"]++
		if fullP {
			m.rec.events["history("+h.level+"):reads_after_failed_seek_reaching_eof"]++
		}
		h.cursor -= len(expP)
	case c20Match(got, rerr, expS, fullS):
		m.rec.unspec["after a failed seek the "+h.level+" stood at the start of the log instead of where it stood before"]++
		h.cursor = len(h.lines) - 1 - len(expS)
	default:
		w := h.witness(map[string]any{"seek_error": c20ErrStr(err), "target_class": class,
			"expected_if_position_unchanged_from_index": h.cursor, "expected_if_at_start_from_index": len(h.lines) - 1})
		w["scenario"] = scen
		m.noLocus = true
		m.compare(h.level+"-history:reads-after-failed-seek:"+class, op, got, rerr, expP, fullP, w)
		m.noLocus = false
		h.ended = true
		return
	}
	if h.cursor < -1 {
		h.cursor = -1
	}
}

// pickPresent picks a line index, with a bias towards file edges.
func (h *c20Hist) pickPresent() int {
	rng := h.m.rng
	n := len(h.lines)
	if len(h.starts) > 0 && rng.Intn(3) == 0 {
		s := h.starts[0]
		i := s - 2 + rng.Intn(5)
		if i >= 0 && i < n {
			return i
		}
	}
	switch rng.Intn(8) {
	case 0:
		return 0
	case 1:
		return n - 1
	}
	if len(h.starts) > 0 && rng.Intn(2) == 0 {
		// uniformly in one of the two files, so that a short file is not
		// starved by a long one
		s := h.starts[0]
		if rng.Intn(2) == 0 {
			return rng.Intn(s)
		}
		return s + rng.Intn(n-s)
	}
	return rng.Intn(n)
}

// pickAbsent picks an absent timestamp of the wanted kind; ok is false if
// the lines have no room for one.
func (h *c20Hist) pickAbsent(failing bool) (a c20Absent, role string, ok bool) {
	rng := h.m.rng
	n := len(h.lines)
	if n == 0 {
		return c20Absent{ts: time.Date(2024, 5, 5, 5, 5, 5, 0, time.UTC).UnixNano() + rng.Int63n(1e15), class: "empty"}, "none", failing
	}
	first, last := h.lines[0].ts, h.lines[n-1].ts
	isStart := func(i int) bool {
		for _, s := range h.starts {
			if s == i {
				return true
			}
		}
		return false
	}
	if !failing && h.level == "reader" {
		// classes for which the reader reports success
		if len(h.starts) > 0 && rng.Intn(2) == 0 {
			s := h.starts[0]
			lo, hi := h.lines[s-1].ts, h.lines[s].ts
			if hi-lo >= 2 {
				return c20Absent{ts: lo + 1 + rng.Int63n(hi-lo-1), class: "between-files", older: s}, "between", true
			}
		}
		d := int64(1)
		if rng.Intn(2) == 0 {
			d += rng.Int63n(int64(30 * 24 * time.Hour))
		}
		return c20Absent{ts: last + d, class: "after-last", older: n}, "after", true
	}
	switch k := rng.Intn(10); {
	case k < 3:
		d := int64(1)
		if rng.Intn(2) == 0 {
			d += rng.Int63n(int64(30 * 24 * time.Hour))
		}
		return c20Absent{ts: first - d, class: "before-first", older: 0}, "before-everything", true
	case k == 3 && h.level == "file":
		return c20Absent{ts: last + 1 + rng.Int63n(1e12), class: "after-last", older: n}, "file", true
	}
	for try := 0; try < 30; try++ {
		var i int
		if len(h.starts) > 0 {
			s := h.starts[0]
			if rng.Intn(2) == 0 {
				if s < 2 {
					continue
				}
				i = 1 + rng.Intn(s-1)
			} else {
				if n-s < 2 {
					continue
				}
				i = s + 1 + rng.Intn(n-s-1)
			}
		} else {
			if n < 2 {
				break
			}
			i = 1 + rng.Intn(n-1)
		}
		if isStart(i) {
			continue
		}
		lo, hi := h.lines[i-1].ts, h.lines[i].ts
		if hi-lo < 2 {
			continue
		}
		return c20Absent{ts: lo + 1 + rng.Int63n(hi-lo-1), class: "between-neighbours", older: i}, h.roleAt(i), true
	}
	return c20Absent{ts: first - 1, class: "before-first", older: 0}, "before-everything", true
}

// run performs nops operations.
func (h *c20Hist) run(nops int) {
	m := h.m
	rng := m.rng
	n := len(h.lines)
	// A history starts with an operation that defines the position.
	first := true
	for step := 0; step < nops && !h.ended && !m.dead; step++ {
		k := rng.Intn(100)
		if first {
			k = rng.Intn(30) // SeekStart or a successful seek
			if n == 0 {
				k = 0
			}
		}
		first = false
		switch {
		case k < 12: // SeekStart
			var err error
			if !m.guard("history("+h.level+") SeekStart", h.witness(nil), func() { err = h.seekStart() }) {
				return
			}
			h.note("SeekStart -> %s", c20ErrStr(err))
			m.rec.events["history("+h.level+"):ops:SeekStart"]++
			if err != nil {
				m.rec.violate(h.level+"-history:seek-start-error", "SeekStart failed: "+err.Error(), h.witness(map[string]any{"case": m.c.describe()}))
				return
			}
			h.cursor = n - 1
			if rng.Intn(2) == 0 {
				h.reads(h.readsCount(), "SeekStart")
			}
		case k < 30 && n > 0: // seekTS to a present timestamp
			gi := h.pickPresent()
			var err error
			if !m.guard("history("+h.level+") seekTS(present)", h.witness(nil), func() { err = h.seekTS(h.lines[gi].ts) }) {
				return
			}
			h.note("seekTS(timestamp of index %d = %d) -> %s", gi, h.lines[gi].ts, c20ErrStr(err))
			m.rec.events["history("+h.level+"):ops:seekTS(present)"]++
			if err != nil {
				m.rec.violate(h.level+"-history:seek-present:"+c20ErrClass(err),
					"seekTS to the timestamp of a stored entry failed on a reused "+h.level+": "+err.Error(),
					h.witness(map[string]any{"case": m.c.describe(), "target": c20LineInfo(h.lines[gi])}))
				return
			}
			h.cursor = gi
			if rng.Intn(4) != 0 {
				h.reads(h.readsCount(), "seek-present")
			}
		case k < 60: // seekTS to an absent timestamp that must fail
			a, role, ok := h.pickAbsent(true)
			if !ok {
				continue
			}
			var err error
			if !m.guard("history("+h.level+") seekTS(absent)", h.witness(nil), func() { err = h.seekTS(a.ts) }) {
				return
			}
			h.note("seekTS(absent %d, %s, %d line(s) older) -> %s", a.ts, a.class, a.older, c20ErrStr(err))
			m.rec.events["history("+h.level+"):ops:seekTS(absent,failing)"]++
			if err == nil {
				// Asserted by the single-operation part of the monitor.
				m.rec.events["history("+h.level+"):ended_on_an_outcome_judged_elsewhere"]++
				return
			}
			h.afterFailedSeek(a.class, role, err)
		case k < 70 && h.level == "reader": // absent, reader reports success
			a, _, ok := h.pickAbsent(false)
			if !ok || n == 0 {
				continue
			}
			var err error
			if !m.guard("history(reader) seekTS(absent, later than a whole file)", h.witness(nil), func() { err = h.seekTS(a.ts) }) {
				return
			}
			h.note("seekTS(absent %d, %s, %d line(s) older) -> %s", a.ts, a.class, a.older, c20ErrStr(err))
			m.rec.events["history(reader):ops:seekTS(absent,later-than-a-file)"]++
			if err != nil {
				h.afterFailedSeek(a.class, "later-than-a-file", err)
				continue
			}
			h.cursor = a.older - 1
			h.reads(h.readsCount(), "seek-later-than-a-file")
		case k < 85 && h.seekRecord != nil: // seekRecord variants
			var err error
			switch v := rng.Intn(10); {
			case v == 0:
				if !m.guard("history(reader) seekRecord(zero)", h.witness(nil), func() { err = h.seekRecord(time.Time{}) }) {
					return
				}
				h.note("seekRecord(zero time) -> %s", c20ErrStr(err))
				m.rec.events["history(reader):ops:seekRecord(zero)"]++
				if err != nil {
					m.rec.violate("reader-history:seek-record-zero-error", err.Error(), h.witness(map[string]any{"case": m.c.describe()}))
					return
				}
				h.cursor = n - 1
				h.reads(h.readsCount(), "seekRecord(zero)")
			case v < 5 && n > 0:
				gi := h.pickPresent()
				if !m.guard("history(reader) seekRecord(present)", h.witness(nil), func() { err = h.seekRecord(time.Unix(0, h.lines[gi].ts)) }) {
					return
				}
				h.note("seekRecord(time of index %d = %d) -> %s", gi, h.lines[gi].ts, c20ErrStr(err))
				m.rec.events["history(reader):ops:seekRecord(present)"]++
				if err != nil {
					m.rec.violate("reader-history:seek-record-present:"+c20ErrClass(err),
						"seekRecord with the time of a stored entry failed: "+err.Error(),
						h.witness(map[string]any{"case": m.c.describe(), "target": c20LineInfo(h.lines[gi])}))
					return
				}
				h.cursor = gi - 1
				h.reads(h.readsCount(), "seekRecord(present)")
			case v < 7 && n > 0:
				a, _, _ := h.pickAbsent(false)
				if !m.guard("history(reader) seekRecord(absent, later than a whole file)", h.witness(nil), func() { err = h.seekRecord(time.Unix(0, a.ts)) }) {
					return
				}
				h.note("seekRecord(absent %d, %s, %d line(s) older) -> %s", a.ts, a.class, a.older, c20ErrStr(err))
				m.rec.events["history(reader):ops:seekRecord(absent,later-than-a-file)"]++
				if err != nil {
					h.afterFailedSeek("seekRecord:"+a.class, "later-than-a-file", err)
					continue
				}
				h.cursor = a.older - 1
				h.reads(h.readsCount(), "seekRecord(later-than-a-file)")
			default:
				a, role, ok := h.pickAbsent(true)
				if !ok {
					continue
				}
				if !m.guard("history(reader) seekRecord(absent)", h.witness(nil), func() { err = h.seekRecord(time.Unix(0, a.ts)) }) {
					return
				}
				h.note("seekRecord(absent %d, %s, %d line(s) older) -> %s", a.ts, a.class, a.older, c20ErrStr(err))
				m.rec.events["history(reader):ops:seekRecord(absent,failing)"]++
				if err == nil {
					m.rec.events["history(reader):ended_on_an_outcome_judged_elsewhere"]++
					return
				}
				h.afterFailedSeek("seekRecord:"+a.class, role, err)
			}
		default:
			h.reads(h.readsCount(), "reads")
		}
	}
}

// readerHistories runs reuse histories on fresh multi-file readers.
func (m *c20Mon) readerHistories(paths []string, count, nops int) {
	var starts []int
	if len(m.c.files) == 2 && len(m.c.files[0].lines) > 0 && len(m.c.files[1].lines) > 0 {
		starts = []int{m.c.first[1]}
	}
	var roles []string
	for _, f := range m.c.files {
		roles = append(roles, f.role)
	}
	for i := 0; i < count && !m.dead; i++ {
		r, err := newQLogReader(m.ctx, slogutil.NewDiscardLogger(), paths)
		if err != nil {
			return
		}
		h := &c20Hist{m: m, level: "reader", lines: m.c.all, starts: starts, roles: roles,
			seekStart:  r.SeekStart,
			seekTS:     func(ts int64) error { return r.seekTS(m.ctx, ts) },
			seekRecord: func(t time.Time) error { return r.seekRecord(m.ctx, t) },
			rd:         r, cursor: -1, id: fmt.Sprintf("r%d", i)}
		h.note("newQLogReader(%d file(s))", len(paths))
		h.run(nops)
		m.rec.events["history(reader):histories"]++
		if !m.rec.hung {
			_ = r.Close()
		}
	}
}

// fileHistories runs reuse histories on a fresh qLogFile of every file.
func (m *c20Mon) fileHistories(nops int) {
	for fi, f := range m.c.files {
		if m.dead {
			return
		}
		q, err := newQLogFile(f.path)
		if err != nil {
			continue
		}
		h := &c20Hist{m: m, level: "file", lines: f.lines,
			seekStart: func() error { _, e := q.SeekStart(); return e },
			seekTS: func(ts int64) error {
				_, _, e := q.seekTS(m.ctx, slogutil.NewDiscardLogger(), ts)
				return e
			},
			rd: q, cursor: -1, id: fmt.Sprintf("f%d", fi)}
		h.note("newQLogFile(file %d, %s)", fi, f.role)
		h.run(nops)
		m.rec.events["history(file):histories"]++
		if !m.rec.hung {
			_ = q.Close()
		}
	}
}
