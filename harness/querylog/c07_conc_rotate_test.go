//go:build verif

package querylog

import (
	"context"
	"encoding/json"
	"fmt"
	"math/rand"
	"net/http"
	"net/url"
	"strconv"
	"sync"
	"sync/atomic"
	"time"

	"github.com/AdguardTeam/AdGuardHome/internal/verifkit"
)

// Searches that overlap a rotation (concurrent part of C07, reader sessions).
//
// The rotation check of the product runs once an hour in its own goroutine and
// is not serialised with GET requests.  With both files present, searches that
// have to read past the newest file run while the current file is renamed to
// the rotated one (rotate(), what checkAndRotate does when a rotation is due;
// the interval itself cannot pass in real time).  Only the rename happens
// while searches run: records are added and flushed between the windows, with
// the searchers stopped, so that no search overlaps a flush.
//
// A search that overlapped the rotation: no entry twice, newest first (the
// entries of the aged-out file may be missing).  At quiescence after the
// window: every record written before the window is listed exactly once.

type c07rotPage struct {
	Oldest string `json:"oldest"`
	Data   []struct {
		Time     string `json:"time"`
		Question struct {
			Name string `json:"name"`
		} `json:"question"`
	} `json:"data"`
}

// c07rotCheck looks for duplicates and for a wrong order in an answer.
func c07rotCheck(body []byte) (p *c07rotPage, what, detail string) {
	p = &c07rotPage{}
	if err := json.Unmarshal(body, p); err != nil {
		return nil, "bad-response", err.Error()
	}
	seen := map[string]int{}
	var prev time.Time
	for i, d := range p.Data {
		t, err := time.Parse(time.RFC3339Nano, d.Time)
		if err != nil {
			return p, "bad-response", "time " + d.Time
		}
		if j, dup := seen[d.Time]; dup {
			return p, "entry-returned-twice", fmt.Sprintf("%s (%s) at positions %d and %d of %d", d.Question.Name, d.Time, j, i, len(p.Data))
		}
		seen[d.Time] = i
		if i > 0 && !t.Before(prev) {
			return p, "order", fmt.Sprintf("position %d (%s %s) is not older than position %d", i, d.Question.Name, d.Time, i-1)
		}
		prev = t
	}

	return p, "", ""
}

// c07cRotateRounds runs the rotation windows on a reader session whose log has
// a rotated file, a current file and records in memory.  record adds n records
// with the given name prefix, every automatic flush awaited.
func c07cRotateRounds(rep *verifkit.Report, s *c07cSess, rng *rand.Rand, record func(prefix string, n int) []string, resetLines func()) {
	windows := verifkit.Pick(12, 80)
	// Generation 0: records of known names in the current file.
	gen := record("w0", 2*int(s.memSize)+rng.Intn(20))
	for wi := 1; wi <= windows && !s.failed.Load(); wi++ {
		// A cursor into the rotated file and the size of the newest part.
		_, body, ok := s.call("GET /control/querylog", "limit="+strconv.Itoa(c07BigLimit)+"&offset=0", nil)
		if !ok {
			return
		}
		base, what, detail := c07rotCheck(body)
		if what != "" {
			rep.Violate("concurrent:listing-at-quiescence:"+what, "the listing of the quiescent log is wrong: "+detail, s.witness(map[string]any{"window": wi}))
			s.failed.Store(true)

			return
		}
		n := len(base.Data)
		reqs := []string{
			"limit=" + strconv.Itoa(c07BigLimit) + "&offset=0",
			"limit=" + strconv.Itoa(c07BigLimit),
			url.Values{"limit": {"50"}, "offset": {strconv.Itoa(n * 2 / 3)}}.Encode(),
			url.Values{"limit": {strconv.Itoa(c07BigLimit)}, "search": {fmt.Sprintf("w%d-1", wi-2)}}.Encode(),
			url.Values{"limit": {strconv.Itoa(c07BigLimit)}, "search": {"alpha"}}.Encode(),
			url.Values{"limit": {strconv.Itoa(c07BigLimit)}, "response_status": {"blocked"}}.Encode(),
		}
		if n > 10 {
			reqs = append(reqs,
				url.Values{"limit": {"60"}, "older_than": {base.Data[n*3/4].Time}}.Encode(),
				url.Values{"limit": {strconv.Itoa(c07BigLimit)}, "older_than": {base.Data[n/3].Time}}.Encode())
		}

		var rotations atomic.Int32
		var wg sync.WaitGroup
		for g := 0; g < 4; g++ {
			r := rand.New(rand.NewSource(rng.Int63()))
			wg.Add(1)
			go func(g int) {
				defer wg.Done()
				for k := 0; k < 4 && !s.failed.Load(); k++ {
					q := reqs[(g+k*3+r.Intn(2))%len(reqs)]
					before := rotations.Load()
					code, b, cok := s.call("GET /control/querylog", q, nil)
					overl := rotations.Load() != before
					if !cok || code != http.StatusOK {
						return
					}
					rep.Event("rotation_window_searches")
					if overl {
						rep.Event("rotation_window_searches_that_overlapped_the_rotation")
					}
					if _, w, d := c07rotCheck(b); w != "" && !s.failed.Swap(true) {
						rep.Violate("concurrent:search-during-rotation:"+w,
							"a search that ran while the log was rotated returned a wrong sequence: "+d,
							s.witness(map[string]any{"window": wi, "request": q, "rotation_fell_into_this_search": overl}))
					}
				}
			}(g)
		}
		wg.Add(1)
		delay := time.Duration(rng.Intn(6000)) * time.Microsecond
		go func() {
			defer wg.Done()
			time.Sleep(delay)
			// Count before and after: a search that sees either change has
			// overlapped the rename.
			rotations.Add(1)
			err := s.l.rotate(context.Background())
			rotations.Add(1)
			if err != nil {
				s.logf("rotate: %v", err)
			}
			rep.Event("rotation_window_rotations")
		}()
		wg.Wait()
		if s.failed.Load() {
			return
		}
		resetLines()
		// Quiescent: the generation written before the window is in the
		// rotated file now and must be listed exactly once.
		_, body, ok = s.call("GET /control/querylog", "limit="+strconv.Itoa(c07BigLimit)+"&offset=0", nil)
		if !ok {
			return
		}
		after, what, detail := c07rotCheck(body)
		if what != "" {
			rep.Violate("concurrent:listing-after-rotation:"+what, "the listing after the rotation is wrong: "+detail, s.witness(map[string]any{"window": wi}))
			s.failed.Store(true)

			return
		}
		count := map[string]int{}
		for _, d := range after.Data {
			count[d.Question.Name]++
		}
		var missing, twice []string
		for _, name := range gen {
			switch c := count[name]; {
			case c == 0:
				missing = append(missing, name)
			case c > 1:
				twice = append(twice, name)
			}
		}
		if len(missing)+len(twice) > 0 {
			rep.Violate("concurrent:entries-lost-or-duplicated-after-rotation",
				"records of the file that was rotated are not listed exactly once after the rotation",
				s.witness(map[string]any{"window": wi, "missing": missing, "twice": twice, "records_of_that_file": len(gen)}))
			s.failed.Store(true)

			return
		}
		rep.Eval(true, fmt.Sprintf("rotation-window/%d/%d", s.id, wi))
		// The next current file, with the searchers stopped.
		gen = record(fmt.Sprintf("w%d", wi), int(s.memSize)+10+rng.Intn(2*int(s.memSize)))
	}
}
