//go:build verif

package querylog

import (
	"bytes"
	"context"
	"encoding/json"
	"fmt"
	"io"
	"math/rand"
	"net/http"
	"net/http/httptest"
	"net/url"
	"os"
	"os/exec"
	"path/filepath"
	"runtime"
	"runtime/debug"
	"sort"
	"strconv"
	"strings"
	"sync"
	"syscall"
	"testing"
	"testing/synctest"
	"time"

	"github.com/AdguardTeam/AdGuardHome/internal/aghnet"
	"github.com/AdguardTeam/AdGuardHome/internal/verifkit"
	"github.com/AdguardTeam/golibs/log"
	"github.com/AdguardTeam/golibs/logutil/slogutil"
)

// c07BigLimit is the limit of the requests that ask for everything.
const c07BigLimit = 1000000

// c07Rec buffers what one history observed.  Histories are run by worker
// processes, one bubble at a time per process; the records travel to the parent
// as JSON lines and are merged into the report in history order, so that a run
// is reproducible.
type c07Rec struct {
	I          int
	Canon      string
	Nontrivial bool
	Classes    map[string]int
	Events     map[string]int
	Unspec     map[string]int
	Viols      []verifkit.Violation
	Sample     any
	Inconcl    []string
}

func c07NewRec() *c07Rec {
	return &c07Rec{Classes: map[string]int{}, Events: map[string]int{}, Unspec: map[string]int{}}
}

// c07Inst is one running query log instance with its HTTP handlers.
type c07Inst struct {
	l    *queryLog
	h    map[string]http.HandlerFunc
	anon *aghnet.IPMut
}

// c07Page is one answer of GET /control/querylog.
type c07Page struct {
	Query  string
	Code   int
	Data   []map[string]any
	Times  []int64
	Oldest string
}

// c07Hist is the state of one history: the instance under test and the
// shadow of what it must contain.
type c07Hist struct {
	id    int
	rng   *rand.Rand
	rec   *c07Rec
	dir   string
	world *c07World
	inst  *c07Inst

	memSize uint
	ivl     time.Duration

	enabled   bool
	anonymize bool
	ignored   []string

	// live holds the recorded entries that must be listed, oldest first.
	// The first nR of them are in the rotated file, the next nF in the
	// current file, the rest in memory.
	live   []*c07Entry
	nR, nF int
	byTime map[int64]*c07Entry
	// gone tells why an entry that was once recorded is not live any more.
	gone map[int64]string

	ops    []string
	serial int
	dead   bool

	lastSizeF, lastSizeR int64

	// Per-history observations for the non-triviality rule.
	hostileDone   bool
	lineLen       map[int64]int
	firstSeq      int
	nextSeq       int
	sawLocations  int
	crossingWalks int
}

// appendLive adds a recorded entry to the shadow.
func (h *c07Hist) appendLive(e *c07Entry) {
	e.seq = h.nextSeq
	h.nextSeq++
	h.live = append(h.live, e)
	h.byTime[e.Nano] = e
}

func (h *c07Hist) opf(format string, args ...any) {
	h.ops = append(h.ops, fmt.Sprintf(format, args...))
}

func (h *c07Hist) loc(e *c07Entry) string {
	i := e.seq - h.firstSeq
	if i < 0 || i >= len(h.live) || h.live[i] != e {
		return "gone"
	}

	return h.locIdx(i)
}

func (h *c07Hist) locIdx(i int) string {
	switch {
	case i < h.nR:
		return "rotated"
	case i < h.nR+h.nF:
		return "file"
	default:
		return "memory"
	}
}

func (h *c07Hist) locOfTime(ns int64) string {
	e, ok := h.byTime[ns]
	if !ok {
		return "unknown"
	}

	return h.loc(e)
}

// tag renders an entry reference for witnesses: serial number and location.
func (h *c07Hist) tag(ns int64) string {
	e, ok := h.byTime[ns]
	if !ok {
		if why, was := h.gone[ns]; was {
			return fmt.Sprintf("?%d(%s)", ns, why)
		}

		return fmt.Sprintf("?%d", ns)
	}

	return fmt.Sprintf("#%d%s", e.Idx, h.loc(e)[:1])
}

func (h *c07Hist) tags(ts []int64) (out []string) {
	for i, t := range ts {
		if len(ts) > 120 && i == 60 {
			out = append(out, fmt.Sprintf("... %d more ...", len(ts)-119))
		}
		if len(ts) > 120 && i >= 60 && i < len(ts)-59 {
			continue
		}
		out = append(out, h.tag(t))
	}

	return out
}

func (h *c07Hist) witness(extra map[string]any) map[string]any {
	ops := h.ops
	if len(ops) > 700 {
		ops = append([]string{fmt.Sprintf("... %d earlier operations omitted ...", len(ops)-700)}, ops[len(ops)-700:]...)
	}
	w := map[string]any{
		"seed":          verifkit.Seed(),
		"history":       h.id,
		"mem_size":      h.memSize,
		"rotation_ivl":  h.ivl.String(),
		"anonymize":     h.anonymize,
		"ignored":       h.ignored,
		"state":         fmt.Sprintf("rotated=%d file=%d memory=%d", h.nR, h.nF, len(h.live)-h.nR-h.nF),
		"operations":    ops,
		"notation":      "#<serial><r|f|m> = recorded entry and where it is now (rotated file, current file, memory)",
		"find_client":   h.world.clients,
		"now_in_bubble": time.Now().Format(time.RFC3339Nano),
	}
	for k, v := range extra {
		w[k] = v
	}

	return w
}

func (h *c07Hist) violate(key, what string, extra map[string]any) {
	h.rec.Viols = append(h.rec.Viols, verifkit.Violation{Key: key, What: what, Witness: h.witness(extra)})
}

// guard runs a call into the product and turns a panic into a violation.
func (h *c07Hist) guard(class string, f func()) (ok bool) {
	defer func() {
		if v := recover(); v != nil {
			ok = false
			h.violate("crash:"+class, fmt.Sprintf("%s panicked: %v", class, v),
				map[string]any{"panic": fmt.Sprint(v), "stack": c07Stack(debug.Stack())})
			h.dead = true
		}
	}()
	f()

	return true
}

func c07Stack(b []byte) (lines []string) {
	for _, l := range strings.Split(string(b), "\n") {
		if strings.Contains(l, "AdGuardHome/internal") && !strings.Contains(l, "zz_verif") {
			lines = append(lines, strings.TrimSpace(l))
		}
	}
	if len(lines) > 12 {
		lines = lines[:12]
	}

	return lines
}

// newInst creates an instance on the history's directory.
func (h *c07Hist) newInst() {
	ign, err := aghnet.NewIgnoreEngine(h.ignored)
	if err != nil {
		h.rec.Inconcl = append(h.rec.Inconcl, "ignore engine: "+err.Error())
		h.dead = true

		return
	}
	in := &c07Inst{h: map[string]http.HandlerFunc{}, anon: aghnet.NewIPMut(nil)}
	if h.anonymize {
		in.anon.Store(AnonymizeIP)
	}
	ql, err := New(Config{
		Logger:         slogutil.NewDiscardLogger(),
		Ignored:        ign,
		Anonymizer:     in.anon,
		ConfigModified: func() {},
		HTTPRegister: func(method, url string, handler http.HandlerFunc) {
			in.h[method+" "+url] = handler
		},
		FindClient:        h.world.findClient,
		BaseDir:           h.dir,
		RotationIvl:       h.ivl,
		MemSize:           h.memSize,
		Enabled:           h.enabled,
		FileEnabled:       true,
		AnonymizeClientIP: h.anonymize,
	})
	if err != nil {
		h.rec.Inconcl = append(h.rec.Inconcl, "querylog.New: "+err.Error())
		h.dead = true

		return
	}
	in.l = ql.(*queryLog)
	// Start would also launch the never-ending rotation loop, which a bubble
	// cannot hold; the handlers are registered the way Start does it.
	in.l.initWeb()
	h.inst = in
}

// call runs a registered handler.
func (h *c07Hist) call(class, route, rawQuery string, body []byte) (code int, out []byte, ok bool) {
	hf := h.inst.h[route]
	if hf == nil {
		h.rec.Inconcl = append(h.rec.Inconcl, "handler not registered: "+route)
		h.dead = true

		return 0, nil, false
	}
	sp := strings.SplitN(route, " ", 2)
	var rd io.Reader = http.NoBody
	if body != nil {
		rd = bytes.NewReader(body)
	}
	req, err := http.NewRequestWithContext(context.Background(), sp[0], "http://agh.test"+sp[1], rd)
	if err != nil {
		h.rec.Inconcl = append(h.rec.Inconcl, "building request: "+err.Error())
		h.dead = true

		return 0, nil, false
	}
	req.URL.RawQuery = rawQuery
	req.RequestURI = sp[1] + "?" + rawQuery
	req.Header.Set("Content-Type", "application/json")
	w := httptest.NewRecorder()
	panicked := true
	func() {
		defer func() {
			if v := recover(); v != nil {
				h.violate("crash:"+class, fmt.Sprintf("%s %s?%s panicked: %v", sp[0], sp[1], rawQuery, v),
					map[string]any{"request": route + "?" + rawQuery, "panic": fmt.Sprint(v), "stack": c07Stack(debug.Stack())})
			}
		}()
		hf(w, req)
		panicked = false
	}()
	if panicked {
		return 0, nil, false
	}
	if w.Code >= 500 {
		h.violate("http-5xx:"+class, fmt.Sprintf("%s?%s answered %d", route, rawQuery, w.Code),
			map[string]any{"request": route + "?" + rawQuery, "body": c07Trunc(w.Body.String(), 400)})

		return w.Code, w.Body.Bytes(), false
	}

	return w.Code, w.Body.Bytes(), true
}

func c07Trunc(s string, n int) string {
	if len(s) > n {
		return s[:n] + "..."
	}

	return s
}

// get performs GET /control/querylog.  A nil page means the request crashed,
// was rejected or returned something that is not the documented shape.
func (h *c07Hist) get(class string, q url.Values) (p *c07Page) {
	return h.getRaw(class, q.Encode(), true)
}

func (h *c07Hist) getRaw(class, raw string, mustSucceed bool) (p *c07Page) {
	h.rec.Events["requests"]++
	code, body, ok := h.call(class, "GET /control/querylog", raw, nil)
	if !ok {
		return nil
	}
	p = &c07Page{Query: raw, Code: code}
	if code != http.StatusOK {
		if mustSucceed {
			h.violate("rejected:"+class, fmt.Sprintf("valid request %q answered %d", raw, code),
				map[string]any{"request": raw, "body": c07Trunc(string(body), 300)})

			return nil
		}

		return p
	}
	var resp struct {
		Data   []map[string]any `json:"data"`
		Oldest *string          `json:"oldest"`
	}
	d := json.NewDecoder(bytes.NewReader(body))
	d.UseNumber()
	if err := d.Decode(&resp); err != nil || resp.Oldest == nil || resp.Data == nil {
		h.violate("bad-response:"+class, fmt.Sprintf("answer to %q is not {data:[...], oldest:\"...\"}", raw),
			map[string]any{"request": raw, "body": c07Trunc(string(body), 400), "error": fmt.Sprint(err)})

		return nil
	}
	p.Data, p.Oldest = resp.Data, *resp.Oldest
	for i, o := range resp.Data {
		s, _ := o["time"].(string)
		t, err := time.Parse(time.RFC3339Nano, s)
		if err != nil {
			h.violate("bad-response:entry-time:"+class, fmt.Sprintf("entry %d of %q has no valid time", i, raw),
				map[string]any{"request": raw, "entry": o})

			return nil
		}
		p.Times = append(p.Times, t.UnixNano())
	}

	return p
}

// readFile returns the timestamps of the lines of a log file, oldest first.
func (h *c07Hist) readFile(name string) (ts []int64, size int64, ok bool) {
	b, err := os.ReadFile(filepath.Join(h.dir, name))
	if err != nil {
		if os.IsNotExist(err) {
			return nil, -1, true
		}
		h.rec.Inconcl = append(h.rec.Inconcl, "reading "+name+": "+err.Error())
		h.dead = true

		return nil, 0, false
	}
	size = int64(len(b))
	if len(b) > 0 && b[len(b)-1] != '\n' {
		h.violate("file:torn-last-line", name+" does not end with a newline at quiescence", map[string]any{"file": name})
		h.dead = true

		return nil, size, false
	}
	for i, line := range bytes.Split(bytes.TrimSuffix(b, []byte("\n")), []byte("\n")) {
		if len(b) == 0 {
			break
		}
		var rec struct {
			T string
		}
		err = json.Unmarshal(line, &rec)
		t, terr := time.Parse(time.RFC3339Nano, rec.T)
		if err != nil || terr != nil {
			h.violate("file:unparsable-line", fmt.Sprintf("line %d of %s is not a JSON record with a time", i, name),
				map[string]any{"file": name, "line": c07Trunc(string(line), 400)})
			h.dead = true

			return nil, size, false
		}
		ts = append(ts, t.UnixNano())
		if len(line) > 1400 {
			h.lineLen[t.UnixNano()] = len(line)
		}
		if len(line) >= 16*1024 {
			h.rec.Inconcl = append(h.rec.Inconcl, fmt.Sprintf("the generator produced a file record of %d bytes, beyond the 16 KiB the reader is built for", len(line)))
			h.dead = true

			return nil, size, false
		}
	}

	return ts, size, true
}

func c07Times(es []*c07Entry) (ts []int64) {
	for _, e := range es {
		ts = append(ts, e.Nano)
	}

	return ts
}

func c07EqualTimes(a, b []int64) bool {
	if len(a) != len(b) {
		return false
	}
	for i := range a {
		if a[i] != b[i] {
			return false
		}
	}

	return true
}

// Reconcile modes.
const (
	c07NoFlush = iota
	c07MayFlush
	c07MustFlush
	c07MayRotate
	c07Cleared
)

// reconcile reads the two files and checks that they hold what the operation
// allows: the rotated file holds live[:nR], the current file live[nR:nR+nF],
// where the operation may have moved the whole memory to the file (flush), or
// the current file to the rotated one (rotation; the former rotated entries
// are then aged out), or removed everything (clear).  It updates nR and nF.
func (h *c07Hist) reconcile(op string, mode int, force bool) {
	if h.dead {
		return
	}
	if !force && mode == c07MayFlush {
		// Cheap test first: nothing can have changed if the sizes did not.
		sf, sr := c07Size(filepath.Join(h.dir, queryLogFileName)), c07Size(filepath.Join(h.dir, queryLogFileName+".1"))
		if sf == h.lastSizeF && sr == h.lastSizeR {
			return
		}
	}
	obsR, sr, ok1 := h.readFile(queryLogFileName + ".1")
	obsF, sf, ok2 := h.readFile(queryLogFileName)
	if !ok1 || !ok2 {
		return
	}
	h.lastSizeF, h.lastSizeR = sf, sr
	if mode == c07Cleared {
		if len(obsR) != 0 || len(obsF) != 0 {
			which := "current"
			if len(obsR) != 0 {
				which = "rotated"
			}
			h.violate("file:clear-left-entries:"+which, "entries remain in the "+which+" file after the clear",
				map[string]any{"rotated_file_holds": h.tags(obsR), "current_file_holds": h.tags(obsF)})
			h.dead = true
		}
		h.nR, h.nF = 0, 0

		return
	}
	all := c07Times(h.live)
	wantR, wantF, rest := all[:h.nR], all[h.nR:h.nR+h.nF], all[h.nR:]
	fail := func(key, what string) {
		h.violate(key, what, map[string]any{
			"operation":            op,
			"rotated_file_holds":   h.tags(obsR),
			"current_file_holds":   h.tags(obsF),
			"rotated_file_before":  h.tags(wantR),
			"current_file_before":  h.tags(wantF),
			"memory_before_the_op": h.tags(all[h.nR+h.nF:]),
		})
		h.dead = true
	}
	switch mode {
	case c07MayRotate:
		if c07EqualTimes(obsR, wantR) && c07EqualTimes(obsF, wantF) {
			return
		}
		if h.nF > 0 && len(obsF) == 0 && c07EqualTimes(obsR, wantF) {
			// The current file became the rotated one; the records of the
			// former rotated file are gone.  That is "ageing out" only if
			// that file was old enough: its oldest record at least one
			// rotation interval before this check (virtual time).
			now := time.Now()
			if due := h.live[h.nR].T.Add(h.ivl); due.After(now) {
				h.rec.Events["rotations_before_the_current_file_was_one_interval_old"]++
			}
			if h.nR > 0 {
				if oldest := h.live[0]; oldest.T.Add(h.ivl).After(now) {
					youngest := h.live[h.nR-1]
					h.violate("rotation:records-removed-before-interval",
						"a rotation check removed records although the oldest record of their file is younger than the rotation interval",
						map[string]any{
							"operation": op, "check_at": now.Format(time.RFC3339Nano), "rotation_ivl": h.ivl.String(),
							"records_removed": h.nR, "oldest_removed_record": oldest.String(),
							"age_of_the_oldest_removed_record":             now.Sub(oldest.T).String(),
							"age_of_the_youngest_removed_record":           now.Sub(youngest.T).String(),
							"oldest_record_of_the_current_file":            h.live[h.nR].String(),
							"age_of_the_oldest_record_of_the_current_file": now.Sub(h.live[h.nR].T).String(),
						})
					h.dead = true

					return
				}
				h.rec.Events["rotations_that_aged_out_a_file_older_than_the_interval"]++
			}
			for _, e := range h.live[:h.nR] {
				h.gone[e.Nano] = "aged-out"
				delete(h.byTime, e.Nano)
			}
			h.rec.Events["entries_aged_out"] += h.nR
			h.rec.Events["rotations_performed"]++
			h.live = append([]*c07Entry(nil), h.live[h.nR:]...)
			h.firstSeq += h.nR
			h.nR, h.nF = h.nF, 0
			h.opf("  -> rotated: current file became the rotated file")

			return
		}
		if len(obsF) == 0 && h.nF > 0 {
			fail("file:rotate-lost-current-file", "after the rotation check the current file is gone but the rotated file does not hold its entries")
		} else {
			fail("file:rotate-unexpected-content", "after the rotation check the files hold neither the old nor the rotated state")
		}

		return
	}
	if !c07EqualTimes(obsR, wantR) {
		fail("file:rotated-file-changed:"+op, "the rotated file changed during "+op)

		return
	}
	switch {
	case c07EqualTimes(obsF, wantF) && mode != c07MustFlush:
		return
	case c07EqualTimes(obsF, wantF) && len(rest) == len(wantF):
		// Nothing was in memory.
		return
	case c07EqualTimes(obsF, rest):
		if mode == c07NoFlush {
			fail("file:unexpected-flush:"+op, "memory was written to the file during "+op)

			return
		}
		h.rec.Events["flushes_observed"]++
		h.rec.Events["entries_moved_memory_to_file"] += len(rest) - h.nF
		for _, t := range rest[h.nF:] {
			switch l := h.lineLen[t]; {
			case l > 8192:
				h.rec.Events["file_records_of_8_to_16_KiB"]++
			case l > 4096:
				h.rec.Events["file_records_of_4_to_8_KiB"]++
			case l > 1400:
				h.rec.Events["file_records_of_1.4_to_4_KiB"]++
			}
		}
		h.nF = len(rest)

		return
	}
	// Classify.
	seen := map[int64]int{}
	for _, t := range obsF {
		seen[t]++
	}
	dup, missing := false, false
	for _, t := range rest {
		if seen[t] > 1 {
			dup = true
		}
		if seen[t] == 0 {
			missing = true
		}
	}
	switch {
	case dup:
		fail("file:flush-duplicated-entries:"+op, "the current file holds an entry more than once after "+op)
	case missing && len(obsF) > len(wantF):
		fail("file:flush-lost-entries:"+op, "a flush happened during "+op+" but some buffered entries are not in the file")
	case missing && mode == c07MustFlush:
		fail("file:flush-missing:"+op, "after "+op+" buffered entries are not in the file")
	default:
		fail("file:unexpected-content:"+op, "the current file does not hold the expected lines after "+op)
	}
}

func c07Size(p string) int64 {
	st, err := os.Stat(p)
	if err != nil {
		return -1
	}

	return st.Size()
}

// sleep advances the virtual clock by a random positive amount, so that
// timestamps are strictly increasing.
func (h *c07Hist) sleep() {
	var d time.Duration
	switch k := h.rng.Intn(100); {
	case k < 45:
		d = time.Duration(1 + h.rng.Intn(1000))
	case k < 60:
		d = time.Duration(1+h.rng.Intn(1000)) * time.Microsecond
	case k < 85:
		d = time.Duration(1+h.rng.Intn(2000)) * time.Millisecond
	case k < 96:
		d = time.Duration(1+h.rng.Intn(600)) * time.Second
	default:
		d = time.Duration(30+h.rng.Intn(90)) * time.Minute
	}
	time.Sleep(d)
}

func (h *c07Hist) opAdd(k int) {
	for j := 0; j < k && !h.dead; j++ {
		h.sleep()
		p, e := c07Gen(h.rng, h.world, h.serial)
		h.serial++
		q := p.Question.Question[0]
		should := true
		if !h.guard("ShouldLog", func() {
			should = h.inst.l.ShouldLog(e.Host, q.Qtype, q.Qclass, c07IDs(e.CID, e.IPStr))
		}) {
			return
		}
		if !should {
			// The caller of the query log does not record such a query.
			h.rec.Events["queries_not_recorded_by_ShouldLog"]++
			h.opf("skip %s (ShouldLog=false)", e.Host)

			continue
		}
		e.T = time.Now()
		e.Nano = e.T.UnixNano()
		if !h.guard("Add", func() { h.inst.l.Add(p) }) {
			return
		}
		// Let the asynchronous flush, if any, finish: no record is
		// submitted while a flush is pending.
		synctest.Wait()
		if !h.enabled {
			h.gone[e.Nano] = "logging-disabled"
			h.rec.Events["queries_submitted_while_disabled"]++
			h.opf("add(disabled) %s", e)
		} else {
			h.appendLive(e)
			h.byTime[e.Nano] = e
			h.rec.Events["entries_recorded"]++
			h.rec.Classes["reason:"+c07ReasonNames[e.Reason]]++
			h.rec.Classes["proto:"+e.Proto]++
			h.opf("add %s", e)
		}
		h.reconcile("add", c07MayFlush, false)
	}
}

func (h *c07Hist) opFlush() {
	h.opf("flush")
	h.rec.Events["explicit_flushes"]++
	if !h.guard("flush", func() { _ = h.inst.l.flushLogBuffer(context.Background()) }) {
		return
	}
	synctest.Wait()
	h.reconcile("flush", c07MustFlush, true)
}

func (h *c07Hist) opRotate() {
	var d time.Duration
	if h.rng.Intn(5) < 2 {
		d = time.Duration(1+h.rng.Intn(1800)) * time.Second
	} else {
		d = time.Duration(float64(h.ivl) * (0.4 + 1.2*h.rng.Float64()))
	}
	time.Sleep(d)
	now := time.Now()
	model := h.nF > 0 && !h.live[h.nR].T.Add(h.ivl).After(now)
	h.opf("advance %s, rotation check at %s", d, now.Format(time.RFC3339Nano))
	h.rec.Events["rotation_checks"]++
	wasR := h.nR
	before := h.rec.Events["rotations_performed"]
	if !h.guard("checkAndRotate", func() { h.inst.l.checkAndRotate(context.Background()) }) {
		return
	}
	synctest.Wait()
	h.reconcile("rotate", c07MayRotate, true)
	did := h.rec.Events["rotations_performed"] > before
	if did != model {
		h.rec.Unspec["rotation decision differs from 'oldest line of the current file is at least one interval old'"]++
	}
	if did && wasR > 0 {
		h.rec.Events["rotations_that_aged_out_entries"]++
	}
}

func (h *c07Hist) opClear() {
	h.opf("clear")
	h.rec.Events["clears"]++
	if _, _, ok := h.call("clear", "POST /control/querylog_clear", "", nil); !ok {
		h.dead = true

		return
	}
	synctest.Wait()
	for _, e := range h.live {
		h.gone[e.Nano] = "cleared"
	}
	h.live = nil
	h.firstSeq = h.nextSeq
	h.byTime = map[int64]*c07Entry{}
	h.reconcile("clear", c07Cleared, true)
}

// setConfig changes the configuration through the HTTP API and reads it back.
func (h *c07Hist) setConfig(enabled, anonymize bool, ignored []string, legacy bool) {
	if ignored == nil {
		ignored = []string{}
	}
	var code int
	var ok bool
	if legacy {
		body, _ := json.Marshal(map[string]any{"enabled": enabled, "anonymize_client_ip": anonymize})
		code, _, ok = h.call("config", "POST /control/querylog_config", "", body)
		ignored = h.ignored
	} else {
		body, _ := json.Marshal(map[string]any{
			"enabled": enabled, "anonymize_client_ip": anonymize,
			"interval": float64(h.ivl.Milliseconds()), "ignored": ignored,
		})
		code, _, ok = h.call("config", "PUT /control/querylog/config/update", "", body)
	}
	if !ok {
		h.dead = true

		return
	}
	h.opf("config enabled=%v anonymize=%v ignored=%q legacy_api=%v -> %d", enabled, anonymize, ignored, legacy, code)
	h.rec.Events["config_changes"]++
	if code != http.StatusOK {
		h.rec.Events["config_changes_rejected"]++
	}
	// What is in force is what the API reports.
	_, body, ok := h.call("config", "GET /control/querylog/config", "", nil)
	var cur struct {
		Ignored   []string `json:"ignored"`
		Enabled   *bool    `json:"enabled"`
		Anonymize *bool    `json:"anonymize_client_ip"`
	}
	if !ok || json.Unmarshal(body, &cur) != nil || cur.Enabled == nil || cur.Anonymize == nil {
		h.rec.Inconcl = append(h.rec.Inconcl, "cannot read the configuration back")
		h.dead = true

		return
	}
	h.enabled, h.anonymize, h.ignored = *cur.Enabled, *cur.Anonymize, cur.Ignored
	h.reconcile("config", c07NoFlush, true)
}

func (h *c07Hist) opConfig() {
	enabled := h.rng.Intn(100) < 80 || !h.enabled
	anonymize := h.rng.Intn(100) < 25
	var ignored []string
	for n := h.rng.Intn(3); n > 0; n-- {
		host := h.world.hosts[h.rng.Intn(len(h.world.hosts))]
		if host == "." {
			continue
		}
		if h.rng.Intn(4) == 0 {
			host = "||" + host + "^"
		}
		ignored = append(ignored, host)
	}
	h.setConfig(enabled, anonymize, ignored, h.rng.Intn(4) == 0)
}

func (h *c07Hist) opRestart() { h.restart(true) }

// rotationCheck runs the body of the product's rotation loop once, as Start
// does right away and the hourly ticker does afterwards.
func (h *c07Hist) rotationCheck(why string) {
	if h.dead {
		return
	}
	h.opf("rotation check (%s) at %s", why, time.Now().Format(time.RFC3339Nano))
	h.rec.Events["rotation_checks"]++
	h.rec.Events["rotation_checks_"+strings.SplitN(why, " ", 2)[0]]++
	if !h.guard("checkAndRotate", func() { h.inst.l.checkAndRotate(context.Background()) }) {
		return
	}
	synctest.Wait()
	h.reconcile("rotate", c07MayRotate, true)
}

// opHours lets some hours pass: the rotation loop of the product checks once
// an hour.  Records arrive in between.
func (h *c07Hist) opHours() {
	for n := 1 + h.rng.Intn(8); n > 0 && !h.dead; n-- {
		time.Sleep(time.Hour)
		h.rotationCheck("hourly tick")
		if h.rng.Intn(2) == 0 && h.enabled {
			h.opAdd(1 + h.rng.Intn(3))
		}
		if h.rng.Intn(3) == 0 {
			h.opFlush()
		}
	}
}

// restart stops the instance cleanly and creates a new one on the same
// directory.  startCheck runs the rotation check Start begins with.
func (h *c07Hist) restart(startCheck bool) {
	var conf Config
	if !h.guard("WriteDiskConfig", func() { h.inst.l.WriteDiskConfig(&conf) }) {
		return
	}
	if !h.guard("Shutdown", func() { _ = h.inst.l.Shutdown(context.Background()) }) {
		return
	}
	synctest.Wait()
	h.enabled, h.anonymize, h.ignored = conf.Enabled, conf.AnonymizeClientIP, conf.Ignored.Values()
	if h.rng.Intn(3) == 0 {
		h.memSize = c07MemSizes[h.rng.Intn(len(c07MemSizes))]
	}
	h.opf("restart (clean shutdown, new instance on the same directory, mem_size=%d)", h.memSize)
	h.rec.Events["restarts"]++
	h.reconcile("shutdown", c07MustFlush, true)
	if h.dead {
		return
	}
	h.newInst()
	if startCheck {
		h.rotationCheck("start of the new instance")
	}
}

var c07MemSizes = []uint{1, 2, 5, 5, 50, 50}

// location counts of the live entries.
func (h *c07Hist) counts() (r, f, m int) { return h.nR, h.nF, len(h.live) - h.nR - h.nF }

// optional tells whether the entry may be hidden by the configuration in
// force: the ignore list hides matching names from the file results.
func (h *c07Hist) optional(e *c07Entry) bool {
	if len(h.ignored) == 0 {
		return false
	}

	return !h.inst.l.ShouldLog(e.Host, 1, 1, c07IDs(e.CID, e.IPStr))
}

// checkSeq checks a result against the shadow: newest first, no duplicates,
// every entry that must be there, none that may not.
func (h *c07Hist) checkSeq(kind string, p *c07Page, must, may func(e *c07Entry) bool, extra map[string]any) (ok bool) {
	ok = true
	wit := func(more map[string]any) map[string]any {
		w := map[string]any{"request": p.Query, "returned": h.tags(p.Times)}
		var exp []int64
		for i := len(h.live) - 1; i >= 0; i-- {
			if must(h.live[i]) {
				exp = append(exp, h.live[i].Nano)
			}
		}
		w["expected_at_least"] = h.tags(exp)
		for k, v := range extra {
			w[k] = v
		}
		for k, v := range more {
			w[k] = v
		}

		return w
	}
	seen := map[int64]bool{}
	for i, t := range p.Times {
		e, known := h.byTime[t]
		switch {
		case !known:
			why := h.gone[t]
			if why == "" {
				why = "never-recorded"
			}
			h.violate(kind+":returned-entry-that-is-"+why, "the result holds an entry that must not be listed",
				wit(map[string]any{"entry_time": time.Unix(0, t).UTC().Format(time.RFC3339Nano)}))

			return false
		case seen[t]:
			h.violate(kind+":duplicate:"+h.loc(e), "the result holds an entry twice", wit(map[string]any{"entry": e.String()}))

			return false
		case i > 0 && p.Times[i-1] <= t:
			h.violate(kind+":order", "the result is not ordered newest first", wit(map[string]any{"position": i}))

			return false
		case !may(e):
			h.violate(kind+":non-matching-returned:"+h.loc(e), "the result holds an entry that does not satisfy the request",
				wit(map[string]any{"entry": e.String()}))
			ok = false
		}
		seen[t] = true
	}
	if !ok {
		return false
	}
	for i := len(h.live) - 1; i >= 0; i-- {
		e := h.live[i]
		if must(e) && !seen[e.Nano] {
			h.violate(kind+":missing:"+h.locIdx(i), "an entry that satisfies the request is not in the result",
				wit(map[string]any{"entry": e.String()}))

			return false
		}
	}

	return true
}

// checkEntries compares every returned object with the recorded query and
// with what the API returned for it earlier.
func (h *c07Hist) checkEntries(p *c07Page) {
	a := 0
	if h.anonymize {
		a = 1
	}
	for i, t := range p.Times {
		e := h.byTime[t]
		if e == nil {
			continue
		}
		loc := h.loc(e)
		h.rec.Events["entry_objects_compared_"+loc]++
		if field, want, have := e.compare(p.Data[i], h.anonymize); field != "" {
			h.violate("entry-json:"+field+":differs-from-recorded:"+loc, "field "+field+" of a listed entry differs from what was recorded",
				h.witnessEntry(p, e, map[string]any{"field": field, "recorded": want, "returned": have}))

			return
		}
		c := c07Canon(p.Data[i])
		if e.seen[a] == "" {
			e.seen[a], e.seenLoc[a] = c, loc
		} else if e.seen[a] != c {
			h.violate("entry-json:changed:"+e.seenLoc[a]+"-to-"+loc, "the API shows an entry differently from before",
				h.witnessEntry(p, e, map[string]any{"before_in_" + e.seenLoc[a]: e.seen[a], "now_in_" + loc: c}))

			return
		} else if e.seenLoc[a] != loc {
			h.rec.Events["entry_json_identical_after_move_"+e.seenLoc[a]+"_to_"+loc]++
			e.seenLoc[a] = loc
		}
	}
}

func (h *c07Hist) witnessEntry(p *c07Page, e *c07Entry, more map[string]any) map[string]any {
	more["request"] = p.Query
	more["entry"] = e.String()

	return more
}

// walkCursor pages through base with the older_than cursor.
func (h *c07Hist) walkCursor(class string, base url.Values, limit int, full []int64) {
	h.rec.Events["cursor_walks"]++
	var got []int64
	type pageInfo struct {
		cursor int64
		start  int
	}
	var pages []pageInfo
	cursor := ""
	lastOldest := ""
	emptyWithCursor := 0
	crossMF, crossFR := false, false
	pageMax := limit
	if limit == 0 {
		// No limit parameter: the documented default.
		pageMax = 500
	}
	// A page either returns an entry or has scanned the 50000 file records a
	// request without offset looks at.
	maxPages := len(full) + 3 + (h.nR+h.nF)/40000
	for n := 0; ; n++ {
		if n > maxPages {
			h.violate(class+":no-termination", "the cursor walk does not end", map[string]any{
				"limit": limit, "pages_requested": n, "full_listing": h.tags(full), "walk": h.tags(got)})

			return
		}
		q := url.Values{}
		for k, v := range base {
			q[k] = v
		}
		if limit != 0 {
			q.Set("limit", strconv.Itoa(limit))
		}
		var cns int64
		if cursor != "" {
			q.Set("older_than", cursor)
			ct, err := time.Parse(time.RFC3339Nano, cursor)
			if err != nil {
				h.violate(class+":bad-cursor", "the returned oldest value is not a timestamp", map[string]any{"oldest": cursor})

				return
			}
			cns = ct.UnixNano()
			if h.lineLen[cns] > 0 {
				h.rec.Events["cursor_walk_cursors_on_file_records_over_1400_bytes"]++
			}
		}
		p := h.get(class, q)
		if p == nil {
			return
		}
		if len(p.Times) > pageMax {
			h.violate(class+":page-over-limit", "a page holds more entries than the limit", map[string]any{
				"request": p.Query, "returned": h.tags(p.Times)})

			return
		}
		lastOldest = p.Oldest
		if cursor != "" && len(full) > len(got) {
			// The page that follows this cursor has to start in another
			// location than the one the cursor's entry is in.
			from, to := h.locOfTime(cns), h.locOfTime(full[len(got)])
			if from == "memory" && to != "memory" {
				crossMF = true
			}
			if from == "file" && to == "rotated" {
				crossFR = true
			}
		}
		pages = append(pages, pageInfo{cursor: cns, start: len(got)})
		got = append(got, p.Times...)
		if p.Oldest == "" {
			// The end of the log.
			break
		}
		if len(p.Times) == 0 {
			// Nothing found among the records this request scanned; the
			// cursor says where to go on.
			emptyWithCursor++
		}
		if p.Oldest == cursor {
			h.violate(class+":cursor-does-not-advance", "a page returns the cursor it was requested with", map[string]any{
				"request": p.Query, "oldest": p.Oldest, "returned": h.tags(p.Times)})

			return
		}
		cursor = p.Oldest
	}
	if emptyWithCursor > 0 {
		h.rec.Events["cursor_walk_pages_empty_but_with_cursor"] += emptyWithCursor
	}
	if crossMF {
		h.rec.Events["cursor_walks_crossing_memory_to_file"]++
		h.crossingWalks++
	}
	if crossFR {
		h.rec.Events["cursor_walks_crossing_file_to_rotated"]++
		h.crossingWalks++
	}
	if c07EqualTimes(got, full) {
		return
	}
	// Find the first difference and the page it is on.
	i := 0
	for i < len(got) && i < len(full) && got[i] == full[i] {
		i++
	}
	var pg pageInfo
	for _, x := range pages {
		if x.start <= i {
			pg = x
		}
	}
	cursorLoc := "none"
	if pg.cursor != 0 {
		cursorLoc = h.locOfTime(pg.cursor)
	}
	kind := "gap"
	subject := int64(0)
	if i < len(full) {
		subject = full[i]
	}
	inGot := map[int64]int{}
	for _, t := range got {
		inGot[t]++
	}
	if i < len(got) && (inGot[got[i]] > 1 || i >= len(full)) {
		kind, subject = "duplicate", got[i]
	} else if i < len(full) && inGot[full[i]] > 0 {
		kind = "order"
	} else if i == len(got) {
		// The walk is a proper prefix of the listing.
		kind = "ended-early"
	}
	h.violate(fmt.Sprintf("%s:%s:cursor-in-%s:entry-in-%s", class, kind, cursorLoc, h.locOfTime(subject)),
		"paging with the returned older_than cursor does not partition the listing", map[string]any{
			"limit": limit, "base_query": base.Encode(), "full_listing": h.tags(full), "walk": h.tags(got),
			"first_difference_at": i, "cursor_of_that_page": h.tag(pg.cursor), "entry": h.tag(subject),
			"entry_time":      time.Unix(0, subject).UTC().Format(time.RFC3339Nano),
			"pages_requested": len(pages), "oldest_value_of_the_last_page": lastOldest,
			"pages_without_entries_but_with_a_cursor": emptyWithCursor,
		})
}

// walkOffset pages through base with offset and limit.
func (h *c07Hist) walkOffset(class string, base url.Values, limit int, full []int64) {
	h.rec.Events["offset_walks"]++
	var got []int64
	for off := 0; ; off += limit {
		q := url.Values{}
		for k, v := range base {
			q[k] = v
		}
		q.Set("limit", strconv.Itoa(limit))
		q.Set("offset", strconv.Itoa(off))
		p := h.get(class, q)
		if p == nil {
			return
		}
		if len(p.Times) > limit {
			h.violate(class+":page-over-limit", "a page holds more entries than the limit", map[string]any{
				"request": p.Query, "returned": h.tags(p.Times)})

			return
		}
		if len(p.Times) == 0 {
			break
		}
		got = append(got, p.Times...)
		if off > len(full)+limit {
			break
		}
	}
	if c07EqualTimes(got, full) {
		return
	}
	i := 0
	for i < len(got) && i < len(full) && got[i] == full[i] {
		i++
	}
	subject := int64(0)
	kind := "gap"
	if i < len(full) {
		subject = full[i]
	} else if i < len(got) {
		subject, kind = got[i], "duplicate"
	}
	h.violate(fmt.Sprintf("%s:%s:entry-in-%s", class, kind, h.locOfTime(subject)),
		"paging with offset and limit does not partition the listing", map[string]any{
			"limit": limit, "base_query": base.Encode(), "full_listing": h.tags(full), "walk": h.tags(got),
			"first_difference_at": i, "entry": h.tag(subject),
		})
}

// c07Hostile are parameter values that must not crash the request.
var c07Hostile = [][2]string{
	{"limit-negative", "limit=-1"},
	{"limit-negative", "limit=-7&offset=3"},
	{"limit-min-int", "limit=-9223372036854775808"},
	{"limit-max-int", "limit=9223372036854775807"},
	{"limit-overflowing-int64", "limit=99999999999999999999999"},
	{"limit-zero", "limit=0"},
	{"limit-not-a-number", "limit=abc&offset=1e3"},
	{"limit-empty", "limit=&offset=&older_than=&search=&response_status="},
	{"offset-negative", "offset=-1"},
	{"offset-negative", "offset=-5&limit=10"},
	{"offset-min-int", "offset=-9223372036854775808&limit=5"},
	{"offset-max-int", "offset=9223372036854775807"},
	{"offset-plus-limit-overflow", "offset=9223372036854775807&limit=9223372036854775807"},
	{"offset-plus-limit-overflow", "offset=9223372036854775000&limit=1000"},
	{"offset-huge", "offset=4294967296&limit=3"},
	{"older-than-malformed", "older_than=yesterday"},
	{"older-than-malformed", "older_than=2000-13-45T99:99:99Z"},
	{"older-than-malformed", "older_than=2000-01-01"},
	{"older-than-far-future", "older_than=9999-12-31T23:59:59.999999999Z"},
	{"older-than-far-future", "older_than=2261-01-01T00:00:00Z&limit=5"},
	{"older-than-beyond-unix-nano", "older_than=2400-01-01T00:00:00Z&limit=5"},
	{"older-than-far-past", "older_than=0001-01-01T00:00:00Z"},
	{"older-than-far-past", "older_than=1600-01-01T00:00:00.000000001Z&limit=2"},
	{"older-than-before-epoch", "older_than=1969-12-31T23:59:59.999999999Z"},
	{"older-than-epoch", "older_than=1970-01-01T00:00:00Z"},
	{"older-than-odd-zone", "older_than=2000-01-01T00:00:00.5%2B23:59"},
	{"older-than-absent-timestamp", "older_than=2000-01-01T00:00:00.000000001Z&offset=1&limit=2"},
	{"search-single-quote", "search=%22"},
	{"search-empty-quoted", "search=%22%22"},
	{"search-unbalanced-quote", "search=%22example"},
	{"search-nul", "search=%00"},
	{"search-invalid-utf8", "search=%ff%fe%fd"},
	{"search-bad-punycode", "search=xn--"},
	{"search-bad-punycode", "search=%22xn--a-.xn--%22"},
	{"search-long", "search=" + strings.Repeat("a", 70000)},
	{"search-long-label-idn", "search=" + strings.Repeat("%D0%B6", 300) + ".example"},
	{"search-json-metachars", "search=%22%2C%22IP%22%3A%22"},
	{"search-backslash", "search=%5C%5C%22"},
	{"search-newline", "search=a%0Ab"},
	{"status-unknown", "response_status=nonsense"},
	{"status-quoted", "response_status=%22all%22"},
	{"status-quoted", "response_status=%22blocked%22&search=%22%22"},
	{"status-upper-case", "response_status=ALL"},
	{"bad-escape", "search=%zz&limit=%"},
	{"repeated-parameters", "limit=1&limit=-1&offset=0&offset=-3&search=a&search=b"},
	{"semicolon-separator", "limit=1;offset=2"},
}

// hostile sends the hostile parameter values.
func (h *c07Hist) hostile(full []int64) {
	for _, hp := range c07Hostile {
		if h.dead {
			return
		}
		h.rec.Events["hostile_requests"]++
		h.rec.Classes["hostile:"+hp[0]]++
		p := h.getRaw(hp[0], hp[1], false)
		if p == nil || p.Code != http.StatusOK {
			if p != nil {
				h.rec.Events["hostile_requests_rejected_4xx"]++
			}

			continue
		}
		h.rec.Events["hostile_requests_answered_200"]++
		// Whatever is returned must be part of the listing, newest first.
		h.checkSeq("hostile:"+hp[0], p, func(*c07Entry) bool { return false }, func(*c07Entry) bool { return true }, nil)
		if hp[0] == "limit-max-int" && !c07EqualTimes(p.Times, full) {
			h.violate("hostile:limit-max-int:incomplete", "limit=MaxInt64 does not return the whole log",
				map[string]any{"returned": h.tags(p.Times), "full_listing": h.tags(full)})
		}
	}
}

// verify lists, pages and searches the log and compares with the shadow.
// level 0 = light (intermediate), 1 = full.
func (h *c07Hist) verify(level int, label string) {
	if h.dead {
		return
	}
	h.opf("verify (%s) rotated=%d file=%d memory=%d", label, h.nR, h.nF, len(h.live)-h.nR-h.nF)
	h.rec.Events["verifications"]++
	nr, nf, nm := h.counts()
	nloc := 0
	for _, n := range []int{nr, nf, nm} {
		if n > 0 {
			nloc++
		}
	}
	if nloc > h.sawLocations {
		h.sawLocations = nloc
	}
	h.rec.Classes[fmt.Sprintf("verification_with_%d_locations_populated", nloc)]++
	h.rec.Events["listed_entries_in_memory"] += nm
	h.rec.Events["listed_entries_in_file"] += nf
	h.rec.Events["listed_entries_in_rotated_file"] += nr

	opt := map[*c07Entry]bool{}
	nopt := 0
	for _, e := range h.live {
		if h.optional(e) {
			opt[e] = true
			nopt++
		}
	}
	if nopt > 0 {
		h.rec.Unspec["recorded entries whose name is on the ignore list at the time of the request (may be hidden)"]++
	}
	mustAll := func(e *c07Entry) bool { return !opt[e] }
	mayAll := func(*c07Entry) bool { return true }

	// Full listing.
	q := url.Values{"limit": {strconv.Itoa(c07BigLimit)}}
	p := h.get("listing", q)
	if p == nil {
		return
	}
	if !h.checkSeq("listing", p, mustAll, mayAll, nil) {
		h.dead = true

		return
	}
	h.checkEntries(p)
	full := p.Times
	if p.Oldest == "" && len(full) > 0 {
		h.violate("listing:no-cursor", "a non-empty page has an empty oldest value", map[string]any{"request": p.Query})
	}
	// The same through the offset path.
	q2 := url.Values{"limit": {strconv.Itoa(c07BigLimit)}, "offset": {"0"}}
	if p2 := h.get("listing-offset0", q2); p2 != nil && !c07EqualTimes(p2.Times, full) {
		h.violate("listing-offset0:differs", "offset=0 returns another sequence than no offset",
			map[string]any{"without_offset": h.tags(full), "with_offset_0": h.tags(p2.Times)})
	}
	// The default limit.
	if p3 := h.getRaw("listing-default", "", true); p3 != nil {
		want := full
		if len(want) > 500 {
			want = want[:500]
		}
		if len(p3.Times) > 500 || (nopt == 0 && !c07EqualTimes(p3.Times, want)) {
			h.violate("listing-default:differs", "a request without parameters does not return the newest entries",
				map[string]any{"returned": h.tags(p3.Times), "full_listing": h.tags(full)})
		}
	}
	if len(full) == 0 {
		h.rec.Classes["verification_of_empty_log"]++
		if level > 0 {
			h.hostile(full)
		}

		return
	}

	// Cursor walks.
	limits := []int{1, 2, 3, 7, 50}
	if level == 0 {
		limits = []int{limits[h.rng.Intn(3)], limits[2+h.rng.Intn(3)]}
	}
	for _, lim := range limits {
		if lim == 1 && len(full) > 150 && h.rng.Intn(3) != 0 {
			continue
		}
		h.walkCursor("cursor-walk", url.Values{}, lim, full)
	}
	// Offset walks.
	offLimits := []int{2, 3, 7, 50}
	if len(full) <= 60 {
		offLimits = append(offLimits, 1)
	}
	h.rng.Shuffle(len(offLimits), func(i, j int) { offLimits[i], offLimits[j] = offLimits[j], offLimits[i] })
	for _, lim := range offLimits[:1+level] {
		h.walkOffset("offset-walk", url.Values{}, lim, full)
	}
	// older_than of an arbitrary listed entry, with and without offset.
	for k := 0; k < 3+3*level; k++ {
		i := h.rng.Intn(len(full))
		lim := []int{1, 2, 5, 20, 500}[h.rng.Intn(5)]
		off := 0
		q := url.Values{"older_than": {p.Data[i]["time"].(string)}, "limit": {strconv.Itoa(lim)}}
		if h.rng.Intn(2) == 0 {
			off = h.rng.Intn(6)
			q.Set("offset", strconv.Itoa(off))
		}
		pp := h.get("older-than", q)
		if pp == nil {
			continue
		}
		h.rec.Events["older_than_requests"]++
		rest := full[i+1:]
		if off > len(rest) {
			off = len(rest)
		}
		rest = rest[off:]
		if len(rest) > lim {
			rest = rest[:lim]
		}
		if !c07EqualTimes(pp.Times, rest) {
			h.violate(fmt.Sprintf("older-than:differs:cursor-in-%s", h.locOfTime(full[i])),
				"older_than of a listed entry (with offset/limit) does not return the entries that follow it in the listing",
				map[string]any{"request": pp.Query, "cursor_entry": h.tag(full[i]), "returned": h.tags(pp.Times),
					"expected": h.tags(rest), "full_listing": h.tags(full)})
		}
	}

	h.probeForeignOlderThan(full)

	// Searches and status filters.
	ns := 8
	if level > 0 {
		ns = 40
	}
	for k := 0; k < ns && !h.dead; k++ {
		q := url.Values{"limit": {strconv.Itoa(c07BigLimit)}}
		var term *c07Term
		status := ""
		switch m := h.rng.Intn(10); {
		case m < 6:
			t := c07RandTerm(h.rng, h.world, h.live)
			term = &t
		case m < 8:
			status = c07Statuses[h.rng.Intn(len(c07Statuses))]
		default:
			t := c07RandTerm(h.rng, h.world, h.live)
			term = &t
			status = c07Statuses[h.rng.Intn(len(c07Statuses))]
		}
		// Every status value is used at least once in a full verification.
		if level > 0 && k < len(c07Statuses) {
			term, status = nil, c07Statuses[k]
		}
		kind := "search"
		if term != nil {
			q.Set("search", term.Raw)
			kind += ":" + term.Kind
			h.rec.Classes["search:"+term.Kind]++
		}
		if status != "" {
			q.Set("response_status", status)
			kind += ":status-" + status
			h.rec.Classes["status:"+status]++
		}
		zone := false
		must := func(e *c07Entry) bool {
			if opt[e] {
				return false
			}
			if term != nil && !term.match(e, !h.anonymize, false) {
				return false
			}
			if status != "" {
				if m, _ := c07StatusMustMay(status, e); !m {
					return false
				}
			}

			return true
		}
		may := func(e *c07Entry) bool {
			if term != nil && !term.match(e, true, true) {
				return false
			}
			if status != "" {
				if _, m := c07StatusMustMay(status, e); !m {
					return false
				}
			}

			return true
		}
		nmust := 0
		caseZone := false
		for _, e := range h.live {
			a, b := must(e), may(e)
			if a {
				nmust++
			}
			if a != b && !opt[e] {
				if term != nil && term.match(e, !h.anonymize, true) && !term.match(e, !h.anonymize, false) {
					caseZone = true
				} else {
					zone = true
				}
			}
		}
		sp := h.get(kind, q)
		if sp == nil {
			continue
		}
		h.rec.Events["searches"]++
		if nmust > 0 {
			h.rec.Events["searches_with_matches"]++
		}
		if caseZone {
			h.rec.Unspec["search term that matches a ClientID, address or client name only if letter case is ignored"]++
			// Not asserted, but recorded: the product means to ignore letter
			// case there.
			got := map[int64]bool{}
			for _, tm := range sp.Times {
				got[tm] = true
			}
			for _, e := range h.live {
				if !opt[e] && may(e) && !must(e) && !got[e.Nano] && term.match(e, !h.anonymize, true) {
					st := true
					if status != "" {
						st, _ = c07StatusMustMay(status, e)
					}
					if st {
						h.rec.Unspec["... of these: an entry is not returned although it matches when letter case is ignored"]++

						break
					}
				}
			}
		}
		if zone {
			h.rec.Unspec["search whose exact result depends on an open point (status class of an unusual reason/flag pair, client search under anonymisation)"]++
		}
		extra := map[string]any{}
		if term != nil {
			extra["term"] = term
		}
		if !h.checkSeq(kind, sp, must, may, extra) {
			continue
		}
		// A search result is a sub-sequence of the listing with the same
		// objects.
		h.checkEntries(sp)
		if len(sp.Times) > 1 && h.rng.Intn(3) == 0 {
			base := url.Values{}
			if term != nil {
				base.Set("search", term.Raw)
			}
			if status != "" {
				base.Set("response_status", status)
			}
			lim := []int{1, 2, 3, 7}[h.rng.Intn(4)]
			if h.rng.Intn(2) == 0 {
				h.walkCursor("search-cursor-walk", base, lim, sp.Times)
			} else {
				h.walkOffset("search-offset-walk", base, lim, sp.Times)
			}
		}
	}
	if level > 0 && !h.hostileDone {
		h.hostileDone = true
		h.hostile(full)
	}
}

// probeForeignOlderThan sends older_than values that are not the time of any
// entry: between two neighbours of the listing, between the rotated and the
// current file, between the file and the memory.  Such a value is not a
// "returned cursor", so only what holds under any reading is asserted: no
// crash, and everything returned is a listed entry older than the value,
// newest first.  Whether all of them are returned is counted, not asserted.
func (h *c07Hist) probeForeignOlderThan(full []int64) {
	var xs []int64
	mid := func(newer, older int64) {
		if newer-older >= 2 {
			xs = append(xs, older+(newer-older)/2)
		}
	}
	if len(full) >= 2 {
		i := h.rng.Intn(len(full) - 1)
		mid(full[i], full[i+1])
	}
	if h.nR > 0 && h.nF > 0 {
		mid(h.live[h.nR].Nano, h.live[h.nR-1].Nano)
	}
	if nd := h.nR + h.nF; nd > 0 && nd < len(h.live) {
		mid(h.live[nd].Nano, h.live[nd-1].Nano)
	}
	xs = append(xs, full[0]+1)
	for _, x := range xs {
		lim := []int{1, 3, 20}[h.rng.Intn(3)]
		q := url.Values{"older_than": {time.Unix(0, x).UTC().Format(time.RFC3339Nano)}, "limit": {strconv.Itoa(lim)}}
		p := h.getRaw("older-than-foreign", q.Encode(), false)
		if p == nil || p.Code != http.StatusOK {
			continue
		}
		h.rec.Events["older_than_values_that_are_no_entry_time"]++
		ok := h.checkSeq("older-than-foreign", p, func(*c07Entry) bool { return false },
			func(e *c07Entry) bool { return e.Nano < x }, map[string]any{"older_than_ns": x})
		if !ok {
			continue
		}
		var want []int64
		for _, t := range full {
			if t < x && len(want) < lim {
				want = append(want, t)
			}
		}
		if c07EqualTimes(p.Times, want) {
			h.rec.Events["older_than_values_that_are_no_entry_time_answered_completely"]++
		} else {
			h.rec.Unspec["older_than that is not the time of an entry: not all older entries are returned"]++
		}
	}
}

// getTimes is a light variant of get for very long pages: only the times and
// the cursor are decoded.
func (h *c07Hist) getTimes(class string, q url.Values) (times []int64, oldest string, ok bool) {
	h.rec.Events["requests"]++
	raw := q.Encode()
	code, body, cok := h.call(class, "GET /control/querylog", raw, nil)
	if !cok {
		return nil, "", false
	}
	var resp struct {
		Data []struct {
			Time string `json:"time"`
		} `json:"data"`
		Oldest *string `json:"oldest"`
	}
	if code != http.StatusOK || json.Unmarshal(body, &resp) != nil || resp.Oldest == nil {
		h.violate("bad-response:"+class, fmt.Sprintf("answer to %q is not 200 {data:[...], oldest:\"...\"}", raw),
			map[string]any{"request": raw, "code": code, "body": c07Trunc(string(body), 300)})

		return nil, "", false
	}
	for _, d := range resp.Data {
		t, err := time.Parse(time.RFC3339Nano, d.Time)
		if err != nil {
			h.violate("bad-response:entry-time:"+class, "an entry has no valid time", map[string]any{"request": raw})

			return nil, "", false
		}
		times = append(times, t.UnixNano())
	}

	return times, *resp.Oldest, true
}

// addSimple records one handcrafted query.
func (h *c07Hist) addSimple(host, ip, cid string, blocked, logOp bool) {
	time.Sleep(time.Duration(1 + h.rng.Intn(3)))
	p, e := c07Simple(h.world, h.serial, host, ip, cid, blocked)
	h.serial++
	e.T = time.Now()
	e.Nano = e.T.UnixNano()
	h.inst.l.Add(p)
	h.appendLive(e)
	h.rec.Events["entries_recorded"]++
	if logOp {
		h.opf("add %s", e)
	}
}

func (h *c07Hist) addBulk(n int) {
	h.opf("add %d consecutive queries for common.example from 10.0.0.1 (no ClientID, not filtered), 1-3 ns apart, #%d..#%d",
		n, h.serial, h.serial+n-1)
	for i := 0; i < n && !h.dead; i++ {
		h.addSimple("common.example", "10.0.0.1", "", false, false)
	}
	// The sleep before every record has let each automatic flush finish.
	synctest.Wait()
}

// runScan is a history about the limit of 50000 file records that one request
// without offset scans: more than 50000 consecutive records that do not match
// lie on top of a few that do.  variant 0: the matching ones are the oldest of
// the current file; 1: they are in the rotated file; 2: they sit right at the
// 50000th scanned record.
func (h *c07Hist) runScan(variant int) {
	defer os.RemoveAll(h.dir)
	h.newInst()
	if h.dead {
		return
	}
	h.opf("new instance mem_size=%d rotation_ivl=%s (scan-limit history, variant %d)", h.memSize, h.ivl, variant)
	rare := func(n int) {
		for i := 0; i < n; i++ {
			h.addSimple("rare.example", "10.9.9.9", "rare-cli", true, true)
		}
	}
	guardOK := h.guard("bulk-add", func() {
		switch variant {
		case 0:
			h.addBulk(h.rng.Intn(300))
			rare(3)
			h.addBulk(50010 + h.rng.Intn(9990))
		case 1:
			rare(2)
			h.addBulk(100 + h.rng.Intn(300))
			rare(1)
			h.addBulk(h.rng.Intn(200))
		default:
			h.addBulk(200 + h.rng.Intn(300))
			rare(3)
			// The newest of the three is the 49997th..50001st record from the
			// end of the file.
			h.addBulk(49996 + h.rng.Intn(5))
		}
	})
	if !guardOK {
		return
	}
	h.opFlush()
	if variant == 1 && !h.dead {
		time.Sleep(h.ivl + time.Minute)
		h.opf("advance %s, rotation check", h.ivl+time.Minute)
		before := h.rec.Events["rotations_performed"]
		if !h.guard("checkAndRotate", func() { h.inst.l.checkAndRotate(context.Background()) }) {
			return
		}
		synctest.Wait()
		h.reconcile("rotate", c07MayRotate, true)
		if h.rec.Events["rotations_performed"] == before {
			h.rec.Inconcl = append(h.rec.Inconcl, "scan-limit history: the log did not rotate one interval after its first record")

			return
		}
		if !h.guard("bulk-add", func() { h.addBulk(50010 + h.rng.Intn(9990)) }) {
			return
		}
		h.opFlush()
	}
	if h.dead {
		return
	}
	// Some matching entries in memory on top.
	for n := h.rng.Intn(3); n > 0; n-- {
		h.addSimple("rare.example", "10.9.9.9", "rare-cli", true, true)
	}
	synctest.Wait()
	h.reconcile("add", c07NoFlush, true)
	if h.dead {
		return
	}
	h.opf("verify (scan limit) rotated=%d file=%d memory=%d", h.nR, h.nF, len(h.live)-h.nR-h.nF)
	h.rec.Events["verifications"]++
	h.rec.Events["scan_limit_histories"]++
	h.sawLocations = 0
	for _, n := range []int{h.nR, h.nF, len(h.live) - h.nR - h.nF} {
		if n > 0 {
			h.sawLocations++
		}
	}

	// The whole log by cursor, without search.
	all := make([]int64, 0, len(h.live))
	for i := len(h.live) - 1; i >= 0; i-- {
		all = append(all, h.live[i].Nano)
	}
	for _, lim := range []int{c07BigLimit, 20000} {
		var got []int64
		cursor := ""
		pages := 0
		for ; pages < 12; pages++ {
			q := url.Values{"limit": {strconv.Itoa(lim)}}
			if cursor != "" {
				q.Set("older_than", cursor)
			}
			times, oldest, ok := h.getTimes("scan-listing", q)
			if !ok {
				return
			}
			got = append(got, times...)
			if oldest == "" || oldest == cursor {
				break
			}
			cursor = oldest
		}
		h.rec.Events["cursor_walks"]++
		h.rec.Events["scan_limit_listing_walks"]++
		h.rec.Events["scan_limit_listing_pages"] += pages + 1
		if !c07EqualTimes(got, all) {
			i := 0
			for i < len(got) && i < len(all) && got[i] == all[i] {
				i++
			}
			kind, subject := "gap", int64(0)
			switch {
			case i == len(got):
				kind, subject = "ended-early", all[i]
			case i == len(all):
				kind, subject = "duplicate", got[i]
			default:
				subject = all[i]
			}
			lo, hi := max(0, i-3), min(len(all), i+4)
			h.violate("scan-listing:"+kind+":entry-in-"+h.locOfTime(subject),
				"a cursor walk over a log with more than 50000 file records does not return the log", map[string]any{
					"limit": lim, "pages": pages + 1, "entries_returned": len(got), "entries_expected": len(all),
					"first_difference_at": i, "expected_around_there": h.tags(all[lo:hi]),
					"returned_around_there": h.tags(got[max(0, min(len(got), i)-3):min(len(got), i+4)]),
				})

			return
		}
	}

	// Searches for the rare entries, paged by the returned cursor.
	reqs := []struct {
		term   *c07Term
		status string
		limits []int
	}{
		{&c07Term{Raw: "rare", Value: "rare", Kind: "host-substring"}, "", []int{1, 2, 0}},
		{&c07Term{Raw: `"rare.example"`, Value: "rare.example", Strict: true, Kind: "host-exact"}, "", []int{1, 500}},
		{&c07Term{Raw: "rare-cli", Value: "rare-cli", Kind: "clientid"}, "", []int{1, 0}},
		{&c07Term{Raw: "Rare Box", Value: "Rare Box", Kind: "client-name"}, "", []int{2, 0}},
		{&c07Term{Raw: `"10.9.9.9"`, Value: "10.9.9.9", Strict: true, Kind: "ip"}, "", []int{0}},
		{nil, "blocked", []int{1, 0}},
		{&c07Term{Raw: "rare", Value: "rare", Kind: "host-substring"}, "filtered", []int{0}},
		{&c07Term{Raw: "zzqq", Value: "zzqq", Kind: "no-match"}, "", []int{0}},
	}
	for _, r := range reqs {
		base := url.Values{}
		class := "scan-search"
		if r.term != nil {
			base.Set("search", r.term.Raw)
			class += ":" + r.term.Kind
			h.rec.Classes["search:"+r.term.Kind]++
		}
		if r.status != "" {
			base.Set("response_status", r.status)
			class += ":status-" + r.status
			h.rec.Classes["status:"+r.status]++
		}
		var want []int64
		for i := len(h.live) - 1; i >= 0; i-- {
			e := h.live[i]
			if r.term != nil && !r.term.match(e, true, false) {
				continue
			}
			if m, _ := c07StatusMustMay(r.status, e); r.status != "" && !m {
				continue
			}
			want = append(want, e.Nano)
		}
		for _, lim := range r.limits {
			if h.dead {
				return
			}
			before := len(h.rec.Viols)
			pagesBefore := h.rec.Events["cursor_walk_pages_empty_but_with_cursor"]
			h.walkCursor(class, base, lim, want)
			h.rec.Events["scan_limit_search_walks"]++
			if h.rec.Events["cursor_walk_pages_empty_but_with_cursor"] > pagesBefore {
				h.rec.Events["scan_limit_search_walks_with_an_empty_page_that_carries_a_cursor"]++
			}
			if len(h.rec.Viols) > before {
				return
			}
		}
		h.rec.Events["searches"]++
		if len(want) > 0 {
			h.rec.Events["searches_with_matches"]++
		}
	}
	// The objects of the rare entries.
	q := url.Values{"search": {"rare"}, "offset": {"0"}, "limit": {"100"}}
	if p := h.get("scan-search:offset", q); p != nil {
		mustRare := func(e *c07Entry) bool { return e.Host == "rare.example" }
		if h.checkSeq("scan-search:offset", p, mustRare, mustRare, nil) {
			h.checkEntries(p)
		}
	}
}

// forceRotate advances the clock by more than the rotation interval and runs
// the rotation check.  It reports whether the current file became the rotated
// one.
func (h *c07Hist) forceRotate() (rotated bool) {
	d := h.ivl + time.Duration(1+h.rng.Intn(600))*time.Second
	time.Sleep(d)
	h.opf("advance %s, rotation check at %s", d, time.Now().Format(time.RFC3339Nano))
	h.rec.Events["rotation_checks"]++
	before := h.rec.Events["rotations_performed"]
	if !h.guard("checkAndRotate", func() { h.inst.l.checkAndRotate(context.Background()) }) {
		return false
	}
	synctest.Wait()
	h.reconcile("rotate", c07MayRotate, true)

	return !h.dead && h.rec.Events["rotations_performed"] > before
}

// opInvariance is the location-invariance oracle.  It needs no reading of
// what a search term or a status means: a fixed set of requests is evaluated,
// then the same entries are moved (memory to file by a flush, file to rotated
// file by a rotation that ages nothing out, or through a restart) without any
// entry being added or removed, and every request must return the same
// entries in the same order as before.
func (h *c07Hist) opInvariance() {
	if h.dead || !h.enabled && len(h.live) == 0 {
		return
	}
	if _, _, m := h.counts(); m == 0 && h.memSize > 1 && h.enabled {
		h.opAdd(1 + h.rng.Intn(int(h.memSize)-1))
	}
	if h.dead || len(h.live) == 0 {
		return
	}
	type invReq struct {
		q      url.Values
		kind   string
		before []int64
		tags   []string
	}
	var reqs []*invReq
	cursor := func() string {
		e := h.live[h.rng.Intn(len(h.live))]

		return e.T.Format(time.RFC3339Nano)
	}
	add := func(kind string, q url.Values, older bool) {
		q.Set("limit", strconv.Itoa(c07BigLimit))
		if older {
			q.Set("older_than", cursor())
			kind += ":older-than"
		}
		reqs = append(reqs, &invReq{q: q, kind: kind})
	}
	for _, st := range c07Statuses {
		add("status-"+st, url.Values{"response_status": {st}}, false)
	}
	for i := 0; i < 4; i++ {
		st := c07Statuses[h.rng.Intn(len(c07Statuses))]
		add("status-"+st, url.Values{"response_status": {st}}, true)
	}
	for i := 0; i < 8; i++ {
		t := c07RandTerm(h.rng, h.world, h.live)
		add(t.Kind, url.Values{"search": {t.Raw}}, i%2 == 1)
	}
	for i := 0; i < 2; i++ {
		t := c07RandTerm(h.rng, h.world, h.live)
		st := c07Statuses[h.rng.Intn(len(c07Statuses))]
		add(t.Kind+":status-"+st, url.Values{"search": {t.Raw}, "response_status": {st}}, i == 1)
	}
	add("listing", url.Values{}, false)
	add("listing", url.Values{}, true)

	opt := map[int64]bool{}
	for _, e := range h.live {
		if h.optional(e) {
			opt[e.Nano] = true
		}
	}
	eval := func(r *invReq) (ts []int64, ok bool) {
		p := h.get("location-invariance:"+r.kind, r.q)
		if p == nil {
			return nil, false
		}
		for _, t := range p.Times {
			if !opt[t] {
				ts = append(ts, t)
			}
		}

		return ts, true
	}
	nr, nf, nm := h.counts()
	h.opf("location invariance: %d requests evaluated with rotated=%d file=%d memory=%d", len(reqs), nr, nf, nm)
	for _, r := range reqs {
		ts, ok := eval(r)
		if !ok {
			return
		}
		r.before, r.tags = ts, h.tags(ts)
	}
	compare := func(move string) {
		for _, r := range reqs {
			if h.dead {
				return
			}
			ts, ok := eval(r)
			if !ok {
				return
			}
			h.rec.Events["location_invariance_comparisons_after_"+move]++
			if len(r.before) > 0 {
				h.rec.Events["location_invariance_comparisons_with_results"]++
			}
			if c07EqualTimes(ts, r.before) {
				continue
			}
			in := func(list []int64) map[int64]bool {
				m := map[int64]bool{}
				for _, t := range list {
					m[t] = true
				}

				return m
			}
			was, is := in(r.before), in(ts)
			var lost, gained []string
			for _, t := range r.before {
				if e := h.byTime[t]; !is[t] && e != nil {
					lost = append(lost, e.String()+" now in "+h.locOfTime(t))
				} else if !is[t] {
					lost = append(lost, h.tag(t))
				}
			}
			for _, t := range ts {
				if !was[t] {
					if e := h.byTime[t]; e != nil {
						gained = append(gained, e.String()+" now in "+h.locOfTime(t))
					} else {
						gained = append(gained, h.tag(t))
					}
				}
			}
			what := "order"
			switch {
			case len(lost) > 0:
				what = "entries-lost"
			case len(gained) > 0:
				what = "entries-gained"
			}
			if len(lost) > 6 {
				lost = lost[:6]
			}
			if len(gained) > 6 {
				gained = gained[:6]
			}
			h.violate("location-invariance:"+r.kind+":"+what+":after-"+move,
				"the same request returns other entries after the entries moved ("+move+"), although none was added or removed",
				map[string]any{"request": r.q.Encode(), "returned_before_the_move": r.tags, "returned_after_the_move": h.tags(ts),
					"no_longer_returned": lost, "newly_returned": gained})
			h.dead = true

			return
		}
		// The next move is compared with this state's results as well.
	}
	if _, _, m := h.counts(); m > 0 {
		h.rec.Events["location_invariance_entries_moved_memory_to_file"] += m
		h.opFlush()
		compare("flush")
	}
	if h.dead {
		return
	}
	if h.nF > 0 && h.nR == 0 {
		n := h.nF
		if h.forceRotate() {
			h.rec.Events["location_invariance_entries_moved_file_to_rotated"] += n
			compare("rotate")
		}
	}
	if h.dead {
		return
	}
	if h.rng.Intn(2) == 0 {
		// Without the rotation check of Start: it may age entries out.
		h.restart(false)
		compare("restart")
	}
}

// run executes one history.
func (h *c07Hist) run(target int, large bool) {
	defer os.RemoveAll(h.dir)
	h.newInst()
	if h.dead {
		return
	}
	h.opf("new instance mem_size=%d rotation_ivl=%s", h.memSize, h.ivl)
	// Empty log first.
	if h.rng.Intn(4) == 0 {
		h.verify(1, "empty log")
	}
	for h.serial < target && !h.dead {
		switch k := h.rng.Intn(100); {
		case k < 3:
			if large {
				continue
			}
			h.opInvariance()
		case k < 52:
			n := 1 + h.rng.Intn(int(h.memSize)*2+3)
			if large {
				n = 20 + h.rng.Intn(60)
			}
			h.opAdd(n)
		case k < 59:
			h.opFlush()
		case k < 65:
			h.opRotate()
		case k < 70:
			if large {
				continue
			}
			h.opHours()
		case k < 73:
			if large {
				continue
			}
			h.opClear()
		case k < 82:
			h.opConfig()
		case k < 89:
			h.opRestart()
		default:
			if large {
				continue
			}
			h.verify(0, "intermediate")
		}
	}
	if h.dead {
		return
	}
	// Leave something in memory in most histories.
	if h.memSize > 1 && h.enabled && h.rng.Intn(4) != 0 {
		h.opAdd(1 + h.rng.Intn(int(h.memSize)-1))
	}
	h.verify(1, "final")
	if h.dead {
		return
	}
	strict := len(h.ignored) == 0 && !h.anonymize
	if !strict {
		h.setConfig(true, false, nil, false)
		h.verify(1, "final, ignore list and anonymisation off")
	}
	if h.dead {
		return
	}
	h.opInvariance()
	if h.dead {
		return
	}
	// The same after a clean restart: everything is in the files.
	if h.rng.Intn(3) == 0 {
		h.opRestart()
		h.verify(0, "after final restart")
	}
}

func c07RunHistory(rep *verifkit.Report, id int, base string, large bool, scan int) (rec *c07Rec) {
	rec = c07NewRec()
	rng := rep.Rand(fmt.Sprintf("history-%d", id))
	dir, err := os.MkdirTemp(base, fmt.Sprintf("c07-%d-", id))
	if err != nil {
		rec.Inconcl = append(rec.Inconcl, "mkdir: "+err.Error())

		return rec
	}
	h := &c07Hist{
		id: id, rng: rng, rec: rec, dir: dir,
		memSize: c07MemSizes[rng.Intn(len(c07MemSizes))],
		ivl: []time.Duration{time.Hour, 90 * time.Minute, 6 * time.Hour, 6 * time.Hour, 23 * time.Hour, 24 * time.Hour, 24 * time.Hour,
			36 * time.Hour, 7 * 24 * time.Hour}[rng.Intn(9)],
		enabled: true,
		byTime:  map[int64]*c07Entry{}, gone: map[int64]string{}, lineLen: map[int64]int{},
		lastSizeF: -1, lastSizeR: -1,
	}
	if rng.Intn(12) == 0 {
		h.memSize = 0
	}
	pad := 0
	target := 20 + rng.Intn(60)
	switch k := rng.Intn(10); {
	case large:
		pad = 2500
		target = 900 + rng.Intn(500)
		h.memSize = []uint{5, 50, 200}[rng.Intn(3)]
	case k >= 8:
		target = 150 + rng.Intn(250)
	case k >= 5:
		target = 60 + rng.Intn(90)
	}
	h.world = c07NewWorld(rng, pad)
	if rng.Intn(6) == 0 {
		h.anonymize = true
	}
	if scan < 0 && !large && rng.Intn(6) == 0 {
		// Records of every size up to the limit of the file reader, mixed
		// with small ones; long names.
		h.world.big = true
		for _, n := range []int{63, 40} {
			l := strings.Repeat("l", n-1)
			h.world.hosts = append(h.world.hosts, "a"+l+".b"+l+".c"+l+".long.example")
		}
		rec.Classes["history_with_long_records"]++
	}
	if scan >= 0 {
		h.world = &c07World{clients: map[string]*Client{"10.9.9.9": {Name: "Rare Box"}}}
		h.anonymize = false
		h.memSize = []uint{15000, 20000, 30000}[rng.Intn(3)]
		h.runScan(scan)
		rec.Classes[fmt.Sprintf("history_scan_limit_variant_%d", scan)]++
	} else {
		h.run(target, large)
	}

	rec.Canon = verifkit.Hash(strings.Join(h.ops, "\n"))
	rec.Nontrivial = h.sawLocations >= 2 && h.crossingWalks >= 1
	rec.Classes[fmt.Sprintf("history_mem_size_%d", h.memSize)]++
	if large {
		rec.Classes["history_large_file"]++
	}
	if rec.Nontrivial {
		rec.Classes["history_nontrivial"]++
	}
	if id < 3 {
		ops := h.ops
		if len(ops) > 40 {
			ops = ops[:40]
		}
		rec.Sample = map[string]any{"history": id, "first_operations": ops, "operations_total": len(h.ops), "entries_recorded": h.serial}
	}

	return rec
}

// c07Plan returns the number of ordinary, of large-file and of scan-limit
// histories.
func c07Plan() (n, nLarge, nScan int) {
	return verifkit.Pick(120, 3000), verifkit.Pick(0, 12), verifkit.Pick(3, 9)
}

// c07Worker runs histories, one after the other, and writes one JSON line per
// history.
//
// Only one bubble exists in a process at any time.  With several bubbles in
// one process a goroutine of one bubble can wait on a sync.WaitGroup that a
// goroutine of another bubble completes (encoding/json does that while it
// builds the encoder of a type for the first time); the Go 1.24 synctest
// implementation then takes the waiter for durably blocked, synctest.Wait
// returns before the flush has finished, or the bubble is declared deadlocked.
func c07Worker(t *testing.T, rep *verifkit.Report, spec, out string) {
	f, err := os.Create(out)
	if err != nil {
		t.Fatal(err)
	}
	defer f.Close()
	base := filepath.Dir(out)
	n, nLarge, nScan := c07Plan()
	enc := json.NewEncoder(f)
	for i := 0; i < n+nLarge+nScan; i++ {
		// The workers share the histories: whoever creates the claim file
		// of a history runs it.  Which worker runs which history does not
		// influence the result.
		claim, cerr := os.OpenFile(filepath.Join(filepath.Dir(base), fmt.Sprintf("claim-%d", i)), os.O_CREATE|os.O_EXCL|os.O_WRONLY, 0o644)
		if cerr != nil {
			continue
		}
		_ = claim.Close()
		// Scan-limit and large histories first: they take longest.
		id, large, scan := i-nLarge-nScan, false, -1
		switch {
		case i < nScan:
			id, scan = n+nLarge+i, i%3
		case i < nScan+nLarge:
			id, large = n+i-nScan, true
		}
		var rec *c07Rec
		synctest.Run(func() {
			rec = c07RunHistory(rep, id, base, large, scan)
		})
		rec.I = i
		if err = enc.Encode(rec); err != nil {
			t.Fatal(err)
		}
	}
}

// c07CrashKey names the first product frame of a crash dump.
func c07CrashKey(out string) string {
	i := strings.Index(out, "panic: ")
	if j := strings.Index(out, "fatal error: "); i < 0 || (j >= 0 && j < i) {
		i = j
	}
	if i < 0 {
		return ""
	}
	for _, l := range strings.Split(out[i:], "\n") {
		if k := strings.Index(l, "AdGuardHome/internal/"); k >= 0 && strings.Contains(l, "(") &&
			!strings.Contains(strings.ToLower(l), "verif") && !strings.Contains(l, "c07") {
			fn := l[k+len("AdGuardHome/internal/"):]

			return "crash:" + fn[:strings.Index(fn, "(")]
		}
	}

	return "crash:unknown"
}

func TestVerifC07(t *testing.T) {
	rep := verifkit.New("C07", "history",
		"case = one history of record / flush / rotation check / clear / config change / restart operations on one log directory (virtual time, memory sizes 0-50), with listings, older_than walks, offset/limit walks, searches, status filters and hostile parameter values at intermediate points and at the end, all compared with a shadow list of the recorded queries; non-trivial = entries were listed from at least two of {memory, current file, rotated file} at one verification and at least one cursor walk crossed such a boundary; distinct by the operation sequence")
	log.SetOutput(io.Discard)
	if spec := os.Getenv("VERIF_C07_WORKER"); spec != "" {
		c07Worker(t, rep, spec, os.Getenv("VERIF_C07_OUT"))

		return
	}
	defer func() {
		if err := rep.Write(); err != nil {
			t.Fatal(err)
		}
	}()
	if err := c07CheckIDNTable(); err != nil {
		rep.Inconcl(err.Error())

		return
	}
	base := os.Getenv("VERIF_SCRATCH")
	if base == "" {
		base = t.TempDir()
	}
	base, err := os.MkdirTemp(base, "c07-run-")
	if err != nil {
		rep.Inconcl("mkdir: " + err.Error())

		return
	}
	defer os.RemoveAll(base)
	n, nLarge, nScan := c07Plan()
	total := n + nLarge + nScan
	workers := runtime.GOMAXPROCS(0)
	if workers > 16 {
		workers = 16
	}
	ctx := context.Background()
	if dl, ok := t.Deadline(); ok {
		var cancel context.CancelFunc
		ctx, cancel = context.WithDeadline(ctx, dl.Add(-20*time.Second))
		defer cancel()
	}
	outs := make([]string, workers)
	logs := make([]bytes.Buffer, workers)
	errs := make([]error, workers)
	var wg sync.WaitGroup
	for w := 0; w < workers; w++ {
		wg.Add(1)
		go func(w int) {
			defer wg.Done()
			dir := filepath.Join(base, fmt.Sprintf("w%d", w))
			if errs[w] = os.Mkdir(dir, 0o755); errs[w] != nil {
				return
			}
			outs[w] = filepath.Join(dir, "records.jsonl")
			cmd := exec.CommandContext(ctx, os.Args[0], "-test.run=^TestVerifC07$", "-test.count=1", "-test.timeout=0")
			cmd.Env = append(os.Environ(), fmt.Sprintf("VERIF_C07_WORKER=%d/%d", w, workers), "VERIF_C07_OUT="+outs[w],
				"GOMAXPROCS=2")
			cmd.Stdout, cmd.Stderr = &logs[w], &logs[w]
			// The workers must not outlive this process.
			runtime.LockOSThread()
			cmd.SysProcAttr = &syscall.SysProcAttr{Pdeathsig: syscall.SIGKILL}
			errs[w] = cmd.Run()
		}(w)
	}
	wg.Wait()

	recs := make([]*c07Rec, total)
	for w := 0; w < workers; w++ {
		if errs[w] != nil {
			out := logs[w].String()
			fmt.Printf("--- worker %d: %v\n%s\n", w, errs[w], c07Trunc(out, 20000))
			if key := c07CrashKey(out); key != "" && ctx.Err() == nil {
				at := strings.Index(out, "panic: ")
				if at < 0 {
					at = strings.Index(out, "fatal error: ")
				}
				rep.Violate(key, "a worker process crashed: "+strings.SplitN(out[at:], "\n", 2)[0],
					map[string]any{"worker": w, "output": c07Trunc(out[at:], 6000)})
			} else {
				rep.Inconcl(fmt.Sprintf("worker %d failed: %v", w, errs[w]))
			}
		}
		if outs[w] == "" {
			continue
		}
		b, rerr := os.ReadFile(outs[w])
		if rerr != nil {
			continue
		}
		d := json.NewDecoder(bytes.NewReader(b))
		for d.More() {
			rec := &c07Rec{}
			if derr := d.Decode(rec); derr != nil {
				break
			}
			if rec.I >= 0 && rec.I < total {
				recs[rec.I] = rec
			}
		}
	}

	missing := 0
	for _, rec := range recs {
		if rec == nil {
			missing++

			continue
		}
		rep.Eval(rec.Nontrivial, rec.Canon)
		for _, m := range []struct {
			from map[string]int
			add  func(string, int)
		}{{rec.Classes, rep.ClassN}, {rec.Events, rep.EventN}} {
			keys := make([]string, 0, len(m.from))
			for k := range m.from {
				keys = append(keys, k)
			}
			sort.Strings(keys)
			for _, k := range keys {
				m.add(k, m.from[k])
			}
		}
		for k, v := range rec.Unspec {
			for ; v > 0; v-- {
				rep.Unspec(k)
			}
		}
		for _, v := range rec.Viols {
			rep.Violate(v.Key, v.What, v.Witness)
		}
		for _, s := range rec.Inconcl {
			rep.Inconcl(s)
		}
		if rec.Sample != nil {
			rep.Sample(rec.Sample)
		}
	}
	if missing > 0 && !rep.Violated() {
		rep.Inconcl(fmt.Sprintf("%d of %d histories did not finish", missing, total))
	}
	// The run must have seen what the property is about.
	for _, need := range []struct {
		event string
		min   int
	}{
		{"listed_entries_in_memory", 50}, {"listed_entries_in_file", 50}, {"listed_entries_in_rotated_file", 50},
		{"cursor_walks_crossing_memory_to_file", 20}, {"cursor_walks_crossing_file_to_rotated", 20},
		{"flushes_observed", 20}, {"rotations_performed", 10}, {"restarts", 10}, {"searches_with_matches", 100},
		{"entry_json_identical_after_move_memory_to_file", 50},
		{"scan_limit_search_walks_with_an_empty_page_that_carries_a_cursor", 4}, {"scan_limit_listing_walks", 4},
		{"location_invariance_comparisons_after_flush", 500}, {"location_invariance_comparisons_after_rotate", 200},
		{"location_invariance_entries_moved_memory_to_file", 100},
		{"rotation_checks_hourly", 100}, {"rotation_checks_start", 50},
		{"file_records_of_1.4_to_4_KiB", 30}, {"file_records_of_4_to_8_KiB", 30}, {"file_records_of_8_to_16_KiB", 30},
		{"cursor_walk_cursors_on_file_records_over_1400_bytes", 100},
		{"rotations_that_aged_out_a_file_older_than_the_interval", 5},
	} {
		if got := rep.EventCount(need.event); got < need.min {
			rep.Inconcl(fmt.Sprintf("only %d %s events (need %d)", got, need.event, need.min))
		}
	}
}
