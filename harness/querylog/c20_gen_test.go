//go:build verif

package querylog

import (
	"fmt"
	"math/rand"
	"os"
	"path/filepath"
	"strconv"
	"strings"
	"time"

	"github.com/AdguardTeam/AdGuardHome/internal/verifkit"
)

// Numbers of the property statement, deliberately not taken from the product
// constants: a change of those must not move the oracle.
const (
	// c20Window is the size of the chunk the backward reader keeps ("1.6 MB").
	c20Window = 100 * 16 * 1024
	// c20Entry is the entry limit ("16 KiB"); a probe reads 2*c20Entry bytes.
	c20Entry = 16 * 1024
	// c20MaxLen is the longest line content (without the line break) that is
	// "shorter than the 16 KiB entry limit".
	c20MaxLen = c20Entry - 1
	// c20MinLen is the shortest generated line content.
	c20MinLen = 60
)

const c20LineFormat = `line i of a file (0-based, oldest first) with content length L and timestamp T (RFC3339Nano in the file's zone): ` +
	`if L >= len(pre)+len(suf): pre + pad + suf with pre = {"T":"<T>","QH":"h<i>.example.org","QT":"A","QC":"IN","CP":"","Upstream":"tls://dns.example:853","Answer":" ` +
	`and suf = ","IP":"10.0.<i/256%256>.<i%256>","Result":{},"Elapsed":<100000+i>} ; otherwise {"T":"<T>","QH":"<pad>"} ; ` +
	`pad = characters c20PadBlock[(i*131+j) mod 4099], j = 0.. (base64 alphabet, no quote, no line break); every line is followed by one \n`

// c20PadBlock is the fixed source of padding characters.
var c20PadBlock = func() string {
	const alpha = "ABCDEFGHIJKLMNOPQRSTUVWXYZabcdefghijklmnopqrstuvwxyz0123456789+/"
	b := make([]byte, 4099)
	x := uint32(2463534242)
	for i := range b {
		x ^= x << 13
		x ^= x >> 17
		x ^= x << 5
		b[i] = alpha[x%64]
	}
	return string(b)
}()

func c20Pad(sb *strings.Builder, idx, n int) {
	start := (idx * 131) % len(c20PadBlock)
	for n > 0 {
		chunk := c20PadBlock[start:]
		if len(chunk) > n {
			chunk = chunk[:n]
		}
		sb.WriteString(chunk)
		n -= len(chunk)
		start = 0
	}
}

// c20MakeLine renders one query-log line of exactly length bytes (for
// length >= 52+; callers stay >= c20MinLen).
func c20MakeLine(tsStr string, idx, length int) string {
	var sb strings.Builder
	sb.Grow(length + 8)
	pre := `{"T":"` + tsStr + `","QH":"h` + strconv.Itoa(idx) + `.example.org","QT":"A","QC":"IN","CP":"","Upstream":"tls://dns.example:853","Answer":"`
	suf := `","IP":"10.0.` + strconv.Itoa(idx/256%256) + `.` + strconv.Itoa(idx%256) + `","Result":{},"Elapsed":` + strconv.Itoa(100000+idx) + `}`
	if length >= len(pre)+len(suf) {
		sb.WriteString(pre)
		c20Pad(&sb, idx, length-len(pre)-len(suf))
		sb.WriteString(suf)
		return sb.String()
	}
	pre = `{"T":"` + tsStr + `","QH":"`
	suf = `"}`
	n := length - len(pre) - len(suf)
	if n < 1 {
		n = 1
	}
	sb.WriteString(pre)
	c20Pad(&sb, idx, n)
	sb.WriteString(suf)
	return sb.String()
}

// Length classes.
const (
	c20Tiny = iota
	c20Typical
	c20Big
	c20Huge
	c20Max
	c20NClasses
)

var c20ClassNames = [c20NClasses]string{"tiny(60-120)", "typical(121-600)", "big(601-4096)", "huge(4097-16369)", "max(16370-16383)"}

func c20LenClass(l int) int {
	switch {
	case l <= 120:
		return c20Tiny
	case l <= 600:
		return c20Typical
	case l <= 4096:
		return c20Big
	case l < 16370:
		return c20Huge
	default:
		return c20Max
	}
}

func c20RandLen(rng *rand.Rand, class int) int {
	switch class {
	case c20Tiny:
		return c20MinLen + rng.Intn(61)
	case c20Typical:
		return 121 + rng.Intn(480)
	case c20Big:
		return 601 + rng.Intn(3496)
	case c20Huge:
		return 4097 + rng.Intn(16370-4097)
	default:
		switch rng.Intn(4) {
		case 0:
			return c20MaxLen
		case 1:
			return c20MaxLen - 1
		default:
			return 16370 + rng.Intn(14)
		}
	}
}

// c20Weighted draws a class from weights.
func c20Weighted(rng *rand.Rand, w [c20NClasses]int) int {
	tot := 0
	for _, x := range w {
		tot += x
	}
	r := rng.Intn(tot)
	for c, x := range w {
		if r < x {
			return c
		}
		r -= x
	}
	return c20Typical
}

var (
	c20WMixed = [c20NClasses]int{30, 40, 15, 10, 5}
	c20WHeavy = [c20NClasses]int{10, 5, 5, 55, 25}
	c20WSmall = [c20NClasses]int{30, 30, 15, 15, 10}
)

// c20FillExact returns line lengths whose sizes on disk (length+1 each) sum
// to exactly total.  total must be 0 or >= c20MinLen+1.
func c20FillExact(rng *rand.Rand, total int, w [c20NClasses]int) []int {
	var out []int
	rem := total
	for rem > 0 {
		if rem <= c20MaxLen+1 && (rem <= 4*c20MinLen || rng.Intn(3) == 0) {
			out = append(out, rem-1)
			rem = 0
			break
		}
		l := c20RandLen(rng, c20Weighted(rng, w))
		left := rem - (l + 1)
		if left != 0 && left < c20MinLen+1 {
			// Would leave an unfillable rest; take a line that leaves room.
			if rem <= c20MaxLen+1 {
				out = append(out, rem-1)
				rem = 0
				break
			}
			l = rem - 1 - (c20MinLen + 1 + rng.Intn(200))
			if l > c20MaxLen {
				l = c20MaxLen - rng.Intn(200) - c20MinLen - 1
			}
			if l < c20MinLen {
				l = c20MinLen
			}
		}
		out = append(out, l)
		rem -= l + 1
	}
	return out
}

// c20Line is one generated line.
type c20Line struct {
	ts   int64
	text string
	off  int64 // offset of the first byte in its file
	file int   // index of its file in the case
	idx  int   // index in its file
}

// c20File is one generated file.
type c20File struct {
	role    string // "rotated" | "current"
	profile string
	tsdist  string // distribution of the timestamps
	idle    []int  // indices of lines that follow an idle period
	zone    string
	geom    map[string]any
	path    string
	lens    []int
	lines   []c20Line
	size    int64
}

// c20Case is a generated file set, oldest file first, as the product orders
// them (rotated, current).
type c20Case struct {
	id   int
	kind string
	// curPath is the path of the current log file; the rotated one is
	// curPath+".1".
	curPath string
	files   []*c20File
	all     []c20Line // every line, oldest first
	first   []int     // index in all of the first line of each file
}

var c20Zones = []struct {
	name string
	loc  *time.Location
}{
	{"UTC", time.UTC},
	{"+03:00", time.FixedZone("", 3*3600)},
	{"-07:00", time.FixedZone("", -7*3600)},
	{"+05:45", time.FixedZone("", 5*3600+45*60)},
	{"-03:30", time.FixedZone("", -(3*3600 + 30*60))},
}

// c20Lens draws the line lengths of a file for a profile.
func c20Lens(rng *rand.Rand, profile string, maxBytes int) (lens []int, geom map[string]any) {
	switch profile {
	case "few":
		n := rng.Intn(7) // 0..6
		if rng.Intn(4) == 0 {
			n = rng.Intn(2) // more empties and single lines
		}
		for i := 0; i < n; i++ {
			lens = append(lens, c20RandLen(rng, c20Weighted(rng, c20WSmall)))
		}
	case "timeline":
		// Many short lines: the point of these files is the distribution of
		// the timestamps (see c20Gaps), in files well above the 32 KiB of a
		// probe read.
		n := 800 + rng.Intn(2201)
		if maxBytes > 6<<20 && rng.Intn(2) == 0 {
			n = 3000 + rng.Intn(3001)
		}
		hi := 100 + rng.Intn(400)
		for i := 0; i < n; i++ {
			if rng.Intn(60) == 0 {
				lens = append(lens, c20RandLen(rng, c20Weighted(rng, c20WMixed)))
				continue
			}
			lens = append(lens, c20MinLen+rng.Intn(hi))
		}
	case "typical":
		n := 5 + rng.Intn(296)
		for i := 0; i < n; i++ {
			lens = append(lens, c20MinLen+rng.Intn(541))
		}
	case "mixed":
		n := 50 + rng.Intn(1151)
		used := 0
		for i := 0; i < n && used < maxBytes; i++ {
			l := c20RandLen(rng, c20Weighted(rng, c20WMixed))
			lens = append(lens, l)
			used += l + 1
		}
	case "heavy":
		// More than one window, mostly long lines.
		target := c20Window + rng.Intn(maxBytes-c20Window+1)
		used := 0
		for used < target {
			l := c20RandLen(rng, c20Weighted(rng, c20WHeavy))
			lens = append(lens, l)
			used += l + 1
		}
	case "one-window":
		// The file is as large as one window, give or take a few bytes.
		w := c20WHeavy
		if rng.Intn(2) == 0 {
			w = c20WMixed
		}
		delta := rng.Intn(7) - 3
		lens = c20FillExact(rng, c20Window+delta, w)
		geom = map[string]any{"size_minus_window": delta}
	case "window-edge":
		// A long line X is placed so that the position of its terminating line
		// break is c20Entry+d bytes after the start of the first window of a
		// backward sweep (window start = size-1-c20Window).
		xl := c20RandLen(rng, c20Max)
		switch rng.Intn(10) {
		case 0, 1, 2, 3, 4:
			xl = c20MaxLen
		case 5:
			xl = c20RandLen(rng, c20Huge)
		}
		var d int
		switch rng.Intn(10) {
		case 0, 1, 2, 3:
			// The line break before X lies e bytes after the window start
			// while X still has to be served from that window (e >= 0), or X
			// is the first line that forces a reload (e < 0).
			d = xl + 1 + (rng.Intn(6) - 3) - c20Entry
		case 4, 5:
			// The window starts on, just before or just after the line break
			// of X.
			d = -c20Entry + rng.Intn(7) - 3
		case 6:
			d = rng.Intn(7) - 3
		case 7:
			d = rng.Intn(65) - 32
		default:
			d = rng.Intn(3*c20Entry+1) - 2*c20Entry
		}
		tailBytes := c20Window - c20Entry - d
		w := c20WHeavy
		if rng.Intn(2) == 0 {
			w = c20WMixed
		}
		tail := c20FillExact(rng, tailBytes, w)
		var head []int
		// The head keeps the window start inside the file.
		hb, hwant := 0, 3*c20Entry+rng.Intn(c20Window)
		for hb < hwant {
			l := c20RandLen(rng, c20Weighted(rng, c20WHeavy))
			head = append(head, l)
			hb += l + 1
		}
		lens = append(lens, head...)
		lens = append(lens, xl)
		lens = append(lens, tail...)
		geom = map[string]any{"x_index": len(head), "x_len": xl, "d": d,
			"meaning": "line break of line x_index lies at (size-1-1638400)+16384+d"}
	case "probe-edge":
		// A long line X is placed so that the first probe of every seek
		// (size/2) falls k bytes after the first byte of X.
		xl := c20RandLen(rng, c20Max)
		switch rng.Intn(10) {
		case 0, 1, 2, 3, 4:
			xl = c20MaxLen
		case 5:
			xl = c20RandLen(rng, c20Huge)
		}
		var k int
		switch rng.Intn(6) {
		case 0:
			k = 0
		case 1:
			k = 1
		case 2:
			k = xl - 1
		case 3:
			k = xl // the line break itself
		case 4:
			k = xl - 2
		default:
			k = rng.Intn(xl + 1)
		}
		// head of A bytes, X, tail of B bytes: (A+xl+1+B)/2 = A+k.
		var head []int
		a := 0
		want := c20Entry + 200 + rng.Intn(maxBytes/3)
		w := c20WMixed
		if rng.Intn(2) == 0 {
			w = c20WHeavy
		}
		for a < want {
			l := c20RandLen(rng, c20Weighted(rng, w))
			head = append(head, l)
			a += l + 1
		}
		b := a + 2*k - xl - 1 + rng.Intn(2)
		for b != 0 && b < c20MinLen+1 {
			l := c20RandLen(rng, c20Typical)
			head = append(head, l)
			a += l + 1
			b = a + 2*k - xl - 1
		}
		tail := c20FillExact(rng, b, w)
		lens = append(lens, head...)
		lens = append(lens, xl)
		lens = append(lens, tail...)
		geom = map[string]any{"x_index": len(head), "x_len": xl, "k": k,
			"meaning": "size/2 lies k bytes after the first byte of line x_index"}
	}
	return lens, geom
}

// c20Gap draws a gap between consecutive timestamps.
func c20Gap(rng *rand.Rand, regime int) int64 {
	switch regime {
	case 0: // dense
		return 1
	case 1: // sub-microsecond
		return 1 + rng.Int63n(1000)
	}
	switch rng.Intn(10) {
	case 0:
		return 1
	case 1:
		return 2
	case 2:
		return 3 + rng.Int63n(997)
	case 3:
		return 1000 + rng.Int63n(999000)
	case 4:
		return int64(time.Millisecond) + rng.Int63n(int64(time.Second))
	case 5, 6:
		return int64(time.Second) + rng.Int63n(int64(time.Minute))
	case 7:
		return int64(time.Minute) + rng.Int63n(int64(6*time.Hour))
	case 8:
		return int64(time.Hour) + rng.Int63n(int64(72*time.Hour))
	default:
		// whole seconds, so that the rendered timestamp has no fraction
		return (1 + rng.Int63n(3600)) * int64(time.Second)
	}
}

// Timestamp distributions of a file.
var c20Dists = []string{"bursts", "bursts", "bursts", "bursts+outliers", "uniform", "exponential", "outlier-first", "outlier-last"}

const c20Year = int64(365 * 24 * time.Hour)

// c20Gaps returns the gaps between consecutive timestamps of a file of n
// lines (gaps[i] = ts[i]-ts[i-1], gaps[0] unused) for a distribution, and the
// indices i whose gap is an idle period.
func c20Gaps(rng *rand.Rand, dist string, n int) (gaps []int64, idle []int) {
	gaps = make([]int64, n)
	units := []int64{1, 1000, int64(time.Millisecond), int64(time.Millisecond), int64(time.Millisecond), int64(time.Second)}
	unit := units[rng.Intn(len(units))]
	jitter := rng.Intn(2) == 0
	dense := func() int64 {
		if jitter && unit > 1 {
			return 1 + rng.Int63n(2*unit)
		}
		return unit
	}
	long := func() int64 {
		switch rng.Intn(5) {
		case 0:
			return int64(time.Hour) + rng.Int63n(int64(12*time.Hour))
		case 1:
			return int64(24*time.Hour) + rng.Int63n(int64(30*24*time.Hour))
		case 2:
			return c20Year/2 + rng.Int63n(4*c20Year)
		case 3:
			return 8 * int64(time.Hour)
		default:
			return int64(10*time.Minute) + rng.Int63n(int64(time.Hour))
		}
	}
	switch dist {
	case "uniform":
		for i := range gaps {
			gaps[i] = unit
		}
	case "exponential":
		mean := float64(unit) * float64(1+rng.Intn(1000))
		for i := range gaps {
			gaps[i] = 1 + int64(rng.ExpFloat64()*mean)
		}
	case "bursts", "bursts+outliers":
		for i := range gaps {
			gaps[i] = dense()
		}
		nb := 1 + rng.Intn(5) // idle periods
		for k := 0; k < nb && n > 2; k++ {
			i := 1 + rng.Intn(n-1)
			if k == 0 && rng.Intn(2) == 0 {
				i = n/4 + rng.Intn(n/2+1) // one idle period in the middle half
			}
			if i >= n {
				i = n - 1
			}
			gaps[i] = long()
			idle = append(idle, i)
		}
	case "outlier-first", "outlier-last":
		for i := range gaps {
			gaps[i] = dense()
		}
	}
	if n > 2 && (dist == "outlier-first" || (dist == "bursts+outliers" && rng.Intn(2) == 0)) {
		gaps[1] = 2*c20Year + rng.Int63n(12*c20Year)
		idle = append(idle, 1)
	}
	if n > 2 && (dist == "outlier-last" || (dist == "bursts+outliers" && rng.Intn(2) == 0)) {
		gaps[n-1] = 2*c20Year + rng.Int63n(12*c20Year)
		idle = append(idle, n-1)
	}
	return gaps, idle
}

// c20Build generates a case and writes its files into dir.
func c20Build(rng *rand.Rand, id int, kind string, dir string, maxBytes int) (*c20Case, error) {
	c := &c20Case{id: id, kind: kind}
	nfiles := 1
	if rng.Intn(100) < 45 {
		nfiles = 2
	}
	var profiles []string
	if kind == "small" {
		profiles = []string{"few"}
	} else if kind == "app" {
		// the appender part runs under the race detector: moderate sizes
		profiles = []string{"typical", "typical", "typical", "mixed", "timeline", "few"}
	} else {
		profiles = []string{"typical", "typical", "mixed", "mixed", "mixed", "mixed", "heavy", "heavy", "heavy",
			"window-edge", "window-edge", "window-edge", "probe-edge", "probe-edge", "probe-edge", "one-window", "few",
			"timeline", "timeline", "timeline"}
	}
	ts := time.Date(2018, 1, 1, 0, 0, 0, 0, time.UTC).UnixNano() + rng.Int63n(int64(12*365*24*time.Hour))
	if rng.Intn(3) == 0 {
		ts -= ts % int64(time.Second) // first stamp on a whole second
	}
	for fi := 0; fi < nfiles; fi++ {
		f := &c20File{role: "current"}
		if nfiles == 2 && fi == 0 {
			f.role = "rotated"
		}
		f.profile = profiles[rng.Intn(len(profiles))]
		if nfiles == 2 && kind != "small" && f.profile == "few" && rng.Intn(2) == 0 {
			f.profile = "typical"
		}
		per := maxBytes
		if nfiles == 2 {
			per = maxBytes * 2 / 3
		}
		if per < c20Window+4*c20Entry {
			per = c20Window + 4*c20Entry
		}
		f.lens, f.geom = c20Lens(rng, f.profile, per)
		z := c20Zones[rng.Intn(len(c20Zones))]
		if rng.Intn(2) == 0 {
			z = c20Zones[0]
		}
		f.zone = z.name
		regime := rng.Intn(6)
		// Names as the product uses them: <log> and <log>.1.
		c.curPath = filepath.Join(dir, fmt.Sprintf("c20_%s_%d.json", kind, id))
		f.path = c.curPath
		if f.role == "rotated" {
			f.path = c.curPath + ".1"
		}
		f.tsdist = []string{"all gaps 1 ns", "gaps below 1 us", "independent gaps 1 ns .. 3 days"}[min(regime, 2)]
		var gaps []int64
		if n := len(f.lens); f.profile == "timeline" || (n >= 100 && rng.Intn(4) == 0) {
			f.tsdist = c20Dists[rng.Intn(len(c20Dists))]
			gaps, f.idle = c20Gaps(rng, f.tsdist, n)
			if fi == 0 && n > 2 && gaps[1] >= c20Year && rng.Intn(2) == 0 {
				// The clock was not set when the first record was written.
				first := int64(time.Second) + rng.Int63n(int64(24*time.Hour))
				gaps[1] = ts - first
				ts = first
				f.tsdist += " (first record on 1970-01-01)"
			}
		}
		var sb strings.Builder
		tot := 0
		for _, l := range f.lens {
			tot += l + 1
		}
		sb.Grow(tot)
		c.first = append(c.first, len(c.all))
		for i, l := range f.lens {
			if i > 0 && gaps != nil {
				ts += gaps[i]
			} else if i > 0 || fi > 0 {
				ts += c20Gap(rng, regime)
				if i == 0 && rng.Intn(3) != 0 {
					ts += 2 + rng.Int63n(int64(time.Hour)) // room for an absent stamp between the files
				}
			}
			line := c20MakeLine(time.Unix(0, ts).In(z.loc).Format(time.RFC3339Nano), i, l)
			if len(line) != l {
				return nil, fmt.Errorf("generator: line of %d bytes requested, %d produced", l, len(line))
			}
			ln := c20Line{ts: ts, text: line, off: int64(sb.Len()), file: fi, idx: i}
			f.lines = append(f.lines, ln)
			c.all = append(c.all, ln)
			sb.WriteString(line)
			sb.WriteByte('\n')
		}
		f.size = int64(sb.Len())
		if err := os.WriteFile(f.path, []byte(sb.String()), 0o644); err != nil {
			return nil, err
		}
		c.files = append(c.files, f)
	}
	return c, nil
}

func (c *c20Case) remove() {
	for _, f := range c.files {
		_ = os.Remove(f.path)
	}
	_ = os.Remove(c.curPath)
	_ = os.Remove(c.curPath + ".1")
}

// rewrite puts the files on disk again as they were generated (a rotation
// history renames and replaces them).
func (c *c20Case) rewrite() error {
	_ = os.Remove(c.curPath)
	_ = os.Remove(c.curPath + ".1")
	for _, f := range c.files {
		var sb strings.Builder
		sb.Grow(int(f.size))
		for _, l := range f.lines {
			sb.WriteString(l.text)
			sb.WriteByte('\n')
		}
		if err := os.WriteFile(f.path, []byte(sb.String()), 0o644); err != nil {
			return err
		}
	}
	return nil
}

// describe renders the case so that it can be rebuilt without the PRNG.
func (c *c20Case) describe() map[string]any {
	var fs []any
	for _, f := range c.files {
		tss := make([]string, len(f.lines))
		for i, l := range f.lines {
			tss[i] = strconv.FormatInt(l.ts, 10)
		}
		m := map[string]any{"role": f.role, "profile": f.profile, "timestamp_distribution": f.tsdist, "lines_after_an_idle_period": f.idle, "zone": f.zone, "size_bytes": f.size,
			"lines": len(f.lines), "line_lengths": f.lens, "timestamps_unix_nano": strings.Join(tss, " ")}
		if f.geom != nil {
			m["geometry"] = f.geom
		}
		fs = append(fs, m)
	}
	return map[string]any{"case": fmt.Sprintf("%s#%d", c.kind, c.id), "files_oldest_first": fs, "line_format": c20LineFormat}
}

// digest is the canonical form of the file set.
func (c *c20Case) digest() string {
	var sb strings.Builder
	for _, f := range c.files {
		sb.WriteString(f.zone)
		sb.WriteByte('|')
		for _, l := range f.lines {
			sb.WriteString(strconv.Itoa(len(l.text)))
			sb.WriteByte(':')
			sb.WriteString(strconv.FormatInt(l.ts, 10))
			sb.WriteByte(',')
		}
		sb.WriteByte(';')
	}
	return verifkit.Hash(sb.String())
}

// timelineTargets returns indices of lines of f that seeks must try because
// of the distribution of the timestamps: the lines on both sides of every idle
// period at growing distances, and every k-th line.
func (f *c20File) timelineTargets() (out []int) {
	n := len(f.lines)
	if len(f.idle) == 0 && f.profile != "timeline" {
		return nil
	}
	add := func(i int) {
		if i >= 0 && i < n {
			out = append(out, i)
		}
	}
	for _, g := range f.idle {
		for _, off := range []int{0, 1, 10, 25, 50, 75, 100, 125, 150, 200, 250, 300, 400, 500, 700, 1000, 1500, 2500} {
			add(g - 1 - off)
			add(g + off)
		}
	}
	step := n / 60
	if step < 1 {
		step = 1
	}
	for i := 0; i < n; i += step {
		add(i)
	}
	return out
}

// nontrivial implements the rule of the report: a file larger than one read
// window, or a file mixing at least three length classes, or two non-empty
// files.
func (c *c20Case) nontrivial() bool {
	nonEmpty := 0
	for _, f := range c.files {
		if len(f.lines) > 0 {
			nonEmpty++
		}
		if f.size > c20Window {
			return true
		}
		var seen [c20NClasses]bool
		n := 0
		for _, l := range f.lens {
			if k := c20LenClass(l); !seen[k] {
				seen[k] = true
				n++
			}
		}
		if n >= 3 {
			return true
		}
	}
	return nonEmpty >= 2
}

func (c *c20Case) hasEmptyFile() bool {
	for _, f := range c.files {
		if len(f.lines) == 0 {
			return true
		}
	}
	return false
}
