//go:build verif

package querylog

import (
	"bytes"
	"encoding/json"
	"fmt"
	"math"
	"math/rand"
	"net"
	"net/netip"
	"strconv"
	"strings"
	"time"

	"github.com/AdguardTeam/AdGuardHome/internal/filtering"
	"github.com/AdguardTeam/AdGuardHome/internal/filtering/rulelist"
	"github.com/AdguardTeam/AdGuardHome/internal/whois"
	"github.com/AdguardTeam/urlfilter/rules"
	"github.com/miekg/dns"
	"golang.org/x/net/idna"
)

// c07ReasonNames is the monitor's own copy of the API names of the filtering
// reasons (index = numeric value of filtering.Reason).
var c07ReasonNames = []string{
	"NotFilteredNotFound", "NotFilteredWhiteList", "NotFilteredError",
	"FilteredBlackList", "FilteredSafeBrowsing", "FilteredParental", "FilteredInvalid",
	"FilteredSafeSearch", "FilteredBlockedService",
	"Rewrite", "RewriteEtcHosts", "RewriteRule",
}

// c07IDNLabels maps Unicode labels to their punycode form (hard-coded, so
// that the oracle does not depend on the idna package; checked against it
// once at start).
var c07IDNLabels = [][2]string{
	{"пример", "xn--e1afmkfd"},
	{"рф", "xn--p1ai"},
	{"bücher", "xn--bcher-kva"},
	{"münchen", "xn--mnchen-3ya"},
	{"例え", "xn--r8jz45g"},
	{"テスト", "xn--zckzah"},
}

// c07CheckIDNTable verifies the hard-coded table against x/net/idna.
func c07CheckIDNTable() (err error) {
	for _, p := range c07IDNLabels {
		a, aerr := idna.ToASCII(p[0])
		if aerr != nil || a != p[1] {
			return fmt.Errorf("idna table: %q -> %q (%v), table says %q", p[0], a, aerr, p[1])
		}
	}

	return nil
}

// c07ToUnicode converts an ASCII host name to Unicode with the table.  ok is
// false if the name has no IDN label.
func c07ToUnicode(host string) (uni string, ok bool) {
	labels := strings.Split(host, ".")
	for i, l := range labels {
		for _, p := range c07IDNLabels {
			if l == p[1] {
				labels[i] = p[0]
				ok = true
			}
		}
	}

	return strings.Join(labels, "."), ok
}

// c07ToASCII converts a Unicode name (lower case) to ASCII with the table.
func c07ToASCII(name string) (ascii string) {
	labels := strings.Split(name, ".")
	for i, l := range labels {
		for _, p := range c07IDNLabels {
			if l == p[0] {
				labels[i] = p[1]
			}
		}
	}

	return strings.Join(labels, ".")
}

// c07HostPool is the pool of question names (ASCII form, lower case).
var c07HostPool = []string{
	"example.org", "www.example.org", "test.example.org", "example.com", "cdn.example.com",
	"ads.tracker.net", "pixel.ads.tracker.net", "a.b.c.d.example.co.uk", "login.bank.example",
	"my-host.lan", "printer.local", "_dns.resolver.arpa", "10.1.168.192.in-addr.arpa",
	"api.shop.example.net", "static.shop.example.net", "video.stream.example.io",
	"xn--e1afmkfd.xn--p1ai", "www.xn--e1afmkfd.xn--p1ai", "xn--bcher-kva.example",
	"shop.xn--mnchen-3ya.de", "xn--r8jz45g.xn--zckzah", "mail.xn--bcher-kva.example",
	"t.co", "x.org", "org.example.zone", "example.organic", "1.1.1.1.nip.example",
}

var c07UpstreamPool = []string{
	"", "8.8.8.8:53", "1.1.1.1:53", "tls://dns.example.net:853",
	"https://dns.example/dns-query?a=1&b=<2>", "quic://[2001:db8::53]:853",
	`sdns://AQ"quoted\path`, "[/lan/]192.168.1.1:53", "h3://dns.example:443/dns-query",
}

var c07ClientIDPool = []string{"", "", "", "laptop", "kids-tablet", "cli-42", "tv", "phone-anna"}

var c07ProtoPool = []ClientProto{
	ClientProtoPlain, ClientProtoPlain, ClientProtoDoH, ClientProtoDoQ, ClientProtoDoT,
	ClientProtoDNSCrypt,
}

var c07IPPool = []string{
	"192.168.1.10", "192.168.1.11", "192.168.1.110", "10.0.0.5", "172.16.33.7", "8.8.4.4",
	"100.64.0.0", "2001:db8::1", "2001:db8:0:1::abcd", "fe80::1", "::1", "2a00:1450:4001:81b::200e",
}

var c07ClientNames = []string{
	"Anna Laptop", "living-room-tv", "Kids Tablet", "printer", "NAS box", "guest phone",
}

var c07RuleTexts = []string{
	"||ads.tracker.net^", "||tracker.net^$important", "@@||example.org^", "/banner[0-9]+/",
	"|example.com^$dnsrewrite=NOERROR;A;1.2.3.4", "0.0.0.0 pixel.ads.tracker.net",
	`||x.org^$client="Anna Laptop"`, "||shop.example.net^$dnstype=AAAA", "192.168.1.10 my-host.lan",
}

var c07Services = []string{"youtube", "tiktok", "facebook", "9gag"}

// c07World is the fixed environment of one history.
type c07World struct {
	hosts     []string
	ips       []net.IP
	clientIDs []string
	upstreams []string
	// clients is what FindClient answers, keyed by ClientID or IP string.
	clients map[string]*Client
	// big makes a part of the records long (1-15 KiB lines in the files).
	big bool
	// pad is the number of padding bytes added to the upstream string
	// (large-file histories).
	pad int
}

func c07NewWorld(rng *rand.Rand, pad int) (w *c07World) {
	w = &c07World{clients: map[string]*Client{}, pad: pad}
	nh := 4 + rng.Intn(14)
	perm := rng.Perm(len(c07HostPool))
	idn := false
	for _, i := range perm[:nh] {
		w.hosts = append(w.hosts, c07HostPool[i])
		idn = idn || strings.Contains(c07HostPool[i], "xn--")
	}
	if !idn {
		w.hosts = append(w.hosts, c07HostPool[16+rng.Intn(6)])
	}
	if rng.Intn(12) == 0 {
		w.hosts = append(w.hosts, ".")
	}

	ni := 2 + rng.Intn(7)
	for _, i := range rng.Perm(len(c07IPPool))[:ni] {
		ip := net.ParseIP(c07IPPool[i])
		if ip4 := ip.To4(); ip4 != nil && rng.Intn(2) == 0 {
			ip = ip4
		}
		w.ips = append(w.ips, ip)
	}
	if rng.Intn(4) == 0 {
		// IPv4-mapped IPv6 address in its 16-byte form.
		w.ips = append(w.ips, net.ParseIP("::ffff:203.0.113.9"))
	}

	nc := 2 + rng.Intn(5)
	for _, i := range rng.Perm(len(c07ClientIDPool))[:nc] {
		w.clientIDs = append(w.clientIDs, c07ClientIDPool[i])
	}
	w.clientIDs = append(w.clientIDs, "")

	nu := 2 + rng.Intn(5)
	for _, i := range rng.Perm(len(c07UpstreamPool))[:nu] {
		w.upstreams = append(w.upstreams, c07UpstreamPool[i])
	}

	names := rng.Perm(len(c07ClientNames))
	k := 0
	for _, id := range w.clientIDs {
		if id != "" && rng.Intn(2) == 0 && k < len(names) {
			w.clients[id] = &Client{Name: c07ClientNames[names[k]]}
			k++
		}
	}
	for _, ip := range w.ips {
		if rng.Intn(3) == 0 && k < len(names) {
			c := &Client{Name: c07ClientNames[names[k]]}
			k++
			switch rng.Intn(4) {
			case 0:
				c.WHOIS = &whois.Info{Country: "DE", Orgname: "Example GmbH"}
			case 1:
				c.Disallowed, c.DisallowedRule = true, ip.String()
			}
			w.clients[ip.String()] = c
		}
	}

	return w
}

// findClient is the FindClient callback of the history: the first id that is
// known wins (ClientID comes first).
func (w *c07World) findClient(ids []string) (c *Client, err error) {
	for _, id := range ids {
		if cl, ok := w.clients[id]; ok {
			return cl, nil
		}
	}

	return nil, nil
}

// c07Rule is a rule as the API shows it.
type c07Rule struct {
	ID   int64  `json:"filter_list_id"`
	Text string `json:"text"`
}

// c07Ans is an answer record as the API shows it.
type c07Ans struct {
	Type  string `json:"type"`
	Value string `json:"value"`
	TTL   uint32 `json:"ttl"`
}

// c07Entry is the shadow of one recorded query: what was handed to Add, in the
// terms of the API.
type c07Entry struct {
	Idx        int
	T          time.Time
	Nano       int64
	Host       string
	Uni        string
	QType      string
	QClass     string
	IP         net.IP
	IPStr      string
	CID        string
	Proto      string
	ECS        string
	Upstream   string
	Elapsed    time.Duration
	Cached     bool
	AD         bool
	Reason     int
	IsFiltered bool
	// Consistent is true if IsFiltered agrees with the family of the reason
	// (always true for the rewrite reasons).
	Consistent bool
	Rules      []c07Rule
	Service    string
	HasAnswer  bool
	Status     string
	AnsAD      bool
	Answer     []c07Ans
	Orig       []c07Ans
	Client     *Client

	// seen is the canonical JSON the API returned for the entry, by
	// anonymisation flag at the time of the request; seenLoc is where the
	// entry was then.
	seen    [2]string
	seenLoc [2]string
	// seq numbers the entries of a history in the order they became live.
	seq int
}

func (e *c07Entry) String() string {
	return fmt.Sprintf("#%d T=%s %s %s ip=%s cid=%q proto=%q reason=%s filtered=%v rules=%d",
		e.Idx, e.T.Format(time.RFC3339Nano), e.Host, e.QType, e.IPStr, e.CID, e.Proto,
		c07ReasonNames[e.Reason], e.IsFiltered, len(e.Rules))
}

func c07AnsFromMsg(m *dns.Msg) (out []c07Ans) {
	// The message is taken through its wire form, as the log does.
	b, err := m.Pack()
	if err != nil {
		return nil
	}
	u := &dns.Msg{}
	if err = u.Unpack(b); err != nil {
		return nil
	}
	for _, rr := range u.Answer {
		h := rr.Header()
		out = append(out, c07Ans{
			Type:  dns.TypeToString[h.Rrtype],
			Value: strings.TrimPrefix(rr.String(), h.String()),
			TTL:   h.Ttl,
		})
	}

	return out
}

func c07RandAnswer(rng *rand.Rand, q dns.Question, rcode int, blocked bool) (m *dns.Msg) {
	m = &dns.Msg{}
	m.Id = uint16(rng.Intn(65536))
	m.Response = true
	m.RecursionAvailable = true
	m.Rcode = rcode
	m.Question = []dns.Question{q}
	if rng.Intn(6) == 0 {
		m.AuthenticatedData = true
	}
	if rcode != dns.RcodeSuccess {
		return m
	}
	hdr := func(t uint16) dns.RR_Header {
		return dns.RR_Header{Name: q.Name, Rrtype: t, Class: dns.ClassINET, Ttl: uint32(rng.Intn(86400))}
	}
	n := rng.Intn(4)
	if blocked {
		n = 1
	}
	for i := 0; i < n; i++ {
		switch q.Qtype {
		case dns.TypeAAAA:
			ip := net.ParseIP(fmt.Sprintf("2001:db8::%x", 1+rng.Intn(65000)))
			if rng.Intn(2) == 0 {
				// Every form of address an AAAA record can hold.
				ip = net.ParseIP(c07V6Forms[rng.Intn(len(c07V6Forms))]).To16()
			}
			if blocked {
				ip = net.IPv6zero
			}
			m.Answer = append(m.Answer, &dns.AAAA{Hdr: hdr(dns.TypeAAAA), AAAA: ip})
		case dns.TypeTXT:
			m.Answer = append(m.Answer, &dns.TXT{Hdr: hdr(dns.TypeTXT), Txt: []string{`v=spf1 "quoted" -all`, "second"}})
		case dns.TypeMX:
			m.Answer = append(m.Answer, &dns.MX{Hdr: hdr(dns.TypeMX), Preference: uint16(10 * (i + 1)), Mx: "mail.example.net."})
		case dns.TypePTR:
			m.Answer = append(m.Answer, &dns.PTR{Hdr: hdr(dns.TypePTR), Ptr: "my-host.lan."})
		case dns.TypeHTTPS:
			m.Answer = append(m.Answer, &dns.HTTPS{SVCB: dns.SVCB{Hdr: hdr(dns.TypeHTTPS), Priority: 1, Target: ".",
				Value: []dns.SVCBKeyValue{&dns.SVCBAlpn{Alpn: []string{"h2", "h3"}}}}})
		default:
			if i == 0 && n > 1 && rng.Intn(2) == 0 {
				m.Answer = append(m.Answer, &dns.CNAME{Hdr: hdr(dns.TypeCNAME), Target: "edge.cdn.example.net."})

				continue
			}
			ip := net.IPv4(byte(1+rng.Intn(222)), byte(rng.Intn(256)), byte(rng.Intn(256)), byte(1+rng.Intn(254)))
			if rng.Intn(6) == 0 {
				ip = net.ParseIP([]string{"192.0.2.1", "255.255.255.255", "127.0.0.1", "169.254.1.1", "10.0.0.0"}[rng.Intn(5)])
			}
			if blocked {
				ip = net.IPv4zero
			}
			m.Answer = append(m.Answer, &dns.A{Hdr: hdr(dns.TypeA), A: ip})
		}
	}

	return m
}

// c07V6Forms are IPv6 addresses in every form: IPv4-mapped, IPv4-compatible,
// unspecified, loopback, zero-compressed in several places, link-local, full.
var c07V6Forms = []string{
	"::ffff:192.0.2.1", "::ffff:10.0.0.1", "::ffff:0.0.0.0", "::192.0.2.1", "::0.0.1.0", "::", "::1",
	"2001:db8::1", "2001:db8:0:0:1::1", "2001:db8::1:0:0:1", "2001:0:0:1::", "fe80::1", "fe80::a:b:c:d",
	"2001:db8:1:2:3:4:5:6", "64:ff9b::192.0.2.33", "ff02::fb",
}

var c07QTypes = []uint16{
	dns.TypeA, dns.TypeA, dns.TypeA, dns.TypeAAAA, dns.TypeAAAA, dns.TypeHTTPS, dns.TypeTXT, dns.TypeMX,
	dns.TypePTR, 65280,
}

// c07Gen generates one query to record and its shadow (without the time).
func c07Gen(rng *rand.Rand, w *c07World, idx int) (p *AddParams, e *c07Entry) {
	host := w.hosts[rng.Intn(len(w.hosts))]
	qname := host
	if qname != "." {
		qname += "."
	}
	if rng.Intn(5) == 0 {
		// Names arrive in whatever letter case the client used.
		cut := 1 + rng.Intn(len(qname))
		qname = strings.ToUpper(qname[:cut]) + qname[cut:]
	}
	q := dns.Question{Name: qname, Qtype: c07QTypes[rng.Intn(len(c07QTypes))], Qclass: dns.ClassINET}
	if strings.HasSuffix(host, ".arpa") && rng.Intn(2) == 0 {
		q.Qtype = dns.TypePTR
	}
	switch rng.Intn(25) {
	case 0:
		q.Qclass = dns.ClassCHAOS
	case 1:
		q.Qclass = 4242
	}

	ip := w.ips[rng.Intn(len(w.ips))]
	e = &c07Entry{
		Idx:    idx,
		Host:   strings.ToLower(strings.TrimSuffix(qname, ".")),
		QType:  dns.Type(q.Qtype).String(),
		QClass: dns.Class(q.Qclass).String(),
		IP:     ip,
		IPStr:  ip.String(),
		CID:    w.clientIDs[rng.Intn(len(w.clientIDs))],
	}
	if qname == "." {
		e.Host = "."
	}
	if uni, ok := c07ToUnicode(e.Host); ok {
		e.Uni = uni
	}
	proto := c07ProtoPool[rng.Intn(len(c07ProtoPool))]
	if e.CID != "" && proto == ClientProtoPlain {
		proto = ClientProtoDoT
	}
	e.Proto = string(proto)
	e.Upstream = w.upstreams[rng.Intn(len(w.upstreams))]
	if w.pad > 0 {
		e.Upstream += "#" + strings.Repeat("p", w.pad/2+rng.Intn(w.pad))
	}
	switch rng.Intn(4) {
	case 0:
		e.Elapsed = time.Duration(rng.Intn(1000))
	case 1:
		e.Elapsed = time.Duration(rng.Int63n(int64(5 * time.Second)))
	default:
		e.Elapsed = time.Duration(rng.Intn(200)) * time.Millisecond / 8
	}
	e.Cached = rng.Intn(4) == 0
	if e.Cached {
		e.Upstream = w.upstreams[0]
	}
	e.AD = rng.Intn(8) == 0

	p = &AddParams{
		Question:          &dns.Msg{Question: []dns.Question{q}},
		ClientID:          e.CID,
		ClientProto:       proto,
		ClientIP:          ip,
		Upstream:          e.Upstream,
		Elapsed:           e.Elapsed,
		Cached:            e.Cached,
		AuthenticatedData: e.AD,
	}
	if rng.Intn(5) == 0 {
		var n *net.IPNet
		if rng.Intn(2) == 0 {
			_, n, _ = net.ParseCIDR(fmt.Sprintf("198.51.%d.0/24", rng.Intn(256)))
		} else {
			_, n, _ = net.ParseCIDR(fmt.Sprintf("2001:db8:%x::/48", rng.Intn(65536)))
		}
		p.ReqECS = n
		e.ECS = n.String()
	}

	// Filtering result.
	reason := 0
	if rng.Intn(10) >= 4 {
		reason = rng.Intn(len(c07ReasonNames))
	}
	e.Reason = reason
	family := reason >= 3 && reason <= 8
	rewritten := reason >= 9
	e.IsFiltered = family
	e.Consistent = true
	if rewritten {
		e.IsFiltered = rng.Intn(2) == 0
	} else if rng.Intn(20) == 0 {
		e.IsFiltered = !e.IsFiltered
		e.Consistent = false
	}
	res := &filtering.Result{Reason: filtering.Reason(reason), IsFiltered: e.IsFiltered}
	nRules := 0
	switch {
	case reason == int(filtering.NotFilteredNotFound), reason == int(filtering.NotFilteredError):
		nRules = 0
	case reason == int(filtering.FilteredSafeSearch):
		// Safe search results carry a rule without text.
		res.Rules = []*filtering.ResultRule{{FilterListID: rulelist.URLFilterIDSafeSearch, IP: netip.MustParseAddr("216.239.38.120")}}
		e.Rules = []c07Rule{{ID: int64(rulelist.URLFilterIDSafeSearch)}}
	case reason == int(filtering.FilteredSafeBrowsing), reason == int(filtering.FilteredParental):
		nRules = rng.Intn(2)
	default:
		nRules = 1 + rng.Intn(3)
	}
	for i := 0; i < nRules; i++ {
		r := &filtering.ResultRule{
			FilterListID: rulelist.URLFilterID(rng.Intn(6)),
			Text:         c07RuleTexts[rng.Intn(len(c07RuleTexts))],
		}
		if rng.Intn(6) == 0 {
			r.FilterListID = rulelist.URLFilterID(1600000000 + rng.Intn(1000))
		}
		if reason == int(filtering.RewrittenAutoHosts) {
			r.FilterListID = rulelist.URLFilterIDEtcHosts
			r.IP = netip.MustParseAddr("192.168.1.10")
		}
		res.Rules = append(res.Rules, r)
		e.Rules = append(e.Rules, c07Rule{ID: int64(r.FilterListID), Text: r.Text})
	}
	switch filtering.Reason(reason) {
	case filtering.FilteredBlockedService:
		res.ServiceName = c07Services[rng.Intn(len(c07Services))]
		e.Service = res.ServiceName
	case filtering.Rewritten:
		if rng.Intn(2) == 0 {
			res.CanonName = "edge.cdn.example.net"
		}
		res.IPList = []netip.Addr{netip.MustParseAddr("10.9.8.7"), netip.MustParseAddr("2001:db8::77")}[:1+rng.Intn(2)]
	case filtering.RewrittenAutoHosts:
		if rng.Intn(2) == 0 {
			res.DNSRewriteResult = &filtering.DNSRewriteResult{RCode: dns.RcodeSuccess,
				Response: filtering.DNSRewriteResultResponse{dns.TypePTR: []rules.RRValue{"my-host.lan."}}}
		} else {
			res.IPList = []netip.Addr{netip.MustParseAddr("192.168.1.10")}
		}
	case filtering.RewrittenRule:
		resp := filtering.DNSRewriteResultResponse{}
		switch rng.Intn(5) {
		case 0:
			resp[dns.TypeA] = []rules.RRValue{netip.MustParseAddr("1.2.3.4"), netip.MustParseAddr("1.2.3.5")}
		case 1:
			resp[dns.TypeAAAA] = []rules.RRValue{netip.MustParseAddr("2001:db8::4")}
			resp[dns.TypeTXT] = []rules.RRValue{`he said "hi" {x}`}
		case 2:
			resp[dns.TypeMX] = []rules.RRValue{&rules.DNSMX{Exchange: "mail.example.net", Preference: 10}}
		case 3:
			resp[dns.TypeHTTPS] = []rules.RRValue{&rules.DNSSVCB{Target: "svc.example.net", Priority: 1,
				Params: map[string]string{"alpn": "h3", "port": "8443"}}}
		default:
		}
		res.DNSRewriteResult = &filtering.DNSRewriteResult{Response: resp}
		if rng.Intn(3) == 0 {
			res.DNSRewriteResult.RCode = dns.RcodeNameError
		}
	default:
	}
	if reason == 0 && rng.Intn(10) == 0 {
		// The result is optional.
		res = nil
	}
	p.Result = res

	// Answers.
	if rng.Intn(10) != 0 {
		rcode := dns.RcodeSuccess
		blocked := family && reason != int(filtering.FilteredSafeSearch)
		switch {
		case blocked && rng.Intn(3) == 0:
			rcode = []int{dns.RcodeNameError, dns.RcodeRefused}[rng.Intn(2)]
		case !blocked && rng.Intn(8) == 0:
			rcode = []int{dns.RcodeNameError, dns.RcodeServerFailure, dns.RcodeRefused, dns.RcodeNotImplemented}[rng.Intn(4)]
		}
		p.Answer = c07RandAnswer(rng, q, rcode, blocked)
		if _, err := p.Answer.Pack(); err == nil {
			e.HasAnswer = true
			e.Status = dns.RcodeToString[rcode]
			e.AnsAD = p.Answer.AuthenticatedData
			e.Answer = c07AnsFromMsg(p.Answer)
		}
		if (family || rewritten) && rng.Intn(3) == 0 {
			p.OrigAnswer = c07RandAnswer(rng, q, dns.RcodeSuccess, false)
			e.Orig = c07AnsFromMsg(p.OrigAnswer)
		}
	}

	if w.big && rng.Intn(5) == 0 {
		c07Inflate(rng, p, e, q)
	}

	e.Client, _ = w.findClient(c07IDs(e.CID, e.IPStr))

	return p, e
}

// c07Inflate makes the record long: its line in the file gets 1.5 to 14.5 KiB,
// below the 16 KiB the file reader is built for.
func c07Inflate(rng *rand.Rand, p *AddParams, e *c07Entry, q dns.Question) {
	// Bytes to add to the line.
	var n int
	switch rng.Intn(3) {
	case 0:
		n = 1200 + rng.Intn(2000)
	case 1:
		n = 3000 + rng.Intn(5000)
	default:
		n = 8000 + rng.Intn(5500)
	}
	kind := rng.Intn(4)
	if (kind <= 1) && (p.Answer == nil || p.Answer.Rcode != dns.RcodeSuccess) {
		kind = 3
	}
	if kind == 2 && (p.Result == nil || len(p.Result.Rules) == 0 || p.Result.Rules[0].Text == "") {
		kind = 3
	}
	switch kind {
	case 0:
		// A big TXT answer.  The packed answer is stored in base64.
		raw := n * 3 / 4
		for raw > 0 {
			var txt []string
			for k := 0; k < 8 && raw > 0; k++ {
				l := min(raw, 60+rng.Intn(195))
				txt = append(txt, strings.Repeat(string(rune('a'+rng.Intn(26))), l))
				raw -= l + 1
			}
			p.Answer.Answer = append(p.Answer.Answer, &dns.TXT{
				Hdr: dns.RR_Header{Name: q.Name, Rrtype: dns.TypeTXT, Class: dns.ClassINET, Ttl: 60}, Txt: txt})
			raw -= len(q.Name) + 12
		}
	case 1:
		// An answer of many address records.
		raw := n * 3 / 4
		for raw > 0 {
			ip := net.ParseIP(c07V6Forms[rng.Intn(len(c07V6Forms))]).To16()
			p.Answer.Answer = append(p.Answer.Answer, &dns.AAAA{
				Hdr: dns.RR_Header{Name: q.Name, Rrtype: dns.TypeAAAA, Class: dns.ClassINET, Ttl: uint32(rng.Intn(3600))}, AAAA: ip})
			raw -= len(q.Name) + 28
		}
	case 2:
		// A long rule text.
		p.Result.Rules[0].Text += "$denyallow=" + strings.Repeat("x"+strconv.Itoa(rng.Intn(10))+".example|", n/11)
		e.Rules[0].Text = p.Result.Rules[0].Text
	default:
		p.Upstream = "https://dns.example/dns-query?token=" + strings.Repeat(strconv.Itoa(rng.Intn(10)), n)
		e.Upstream = p.Upstream
	}
	if kind <= 1 {
		if _, err := p.Answer.Pack(); err == nil {
			e.Answer = c07AnsFromMsg(p.Answer)
		}
	}
}

func c07IDs(cid, ip string) (ids []string) {
	if cid != "" {
		ids = append(ids, cid)
	}

	return append(ids, ip)
}

// c07Mask is the monitor's own statement of the anonymisation: the last two
// bytes of an IPv4 address and the last ten bytes of an IPv6 address are zero.
func c07Mask(ip net.IP) (m net.IP) {
	if ip4 := ip.To4(); ip4 != nil {
		return net.IPv4(ip4[0], ip4[1], 0, 0)
	}
	m = make(net.IP, net.IPv6len)
	copy(m, ip[:6])

	return m
}

// c07Canon renders v as canonical JSON (sorted keys, numbers verbatim).
func c07Canon(v any) string {
	b, err := json.Marshal(v)
	if err != nil {
		return fmt.Sprintf("!marshal:%v", err)
	}
	d := json.NewDecoder(bytes.NewReader(b))
	d.UseNumber()
	var x any
	if err = d.Decode(&x); err != nil {
		return fmt.Sprintf("!decode:%v", err)
	}
	b, _ = json.Marshal(x)

	return string(b)
}

// expect returns what the API must show for the entry; the time and the
// elapsed time are compared separately.
func (e *c07Entry) expect(anon bool) (m map[string]any, infoOptional bool) {
	q := map[string]any{"type": e.QType, "class": e.QClass, "name": e.Host}
	if e.Uni != "" {
		q["unicode_name"] = e.Uni
	}
	client := e.IPStr
	showInfo := true
	if anon {
		mk := c07Mask(e.IP)
		client = mk.String()
		showInfo = mk.Equal(e.IP)
	}
	rulesJSON := make([]any, 0, len(e.Rules))
	for _, r := range e.Rules {
		rulesJSON = append(rulesJSON, r)
	}
	m = map[string]any{
		"reason":       c07ReasonNames[e.Reason],
		"client":       client,
		"client_proto": e.Proto,
		"cached":       e.Cached,
		"upstream":     e.Upstream,
		"question":     q,
		"rules":        rulesJSON,
	}
	if showInfo {
		if e.Client == nil {
			m["client_info"] = nil
		} else {
			ci := map[string]any{
				"name":            e.Client.Name,
				"disallowed_rule": e.Client.DisallowedRule,
				"disallowed":      e.Client.Disallowed,
			}
			if wi := e.Client.WHOIS; wi != nil {
				wm := map[string]any{}
				if wi.City != "" {
					wm["city"] = wi.City
				}
				if wi.Country != "" {
					wm["country"] = wi.Country
				}
				if wi.Orgname != "" {
					wm["orgname"] = wi.Orgname
				}
				ci["whois"] = wm
			}
			m["client_info"] = ci
		}
	}
	if e.CID != "" {
		m["client_id"] = e.CID
	}
	if e.ECS != "" {
		m["ecs"] = e.ECS
	}
	if len(e.Rules) > 0 && e.Rules[0].Text != "" {
		m["rule"] = e.Rules[0].Text
		m["filterId"] = e.Rules[0].ID
	}
	if e.Service != "" {
		m["service_name"] = e.Service
	}
	if e.HasAnswer {
		m["status"] = e.Status
		m["answer_dnssec"] = e.AD || e.AnsAD
		if len(e.Answer) > 0 {
			m["answer"] = e.Answer
		}
	}
	if len(e.Orig) > 0 {
		m["original_answer"] = e.Orig
	}

	return m, anon
}

// compare checks the JSON object the API returned against the recorded
// query.  It returns the name of the first differing field, or "".
func (e *c07Entry) compare(got map[string]any, anon bool) (field, want, have string) {
	exp, _ := e.expect(anon)
	for k, gv := range got {
		switch k {
		case "time":
			s, _ := gv.(string)
			t, err := time.Parse(time.RFC3339Nano, s)
			if err != nil || t.UnixNano() != e.Nano {
				return "time", e.T.Format(time.RFC3339Nano), s
			}
		case "elapsedMs":
			s, _ := gv.(string)
			f, err := strconv.ParseFloat(s, 64)
			w := float64(e.Elapsed) / 1e6
			if err != nil || math.Abs(f-w) > 1e-9*math.Max(1, math.Abs(w)) {
				return "elapsedMs", strconv.FormatFloat(w, 'f', -1, 64), s
			}
		case "answer", "original_answer":
			ev, ok := exp[k]
			if !ok {
				return k, "(absent)", c07Trunc(c07Canon(gv), 300)
			}
			if w, h, same := c07SameAnswers(ev, gv); !same {
				return k, w, h
			}
		default:
			ev, ok := exp[k]
			if !ok {
				return k, "(absent)", c07Canon(gv)
			}
			if a, b := c07Canon(ev), c07Canon(gv); a != b {
				return k, a, b
			}
		}
	}
	for k, ev := range exp {
		if _, ok := got[k]; !ok {
			if k == "client_info" && anon {
				continue
			}

			return k, c07Canon(ev), "(absent)"
		}
	}
	for _, k := range []string{"time", "elapsedMs"} {
		if _, ok := got[k]; !ok {
			return k, "(present)", "(absent)"
		}
	}

	return "", "", ""
}

// c07SameAnswers compares the answer records the API returned with the
// recorded ones.  Address records are compared as addresses, so that another
// spelling of the same address is accepted while another address is not (an
// IPv4-mapped IPv6 address is not its IPv4 address); everything else must be
// equal as text.
func c07SameAnswers(want, got any) (w, h string, same bool) {
	exp, _ := want.([]c07Ans)
	list, ok := got.([]any)
	if !ok || len(list) != len(exp) {
		return fmt.Sprintf("%d records", len(exp)), c07Trunc(c07Canon(got), 300), false
	}
	for i, x := range list {
		m, _ := x.(map[string]any)
		typ, _ := m["type"].(string)
		val, _ := m["value"].(string)
		ttl, _ := m["ttl"].(json.Number)
		bad := len(m) != 3 || typ != exp[i].Type || ttl.String() != strconv.FormatUint(uint64(exp[i].TTL), 10)
		if !bad {
			if typ == "A" || typ == "AAAA" {
				a, aerr := netip.ParseAddr(exp[i].Value)
				b, berr := netip.ParseAddr(val)
				bad = aerr != nil || berr != nil || a != b
			} else {
				bad = val != exp[i].Value
			}
		}
		if bad {
			return fmt.Sprintf("record %d: %s", i, c07Trunc(c07Canon(exp[i]), 300)), fmt.Sprintf("record %d: %s", i, c07Trunc(c07Canon(x), 300)), false
		}
	}

	return "", "", true
}

// c07Term is a search term with the oracle's reading of it.
type c07Term struct {
	// Raw is the value of the search parameter.
	Raw string
	// Value is the term without the quotes; ASCII is its punycode form if
	// it differs.
	Value  string
	ASCII  string
	Strict bool
	Kind   string
}

// match tells whether the entry satisfies the term: the term equals (strict)
// or is contained in (otherwise) the question name (also in its punycode
// form), the ClientID, the client address or the client name.  Question names
// are compared without regard to letter case, as DNS names are.  For the other
// values fold selects the comparison: without it only a match in the same
// letter case counts (certain under any reading), with it any letter case
// does (what the product aims at).  withClient=false leaves the address and
// the name out.
func (t *c07Term) match(e *c07Entry, withClient, fold bool) bool {
	test := func(field, term string, foldThis bool) bool {
		if term == "" {
			return false
		}
		if foldThis {
			field, term = strings.ToLower(field), strings.ToLower(term)
		}
		if t.Strict {
			return field == term
		}

		return strings.Contains(field, term)
	}
	if test(e.Host, t.Value, true) || test(e.Host, t.ASCII, true) || test(e.CID, t.Value, fold) {
		return true
	}
	if !withClient {
		return false
	}
	name := ""
	if e.Client != nil {
		name = e.Client.Name
	}

	return test(e.IPStr, t.Value, fold) || test(name, t.Value, fold)
}

// c07StatusMustMay is the oracle's reading of the response_status values:
// must = entries the filter certainly selects, may = entries it may select.
func c07StatusMustMay(status string, e *c07Entry) (must, may bool) {
	r := e.Reason
	family := r >= 3 && r <= 8
	rewritten := r >= 9
	one := func(x int) (bool, bool) { return r == x && e.IsFiltered, r == x }
	switch status {
	case "all":
		return true, true
	case "whitelisted":
		return r == 1, r == 1
	case "rewritten":
		return rewritten, rewritten
	case "blocked_safebrowsing":
		return one(4)
	case "blocked_parental":
		return one(5)
	case "safe_search":
		return one(7)
	case "blocked_services":
		return one(8)
	case "blocked":
		return (r == 3 || r == 8) && e.IsFiltered, family
	case "filtered":
		return family && e.IsFiltered, !((r == 0 || r == 2) && !e.IsFiltered)
	case "processed":
		return (r == 0 || r == 2 || rewritten) && e.Consistent, !(r == 3 || r == 8 || r == 1)
	default:
		return false, false
	}
}

var c07Statuses = []string{"all", "filtered", "blocked", "blocked_services", "blocked_safebrowsing",
	"blocked_parental", "whitelisted", "rewritten", "safe_search", "processed"}

// c07RandTerm draws a search term aimed at the recorded entries.
func c07RandTerm(rng *rand.Rand, w *c07World, live []*c07Entry) (t c07Term) {
	e := live[rng.Intn(len(live))]
	quote := func(s string) string { return `"` + s + `"` }
	sub := func(s string) string {
		if len(s) <= 2 {
			return s
		}
		a := rng.Intn(len(s) - 1)
		b := a + 2 + rng.Intn(len(s)-a-1)
		if b > len(s) {
			b = len(s)
		}

		return s[a:b]
	}
	switch k := rng.Intn(18); {
	case k >= 16:
		// A quoted term that is only a part of a name, ClientID, address or
		// client name: it selects nothing unless another value equals it.
		fields := []string{e.Host, e.IPStr}
		if e.CID != "" {
			fields = append(fields, e.CID, e.CID)
		}
		if e.Client != nil {
			fields = append(fields, e.Client.Name)
		}
		f := fields[rng.Intn(len(fields))]
		v := sub(f)
		if len(f) > 3 && rng.Intn(2) == 0 {
			if rng.Intn(2) == 0 {
				v = f[:len(f)-1-rng.Intn(2)]
			} else {
				v = f[1+rng.Intn(2):]
			}
		}
		t = c07Term{Value: v, Strict: true, Kind: "quoted-part-of-a-value"}
	case k <= 2:
		t = c07Term{Value: sub(e.Host), Kind: "host-substring"}
	case k == 3:
		t = c07Term{Value: e.Host, Strict: true, Kind: "host-exact"}
	case k == 4 || k == 5:
		// IDN in Unicode form: a suffix made of whole labels.
		var idn *c07Entry
		for _, i := range rng.Perm(len(live)) {
			if live[i].Uni != "" {
				idn = live[i]

				break
			}
		}
		if idn == nil {
			t = c07Term{Value: sub(e.Host), Kind: "host-substring"}

			break
		}
		labels := strings.Split(idn.Uni, ".")
		from := rng.Intn(len(labels))
		uni := strings.Join(labels[from:], ".")
		if c07ToASCII(uni) == uni {
			uni = idn.Uni
		}
		t = c07Term{Value: uni, ASCII: c07ToASCII(uni), Strict: uni == idn.Uni && rng.Intn(2) == 0, Kind: "idn-unicode"}
		if rng.Intn(4) == 0 && !strings.ContainsAny(uni, "例テ") {
			t.Value = strings.ToUpper(uni)
		}
	case k == 6:
		var idn *c07Entry
		for _, i := range rng.Perm(len(live)) {
			if live[i].Uni != "" {
				idn = live[i]

				break
			}
		}
		if idn == nil {
			t = c07Term{Value: e.Host, Strict: true, Kind: "host-exact"}

			break
		}
		t = c07Term{Value: idn.Host, Strict: rng.Intn(2) == 0, Kind: "idn-ascii"}
		if !t.Strict {
			t.Value = sub(idn.Host)
		}
	case k == 7 || k == 8:
		cid := e.CID
		if cid == "" {
			cid = w.clientIDs[0]
		}
		if cid == "" {
			cid = "laptop"
		}
		t = c07Term{Value: cid, Strict: rng.Intn(2) == 0, Kind: "clientid"}
		if !t.Strict && rng.Intn(2) == 0 {
			t.Value = sub(cid)
		}
	case k == 9 || k == 10:
		name := c07ClientNames[rng.Intn(len(c07ClientNames))]
		if e.Client != nil {
			name = e.Client.Name
		}
		t = c07Term{Value: name, Strict: rng.Intn(2) == 0, Kind: "client-name"}
		if !t.Strict && rng.Intn(2) == 0 {
			t.Value = sub(name)
		}
	case k <= 13:
		t = c07Term{Value: e.IPStr, Strict: rng.Intn(2) == 0, Kind: "ip"}
		if !t.Strict && len(e.IPStr) > 4 {
			t.Value = e.IPStr[:2+rng.Intn(len(e.IPStr)-2)]
		}
	case k == 14:
		t = c07Term{Value: "zzqq" + strconv.Itoa(rng.Intn(1000)), Strict: rng.Intn(2) == 0, Kind: "no-match"}
	default:
		// A label that occurs in several names.
		t = c07Term{Value: []string{"example", "org", ".net", "xn--", "tracker", "shop."}[rng.Intn(6)], Kind: "host-substring"}
	}
	if rng.Intn(4) == 0 && t.Kind != "idn-unicode" {
		t.Value = strings.ToUpper(t.Value)
	}
	for _, l := range strings.Split(strings.ToLower(t.Value), ".") {
		if l == "xn--" && t.Kind != "idn-unicode" {
			// A cut through a punycode label right after its prefix.
			t.Kind = "ascii-term-with-bare-xn--label"
		}
	}
	t.Raw = t.Value
	if t.Strict {
		t.Raw = quote(t.Value)
	}

	return t
}

// c07Simple builds a minimal query (no answer, no ECS) and its shadow.
func c07Simple(w *c07World, idx int, host, ip, cid string, blocked bool) (p *AddParams, e *c07Entry) {
	nip := net.ParseIP(ip)
	if ip4 := nip.To4(); ip4 != nil {
		nip = ip4
	}
	q := dns.Question{Name: host + ".", Qtype: dns.TypeA, Qclass: dns.ClassINET}
	e = &c07Entry{
		Idx: idx, Host: host, QType: "A", QClass: "IN", IP: nip, IPStr: nip.String(), CID: cid,
		Elapsed: time.Duration(1000 + idx%977), Consistent: true,
	}
	if uni, ok := c07ToUnicode(host); ok {
		e.Uni = uni
	}
	p = &AddParams{
		Question: &dns.Msg{Question: []dns.Question{q}},
		ClientID: cid,
		ClientIP: nip,
		Elapsed:  e.Elapsed,
	}
	if cid != "" {
		p.ClientProto = ClientProtoDoT
		e.Proto = string(ClientProtoDoT)
	}
	if blocked {
		e.Reason, e.IsFiltered = int(filtering.FilteredBlockList), true
		e.Rules = []c07Rule{{ID: 7, Text: "||" + host + "^"}}
		p.Result = &filtering.Result{Reason: filtering.FilteredBlockList, IsFiltered: true,
			Rules: []*filtering.ResultRule{{FilterListID: 7, Text: "||" + host + "^"}}}
	}
	e.Client, _ = w.findClient(c07IDs(cid, e.IPStr))

	return p, e
}
