//go:build verif

package querylog

import (
	"bytes"
	"context"
	"encoding/json"
	"fmt"
	"net"
	"net/http"
	"net/url"
	"os"
	"path/filepath"
	"runtime"
	"strconv"
	"sync/atomic"
	"time"

	"github.com/AdguardTeam/AdGuardHome/internal/verifkit"
)

// Overlapping flushes (concurrent part of C07).
//
// Interleaving point that the harness widens: the moment between "a flush has
// taken the records out of the buffer" and "the records are in the file".  In
// the program that moment is as long as the storage is slow, and every write
// takes the internal fileWriteLock first; the harness makes the storage slow by
// holding that mutex, exactly as a long write of another flush would.  While
// the first (automatic) flush waits there, more queries are recorded (no flush
// is pending any more: the flag was reset when the buffer was emptied, and the
// buffer has room), and then a second flush comes: the Shutdown of the service,
// or the next automatic flush.  The storage becomes available at about the
// same moment.  The program can do all of that by itself: a slow disk, a burst
// of queries, and a stop of the service or a full buffer.
//
// The oracle does not depend on which flush wins: at quiescence the file is in
// time order and paging returns everything recorded exactly once.

// c07oSess is one instance of the overlap rounds.
type c07oSess struct {
	*c07cSess
	// want are the question names recorded so far, oldest first.
	want []string
	last time.Time
}

// addNext records one query with a time stamp later than the previous one's.
func (o *c07oSess) addNext(host string) {
	for time.Since(o.last) < 2*time.Microsecond {
	}
	o.add(host, net.IP{10, 3, 0, byte(len(o.want))})
	o.last = time.Now()
	o.want = append(o.want, host)
}

// fileOrder returns the names and the times of the records of the two files,
// oldest file first.
func (o *c07oSess) fileOrder() (names []string, times []int64, ok bool) {
	for _, f := range []string{queryLogFileName + ".1", queryLogFileName} {
		b, err := os.ReadFile(filepath.Join(o.dir, f))
		if err != nil {
			continue
		}
		for _, line := range bytes.Split(bytes.TrimSpace(b), []byte("\n")) {
			if len(line) == 0 {
				continue
			}
			var rec struct {
				T  string
				QH string
			}
			if json.Unmarshal(line, &rec) != nil {
				return nil, nil, false
			}
			t, err := time.Parse(time.RFC3339Nano, rec.T)
			if err != nil {
				return nil, nil, false
			}
			names, times = append(names, rec.QH), append(times, t.UnixNano())
		}
	}

	return names, times, true
}

// walk pages through the whole log with the returned cursor.
func (o *c07oSess) walk(limit int) (names []string, ok bool) {
	cursor := ""
	for pages := 0; pages < len(o.want)+5; pages++ {
		q := url.Values{"limit": {strconv.Itoa(limit)}}
		if cursor != "" {
			q.Set("older_than", cursor)
		}
		code, body, cok := o.call("GET /control/querylog", q.Encode(), nil)
		if !cok || code != http.StatusOK {
			return nil, false
		}
		var resp struct {
			Oldest string `json:"oldest"`
			Data   []struct {
				Question struct {
					Name string `json:"name"`
				} `json:"question"`
			} `json:"data"`
		}
		if json.Unmarshal(body, &resp) != nil {
			return nil, false
		}
		for _, d := range resp.Data {
			names = append(names, d.Question.Name)
		}
		if resp.Oldest == "" || resp.Oldest == cursor {
			break
		}
		cursor = resp.Oldest
	}

	return names, true
}

// judge applies the two oracles to the quiescent state.  paging=false only
// checks the files.
func (o *c07oSess) judge(round int, paging bool, when string) (good bool) {
	names, times, ok := o.fileOrder()
	if !ok {
		o.rep.Violate("concurrent:file-unparsable", "a line of the log file is not a JSON record with a time", o.witness(map[string]any{"round": round}))

		return false
	}
	good = true
	for i := 1; i < len(times); i++ {
		if times[i] < times[i-1] {
			lo, hi := max(0, i-4), min(len(names), i+4)
			o.rep.Violate("concurrent:file-out-of-time-order",
				fmt.Sprintf("record %d of the log file is older than the record before it", i),
				o.witness(map[string]any{"round": round, "when": when, "file_position": i,
					"records_around_there_in_file_order": names[lo:hi],
					"recorded_in_this_order":             o.want[max(0, len(o.want)-12):]}))
			good, paging = false, true

			break
		}
	}
	o.rep.Event("overlap_file_order_checks")
	if !paging {
		return good
	}
	for _, limit := range []int{2, 3} {
		got, wok := o.walk(limit)
		if !wok {
			return false
		}
		o.rep.Event("overlap_paging_walks")
		same := len(got) == len(o.want)
		for i := 0; same && i < len(got); i++ {
			same = got[i] == o.want[len(o.want)-1-i]
		}
		if same {
			continue
		}
		count := map[string]int{}
		for _, n := range got {
			count[n]++
		}
		var missing, twice []string
		for _, w := range o.want {
			switch c := count[w]; {
			case c == 0:
				missing = append(missing, w)
			case c > 1:
				twice = append(twice, w)
			}
		}
		o.rep.Violate("concurrent:paging-lost-or-duplicated-entries",
			fmt.Sprintf("paging through the log with limit=%d and the returned older_than cursor does not return every recorded entry once, newest first", limit),
			o.witness(map[string]any{"round": round, "when": when, "limit": limit, "recorded": len(o.want), "returned": len(got),
				"missing": missing, "returned_twice": twice, "first_entries_returned": got[:min(len(got), 12)],
				"last_entries_recorded": o.want[max(0, len(o.want)-12):]}))

		return false
	}

	return good
}

// listedAny tells whether the listing holds one of the names.
func (o *c07oSess) listedAny(names []string) (any, ok bool) {
	got, ok := o.list()
	if !ok {
		return false, false
	}
	set := map[string]bool{}
	for _, n := range names {
		set[n] = true
	}
	for _, g := range got {
		if set[g] {
			return true, true
		}
	}

	return false, true
}

// round runs one overlap round.  secondAuto selects the second flush: the next
// automatic one instead of Shutdown.  startFirst (only with several Ps) starts
// the second flush while the storage is still busy and frees the storage a
// little later; otherwise the storage is freed and the second flush is started
// right after, from the same goroutine.
func (o *c07oSess) round(round int, secondAuto, startFirst bool, jitter time.Duration) {
	m := int(o.memSize)
	// The storage is busy.
	o.l.fileWriteLock.Lock()
	locked := true
	unlock := func() {
		if locked {
			locked = false
			o.l.fileWriteLock.Unlock()
		}
	}
	defer unlock()

	var first []string
	for i := 0; i < m; i++ {
		h := fmt.Sprintf("r%d-a%d.example", round, i)
		first = append(first, h)
		o.addNext(h)
	}
	// The last record has filled the buffer: the automatic flush is on its
	// way.  Wait until it has taken the records out of the buffer (they are
	// then neither in memory nor in the file, so the API does not list them).
	deadline := time.Now().Add(3 * time.Second)
	for {
		listed, ok := o.listedAny(first)
		if !ok {
			o.failed.Store(true)

			return
		}
		if !listed {
			break
		}
		if time.Now().After(deadline) {
			o.rep.Unspec("overlap round discarded: the automatic flush did not take the records within 3 s")
			unlock()
			o.waitLines()

			return
		}
		time.Sleep(200 * time.Microsecond)
	}
	// Let it get to the write.
	time.Sleep(300 * time.Microsecond)

	// More queries: no flush is pending, the buffer is empty.
	nb := 1 + round%max(1, m-1)
	if secondAuto {
		nb = m - 1
	}
	for i := 0; i < nb; i++ {
		o.addNext(fmt.Sprintf("r%d-b%d.example", round, i))
	}
	lastB := fmt.Sprintf("r%d-b%d.example", round, nb)

	done := make(chan struct{})
	switch {
	case startFirst:
		// The second flush starts while the first one provably has not
		// written; the storage becomes available a moment later.
		var started atomic.Bool
		go func() {
			defer close(done)
			started.Store(true)
			if secondAuto {
				o.addNext(lastB)
			} else {
				_ = o.l.Shutdown(context.Background())
			}
		}()
		for !started.Load() {
			runtime.Gosched()
		}
		for t0 := time.Now(); time.Since(t0) < jitter; {
		}
		unlock()
	default:
		// The storage becomes available and the second flush starts at the
		// same moment.  The first flush has been woken up, but has not run
		// since: its write cannot have finished when the second one starts.
		unlock()
		if secondAuto {
			o.addNext(lastB)
		} else {
			_ = o.l.Shutdown(context.Background())
		}
		close(done)
	}
	<-done
	o.rep.Event("overlap_rounds_second_flush_started_before_first_write_finished")
	if secondAuto {
		o.rep.Event("overlap_rounds_second_flush_automatic")
	} else {
		o.rep.Event("overlap_rounds_second_flush_shutdown")
	}
	o.waitLines()
}

// waitLines waits until the file holds as many lines as records were recorded
// (bounded), then until it has stopped changing.
func (o *c07oSess) waitLines() {
	deadline := time.Now().Add(3 * time.Second)
	for o.fileLines() < len(o.want) && time.Now().Before(deadline) {
		time.Sleep(200 * time.Microsecond)
	}
	if o.fileLines() < len(o.want) {
		// Whatever is still buffered (a second batch smaller than the memory
		// size stays in memory when the second flush was an automatic one
		// that lost the race for the buffer) is written now.
		_ = o.l.Shutdown(context.Background())
		for o.fileLines() < len(o.want) && time.Now().Before(deadline) {
			time.Sleep(200 * time.Microsecond)
		}
	}
}

// c07cOverlap runs the overlap rounds.
func c07cOverlap(rep *verifkit.Report, base string) {
	rounds := verifkit.Pick(12, 60)
	rng := rep.Rand("overlap")
	si := 1000
	for _, oneP := range []bool{true, false} {
		for _, mem := range []uint{3, 5, 2} {
			si++
			dir, err := os.MkdirTemp(base, fmt.Sprintf("c07o-%d-", si))
			if err != nil {
				rep.Inconcl("mkdir: " + err.Error())

				return
			}
			o := &c07oSess{c07cSess: &c07cSess{rep: rep, id: si, dir: dir, memSize: mem}}
			if err = o.start(true); err != nil {
				rep.Inconcl("querylog.New: " + err.Error())

				return
			}
			rep.Class(fmt.Sprintf("overlap_session_mem_size_%d_one_P_%v", mem, oneP))
			prev := 0
			if oneP {
				// On one P the goroutine that frees the storage keeps
				// running, so the second flush reaches the storage before
				// the first one, which was only woken up.
				prev = runtime.GOMAXPROCS(1)
			}
			good := true
			for r := 0; r < rounds && good && !o.failed.Load(); r++ {
				secondAuto := mem > 2 && r%3 == 2
				startFirst := !oneP && r%2 == 1
				jitter := time.Duration(rng.Intn(80)) * time.Microsecond
				o.logf("round %d: overlap, second flush automatic=%v, started before the storage is free=%v (+%s), one P=%v",
					r, secondAuto, startFirst, jitter, oneP)
				o.round(r, secondAuto, startFirst, jitter)
				rep.Eval(true, fmt.Sprintf("overlap/%d/%d/%d", si, r, mem))
				good = o.judge(r, r%4 == 3 || r == rounds-1, "live")
			}
			if oneP {
				runtime.GOMAXPROCS(prev)
			}
			if good && !o.failed.Load() {
				// The same on a new instance.
				_ = o.l.Shutdown(context.Background())
				if err = o.start(true); err == nil {
					good = o.judge(rounds, true, "after-restart")
				}
			}
			_ = os.RemoveAll(dir)
			if !good || o.failed.Load() {
				return
			}
		}
	}
	if n := rep.EventCount("overlap_rounds_second_flush_started_before_first_write_finished"); n < 4*rounds {
		rep.Inconcl(fmt.Sprintf("only %d rounds with overlapping flushes", n))
	}
}
