//go:build verif

package querylog

import (
	"context"
	"errors"
	"fmt"
	"io"
	"math/rand"
	"os"
	"regexp"
	"runtime"
	"runtime/debug"
	"sort"
	"strings"
	"sync"
	"sync/atomic"
	"testing"
	"time"

	"github.com/AdguardTeam/AdGuardHome/internal/verifkit"
	"github.com/AdguardTeam/golibs/logutil/slogutil"
)

// c20Watchdog bounds one guarded call into the product.  It is far above
// anything a correct call needs (a seek reads a few dozen 32 KiB blocks, a
// sweep reads the file once); firing means the call does not return.
const c20Watchdog = 20 * time.Second

// c20Rec buffers what one case observed; the buffers are merged into the
// report in case order, so that a run is reproducible although cases are
// worked on by several goroutines.
type c20Rec struct {
	evalsTrivial int
	evals        []string
	classes      map[string]int
	events       map[string]int
	unspec       map[string]int
	viols        []verifkit.Violation
	maxDepth     int
	sample       any
	inconcl      []string
	hung         bool
}

func c20NewRec() *c20Rec {
	return &c20Rec{classes: map[string]int{}, events: map[string]int{}, unspec: map[string]int{}}
}

func (r *c20Rec) violate(key, what string, w any) {
	r.viols = append(r.viols, verifkit.Violation{Key: key, What: what, Witness: w})
}

// c20Guard runs f in its own goroutine and waits for it for at most d.
func c20Guard(d time.Duration, f func()) (hung bool, pv any, stack string) {
	type res struct {
		pv    any
		stack string
	}
	ch := make(chan res, 1)
	go func() {
		var r res
		defer func() { ch <- r }()
		defer func() {
			if p := recover(); p != nil {
				r.pv = p
				r.stack = string(debug.Stack())
			}
		}()
		f()
	}()
	tm := time.NewTimer(d)
	defer tm.Stop()
	select {
	case r := <-ch:
		return false, r.pv, r.stack
	case <-tm.C:
		return true, nil, ""
	}
}

var c20Digits = regexp.MustCompile(`[0-9]+`)

func c20ErrClass(err error) string {
	switch {
	case err == nil:
		return "success"
	case errors.Is(err, errTSNotFound):
		return "not-found"
	case errors.Is(err, errTSTooEarly):
		return "too-early"
	case errors.Is(err, errTSTooLate):
		return "too-late"
	case errors.Is(err, io.EOF):
		return "eof"
	default:
		return "other"
	}
}

func c20IsTSClass(c string) bool { return c == "not-found" || c == "too-early" || c == "too-late" }

func c20Clip(s string) string {
	if len(s) <= 160 {
		return s
	}
	return fmt.Sprintf("%s...(%d bytes)...%s", s[:90], len(s), s[len(s)-50:])
}

func c20ErrStr(err error) string {
	if err == nil {
		return "<nil>"
	}
	return c20Clip(err.Error())
}

// c20Mon is the monitor of one case.
type c20Mon struct {
	c     *c20Case
	rec   *c20Rec
	rng   *rand.Rand
	ctx   context.Context
	canon string
	nt    bool
	dead  bool // a guarded call hung or panicked: the objects are unusable
	// noLocus makes compare leave the place of the difference out of the key.
	noLocus bool
}

func (m *c20Mon) eval(op string) {
	if m.nt {
		m.rec.evals = append(m.rec.evals, m.canon+"|"+op)
	} else {
		m.rec.evalsTrivial++
	}
}

// guard runs f under the watchdog; a hang or a panic is a violation.
func (m *c20Mon) guard(op string, wit map[string]any, f func()) bool {
	hung, pv, stack := c20Guard(c20Watchdog, f)
	if hung {
		m.dead = true
		m.rec.hung = true
		key := "seek-hang"
		if strings.HasPrefix(op, "sweep") {
			key = "sweep-hang"
		}
		wit["case"] = m.c.describe()
		wit["operation"] = op
		m.rec.violate(key, fmt.Sprintf("%s did not return within %s", op, c20Watchdog), wit)
		return false
	}
	if pv != nil {
		m.dead = true
		msg := c20Digits.ReplaceAllString(fmt.Sprint(pv), "N")
		if len(msg) > 80 {
			msg = msg[:80]
		}
		wit["case"] = m.c.describe()
		wit["operation"] = op
		wit["panic"] = fmt.Sprint(pv)
		wit["stack"] = stack
		m.rec.violate("panic:"+strings.SplitN(op, " ", 2)[0]+":"+msg, fmt.Sprintf("%s panicked: %v", op, pv), wit)
		return false
	}
	return true
}

// lineInfo describes an expected line for a witness.
func c20LineInfo(l c20Line) map[string]any {
	return map[string]any{"file": l.file, "index_in_file": l.idx, "offset": l.off, "length": len(l.text),
		"timestamp_unix_nano": l.ts, "text": c20Clip(l.text)}
}

// locus names where in the file an expected line lies, for violation keys.
func (m *c20Mon) locus(exp []c20Line, i int) string {
	if i >= len(exp) {
		return "past-oldest-line"
	}
	l := exp[i]
	if i > 0 && exp[i-1].file != l.file {
		return "at-file-boundary"
	}
	f := m.c.files[l.file]
	if f.size-l.off > c20Window {
		return "beyond-first-window"
	}
	return "within-first-window"
}

// compare checks lines read (newest first) against exp (newest first).  If
// wantEOF, the read after the last expected line must have been io.EOF, which
// the caller passes as lastErr.  It returns false after recording a violation.
func (m *c20Mon) compare(keyPrefix, what string, got []string, lastErr error, exp []c20Line, full bool, wit map[string]any) bool {
	n := len(got)
	if len(exp) < n {
		n = len(exp)
	}
	bad := -1
	kind := ""
	for i := 0; i < n; i++ {
		if got[i] == exp[i].text {
			continue
		}
		bad = i
		g, w := got[i], exp[i].text
		switch {
		case g == "":
			kind = "empty-line"
		case strings.Contains(g, "\n"):
			kind = "several-lines-in-one"
		case strings.Contains(w, g):
			kind = "partial-line"
		default:
			kind = "foreign-text"
			for j := range exp {
				if exp[j].text == g {
					if j > i {
						kind = "skipped-lines"
					} else {
						kind = "repeated-line"
					}
					break
				}
			}
			if kind == "foreign-text" {
				for j := range m.c.all {
					if m.c.all[j].text == g {
						kind = "line-outside-expected-range"
						break
					}
				}
			}
		}
		break
	}
	if bad < 0 {
		switch {
		case len(got) < len(exp):
			bad = len(got)
			if lastErr != nil && errors.Is(lastErr, io.EOF) {
				kind = "early-eof"
			} else {
				kind = "read-error"
			}
		case full && len(got) > len(exp):
			bad = len(exp)
			kind = "line-after-oldest"
		case full && !errors.Is(lastErr, io.EOF):
			bad = len(exp)
			kind = "no-eof-after-oldest"
		default:
			return true
		}
	}
	w := map[string]any{"case": m.c.describe(), "operation": what, "position_in_read_sequence": bad,
		"lines_read": len(got), "lines_expected": len(exp), "last_error": c20ErrStr(lastErr)}
	for k, v := range wit {
		w[k] = v
	}
	if bad < len(got) {
		w["got"] = c20Clip(got[bad])
		w["got_length"] = len(got[bad])
	}
	if bad < len(exp) {
		w["expected"] = c20LineInfo(exp[bad])
	} else {
		w["expected"] = "io.EOF"
	}
	key := keyPrefix + ":" + kind
	if !m.noLocus {
		key += ":" + m.locus(exp, bad)
	}
	m.rec.violate(key,
		fmt.Sprintf("%s: read #%d differs from the generated file (%s)", what, bad, kind), w)
	return false
}

// reversed returns all[lo:hi] newest first.
func c20Reversed(all []c20Line) []c20Line {
	out := make([]c20Line, len(all))
	for i := range all {
		out[len(all)-1-i] = all[i]
	}
	return out
}

// c20Reader abstracts over qLogFile and qLogReader for sweeps.
type c20Reader interface {
	ReadNext() (string, error)
}

// readN reads up to n lines (n < 0: until an error, at most cap lines).
func c20ReadN(r c20Reader, n, limit int, after func()) (got []string, err error) {
	for n < 0 || len(got) < n {
		var line string
		line, err = r.ReadNext()
		if after != nil {
			after()
		}
		if err != nil {
			return got, err
		}
		got = append(got, line)
		if len(got) > limit {
			return got, nil
		}
	}
	return got, nil
}

type c20WinStart struct {
	file  int
	start int64
}

// sweepReader does SeekStart + ReadNext to the end through the multi-file
// reader and compares with the reversed case.
func (m *c20Mon) sweepReader(r *qLogReader, label string, instrument bool) (wins []c20WinStart) {
	exp := c20Reversed(m.c.all)
	var got []string
	var err, serr error
	lastStart := map[int]int64{}
	var after func()
	if instrument {
		after = func() {
			cf := r.currentFile
			if cf < 0 || cf >= len(r.qFiles) {
				return
			}
			q := r.qFiles[cf]
			if q == nil || q.buffer == nil {
				return
			}
			if prev, ok := lastStart[cf]; !ok || prev != q.bufferStart {
				lastStart[cf] = q.bufferStart
				wins = append(wins, c20WinStart{file: cf, start: q.bufferStart})
			}
		}
	}
	op := "sweep(reader) " + label
	if !m.guard(op, map[string]any{}, func() {
		serr = r.SeekStart()
		if serr != nil {
			return
		}
		got, err = c20ReadN(r, -1, len(exp)+1, after)
	}) {
		return nil
	}
	m.eval(op)
	m.rec.events["reader_sweeps"]++
	if serr != nil {
		m.rec.violate("sweep-reader:seek-start-error", "SeekStart failed: "+serr.Error(), map[string]any{"case": m.c.describe()})
		return nil
	}
	m.rec.events["lines_read_in_sweeps"] += len(got)
	m.compare("sweep-reader", op, got, err, exp, true, nil)
	return wins
}

// sweepFile does the same through one qLogFile.
func (m *c20Mon) sweepFile(q *qLogFile, fi int, label string) {
	exp := c20Reversed(m.c.files[fi].lines)
	var got []string
	var err, serr error
	op := "sweep(file) " + label
	if !m.guard(op, map[string]any{"file": fi}, func() {
		_, serr = q.SeekStart()
		if serr != nil {
			return
		}
		got, err = c20ReadN(q, -1, len(exp)+1, nil)
	}) {
		return
	}
	m.eval(fmt.Sprintf("%s f%d", op, fi))
	m.rec.events["file_sweeps"]++
	if serr != nil {
		m.rec.violate("sweep-file:seek-start-error", "SeekStart failed: "+serr.Error(), map[string]any{"case": m.c.describe(), "file": fi})
		return
	}
	m.rec.events["lines_read_in_sweeps"] += len(got)
	m.compare("sweep-file", op, got, err, exp, true, map[string]any{"file": fi})
}

// posClass names the place of a line in its file.
func c20PosClass(f *c20File, idx int) string {
	switch {
	case idx == 0 && len(f.lines) == 1:
		return "only-line"
	case idx == 0:
		return "first-line"
	case idx == len(f.lines)-1:
		return "last-line"
	default:
		return "inner-line"
	}
}

// readsAfterSeek chooses how many lines are read after a successful seek.
func (m *c20Mon) readsAfterSeek() int {
	switch m.rng.Intn(12) {
	case 0:
		return 3 + m.rng.Intn(40)
	case 1:
		return 100 + m.rng.Intn(200) // crosses a 1.6 MB window when lines are long
	default:
		return 2
	}
}

// filePresent seeks a present timestamp in one file.
func (m *c20Mon) filePresent(q *qLogFile, fi, idx int) {
	f := m.c.files[fi]
	l := f.lines[idx]
	nread := m.readsAfterSeek()
	var err, rerr error
	var got []string
	var depth int
	op := "seek-present(file)"
	wit := map[string]any{"file": fi, "target": c20LineInfo(l)}
	if !m.guard(op, wit, func() {
		_, depth, err = q.seekTS(m.ctx, slogutil.NewDiscardLogger(), l.ts)
		if err == nil {
			got, rerr = c20ReadN(q, nread, nread+1, nil)
		}
	}) {
		return
	}
	m.eval(fmt.Sprintf("fp|%d|%d", fi, idx))
	pc := c20PosClass(f, idx)
	m.rec.events["file_seek_present:"+pc]++
	m.rec.events["probe_reads(file-level seeks)"] += depth + 1
	if depth > m.rec.maxDepth {
		m.rec.maxDepth = depth
	}
	if err != nil {
		wit["case"] = m.c.describe()
		wit["error"] = c20ErrStr(err)
		wit["depth"] = depth
		m.rec.violate("file-seek-present:"+pc+":"+c20ErrClass(err),
			fmt.Sprintf("qLogFile.seekTS to the timestamp of a stored entry failed: %v", err), wit)
		return
	}
	// Expected: the line, then its predecessors down to the first line.
	lo := idx + 1 - nread
	if lo < 0 {
		lo = 0
	}
	exp := c20Reversed(f.lines[lo : idx+1])
	full := lo == 0 && len(exp) < nread
	if len(got) > 0 && len(exp) > 0 && got[0] != exp[0].text {
		wit["case"] = m.c.describe()
		wit["got"] = c20Clip(got[0])
		wit["depth"] = depth
		m.rec.violate("file-seek-present:"+pc+":wrong-line",
			"after a successful qLogFile.seekTS the next ReadNext did not return the entry with that timestamp", wit)
		return
	}
	if len(got) >= len(exp) && !full {
		got = got[:len(exp)]
	}
	m.compare("file-seek-present:"+pc+":reads-after-seek", op+" then ReadNext", got, rerr, exp, full, wit)
	if len(exp) > 2 {
		m.rec.events["lines_read_after_seeks"] += len(exp)
	}
}

// absent target classes.
type c20Absent struct {
	ts    int64
	class string // before-first | after-last | between-neighbours | between-files | empty-file
	// older is the number of lines (of the scope) with a smaller timestamp.
	older int
}

// fileAbsent seeks an absent timestamp in one file.
func (m *c20Mon) fileAbsent(q *qLogFile, fi int, a c20Absent) {
	f := m.c.files[fi]
	var err error
	var depth int
	op := "seek-absent(file)"
	wit := map[string]any{"file": fi, "target_unix_nano": a.ts, "target_class": a.class, "lines_older_than_target": a.older}
	if !m.guard(op, wit, func() {
		_, depth, err = q.seekTS(m.ctx, slogutil.NewDiscardLogger(), a.ts)
	}) {
		return
	}
	m.eval(fmt.Sprintf("fa|%d|%d", fi, a.ts))
	ec := c20ErrClass(err)
	m.rec.events["file_seek_absent:"+a.class+"->"+ec]++
	m.rec.events["probe_reads(file-level seeks)"] += depth + 1
	if depth > m.rec.maxDepth {
		m.rec.maxDepth = depth
	}
	wit["error"] = c20ErrStr(err)
	wit["depth"] = depth
	switch {
	case err == nil:
		wit["case"] = m.c.describe()
		m.rec.violate("file-seek-absent:"+a.class+":success",
			"qLogFile.seekTS to a timestamp that no entry has reported success", wit)
	case !c20IsTSClass(ec):
		wit["case"] = m.c.describe()
		m.rec.violate("file-seek-absent:"+a.class+":unclassified-error:"+ec,
			"qLogFile.seekTS to an absent timestamp reported neither not-found nor too-early nor too-late: "+err.Error(), wit)
	default:
		natural := map[string]string{"before-first": "too-early", "after-last": "too-late", "between-neighbours": "not-found"}[a.class]
		if natural != "" && natural != ec {
			m.rec.unspec["file-level error class differs from the obvious one ("+a.class+" reported as "+ec+")"]++
		}
	}
	// The failed seek must not disturb later reads: newest lines again.
	if m.rng.Intn(3) == 0 && !m.dead {
		n := 2
		if len(f.lines) < n {
			n = len(f.lines)
		}
		exp := c20Reversed(f.lines[len(f.lines)-n:])
		var got []string
		var rerr, serr error
		if !m.guard("sweep-prefix(file) after absent seek", wit, func() {
			if _, serr = q.SeekStart(); serr == nil {
				got, rerr = c20ReadN(q, 2, 3, nil)
			}
		}) {
			return
		}
		if serr != nil {
			m.rec.violate("sweep-file:seek-start-error", serr.Error(), wit)
			return
		}
		m.compare("file-reads-after-absent-seek", "SeekStart+ReadNext after a failed seek", got, rerr, exp, n < 2, wit)
	}
}

// readerPresent seeks a present timestamp through the multi-file reader.
func (m *c20Mon) readerPresent(r *qLogReader, gi int) {
	l := m.c.all[gi]
	f := m.c.files[l.file]
	nread := m.readsAfterSeek()
	var err, rerr error
	var got []string
	op := "seek-present(reader)"
	where := "newest-file"
	if l.file < len(m.c.files)-1 {
		where = "older-file"
		if len(m.c.files[len(m.c.files)-1].lines) == 0 {
			where = "older-file-below-empty-file"
		}
	}
	pc := c20PosClass(f, l.idx)
	wit := map[string]any{"target": c20LineInfo(l)}
	if !m.guard(op, wit, func() {
		err = r.seekTS(m.ctx, l.ts)
		if err == nil {
			got, rerr = c20ReadN(r, nread, nread+1, nil)
		}
	}) {
		return
	}
	m.eval(fmt.Sprintf("rp|%d", gi))
	m.rec.events["reader_seek_present:"+where]++
	if err != nil {
		wit["case"] = m.c.describe()
		wit["error"] = c20ErrStr(err)
		key := "reader-seek-present:" + where + ":" + pc + ":" + c20ErrClass(err)
		if where == "older-file-below-empty-file" {
			key = "reader-seek-present:" + where + ":" + c20ErrClass(err)
		}
		m.rec.violate(key,
			fmt.Sprintf("qLogReader.seekTS to the timestamp of a stored entry failed: %v", err), wit)
		return
	}
	lo := gi + 1 - nread
	if lo < 0 {
		lo = 0
	}
	exp := c20Reversed(m.c.all[lo : gi+1])
	full := lo == 0 && len(exp) < nread
	if len(got) > 0 && got[0] != exp[0].text {
		wit["case"] = m.c.describe()
		wit["got"] = c20Clip(got[0])
		m.rec.violate("reader-seek-present:"+where+":"+pc+":wrong-line",
			"after a successful qLogReader.seekTS the next ReadNext did not return the entry with that timestamp", wit)
		return
	}
	if len(got) >= len(exp) && !full {
		got = got[:len(exp)]
	}
	if len(exp) > 1 && exp[0].file != exp[len(exp)-1].file {
		m.rec.events["reads_after_seek_crossing_the_file_boundary"]++
	}
	m.compare("reader-seek-present:"+where+":reads-after-seek", op+" then ReadNext", got, rerr, exp, full, wit)
}

// readerAbsent seeks an absent timestamp through the multi-file reader.
func (m *c20Mon) readerAbsent(r *qLogReader, a c20Absent) {
	var err, rerr error
	var got []string
	op := "seek-absent(reader)"
	class := a.class
	if m.c.hasEmptyFile() {
		class += "(file set contains an empty file)"
	}
	wit := map[string]any{"target_unix_nano": a.ts, "target_class": a.class, "lines_older_than_target": a.older}
	if !m.guard(op, wit, func() {
		err = r.seekTS(m.ctx, a.ts)
		if err == nil {
			got, rerr = c20ReadN(r, 2, 3, nil)
		}
	}) {
		return
	}
	m.eval(fmt.Sprintf("ra|%d", a.ts))
	ec := c20ErrClass(err)
	m.rec.events["reader_seek_absent:"+a.class+"->"+ec]++
	wit["error"] = c20ErrStr(err)
	switch {
	case err == nil && (a.class == "after-last" || a.class == "between-files"):
		// The reader turns "too late" of a file into a seek to the start and
		// reports success (pinned by the product's own TestQLogReader_Seek for
		// a timestamp after every entry).  The statement asks for an error;
		// success is tolerated here as long as the reader then stands where
		// the timestamp would be: the next reads return the entries older
		// than the target, newest of them first.
		m.rec.unspec["reader reports success for an absent timestamp later than a whole file ("+a.class+")"]++
		lo := a.older - 2
		if lo < 0 {
			lo = 0
		}
		exp := c20Reversed(m.c.all[lo:a.older])
		if len(got) > 0 && len(exp) > 0 && got[0] != exp[0].text {
			where := "elsewhere"
			for i := a.older; i < len(m.c.all); i++ {
				if m.c.all[i].text == got[0] {
					where = "on-an-entry-newer-than-the-target"
					break
				}
			}
			wit["case"] = m.c.describe()
			wit["got"] = c20Clip(got[0])
			wit["expected"] = c20LineInfo(exp[0])
			m.rec.violate("reader-seek-absent:"+class+":success-but-positioned-"+where,
				"qLogReader.seekTS to an absent timestamp reported success and the next ReadNext did not return the newest entry older than the target", wit)
			return
		}
		if !m.compare("reader-seek-absent:"+class+":success-but-wrong-reads",
			op+" returned nil, then ReadNext", got, rerr, exp, len(exp) < 2, wit) {
			return
		}
	case err == nil:
		wit["case"] = m.c.describe()
		if len(got) > 0 {
			wit["next_line_read"] = c20Clip(got[0])
		}
		m.rec.violate("reader-seek-absent:"+class+":success",
			"qLogReader.seekTS to a timestamp that no entry has reported success", wit)
	case !c20IsTSClass(ec):
		wit["case"] = m.c.describe()
		key := "reader-seek-absent:" + class + ":unclassified-error:" + ec
		if m.c.hasEmptyFile() {
			key = "reader-seek-absent:file-set-with-an-empty-file:unclassified-error:" + ec
		}
		m.rec.violate(key,
			"qLogReader.seekTS to an absent timestamp reported neither not-found nor too-early nor too-late: "+err.Error(), wit)
	}
	if m.rng.Intn(3) == 0 && !m.dead {
		n := 2
		if len(m.c.all) < n {
			n = len(m.c.all)
		}
		exp := c20Reversed(m.c.all[len(m.c.all)-n:])
		var serr error
		if !m.guard("sweep-prefix(reader) after absent seek", wit, func() {
			if serr = r.SeekStart(); serr == nil {
				got, rerr = c20ReadN(r, 2, 3, nil)
			}
		}) {
			return
		}
		if serr != nil {
			m.rec.violate("sweep-reader:seek-start-error", serr.Error(), wit)
			return
		}
		m.compare("reader-reads-after-absent-seek", "SeekStart+ReadNext after an absent-timestamp seek", got, rerr, exp, n < 2, wit)
	}
}

// absentTargets lists absent timestamps for lines (one file or the whole
// set); bounds are the indices (into lines) where a new file starts.
func c20AbsentTargets(rng *rand.Rand, lines []c20Line, fileStarts []int, near []int, budget int) []c20Absent {
	var out []c20Absent
	if len(lines) == 0 {
		base := time.Date(2024, 5, 5, 5, 5, 5, 0, time.UTC).UnixNano()
		return []c20Absent{{ts: base, class: "empty-file"}, {ts: base + rng.Int63n(1e15), class: "empty-file"}}
	}
	first, last := lines[0].ts, lines[len(lines)-1].ts
	out = append(out,
		c20Absent{ts: first - 1, class: "before-first", older: 0},
		c20Absent{ts: first - 2 - rng.Int63n(int64(400*24*time.Hour)), class: "before-first", older: 0},
		c20Absent{ts: last + 1, class: "after-last", older: len(lines)},
		c20Absent{ts: last + 2 + rng.Int63n(int64(400*24*time.Hour)), class: "after-last", older: len(lines)},
	)
	isStart := map[int]bool{}
	for _, s := range fileStarts {
		isStart[s] = true
	}
	between := func(i int) { // between lines[i-1] and lines[i]
		if i <= 0 || i >= len(lines) {
			return
		}
		a, b := lines[i-1].ts, lines[i].ts
		if b-a < 2 {
			return
		}
		class := "between-neighbours"
		if isStart[i] {
			class = "between-files"
		}
		var ts int64
		switch rng.Intn(3) {
		case 0:
			ts = a + 1
		case 1:
			ts = b - 1
		default:
			ts = a + (b-a)/2
		}
		out = append(out, c20Absent{ts: ts, class: class, older: i})
	}
	for _, s := range fileStarts {
		if s > 0 && s < len(lines) {
			// all three variants between the files
			a, b := lines[s-1].ts, lines[s].ts
			if b-a >= 2 {
				out = append(out, c20Absent{ts: a + 1, class: "between-files", older: s},
					c20Absent{ts: b - 1, class: "between-files", older: s},
					c20Absent{ts: a + (b-a)/2, class: "between-files", older: s})
			}
		}
	}
	between(1)
	between(len(lines) - 1)
	for _, i := range near {
		between(i)
		between(i + 1)
	}
	for len(out) < budget && len(lines) > 1 {
		before := len(out)
		between(1 + rng.Intn(len(lines)-1))
		if len(out) == before && rng.Intn(50) == 0 {
			break // dense timestamps: no room between neighbours
		}
	}
	if len(out) > budget+12 {
		out = out[:budget+12]
	}
	return out
}

// presentTargets picks indices into lines.
func c20PresentTargets(rng *rand.Rand, n int, must []int, budget int) []int {
	seen := map[int]bool{}
	var out []int
	add := func(i int) {
		if i >= 0 && i < n && !seen[i] {
			seen[i] = true
			out = append(out, i)
		}
	}
	if n <= budget {
		for i := 0; i < n; i++ {
			add(i)
		}
		return out
	}
	for _, i := range []int{0, 1, 2, n - 3, n - 2, n - 1} {
		add(i)
	}
	for _, i := range must {
		add(i - 1)
		add(i)
		add(i + 1)
	}
	for len(out) < budget {
		add(rng.Intn(n))
	}
	return out
}

// lineAt returns the index of the line of f that contains byte offset off.
func c20LineAt(f *c20File, off int64) int {
	i := sort.Search(len(f.lines), func(i int) bool { return f.lines[i].off > off })
	return i - 1
}

// runCase generates one case and monitors every operation on it.
func c20RunCase(rep *verifkit.Report, id int, kind, dir string, maxBytes, budget int) (rec *c20Rec) {
	rec = c20NewRec()
	rng := rep.Rand(fmt.Sprintf("case/%s/%d", kind, id))
	c, err := c20Build(rng, id, kind, dir, maxBytes)
	if err != nil {
		rec.inconcl = append(rec.inconcl, "generator failed: "+err.Error())
		return rec
	}
	defer c.remove()
	m := &c20Mon{c: c, rec: rec, rng: rng, ctx: context.Background(), canon: c.digest(), nt: c.nontrivial()}

	// Evidence about the generated input.
	rec.events["file_sets_generated"]++
	rec.classes[fmt.Sprintf("file_sets_of_%d_file(s)", len(c.files))]++
	for _, f := range c.files {
		rec.events["files_generated"]++
		rec.events["bytes_generated"] += int(f.size)
		rec.events["lines_generated"] += len(f.lines)
		rec.classes["file_profile:"+f.profile]++
		rec.classes["timestamp_distribution:"+strings.SplitN(f.tsdist, " (", 2)[0]]++
		if strings.Contains(f.tsdist, "1970") {
			rec.classes["files_whose_first_record_is_on_1970-01-01"]++
		}
		if len(f.idle) > 0 {
			rec.classes["files_with_idle_periods"]++
			rec.events["idle_periods_generated"] += len(f.idle)
			if f.size > 2*c20Entry {
				rec.events["files_with_idle_periods_larger_than_a_probe_read(32KiB)"]++
			}
			if f.size > c20Window {
				rec.events["files_with_idle_periods_larger_than_one_window"]++
			}
		}
		if f.size > c20Window {
			rec.events["files_larger_than_one_window"]++
		}
		if len(f.lines) == 0 {
			rec.classes["empty_files"]++
		}
		if len(f.lines) == 1 {
			rec.classes["single_line_files"]++
		}
		for _, l := range f.lens {
			rec.classes["lines_of_length_class:"+c20ClassNames[c20LenClass(l)]]++
			if l == c20MaxLen {
				rec.classes["lines_of_exactly_16383_bytes"]++
			}
		}
		// Lines that straddle the first probe of a seek (size/2) and the
		// probe window edges size/2 +- 16384.
		if len(f.lines) > 0 {
			p := f.size / 2
			for _, e := range []int64{p - c20Entry, p + c20Entry} {
				if e > 0 && e < f.size {
					if li := c20LineAt(f, e); li >= 0 && f.lines[li].off != e {
						rec.events["lines_cut_by_an_edge_of_the_first_probe_window"]++
					}
				}
			}
		}
	}
	if m.nt {
		rec.classes["nontrivial_file_sets"]++
	}
	if id < 3 {
		var fs []any
		for _, f := range c.files {
			s := map[string]any{"role": f.role, "profile": f.profile, "lines": len(f.lines), "bytes": f.size, "zone": f.zone}
			if len(f.lines) > 0 {
				s["first_line"] = c20Clip(f.lines[0].text)
			}
			if f.geom != nil {
				s["geometry"] = f.geom
			}
			fs = append(fs, s)
		}
		rec.sample = map[string]any{"case": fmt.Sprintf("%s#%d", kind, id), "files_oldest_first": fs}
	}

	var paths []string
	for _, f := range c.files {
		paths = append(paths, f.path)
	}

	// ---- the multi-file reader ------------------------------------------
	r, err := newQLogReader(m.ctx, slogutil.NewDiscardLogger(), paths)
	if err != nil {
		rec.violate("open-reader-error", "newQLogReader failed on generated files: "+err.Error(), map[string]any{"case": c.describe()})
		return rec
	}
	defer func() {
		if !m.rec.hung {
			_ = r.Close()
		}
	}()
	wins := m.sweepReader(r, "initial", true)
	// Where did the windows of the sweep start?
	var nearGlobal []int
	nearFile := map[int][]int{}
	perFile := map[int]int{}
	for _, w := range wins {
		perFile[w.file]++
		if w.start <= 0 {
			continue
		}
		f := c.files[w.file]
		li := c20LineAt(f, w.start)
		if li < 0 {
			continue
		}
		l := f.lines[li]
		switch {
		case l.off == w.start:
			rec.events["window_start:on-first-byte-of-a-line"]++
		case l.off+int64(len(l.text)) == w.start:
			rec.events["window_start:on-a-line-break"]++
		default:
			rec.events["window_start:inside-a-line(line straddles the window edge)"]++
		}
		nearFile[w.file] = append(nearFile[w.file], li)
		nearGlobal = append(nearGlobal, c.first[w.file]+li)
	}
	for _, n := range perFile {
		rec.events["window_loads_observed_in_instrumented_sweeps"] += n
		if n > 1 {
			rec.events["window_reloads_inside_a_file"] += n - 1
		}
	}

	if !m.dead {
		type op struct {
			present bool
			gi      int
			a       c20Absent
		}
		var ops []op
		for _, gi := range c20PresentTargets(rng, len(c.all), nearGlobal, budget) {
			ops = append(ops, op{present: true, gi: gi})
		}
		for fi, f := range c.files {
			for _, i := range f.timelineTargets() {
				ops = append(ops, op{present: true, gi: c.first[fi] + i})
				rec.events["reader_seek_present:chosen_by_the_timestamp_distribution"]++
			}
		}
		// File boundary lines are always seek targets.
		for fi := 1; fi < len(c.files); fi++ {
			for _, gi := range []int{c.first[fi] - 1, c.first[fi], c.first[fi] + 1} {
				if gi >= 0 && gi < len(c.all) {
					ops = append(ops, op{present: true, gi: gi})
				}
			}
		}
		var starts []int
		if len(c.files) == 2 && len(c.files[0].lines) > 0 && len(c.files[1].lines) > 0 {
			starts = []int{c.first[1]}
		}
		for _, a := range c20AbsentTargets(rng, c.all, starts, nearGlobal, budget) {
			if a.class == "empty-file" {
				a.class = "empty-file-set"
			}
			ops = append(ops, op{a: a})
		}
		rng.Shuffle(len(ops), func(i, j int) { ops[i], ops[j] = ops[j], ops[i] })
		for _, o := range ops {
			if m.dead {
				break
			}
			if o.present {
				m.readerPresent(r, o.gi)
			} else {
				m.readerAbsent(r, o.a)
			}
		}
	}
	if !m.dead {
		m.sweepReader(r, "after the seeks", false)
	}

	// ---- each file on its own -------------------------------------------
	for fi, f := range c.files {
		if m.dead {
			break
		}
		q, qerr := newQLogFile(f.path)
		if qerr != nil {
			rec.violate("open-file-error", qerr.Error(), map[string]any{"case": c.describe()})
			continue
		}
		m.sweepFile(q, fi, "initial")
		if !m.dead {
			type op struct {
				present bool
				idx     int
				a       c20Absent
			}
			var ops []op
			for _, i := range c20PresentTargets(rng, len(f.lines), nearFile[fi], budget) {
				ops = append(ops, op{present: true, idx: i})
			}
			for _, i := range f.timelineTargets() {
				ops = append(ops, op{present: true, idx: i})
				rec.events["file_seek_present:chosen_by_the_timestamp_distribution"]++
			}
			for _, a := range c20AbsentTargets(rng, f.lines, nil, nearFile[fi], budget) {
				ops = append(ops, op{a: a})
			}
			rng.Shuffle(len(ops), func(i, j int) { ops[i], ops[j] = ops[j], ops[i] })
			for _, o := range ops {
				if m.dead {
					break
				}
				if o.present {
					m.filePresent(q, fi, o.idx)
				} else {
					m.fileAbsent(q, fi, o.a)
				}
			}
		}
		if !m.dead {
			m.sweepFile(q, fi, "after the seeks")
		}
		if !m.rec.hung {
			_ = q.Close()
		}
	}

	// ---- reuse histories on fresh readers ---------------------------------
	if !m.dead {
		m.readerHistories(paths, verifkit.Pick(3, 4), verifkit.Pick(14, 20))
	}
	if !m.dead {
		m.fileHistories(verifkit.Pick(10, 14))
	}
	// Last, because they rename and replace the files.
	if !m.dead {
		nrot := verifkit.Pick(3, 5)
		if tot := rec.events["bytes_generated"]; tot > 1<<20 {
			nrot = verifkit.Pick(1, 2) // every history rewrites and re-reads the files
		}
		m.rotationHistories(nrot)
		if !m.dead {
			m.growthHistories(verifkit.Pick(1, 2), rec.events["bytes_generated"] > 1<<20)
		}
	}
	return rec
}

func TestVerifC20(t *testing.T) {
	rep := verifkit.New("C20", "files",
		"case = (generated file set of one or two query-log files, operation); an operation is a full backward sweep (SeekStart + ReadNext to io.EOF), "+
			"a seek to the timestamp of a stored line followed by reads, a seek to an absent timestamp followed by reads from the start, or one step of a reuse history "+
			"(SeekStart / seekTS present or absent / seekRecord / ReadNext x n on one reader, with the position carried over; after a seek that reported an error the reads must continue from the position before the seek or from the start); "+
			"every result is compared with the generated line list; "+
			"non-trivial = the file set contains a file larger than one 1.6 MB read window, or a file mixing at least three line-length classes, or two non-empty files; "+
			"distinct by (lengths and timestamps of all lines, level file/reader, operation, target)")
	defer func() {
		if err := rep.Write(); err != nil {
			t.Fatal(err)
		}
	}()
	rep.Assume("the files are not modified while they are read; timestamps are strictly increasing and every line ends with a line break, as the product writes them")

	dir := os.Getenv("VERIF_SCRATCH")
	if dir != "" {
		d, err := os.MkdirTemp(dir, "c20-")
		if err != nil {
			dir = ""
		} else {
			dir = d
			defer os.RemoveAll(d)
		}
	}
	if dir == "" {
		dir = t.TempDir()
	}

	type job struct {
		kind string
		id   int
	}
	var jobs []job
	nMain := verifkit.Pick(400, 4000)
	nSmall := verifkit.Pick(600, 8000)
	// Small cases first: the first witnesses stored per violation key are
	// then the smallest ones.
	for i := 0; i < nSmall; i++ {
		jobs = append(jobs, job{"small", i})
	}
	for i := 0; i < nMain; i++ {
		jobs = append(jobs, job{"main", i})
	}
	maxBytes := verifkit.Pick(4<<20, 10<<20)
	budget := verifkit.Pick(50, 100)

	recs := make([]*c20Rec, len(jobs))
	var next, hangs int64
	workers := runtime.GOMAXPROCS(0)
	if workers > 8 {
		workers = 8
	}
	if workers < 1 {
		workers = 1
	}
	var wg sync.WaitGroup
	for w := 0; w < workers; w++ {
		wg.Add(1)
		go func() {
			defer wg.Done()
			for {
				i := int(atomic.AddInt64(&next, 1)) - 1
				if i >= len(jobs) || atomic.LoadInt64(&hangs) >= 2 {
					return
				}
				rec := c20RunCase(rep, jobs[i].id, jobs[i].kind, dir, maxBytes, budget)
				if rec.hung {
					atomic.AddInt64(&hangs, 1)
				}
				recs[i] = rec
			}
		}()
	}
	wg.Wait()

	// Merge in case order.
	maxDepth := 0
	done := 0
	for _, rec := range recs {
		if rec == nil {
			continue
		}
		done++
		for i := 0; i < rec.evalsTrivial; i++ {
			rep.Eval(false, "")
		}
		for _, e := range rec.evals {
			rep.Eval(true, e)
		}
		for k, v := range rec.classes {
			rep.ClassN(k, v)
		}
		for k, v := range rec.events {
			rep.EventN(k, v)
		}
		for k, v := range rec.unspec {
			for i := 0; i < v; i++ {
				rep.Unspec(k)
			}
		}
		for _, v := range rec.viols {
			rep.Violate(v.Key, v.What, v.Witness)
		}
		for _, s := range rec.inconcl {
			rep.Inconcl(s)
		}
		if rec.sample != nil {
			rep.Sample(rec.sample)
		}
		if rec.maxDepth > maxDepth {
			maxDepth = rec.maxDepth
		}
	}
	rep.EventN("deepest_binary_search(iterations)", maxDepth)
	if done < len(jobs) && !rep.Violated() {
		rep.Inconcl(fmt.Sprintf("only %d of %d cases were run", done, len(jobs)))
	}

	// The run is only worth something if the interesting events happened.
	need := map[string]int{
		"window_reloads_inside_a_file":                                                                       20,
		"window_start:inside-a-line(line straddles the window edge)":                                         20,
		"reader_seek_present:older-file":                                                                     100,
		"reads_after_seek_crossing_the_file_boundary":                                                        10,
		"files_larger_than_one_window":                                                                       20,
		"lines_cut_by_an_edge_of_the_first_probe_window":                                                     50,
		"file_seek_present:inner-line":                                                                       1000,
		"file_seek_present:first-line":                                                                       50,
		"file_seek_present:last-line":                                                                        50,
		"history(reader):rotations(total)":                                                                   1500,
		"history(reader):rotation_with_two_non-empty_files:before-any-call":                                  20,
		"history(reader):rotation_with_two_non-empty_files:after-SeekStart":                                  20,
		"history(reader):rotation_with_two_non-empty_files:while-in-current-file":                            20,
		"history(reader):rotation_with_two_non-empty_files:at-the-file-boundary":                             20,
		"history(reader):rotation_with_two_non-empty_files:while-in-rotated-file":                            20,
		"history(reader):rotation_with_two_non-empty_files:after-a-seek-into-the-rotated-file":               20,
		"files_with_idle_periods_larger_than_a_probe_read(32KiB)":                                            20,
		"files_with_idle_periods_larger_than_one_window":                                                     3,
		"file_seek_present:chosen_by_the_timestamp_distribution":                                             2000,
		"history(reader):appends_between_calls":                                                              500,
		"history(file):appends_between_calls":                                                                500,
		"history(reader):append_before_the_first_positioning":                                                100,
		"history(file):append_before_the_first_positioning":                                                  100,
		"history(reader):reads_after_failed_seek(total)":                                                     1000,
		"history(file):reads_after_failed_seek(total)":                                                       500,
		"history(reader):reads_after_failed_seek_reaching_eof":                                               100,
		"history(reader):read_runs_crossing_the_file_boundary":                                               50,
		"history(reader):reads_after_failed_seek:before-first/target-in-before-everything/reader-in-current": 50,
		"history(reader):reads_after_failed_seek:before-first/target-in-before-everything/reader-in-rotated": 20,
		"history(reader):reads_after_failed_seek:between-neighbours/target-in-rotated/reader-in-current":     20,
		"history(reader):reads_after_failed_seek:between-neighbours/target-in-current/reader-in-rotated":     20,
		"history(reader):reads_after_failed_seek:between-neighbours/target-in-rotated/reader-in-rotated":     20,
		"history(reader):reads_after_failed_seek:between-neighbours/target-in-current/reader-in-current":     20,
	}
	if !rep.Violated() {
		for k, n := range need {
			if n > 0 && rep.Events[k] < n {
				rep.Inconcl(fmt.Sprintf("too few events %q: %d < %d", k, rep.Events[k], n))
			}
		}
		abs := 0
		bf := 0
		for k, v := range rep.Events {
			if strings.HasPrefix(k, "file_seek_absent:") || strings.HasPrefix(k, "reader_seek_absent:") {
				abs += v
			}
			if strings.HasPrefix(k, "reader_seek_absent:between-files") {
				bf += v
			}
		}
		if abs < 1000 {
			rep.Inconcl(fmt.Sprintf("too few seeks to absent timestamps: %d", abs))
		}
		if bf < 20 {
			rep.Inconcl(fmt.Sprintf("too few seeks to timestamps between the two files: %d", bf))
		}
		if rep.Classes["empty_files"] < 3 || rep.Classes["single_line_files"] < 3 {
			rep.Inconcl("empty or single-line files were not generated")
		}
	}
}
