//go:build verif

package updater

import (
	"bytes"
	"fmt"
	"net/http"
	"net/http/httptest"
	"net/url"
	"os"
	"path"
	"path/filepath"
	"sync"
	"sync/atomic"
	"syscall"
	"testing"

	"github.com/AdguardTeam/AdGuardHome/internal/verifkit"
	"github.com/AdguardTeam/AdGuardHome/internal/version"
)

// TestVerifC14Updater runs the self-update (with a release server of this
// process) to its end and into failures at every stage, and watches the
// configuration file that lives next to the executable: whoever writes it must
// replace it atomically.  A file whose inode is the same but whose
// modification time has changed was written in place.
func TestVerifC14Updater(t *testing.T) {
	rep := verifkit.New("C14", "updater",
		"case = one run of the self-update against a release server of this process, succeeding or failing at one stage (version file missing, package missing, package corrupt, executable on another file system / a directory / missing); the configuration file next to the executable is observed before and after (inode, times, size, bytes) and read in a loop meanwhile: it must be complete at every read and, if it was written at all, replaced as a whole (new inode) - same inode with another modification time = written in place; non-trivial = the update failed after its backup step; distinct by (stage, round)")
	defer func() {
		if err := rep.Write(); err != nil {
			t.Fatal(err)
		}
	}()
	pkgData, err := os.ReadFile("testdata/AdGuardHome_unix.tar.gz")
	if err != nil {
		rep.Inconcl("the package's test archive is not there: " + err.Error())

		return
	}
	const jsonData = `{
  "version": "v0.103.0-beta.2",
  "announcement": "AdGuard Home v0.103.0-beta.2 is now available!",
  "announcement_url": "https://github.com/AdguardTeam/AdGuardHome/internal/releases",
  "selfupdate_min_version": "v0.0",
  "download_linux_amd64": "%s"
}`
	stages := []string{"ok", "exe-on-another-file-system", "exe-is-a-directory", "exe-missing", "package-missing", "package-corrupt", "package-truncated"}
	rounds := verifkit.Pick(6, 40)
	otherFS := ""
	for _, cand := range []string{os.TempDir(), "/var/tmp", "/dev/shm", "/run"} {
		var a, b syscall.Stat_t
		if syscall.Stat(cand, &a) == nil && syscall.Stat(os.Getenv("VERIF_SCRATCH"), &b) == nil && a.Dev != b.Dev {
			otherFS = cand

			break
		}
	}
	for r := 0; r < rounds; r++ {
		for _, stage := range stages {
			wd, merr := os.MkdirTemp(os.Getenv("VERIF_SCRATCH"), "c14upd-")
			if merr != nil {
				rep.Inconcl(merr.Error())

				return
			}
			exePath := filepath.Join(wd, "AdGuardHome")
			yamlPath := filepath.Join(wd, "AdGuardHome.yaml")
			conf := bytes.Repeat([]byte(fmt.Sprintf("# configuration of round %d stage %s\nschema_version: 29\n", r, stage)), 200+r*50)
			_ = os.WriteFile(yamlPath, conf, 0o644)
			_ = os.WriteFile(filepath.Join(wd, "README.md"), []byte("README.md"), 0o644)
			_ = os.WriteFile(filepath.Join(wd, "LICENSE.txt"), []byte("LICENSE.txt"), 0o644)
			var cleanup []string
			switch stage {
			case "exe-on-another-file-system":
				if otherFS == "" {
					rep.Class("stage-skipped:no-second-file-system")
					_ = os.RemoveAll(wd)

					continue
				}
				d, derr := os.MkdirTemp(otherFS, "verif-c14upd-")
				if derr != nil {
					_ = os.RemoveAll(wd)

					continue
				}
				cleanup = append(cleanup, d)
				exePath = filepath.Join(d, "AdGuardHome")
				_ = os.WriteFile(exePath, []byte("AdGuardHome"), 0o755)
			case "exe-is-a-directory":
				_ = os.MkdirAll(filepath.Join(exePath, "sub"), 0o755)
				_ = os.WriteFile(filepath.Join(exePath, "sub", "x"), []byte("x"), 0o644)
			case "exe-missing":
			default:
				_ = os.WriteFile(exePath, []byte("AdGuardHome"), 0o755)
			}
			mux := http.NewServeMux()
			mux.HandleFunc("/AdGuardHome.tar.gz", func(w http.ResponseWriter, _ *http.Request) {
				switch stage {
				case "package-missing":
					w.WriteHeader(http.StatusNotFound)
				case "package-corrupt":
					_, _ = w.Write(bytes.Repeat([]byte("not an archive "), 500))
				case "package-truncated":
					_, _ = w.Write(pkgData[:len(pkgData)/2])
				default:
					_, _ = w.Write(pkgData)
				}
			})
			versionPath := path.Join("/adguardhome", version.ChannelBeta, "version.json")
			mux.HandleFunc(versionPath, func(w http.ResponseWriter, rq *http.Request) {
				u, _ := url.JoinPath("http://", rq.Host, "/AdGuardHome.tar.gz")
				_, _ = fmt.Fprintf(w, jsonData, u)
			})
			srv := httptest.NewServer(mux)
			srvURL, _ := url.Parse(srv.URL)
			u := NewUpdater(&Config{
				Client: srv.Client(), GOARCH: "amd64", GOOS: "linux", Version: "v0.103.0",
				ConfName: yamlPath, WorkDir: wd, ExecPath: exePath, VersionCheckURL: srvURL.JoinPath(versionPath),
			})
			var before syscall.Stat_t
			_ = syscall.Stat(yamlPath, &before)
			// Reader: the file must be complete at every read.
			var stop atomic.Bool
			var wg sync.WaitGroup
			var reads, badReads atomic.Int64
			var badMu sync.Mutex
			badSample := ""
			wg.Add(1)
			go func() {
				defer wg.Done()
				for !stop.Load() {
					b, rerr := os.ReadFile(yamlPath)
					reads.Add(1)
					if rerr != nil || !bytes.Equal(b, conf) {
						badReads.Add(1)
						badMu.Lock()
						if badSample == "" {
							badSample = fmt.Sprintf("err=%v size=%d (complete: %d)", rerr, len(b), len(conf))
						}
						badMu.Unlock()
					}
				}
			}()
			_, verr := u.VersionInfo(false)
			var uerr error
			if verr == nil {
				// (firstRun: the update offered on the first-run page, before a
				// configuration exists; rarely.)
				uerr = u.Update(r%4 == 3)
			}
			stop.Store(true)
			wg.Wait()
			srv.Close()
			var after syscall.Stat_t
			aerr := syscall.Stat(yamlPath, &after)
			now, _ := os.ReadFile(yamlPath)
			failedLate := uerr != nil && (stage == "exe-on-another-file-system" || stage == "exe-is-a-directory" || stage == "exe-missing")
			rep.Eval(failedLate, fmt.Sprintf("%s|%d", stage, r))
			rep.Class("stage:" + stage)
			if uerr != nil || verr != nil {
				rep.Class("updates-failed")
			} else {
				rep.Class("updates-succeeded")
			}
			rep.EventN("reads-of-the-configuration-file-during-updates", int(reads.Load()))
			w := map[string]any{"stage": stage, "round": r, "update_error": fmt.Sprint(uerr), "version_error": fmt.Sprint(verr),
				"inode_before": before.Ino, "inode_after": after.Ino, "mtime_before": fmt.Sprintf("%d.%09d", before.Mtim.Sec, before.Mtim.Nsec), "mtime_after": fmt.Sprintf("%d.%09d", after.Mtim.Sec, after.Mtim.Nsec),
				"size_before": before.Size, "size_after": after.Size}
			switch {
			case aerr != nil:
				rep.Violate("dest-missing:config:after-self-update:"+stage, "the configuration file is gone after a self-update attempt", w)
			case !bytes.Equal(now, conf):
				rep.Violate("incomplete-file:config:after-self-update:"+stage, "the configuration file does not have its content any more after a self-update attempt", w)
			case after.Ino == before.Ino && (after.Mtim != before.Mtim || after.Size != before.Size):
				rep.Violate("in-place-write:config:by-self-update:"+stage, "the configuration file was written in place during a self-update attempt (same inode, another modification time): a crash or a full disk at that moment leaves it empty or partial", w)
			}
			if badReads.Load() > 0 {
				w["first_bad_read"] = badSample
				rep.Violate("incomplete-file:config:read-during-self-update:"+stage, fmt.Sprintf("%d of %d reads during the self-update did not return the complete configuration file", badReads.Load(), reads.Load()), w)
			}
			_ = os.RemoveAll(wd)
			for _, c := range cleanup {
				_ = os.RemoveAll(c)
			}
		}
	}
	if rep.ClassCount("updates-failed") < 10 || rep.ClassCount("updates-succeeded") < 3 {
		rep.Inconcl(fmt.Sprintf("too few updates: %d failed, %d succeeded", rep.ClassCount("updates-failed"), rep.ClassCount("updates-succeeded")))
	}
}
