//go:build verif

package configmigrate_test

import (
	"bytes"
	"fmt"
	"os"
	"path/filepath"
	"runtime"
	"strings"
	"sync"
	"testing"

	"github.com/AdguardTeam/AdGuardHome/internal/configmigrate"
	"github.com/AdguardTeam/AdGuardHome/internal/verifkit"
	"golang.org/x/crypto/bcrypt"
	yaml "gopkg.in/yaml.v3"
)

// Two further sections of the C13 monitor's part "migrate".
//
// Working directory: steps 1 and 2 remove <WorkingDir>/dnsfilter.txt and
// <WorkingDir>/Corefile (the only file-system accesses of the steps).  Schema
// 0/1/2 documents are migrated by a Migrator whose working directory holds
// those names in odd forms (regular file, empty / non-empty directory, symlink
// loop, dangling symlink, symlink to a non-empty directory) and the result is
// compared with the same document migrated in a clean directory: EITHER the
// upgrade fails with the input untouched OR the two results are equal.
//
// Credentials: schema <= 4 documents with auth_name / auth_pass; password
// values of 0, 1, 71, 72, 73, 100, 1000 bytes, multi-byte UTF-8 around the
// 72-byte limit of bcrypt, NUL bytes, and the hostile string pool.  EITHER
// the upgrade fails with the input untouched OR the result has a users entry
// with that name whose hash verifies the original password.

type c13EnvForm struct {
	name  string
	build func(path string) error
}

var c13EnvForms = []c13EnvForm{
	{"regular-file", func(p string) error { return os.WriteFile(p, []byte("x\n"), 0o644) }},
	{"empty-directory", func(p string) error { return os.Mkdir(p, 0o755) }},
	{"non-empty-directory", func(p string) error {
		if err := os.Mkdir(p, 0o755); err != nil {
			return err
		}
		return os.WriteFile(filepath.Join(p, "child"), []byte("x"), 0o644)
	}},
	{"symlink-loop", func(p string) error { return os.Symlink(filepath.Base(p), p) }},
	{"dangling-symlink", func(p string) error { return os.Symlink("no-such-target", p) }},
	{"symlink-to-non-empty-directory", func(p string) error {
		d := p + ".target"
		if err := os.Mkdir(d, 0o755); err != nil {
			return err
		}
		if err := os.WriteFile(filepath.Join(d, "child"), []byte("x"), 0o644); err != nil {
			return err
		}
		return os.Symlink(filepath.Base(d), p)
	}},
}

func c13EnvDecodeNorm(b []byte) map[string]any {
	var m map[string]any
	if yaml.Unmarshal(b, &m) != nil {
		return nil
	}
	c13NormaliseBcrypt(m)
	return m
}

func c13WorkingDirSection(t *testing.T, rep *verifkit.Report, seeds []c13Seed) {
	var docs []c13Seed
	for _, s := range seeds {
		switch s.Name {
		case "golden:v1/input.yml", "golden:v2/input.yml", "golden:v3/input.yml", "full@0", "full@1", "clients#0@0", "clients#0@1":
			root := c13DecodeSeed(s)
			if root == nil {
				continue
			}
			delete(root, "auth_pass") // no bcrypt here
			b, err := yaml.Marshal(root)
			if err != nil {
				continue
			}
			docs = append(docs, c13Seed{Name: s.Name, Body: b})
		}
	}
	names := []string{"dnsfilter.txt", "Corefile"}
	for _, d := range docs {
		clean := t.TempDir()
		ref := c13Run(configmigrate.New(&configmigrate.Config{WorkingDir: clean, DataDir: filepath.Join(clean, "data")}), d.Body, uint(c13Last))
		if ref.Panicked || ref.Err != nil {
			rep.Event("working_dir_reference_not_usable")
			continue
		}
		// The result names the data directory (filtering.safe_fs_patterns).
		refDoc := c13EnvDecodeNorm(bytes.ReplaceAll(ref.Body, []byte(clean), []byte("<WORKDIR>")))
		from := c13StatedVersion(c13DecodeSeed(d))
		for fi, form := range c13EnvForms {
			for ni := 0; ni <= len(names); ni++ {
				// ni == len(names): both names at once.
				which := names
				label := "both"
				if ni < len(names) {
					which = names[ni : ni+1]
					label = names[ni]
				}
				work := t.TempDir()
				okBuild := true
				for _, n := range which {
					if err := form.build(filepath.Join(work, n)); err != nil {
						okBuild = false
					}
				}
				if !okBuild {
					rep.Event("working_dir_form_not_buildable")
					continue
				}
				mig := configmigrate.New(&configmigrate.Config{WorkingDir: work, DataDir: filepath.Join(work, "data")})
				o := c13Run(mig, d.Body, uint(c13Last))
				rep.Eval(true, fmt.Sprintf("workdir|%s|%s|%s", form.name, label, d.Body))
				rep.Class("working-dir:" + form.name)
				rep.Event("working_dir_cases")
				_ = fi
				wit := map[string]any{"seed_document": d.Name, "stated_version": from, "working_directory": fmt.Sprintf("%s is a %s", label, form.name),
					"document": c13BodyText(d.Body), "error_returned": fmt.Sprint(o.Err)}
				cls := form.name + "-at-" + label
				switch {
				case o.Panicked:
					wit["stack"] = c13TrimStack(o.Stack)
					rep.Violate("panic:"+o.Step+":working-dir:"+cls, "Migrate panicked: "+o.PanicVal, wit)
				case o.Err != nil:
					rep.Event("working_dir_upgrade_failed")
					if o.Upgraded || !bytes.Equal(o.Body, d.Body) {
						rep.Violate("error-path:content-changed:working-dir:"+cls, "Migrate returned an error together with changed content", wit)
					}
				default:
					rep.Event("working_dir_results_compared_with_clean_directory")
					if diff := c13FirstDiff(refDoc, c13EnvDecodeNorm(bytes.ReplaceAll(o.Body, []byte(work), []byte("<WORKDIR>"))), ""); diff != "" {
						wit["result"] = c13BodyText(o.Body)
						wit["result_in_clean_directory"] = c13BodyText(ref.Body)
						rep.Violate("working-dir:"+cls+":result-differs-from-clean-directory:"+diff,
							fmt.Sprintf("with %s being a %s in the working directory the upgrade succeeds but its result differs from the upgrade in a clean directory; first difference at %s", label, form.name, diff), wit)
					}
				}
			}
		}
	}
	if rep.Events["working_dir_results_compared_with_clean_directory"] < 40 && !rep.Violated() {
		rep.Inconcl("fewer than 40 upgrades in an odd working directory were compared with the clean one")
	}
}

type c13Pass struct{ class, val string }

func c13Passwords(thorough bool) (ps []c13Pass) {
	for _, n := range []int{0, 1, 71, 72, 73, 100, 1000} {
		cl := "at-most-72-bytes"
		if n > 72 {
			cl = "longer-than-72-bytes"
		}
		ps = append(ps, c13Pass{cl, strings.Repeat("p", n)})
	}
	ps = append(ps,
		c13Pass{"multibyte-72-bytes", strings.Repeat("€", 24)},
		c13Pass{"multibyte-71-bytes", strings.Repeat("€", 23) + "ab"},
		c13Pass{"multibyte-over-72-bytes", strings.Repeat("€", 24) + "a"},
		c13Pass{"multibyte-over-72-bytes", strings.Repeat("é", 37)},
		c13Pass{"multibyte-72-bytes", strings.Repeat("é", 36)},
		c13Pass{"multibyte-over-72-bytes", strings.Repeat("😀", 19)},
		c13Pass{"nul", "a\x00b"}, c13Pass{"nul", "\x00"}, c13Pass{"nul", strings.Repeat("x", 70) + "\x00\x00\x00"},
	)
	for i, h := range c13Hostile {
		if thorough || (c13IsCoreHostile(h.val) && i%2 == 0) || h.class == "long" {
			ps = append(ps, c13Pass{"hostile-" + h.class, h.val})
		}
	}
	return ps
}

func c13CredentialsSection(t *testing.T, rep *verifkit.Report) {
	work := t.TempDir()
	mig := configmigrate.New(&configmigrate.Config{WorkingDir: work, DataDir: filepath.Join(work, "data")})
	type pcase struct {
		from       int
		name, pass c13Pass
		body       []byte
		viols      []c13Viol
		events     []string
	}
	var cases []*pcase
	names := []c13Pass{{"plain", "testuser"}, {"plain", "testuser"}, {"plain", "admin"}, {"hostile", " "}, {"hostile", "a b"}, {"hostile", "#x"}, {"hostile", "null"}}
	for i, p := range c13Passwords(verifkit.Thorough()) {
		froms := []int{i % 5}
		if verifkit.Thorough() {
			froms = []int{0, 1, 2, 3, 4}
		}
		for _, from := range froms {
			name := names[(i+from)%len(names)]
			doc := map[string]any{"schema_version": from, "bind_host": "127.0.0.1", "bind_port": 3000,
				"auth_name": name.val, "auth_pass": p.val, "language": "en"}
			sect := "dns"
			if from < 2 {
				sect = "coredns"
			}
			doc[sect] = map[string]any{"port": 53, "bind_host": "127.0.0.1"}
			b, err := yaml.Marshal(doc)
			if err != nil {
				continue
			}
			// What the file says is what counts (the encoder does not keep
			// every string, e.g. a lone line break, intact).
			var back map[string]any
			if yaml.Unmarshal(b, &back) != nil {
				continue
			}
			bn, okN := back["auth_name"].(string)
			bp, okP := back["auth_pass"].(string)
			if !okN || !okP {
				continue
			}
			if bn != name.val || bp != p.val {
				rep.Event("credentials_value_altered_by_the_encoder_file_value_used")
			}
			name.val, p.val = bn, bp
			cases = append(cases, &pcase{from: from, name: name, pass: p, body: b})
		}
	}
	var wg sync.WaitGroup
	next := make(chan *pcase)
	for w := 0; w < runtime.GOMAXPROCS(0); w++ {
		wg.Add(1)
		go func() {
			defer wg.Done()
			for c := range next {
				wit := map[string]any{"stated_version": c.from, "auth_name": c.name.val, "auth_pass_bytes": len(c.pass.val),
					"auth_pass_quoted": fmt.Sprintf("%.120q", c.pass.val), "document": c13BodyText(c.body)}
				viol := func(key, what string) { c.viols = append(c.viols, c13Viol{key, what, wit}) }
				o := c13Run(mig, c.body, uint(c13Last))
				switch {
				case o.Panicked:
					wit["stack"] = c13TrimStack(o.Stack)
					viol("panic:"+o.Step+":credentials:"+c.pass.class, "Migrate panicked: "+o.PanicVal)
				case o.Err != nil:
					wit["error_returned"] = o.Err.Error()
					c.events = append(c.events, "credentials_upgrade_failed_input_untouched_checked")
					if o.Upgraded || !bytes.Equal(o.Body, c.body) {
						viol("error-path:content-changed:credentials:"+c.pass.class, "Migrate returned an error together with changed content")
					}
				default:
					var res map[string]any
					if yaml.Unmarshal(o.Body, &res) != nil || res == nil {
						viol("success:result-not-yaml", "result does not decode")
						break
					}
					wit["result"] = c13BodyText(o.Body)
					users, _ := res["users"].([]any)
					found, verified := false, false
					for _, u := range users {
						um, _ := u.(map[string]any)
						if um == nil || um["name"] != c.name.val {
							continue
						}
						found = true
						if h, isStr := um["password"].(string); isStr && bcrypt.CompareHashAndPassword([]byte(h), []byte(c.pass.val)) == nil {
							verified = true
						}
					}
					switch {
					case !found:
						viol("credentials:lost:"+c.pass.class, fmt.Sprintf("the input has auth_name %q and a %d-byte auth_pass; the upgrade succeeds but the result has no users entry with that name", c.name.val, len(c.pass.val)))
					case !verified:
						viol("credentials:hash-does-not-verify:"+c.pass.class, "the users entry written by the upgrade does not verify the original password")
					default:
						c.events = append(c.events, "credentials_survived_and_verified")
					}
				}
			}
		}()
	}
	for _, c := range cases {
		next <- c
	}
	close(next)
	wg.Wait()
	for _, c := range cases {
		rep.Eval(true, "credentials|"+string(c.body))
		rep.Class("credentials:" + c.pass.class)
		rep.Event("credentials_cases")
		for _, e := range c.events {
			rep.Event(e)
		}
		for _, v := range c.viols {
			rep.Violate(v.key, v.what, v.witness)
		}
	}
	if rep.Events["credentials_survived_and_verified"] < 15 && !rep.Violated() {
		rep.Inconcl("fewer than 15 credentials were seen to survive the upgrade")
	}
	if rep.Events["credentials_upgrade_failed_input_untouched_checked"] < 5 && !rep.Violated() {
		rep.Inconcl("fewer than 5 upgrades with an unhashable password failed cleanly")
	}
}

// c13RepeatSection upgrades the same document four times in one process (and
// once more through a split at the last step) and requires identical bytes:
// the result of an upgrade is a function of the document.  Lists are compared
// in order.  Documents: the multi-filter, multi-client and full synthetic
// documents and the goldens that need no salted hash.
func c13RepeatSection(t *testing.T, rep *verifkit.Report, seeds []c13Seed) {
	work := t.TempDir()
	mig := configmigrate.New(&configmigrate.Config{WorkingDir: work, DataDir: filepath.Join(work, "data")})
	for _, s := range seeds {
		if s.Raw || strings.HasPrefix(s.Name, "min:") {
			continue
		}
		root := c13DecodeSeed(s)
		from := c13StatedVersion(root)
		if root == nil || from < 0 || from >= c13Last || c13WouldHash(from, root) {
			continue
		}
		if !verifkit.Thorough() && !strings.HasPrefix(s.Name, "filters#") && from%3 != 0 {
			continue
		}
		first := c13Run(mig, s.Body, uint(c13Last))
		if first.Panicked || first.Err != nil {
			continue
		}
		rep.Eval(true, "repeat|"+string(s.Body))
		rep.Class("repeat")
		wit := map[string]any{"seed_document": s.Name, "stated_version": from, "document": c13BodyText(s.Body), "first_result": c13BodyText(first.Body)}
		same := true
		for i := 2; i <= 5 && same; i++ {
			var o c13Out
			mode := fmt.Sprintf("upgrade no. %d", i)
			if i < 5 || from >= c13Last-1 {
				o = c13Run(mig, s.Body, uint(c13Last))
			} else {
				// Through a split right before the last step.
				mode = fmt.Sprintf("split run at %d", c13Last-1)
				a := c13Run(mig, s.Body, uint(c13Last-1))
				if a.Panicked || a.Err != nil {
					break
				}
				o = c13Run(mig, a.Body, uint(c13Last))
			}
			rep.Event("repeated_upgrades_compared")
			if o.Panicked || o.Err != nil || !bytes.Equal(o.Body, first.Body) {
				same = false
				var a, b map[string]any
				_ = yaml.Unmarshal(first.Body, &a)
				_ = yaml.Unmarshal(o.Body, &b)
				d := c13FirstDiff(a, b, "")
				if d == "" {
					d = "<outcome-or-bytes-only>"
				}
				wit["differing_result"] = c13BodyText(o.Body)
				wit["differing_run"] = mode
				wit["error"] = fmt.Sprint(o.Err, o.PanicVal)
				rep.Violate("repeat:identical-upgrades-differ:"+d,
					fmt.Sprintf("the same document upgraded again in the same process (%s) gives a different result than the first upgrade; first difference at %s", mode, d), wit)
			}
		}
		if same {
			rep.Event("documents_with_identical_repeated_upgrades")
		}
	}
	if rep.Events["documents_with_identical_repeated_upgrades"] < 80 && !rep.Violated() {
		rep.Inconcl("fewer than 80 documents were upgraded repeatedly")
	}
}
