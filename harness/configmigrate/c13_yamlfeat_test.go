//go:build verif

package configmigrate_test

import (
	"bytes"
	"fmt"
	"strings"

	yaml "gopkg.in/yaml.v3"
)

// YAML file-format features (phase A4 of the C13 monitor).
//
// The synthetic document of every historical version is rendered in plain
// block style and then changed at the TEXT level, so that features that do not
// survive a decode/encode round trip reach Migrate: keys that are not strings
// (integer, boolean, null, float, sequence and mapping keys) inside every
// object, anchors / aliases / merge keys, explicit tags, duplicate keys, a
// second document, BOM, CRLF, tabs, comments, directives, flow style and deep
// nesting.
//
// Besides the usual oracle every such case has a reference document that
// means the same to a YAML reader but lacks the feature: the same text before
// the odd key was inserted, or the decoded document serialised again.  If the
// featured document upgrades successfully, its result must equal the result of
// the reference (odd keys removed first): a success in which the steps' edits
// are missing shows as a difference.  A clean failure is equally fine.

type c13Point struct {
	line   int    // index of the line after which to insert
	indent int    // indentation of the inserted line
	where  string // generalised path of the object
}

func c13Indent(l string) int { return len(l) - len(strings.TrimLeft(l, " ")) }

// c13InjectionPoints finds every block mapping of a block-style document
// (yaml.Marshal output): mappings that are values of a key, and mappings that
// are items of a list.
func c13InjectionPoints(lines []string) (pts []c13Point) {
	type frame struct {
		indent int
		name   string
	}
	var stack []frame
	path := func() string {
		var ps []string
		for _, f := range stack {
			ps = append(ps, f.name)
		}
		return strings.Join(ps, ".")
	}
	for i, l := range lines {
		if strings.TrimSpace(l) == "" {
			continue
		}
		ind := c13Indent(l)
		body := l[ind:]
		isItem := strings.HasPrefix(body, "- ")
		keyInd := ind
		if isItem {
			keyInd = ind + 2
			body = body[2:]
		}
		for len(stack) > 0 && stack[len(stack)-1].indent >= ind {
			stack = stack[:len(stack)-1]
		}
		next := ""
		if i+1 < len(lines) {
			next = lines[i+1]
		}
		if isItem {
			// An item that is a mapping: insert a sibling key at its end.
			if strings.HasSuffix(body, ":") || strings.Contains(body, ": ") {
				j := i + 1
				for j < len(lines) && (strings.TrimSpace(lines[j]) == "" || c13Indent(lines[j]) > ind) {
					j++
				}
				pts = append(pts, c13Point{j - 1, keyInd, strings.TrimSuffix(path(), ".") + "[]"})
			}
			if strings.HasSuffix(body, ":") {
				stack = append(stack, frame{ind, "[]." + strings.TrimSuffix(body, ":")})
			}
			continue
		}
		if strings.HasSuffix(body, ":") && next != "" && c13Indent(next) > keyInd {
			name := strings.TrimSuffix(body, ":")
			stack = append(stack, frame{ind, name})
			if !strings.HasPrefix(next[c13Indent(next):], "- ") {
				pts = append(pts, c13Point{i, c13Indent(next), path()})
			}
		}
	}
	return pts
}

func c13InsertAfter(lines []string, at int, ins ...string) string {
	out := append([]string{}, lines[:at+1]...)
	out = append(out, ins...)
	out = append(out, lines[at+1:]...)
	return strings.Join(out, "\n")
}

// c13OddKeys are mapping entries whose key is not a string (type, lines; %s is
// the indentation).
var c13OddKeys = []struct {
	name  string
	lines []string
}{
	{"int-key", []string{"%s53: note"}},
	{"bool-key", []string{"%strue: x"}},
	{"null-key", []string{"%s~: y"}},
	{"float-key", []string{"%s1.5: z"}},
	{"sequence-key", []string{"%s? [a, b]", "%s: c"}},
	{"mapping-key", []string{"%s? {a: b}", "%s: c"}},
	{"int-key-nested-value", []string{"%s7:", "%s    inner: [1, 2]"}},
}

// c13StripOddKeys removes every entry with a non-string key and turns the
// mapping into the ordinary kind.
func c13StripOddKeys(v any) any {
	switch c := v.(type) {
	case map[any]any:
		m := map[string]any{}
		for k, e := range c {
			if ks, ok := k.(string); ok {
				m[ks] = c13StripOddKeys(e)
			}
		}
		return m
	case map[string]any:
		for k, e := range c {
			c[k] = c13StripOddKeys(e)
		}
		return c
	case []any:
		for i, e := range c {
			c[i] = c13StripOddKeys(e)
		}
		return c
	default:
		return v
	}
}

func c13FlowStyle(n *yaml.Node) {
	if n.Kind == yaml.MappingNode || n.Kind == yaml.SequenceNode {
		n.Style = yaml.FlowStyle
	}
	for _, c := range n.Content {
		c13FlowStyle(c)
	}
}

// c13FeatureCases builds the phase-A4 cases for one synthetic document.
func c13FeatureCases(name string, tree map[string]any, from int, thorough bool) (cases []*c13Case) {
	if from < 5 {
		delete(tree, "auth_pass") // no bcrypt in this phase
	}
	plain, err := yaml.Marshal(tree)
	if err != nil {
		return nil
	}
	text := strings.TrimSuffix(string(plain), "\n")
	lines := strings.Split(text, "\n")
	add := func(feature, where, body string, ref []byte, strip bool) {
		cases = append(cases, &c13Case{Seed: name, Body: []byte(body), Feature: feature, FeatureWhere: where, RefBody: ref, StripOdd: strip})
	}
	// Reference by decoding and encoding again (nil if the text does not decode).
	reencode := func(body string) []byte {
		var m map[string]any
		if yaml.Unmarshal([]byte(body), &m) != nil || m == nil {
			return nil
		}
		b, merr := yaml.Marshal(m)
		if merr != nil {
			return nil
		}
		return b
	}

	// 1. Keys that are not strings, in every object.
	pts := c13InjectionPoints(lines)
	for pi, pt := range pts {
		for oi, odd := range c13OddKeys {
			top := !strings.ContainsAny(pt.where, ".[")
			isDNS := top && (pt.where == "dns" || pt.where == "coredns")
			if !thorough && !(isDNS && oi < 4) && (oi != (pi+from)%len(c13OddKeys) || (pi+from)%2 != 0) {
				continue
			}
			var ins []string
			for _, l := range odd.lines {
				ins = append(ins, fmt.Sprintf(l, strings.Repeat(" ", pt.indent)))
			}
			add("non-string-key:"+odd.name, pt.where, c13InsertAfter(lines, pt.line, ins...)+"\n", plain, true)
		}
	}

	// 2. Other features, around the objects the steps look up.
	sect := "dns"
	if _, has := tree["dns"]; !has {
		sect = "coredns"
	}
	var sp *c13Point
	var cp *c13Point
	for i := range pts {
		if pts[i].where == sect {
			sp = &pts[i]
		}
		if cp == nil && (pts[i].where == "clients[]" || pts[i].where == "clients.persistent[]") {
			cp = &pts[i]
		}
	}
	if sp == nil {
		return cases
	}
	sind := strings.Repeat(" ", sp.indent)
	nGeneric := 0
	generic := func(feature, body string) {
		nGeneric++
		if !thorough && (nGeneric+from)%2 != 0 {
			return // quick: every feature at every second version
		}
		add(feature, sect, body, reencode(body), false)
	}

	hdr := lines[sp.line]
	anch := append([]string{}, lines...)
	anch[sp.line] = hdr + " &vd"
	generic("anchor-and-alias", strings.Join(anch, "\n")+"\nverif_copy: *vd\n")
	generic("alias-inside-object", "verif_src: &vs [1, two]\n"+c13InsertAfter(lines, sp.line, sind+"verif_alias: *vs")+"\n")
	generic("merge-key", "verif_base: &vb\n    verif_merged: 1\n    ratelimit: 99\n"+c13InsertAfter(lines, sp.line, sind+"<<: *vb")+"\n")
	if cp != nil {
		generic("merge-key-in-list-item", "verif_base: &vb\n    verif_merged: 1\n"+c13InsertAfter(lines, cp.line, strings.Repeat(" ", cp.indent)+"<<: *vb")+"\n")
	}
	generic("explicit-tags", strings.Replace(c13InsertAfter(lines, sp.line, sind+"!!str 53: !!str tagged", sind+"verif_bin: !!binary aGVsbG8=")+"\n",
		fmt.Sprintf("schema_version: %d", from), fmt.Sprintf("schema_version: !!int %d", from), 1))
	generic("tagged-object", strings.Replace(text+"\n", hdr+"\n", hdr+" !!map\n", 1))
	dup := strings.TrimSpace(lines[sp.line+1])
	if strings.Contains(dup, ": ") {
		generic("duplicate-key", c13InsertAfter(lines, sp.line+1, sind+dup)+"\n")
	}
	generic("duplicate-object", text+"\n"+hdr+"\n"+sind+"port: 5353\n")
	generic("second-document", text+"\n---\nschema_version: 0\ndns: {}\n")
	generic("document-markers", "---\n"+text+"\n...\n")
	generic("yaml-directive", "%YAML 1.2\n---\n"+text+"\n")
	generic("bom", "\xef\xbb\xbf"+text+"\n")
	generic("crlf", strings.ReplaceAll(text+"\n", "\n", "\r\n"))
	generic("tab-indentation", c13InsertAfter(lines, sp.line, "\tverif_tab: 1")+"\n")
	generic("trailing-tabs-and-comments", "# head\n"+c13InsertAfter(lines, sp.line, sind+"verif_c: 1\t# comment", "", sind+"# only a comment")+"\n")
	generic("deep-nesting", c13InsertAfter(lines, sp.line, sind+"verif_deep: "+strings.Repeat("{a: ", 60)+"1"+strings.Repeat("}", 60))+"\n")
	var node yaml.Node
	if node.Encode(tree) == nil {
		c13FlowStyle(&node)
		if fb, ferr := yaml.Marshal(&node); ferr == nil {
			generic("flow-style", string(fb))
		}
	}
	var buf bytes.Buffer
	enc := yaml.NewEncoder(&buf)
	enc.SetIndent(9)
	if enc.Encode(tree) == nil {
		generic("wide-indent", buf.String())
	}
	return cases
}
